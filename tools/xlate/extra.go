package main

func extraFacts(repo string, fc *Facts) error { return nil }
