package main

// Call-site inventories (C08, C09, C10, C13): every read/seek on the source, every write on the
// sink with whether its error reaches the caller, every buffpool.Get with its deferred Put, every
// package-level variable of the runtime and of the generated package (template).

import (
	"fmt"
	"go/ast"
	"go/parser"
	"go/token"
	"path/filepath"
	"sort"
	"strings"
)

type fileSrc struct {
	rel  string
	fset *token.FileSet
	f    *ast.File
}

func loadGo(repo, rel string) (*fileSrc, error) {
	fset, f, err := parseFile(filepath.Join(repo, rel))
	if err != nil {
		return nil, err
	}
	return &fileSrc{rel, fset, f}, nil
}

// the template is Go source inside a string with {{...}} actions; neutralise the actions so that
// go/parser accepts it
func loadTemplate(repo, rel, varName string) (*fileSrc, error) {
	_, f, err := parseFile(filepath.Join(repo, rel))
	if err != nil {
		return nil, err
	}
	var body string
	ast.Inspect(f, func(n ast.Node) bool {
		vs, ok := n.(*ast.ValueSpec)
		if !ok || len(vs.Names) != 1 || vs.Names[0].Name != varName || len(vs.Values) != 1 {
			return true
		}
		if lit, ok := vs.Values[0].(*ast.BasicLit); ok && lit.Kind == token.STRING {
			body = strings.Trim(lit.Value, "`")
		}
		return true
	})
	if body == "" {
		return nil, fmt.Errorf("%s: template variable %s not found", rel, varName)
	}
	var b strings.Builder
	for {
		i := strings.Index(body, "{{")
		if i < 0 {
			b.WriteString(body)
			break
		}
		j := strings.Index(body[i:], "}}")
		if j < 0 {
			return nil, fmt.Errorf("%s: unbalanced template action", rel)
		}
		b.WriteString(body[:i])
		act := body[i : i+j+2]
		// keep identifiers valid: {{.X}} -> TPL ; line-level actions (range/end/define/template) -> nothing
		t := strings.TrimSpace(strings.Trim(act, "{}"))
		if strings.HasPrefix(t, ".") || strings.HasPrefix(t, "removeStar") || strings.HasPrefix(t, "camelCase") {
			b.WriteString("TPL")
		}
		body = body[i+j+2:]
	}
	fset := token.NewFileSet()
	pf, err := parser.ParseFile(fset, rel, b.String(), parser.ParseComments)
	if err != nil {
		return nil, fmt.Errorf("%s: template body does not parse after neutralising actions: %v", rel, err)
	}
	return &fileSrc{rel + "#" + varName, fset, pf}, nil
}

func exprStr(fs *fileSrc, e ast.Node) string { return src(fs.fset, e) }

// enclosing statement classification for a call whose error result matters
func errHandling(fs *fileSrc, fn *ast.FuncDecl, call *ast.CallExpr) string {
	kind := "dropped"
	var stack []ast.Node
	ast.Inspect(fn, func(n ast.Node) bool {
		if n == nil {
			stack = stack[:len(stack)-1]
			return true
		}
		stack = append(stack, n)
		if n != ast.Node(call) {
			return true
		}
		// look at the parents
		for i := len(stack) - 2; i >= 0; i-- {
			switch p := stack[i].(type) {
			case *ast.ReturnStmt:
				kind = "returned"
				return false
			case *ast.AssignStmt:
				// err must be bound to a named variable (not _)
				last := p.Lhs[len(p.Lhs)-1]
				lname := exprStr(fs, last)
				if lname == "_" {
					kind = "dropped"
					return false
				}
				// the bound error must be checked or returned afterwards in the same function
				if errUsedAfter(fs, fn, p, lname) {
					kind = "checked"
				} else {
					kind = "dropped"
				}
				return false
			case *ast.ExprStmt:
				kind = "dropped"
				return false
			case *ast.IfStmt:
				// `if err := call; err != nil { return ... }` is reached through its Init AssignStmt
				continue
			}
		}
		return false
	})
	return kind
}

// errUsedAfter: after assignment `as` to variable name, is there `if name != nil {return ...}` or
// `return name` (possibly as the init-statement's own if)?
func errUsedAfter(fs *fileSrc, fn *ast.FuncDecl, as *ast.AssignStmt, name string) bool {
	found := false
	after := false
	ast.Inspect(fn, func(n ast.Node) bool {
		if n == ast.Node(as) {
			after = true
			return true
		}
		if !after || found {
			return true
		}
		switch x := n.(type) {
		case *ast.ReturnStmt:
			for _, r := range x.Results {
				if exprStr(fs, r) == name {
					found = true
				}
			}
		case *ast.BinaryExpr:
			if exprStr(fs, x.X) == name && x.Op == token.NEQ {
				found = true
			}
		}
		return true
	})
	// the if-with-init form: the assignment is the Init of an IfStmt whose Cond tests it
	ast.Inspect(fn, func(n ast.Node) bool {
		if is, ok := n.(*ast.IfStmt); ok && is.Init == ast.Stmt(as) {
			if be, ok := is.Cond.(*ast.BinaryExpr); ok {
				if exprStr(fs, be.X) == name {
					found = true
				}
			}
		}
		return true
	})
	return found
}

func isIdent(e ast.Expr, names ...string) bool {
	s := ""
	switch x := e.(type) {
	case *ast.Ident:
		s = x.Name
	case *ast.SelectorExpr:
		if id, ok := x.X.(*ast.Ident); ok {
			s = id.Name + "." + x.Sel.Name
		}
	}
	for _, n := range names {
		if s == n {
			return true
		}
	}
	return false
}

func funcsOf(fs *fileSrc) []*ast.FuncDecl {
	var out []*ast.FuncDecl
	for _, d := range fs.f.Decls {
		if fd, ok := d.(*ast.FuncDecl); ok && fd.Body != nil {
			out = append(out, fd)
		}
	}
	return out
}

func extraFacts(repo string, fc *Facts) error {
	var files []*fileSrc
	for _, rel := range []string{"parquet.go", "fields.go"} {
		fs, err := loadGo(repo, rel)
		if err != nil {
			return err
		}
		files = append(files, fs)
	}
	tpl, err := loadTemplate(repo, "cmd/parquetgen/gen/template.go", "tpl")
	if err != nil {
		return err
	}
	files = append(files, tpl)
	for _, t := range [][2]string{
		{"cmd/parquetgen/gen/template_required.go", "requiredNumericTpl"}, {"cmd/parquetgen/gen/template_optional.go", "optionalNumericTpl"},
		{"cmd/parquetgen/gen/template_string.go", "stringTpl"}, {"cmd/parquetgen/gen/template_string_optional.go", "stringOptionalTpl"},
		{"cmd/parquetgen/gen/template_bool.go", "boolTpl"}, {"cmd/parquetgen/gen/template_bool_optional.go", "boolOptionalTpl"},
	} {
		// field templates start with {{define}}: wrap into a package so that they parse
		fs, err := loadTemplateWrapped(repo, t[0], t[1])
		if err != nil {
			return err
		}
		files = append(files, fs)
	}

	var srcSites, sinkSites, poolSites, globals, sinkProp, srcProp []string
	sinkCallees := map[string]bool{"DoWrite": true, "WritePageHeader": true, "Footer": true}
	srcCallees := map[string]bool{"ReadFooter": true, "ReadMetaData": true, "readRowGroup": true, "DoRead": true, "PageHeader": true,
		"pageData": true, "readLevels": true, "getMetaDataSize": true, "PageHeadersAtOffset": true}
	for _, fs := range files {
		for _, fn := range funcsOf(fs) {
			fname := fn.Name.Name
			if fn.Recv != nil && len(fn.Recv.List) == 1 {
				fname = strings.TrimPrefix(exprStr(fs, fn.Recv.List[0].Type), "*") + "." + fname
			}
			gets, puts := 0, 0
			ast.Inspect(fn, func(n ast.Node) bool {
				switch x := n.(type) {
				case *ast.DeferStmt:
					if sel, ok := x.Call.Fun.(*ast.SelectorExpr); ok && isIdent(sel.X, "buffpool") && sel.Sel.Name == "Put" {
						puts++
					}
				case *ast.CallExpr:
					// ---- propagation of errors from callees that touch the sink / the source
					callee := ""
					var recvE ast.Expr
					switch f := x.Fun.(type) {
					case *ast.Ident:
						callee = f.Name
					case *ast.SelectorExpr:
						callee = f.Sel.Name
						recvE = f.X
					}
					if sinkCallees[callee] {
						sinkProp = append(sinkProp, fmt.Sprintf("%s:%s:%s:%s", fs.rel, fname, callee, errHandling(fs, fn, x)))
					}
					if callee == "Write" && recvE != nil {
						if _, isIdx := recvE.(*ast.IndexExpr); isIdx || isIdent(recvE, "f") {
							if len(x.Args) == 2 {
								sinkProp = append(sinkProp, fmt.Sprintf("%s:%s:Field.Write:%s", fs.rel, fname, errHandling(fs, fn, x)))
							}
						}
					}
					if srcCallees[callee] {
						srcProp = append(srcProp, fmt.Sprintf("%s:%s:%s:%s", fs.rel, fname, callee, errHandling(fs, fn, x)))
					}
					if callee == "Read" && recvE != nil && (isIdent(recvE, "f", "m", "pg") ) && len(x.Args) == 2 {
						srcProp = append(srcProp, fmt.Sprintf("%s:%s:%s.Read:%s", fs.rel, fname, exprStr(fs, recvE), errHandling(fs, fn, x)))
					}
					sel, ok := x.Fun.(*ast.SelectorExpr)
					if !ok {
						return true
					}
					recv, m := sel.X, sel.Sel.Name
					// ---- pool
					if isIdent(recv, "buffpool") && m == "Get" {
						gets++
					}
					// ---- source
					if isIdent(recv, "r", "rr0", "p.r") && (m == "Read" || m == "Seek") {
						kind := "single"
						if m == "Seek" {
							kind = "seek"
						}
						srcSites = append(srcSites, fmt.Sprintf("%s:%s:%s:%s", fs.rel, fname, kind, errHandling(fs, fn, x)))
					}
					if isIdent(recv, "r.r") && m == "Read" {
						srcSites = append(srcSites, fmt.Sprintf("%s:%s:forward:%s", fs.rel, fname, errHandling(fs, fn, x)))
					}
					if isIdent(recv, "io") && (m == "ReadFull" || m == "CopyN" || m == "ReadAll") {
						arg := x.Args[0]
						if m == "CopyN" {
							arg = x.Args[1]
						}
						if isIdent(arg, "r", "rc", "p.r") {
							srcSites = append(srcSites, fmt.Sprintf("%s:%s:full:%s", fs.rel, fname, errHandling(fs, fn, x)))
						}
					}
					if isIdent(recv, "binary") && m == "Read" && isIdent(x.Args[0], "r", "rc", "p.r") {
						srcSites = append(srcSites, fmt.Sprintf("%s:%s:full:%s", fs.rel, fname, errHandling(fs, fn, x)))
					}
					// ---- sink
					if isIdent(recv, "w", "p.w") && m == "Write" {
						sinkSites = append(sinkSites, fmt.Sprintf("%s:%s:%s", fs.rel, fname, errHandling(fs, fn, x)))
					}
					if isIdent(recv, "binary") && m == "Write" && isIdent(x.Args[0], "w", "p.w") {
						sinkSites = append(sinkSites, fmt.Sprintf("%s:%s:%s", fs.rel, fname, errHandling(fs, fn, x)))
					}
				}
				return true
			})
			if gets > 0 || puts > 0 {
				esc := "contained"
				// a function that takes pooled buffers and puts them back when it returns must not hand
				// out byte slices: they could alias a buffer that is already back in the pool
				if fn.Type.Results != nil {
					for _, r := range fn.Type.Results.List {
						if exprStr(fs, r.Type) == "[]byte" {
							esc = "escapes"
						}
					}
				}
				ast.Inspect(fn, func(n ast.Node) bool {
					if r, ok := n.(*ast.ReturnStmt); ok {
						for _, e := range r.Results {
							if isIdent(e, "buf", "buff", "compressed") {
								esc = "escapes"
							}
						}
					}
					return true
				})
				poolSites = append(poolSites, fmt.Sprintf("%s:%s:get=%d:deferput=%d:%s", fs.rel, fname, gets, puts, esc))
			}
		}
		for _, d := range fs.f.Decls {
			gd, ok := d.(*ast.GenDecl)
			if !ok || gd.Tok != token.VAR {
				continue
			}
			for _, s := range gd.Specs {
				for _, n := range s.(*ast.ValueSpec).Names {
					globals = append(globals, fs.rel+":"+n.Name)
				}
			}
		}
	}
	sort.Strings(srcSites)
	sort.Strings(sinkSites)
	sort.Strings(poolSites)
	sort.Strings(globals)
	fc.Lists["sourceSites"] = srcSites
	fc.Lists["sinkSites"] = sinkSites
	fc.Lists["poolSites"] = poolSites
	fc.Lists["globalVars"] = globals
	sort.Strings(sinkProp)
	sort.Strings(srcProp)
	fc.Lists["sinkPropagation"] = sinkProp
	fc.Lists["sourcePropagation"] = srcProp

	// structured form for the Lean lemmas
	var raw strings.Builder
	raw.WriteString("inductive Kind | single | full | seek | forward | call\nderiving DecidableEq, Repr\n\n")
	raw.WriteString("inductive Handling | checked | returned | dropped\nderiving DecidableEq, Repr\n\n")
	raw.WriteString("structure Site where\n  file : String\n  fn : String\n  kind : Kind\n  h : Handling\nderiving Repr\n\n")
	emit := func(name string, items []string, kindIdx, hIdx int) {
		fmt.Fprintf(&raw, "def %s : List Site := [", name)
		for i, it := range items {
			p := strings.Split(it, ":")
			kind := "call"
			if kindIdx >= 0 {
				kind = p[kindIdx]
			}
			if i > 0 {
				raw.WriteString(",")
			}
			fmt.Fprintf(&raw, "\n  { file := %q, fn := %q, kind := .%s, h := .%s }", p[0], p[1], kind, p[hIdx])
		}
		raw.WriteString("]\n\n")
	}
	emit("sourceSiteList", srcSites, 2, 3)
	emit("sinkSiteList", sinkSites, -1, 2)
	emit("sinkPropList", sinkProp, -1, 3)
	emit("sourcePropList", srcProp, -1, 3)
	raw.WriteString("structure PoolSite where\n  file : String\n  fn : String\n  gets : Nat\n  deferPuts : Nat\n  contained : Bool\nderiving Repr\n\n")
	raw.WriteString("def poolSiteList : List PoolSite := [")
	for i, it := range poolSites {
		p := strings.Split(it, ":")
		if i > 0 {
			raw.WriteString(",")
		}
		fmt.Fprintf(&raw, "\n  { file := %q, fn := %q, gets := %s, deferPuts := %s, contained := %v }", p[0], p[1],
			strings.TrimPrefix(p[2], "get="), strings.TrimPrefix(p[3], "deferput="), p[4] == "contained")
	}
	raw.WriteString("]\n")
	fc.Raw = append(fc.Raw, raw.String())
	return nil
}

func loadTemplateWrapped(repo, rel, varName string) (*fileSrc, error) {
	fs, err := loadTemplate2(repo, rel, varName)
	return fs, err
}

func loadTemplate2(repo, rel, varName string) (*fileSrc, error) {
	_, f, err := parseFile(filepath.Join(repo, rel))
	if err != nil {
		return nil, err
	}
	var body string
	ast.Inspect(f, func(n ast.Node) bool {
		vs, ok := n.(*ast.ValueSpec)
		if !ok || len(vs.Names) != 1 || vs.Names[0].Name != varName || len(vs.Values) != 1 {
			return true
		}
		if lit, ok := vs.Values[0].(*ast.BasicLit); ok && lit.Kind == token.STRING {
			body = strings.Trim(lit.Value, "`")
		}
		return true
	})
	if body == "" {
		return nil, fmt.Errorf("%s: template variable %s not found", rel, varName)
	}
	var b strings.Builder
	b.WriteString("package tplpkg\n")
	for {
		i := strings.Index(body, "{{")
		if i < 0 {
			b.WriteString(body)
			break
		}
		j := strings.Index(body[i:], "}}")
		if j < 0 {
			return nil, fmt.Errorf("%s: unbalanced template action", rel)
		}
		b.WriteString(body[:i])
		t := strings.TrimSpace(strings.Trim(body[i:i+j+2], "{}"))
		if !(strings.HasPrefix(t, "define") || strings.HasPrefix(t, "end") || strings.HasPrefix(t, "range") || strings.HasPrefix(t, "template") || strings.HasPrefix(t, "if") || strings.HasPrefix(t, "else")) {
			b.WriteString("TPL")
		}
		body = body[i+j+2:]
	}
	fset := token.NewFileSet()
	pf, err := parser.ParseFile(fset, rel, b.String(), parser.ParseComments)
	if err != nil {
		return nil, fmt.Errorf("%s#%s: template body does not parse after neutralising actions: %v", rel, varName, err)
	}
	return &fileSrc{rel + "#" + varName, fset, pf}, nil
}
