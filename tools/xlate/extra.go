package main

// Call-site inventories (C08, C09, C10, C13): every read/seek on the source, every write on the
// sink with whether its error reaches the caller, every buffpool.Get with its deferred Put, every
// package-level variable of the runtime and of the generated package (template).

import (
	"fmt"
	"go/ast"
	"go/parser"
	"go/token"
	"path/filepath"
	"sort"
	"strings"
)

type fileSrc struct {
	rel  string
	fset *token.FileSet
	f    *ast.File
}

func loadGo(repo, rel string) (*fileSrc, error) {
	fset, f, err := parseFile(filepath.Join(repo, rel))
	if err != nil {
		return nil, err
	}
	return &fileSrc{rel, fset, f}, nil
}

// the template is Go source inside a string with {{...}} actions; neutralise the actions so that
// go/parser accepts it
func loadTemplate(repo, rel, varName string) (*fileSrc, error) {
	_, f, err := parseFile(filepath.Join(repo, rel))
	if err != nil {
		return nil, err
	}
	var body string
	ast.Inspect(f, func(n ast.Node) bool {
		vs, ok := n.(*ast.ValueSpec)
		if !ok || len(vs.Names) != 1 || vs.Names[0].Name != varName || len(vs.Values) != 1 {
			return true
		}
		if lit, ok := vs.Values[0].(*ast.BasicLit); ok && lit.Kind == token.STRING {
			body = strings.Trim(lit.Value, "`")
		}
		return true
	})
	if body == "" {
		return nil, fmt.Errorf("%s: template variable %s not found", rel, varName)
	}
	var b strings.Builder
	for {
		i := strings.Index(body, "{{")
		if i < 0 {
			b.WriteString(body)
			break
		}
		j := strings.Index(body[i:], "}}")
		if j < 0 {
			return nil, fmt.Errorf("%s: unbalanced template action", rel)
		}
		b.WriteString(body[:i])
		act := body[i : i+j+2]
		// keep identifiers valid: {{.X}} -> TPL ; line-level actions (range/end/define/template) -> nothing
		t := strings.TrimSpace(strings.Trim(act, "{}"))
		if strings.HasPrefix(t, ".") || strings.HasPrefix(t, "removeStar") || strings.HasPrefix(t, "camelCase") {
			b.WriteString("TPL")
		}
		body = body[i+j+2:]
	}
	fset := token.NewFileSet()
	pf, err := parser.ParseFile(fset, rel, b.String(), parser.ParseComments)
	if err != nil {
		return nil, fmt.Errorf("%s: template body does not parse after neutralising actions: %v", rel, err)
	}
	return &fileSrc{rel + "#" + varName, fset, pf}, nil
}

func exprStr(fs *fileSrc, e ast.Node) string { return src(fs.fset, e) }

// enclosing statement classification for a call whose error result matters
func errHandling(fs *fileSrc, fn *ast.FuncDecl, call *ast.CallExpr) string {
	kind := "dropped"
	var stack []ast.Node
	ast.Inspect(fn, func(n ast.Node) bool {
		if n == nil {
			stack = stack[:len(stack)-1]
			return true
		}
		stack = append(stack, n)
		if n != ast.Node(call) {
			return true
		}
		// look at the parents
		for i := len(stack) - 2; i >= 0; i-- {
			switch p := stack[i].(type) {
			case *ast.ReturnStmt:
				kind = "returned"
				return false
			case *ast.AssignStmt:
				// err must be bound to a named variable (not _)
				last := p.Lhs[len(p.Lhs)-1]
				lname := exprStr(fs, last)
				if lname == "_" {
					kind = "dropped"
					return false
				}
				// the bound error must be checked or returned afterwards in the same function
				if errUsedAfter(fs, fn, p, lname) {
					kind = "checked"
				} else {
					kind = "dropped"
				}
				return false
			case *ast.ExprStmt:
				kind = "dropped"
				return false
			case *ast.IfStmt:
				// `if err := call; err != nil { return ... }` is reached through its Init AssignStmt
				continue
			}
		}
		return false
	})
	return kind
}

// errUsedAfter: after assignment `as` to variable name, is there `if name != nil {return ...}` or
// `return name` (possibly as the init-statement's own if)?
func errUsedAfter(fs *fileSrc, fn *ast.FuncDecl, as *ast.AssignStmt, name string) bool {
	found := false
	after := false
	ast.Inspect(fn, func(n ast.Node) bool {
		if n == ast.Node(as) {
			after = true
			return true
		}
		if !after || found {
			return true
		}
		switch x := n.(type) {
		case *ast.ReturnStmt:
			for _, r := range x.Results {
				if exprStr(fs, r) == name {
					found = true
				}
			}
		case *ast.BinaryExpr:
			if exprStr(fs, x.X) == name && x.Op == token.NEQ {
				found = true
			}
		}
		return true
	})
	// the if-with-init form: the assignment is the Init of an IfStmt whose Cond tests it
	ast.Inspect(fn, func(n ast.Node) bool {
		if is, ok := n.(*ast.IfStmt); ok && is.Init == ast.Stmt(as) {
			if be, ok := is.Cond.(*ast.BinaryExpr); ok {
				if exprStr(fs, be.X) == name {
					found = true
				}
			}
		}
		return true
	})
	return found
}

func isIdent(e ast.Expr, names ...string) bool {
	s := ""
	switch x := e.(type) {
	case *ast.Ident:
		s = x.Name
	case *ast.SelectorExpr:
		if id, ok := x.X.(*ast.Ident); ok {
			s = id.Name + "." + x.Sel.Name
		}
	}
	for _, n := range names {
		if s == n {
			return true
		}
	}
	return false
}

func funcsOf(fs *fileSrc) []*ast.FuncDecl {
	var out []*ast.FuncDecl
	for _, d := range fs.f.Decls {
		if fd, ok := d.(*ast.FuncDecl); ok && fd.Body != nil {
			out = append(out, fd)
		}
	}
	return out
}

func extraFacts(repo string, fc *Facts) error {
	var files []*fileSrc
	for _, rel := range []string{"parquet.go", "fields.go"} {
		fs, err := loadGo(repo, rel)
		if err != nil {
			return err
		}
		files = append(files, fs)
	}
	tpl, err := loadTemplate(repo, "cmd/parquetgen/gen/template.go", "tpl")
	if err != nil {
		return err
	}
	files = append(files, tpl)
	for _, t := range [][2]string{
		{"cmd/parquetgen/gen/template_required.go", "requiredNumericTpl"}, {"cmd/parquetgen/gen/template_optional.go", "optionalNumericTpl"},
		{"cmd/parquetgen/gen/template_string.go", "stringTpl"}, {"cmd/parquetgen/gen/template_string_optional.go", "stringOptionalTpl"},
		{"cmd/parquetgen/gen/template_bool.go", "boolTpl"}, {"cmd/parquetgen/gen/template_bool_optional.go", "boolOptionalTpl"},
	} {
		// field templates start with {{define}}: wrap into a package so that they parse
		fs, err := loadTemplateWrapped(repo, t[0], t[1])
		if err != nil {
			return err
		}
		files = append(files, fs)
	}

	var srcSites, sinkSites, poolSites, globals, sinkProp, srcProp, srcExtern, sinkExtern []string
	// which expressions denote the source / the sink: flow analysis (taint.go), not identifier names
	srcFlow := newFlow(files, func(fs *fileSrc, fn *ast.FuncDecl, typ string) bool { return typ == "io.ReadSeeker" })
	sinkFlow := newFlow(files, func(fs *fileSrc, fn *ast.FuncDecl, typ string) bool {
		return typ == "io.Writer" && fn.Name.Name == "NewParquetWriter"
	})
	// functions (by name) that return an error
	returnsErr := map[string]bool{}
	for _, fs := range files {
		for _, fn := range funcsOf(fs) {
			if fn.Type.Results != nil {
				for _, r := range fn.Type.Results.List {
					if exprStr(fs, r.Type) == "error" {
						returnsErr[fn.Name.Name] = true
					}
				}
			}
		}
	}
	// a function touches the source (sink) when it contains a read/seek (write) site on it or calls a
	// function that does; calls to such functions are the propagation sites
	srcTouch, sinkTouch := map[string]bool{}, map[string]bool{}
	declared := map[string]bool{}
	for _, fs := range files {
		for _, fn := range funcsOf(fs) {
			if fn.Recv != nil && len(fn.Recv.List) == 1 {
				declared[typeName(fs, fn.Recv.List[0].Type)+"."+fn.Name.Name] = true
			}
		}
	}
	fkey := func(fs *fileSrc, fn *ast.FuncDecl) string {
		if fn.Recv != nil && len(fn.Recv.List) == 1 {
			return typeName(fs, fn.Recv.List[0].Type) + "." + fn.Name.Name
		}
		return fn.Name.Name
	}
	touches := func(touch map[string]bool, x *ast.CallExpr, env *fenv, tainted bool) bool {
		callee, pkg, recvE := calleeOf(x)
		if pkg != "" || callee == "" || !returnsErr[callee] {
			return false
		}
		if recvE == nil {
			return touch[callee]
		}
		if id, ok := recvE.(*ast.Ident); ok {
			// a method declared on the receiver's own type; promoted methods of embedded types
			// fall through to the by-name rule
			if t, ok := env.typeOf[id.Name]; ok && declared[t+"."+callee] {
				return touch[t+"."+callee]
			}
		}
		if !tainted {
			return false
		}
		for k := range touch {
			if strings.HasSuffix(k, "."+callee) {
				return true
			}
		}
		return false
	}
	for round := 0; round < 20; round++ {
		srcSites, sinkSites, sinkProp, srcProp, srcExtern, sinkExtern = nil, nil, nil, nil, nil, nil
		nTouch := len(srcTouch) + len(sinkTouch)
		for _, fs := range files {
			for _, fn := range funcsOf(fs) {
				fs, fn := fs, fn
				fname := fn.Name.Name
				if fn.Recv != nil && len(fn.Recv.List) == 1 {
					fname = strings.TrimPrefix(exprStr(fs, fn.Recv.List[0].Type), "*") + "." + fname
				}
				ioMethod := isIOMethod(fs, fn)
				// ---- source
				srcFlow.onExternLit = func(typ string) {
					srcExtern = append(srcExtern, fmt.Sprintf("%s:%s:%s", fs.rel, fname, typ))
					srcTouch[fkey(fs, fn)] = true
				}
				srcFlow.scan(fs, fn, func(x *ast.CallExpr, env *fenv) {
					t := func(e ast.Expr) bool { return srcFlow.isTainted(fs, env, e) }
					callee, pkg, recvE := calleeOf(x)
					if touches(srcTouch, x, env, anyArg(x, t)) {
						srcProp = append(srcProp, fmt.Sprintf("%s:%s:%s:%s", fs.rel, fname, callee, errHandling(fs, fn, x)))
						srcTouch[fkey(fs, fn)] = true
					}
					if recvE != nil && pkg == "" && t(recvE) && (callee == "Read" || callee == "Seek") {
						kind := "single"
						if callee == "Seek" {
							kind = "seek"
						} else if ioMethod == "Read" {
							kind = "forward"
						}
						srcSites = append(srcSites, fmt.Sprintf("%s:%s:%s:%s", fs.rel, fname, kind, errHandling(fs, fn, x)))
						srcTouch[fkey(fs, fn)] = true
					}
					if pkg != "" && anyArg(x, t) {
						full := (pkg == "io" && (callee == "ReadFull" || callee == "CopyN" || callee == "ReadAll" || callee == "Copy")) ||
							(pkg == "ioutil" && callee == "ReadAll") || (pkg == "binary" && callee == "Read")
						if full {
							srcSites = append(srcSites, fmt.Sprintf("%s:%s:full:%s", fs.rel, fname, errHandling(fs, fn, x)))
						} else {
							srcExtern = append(srcExtern, fmt.Sprintf("%s:%s:%s.%s", fs.rel, fname, pkg, callee))
						}
						srcTouch[fkey(fs, fn)] = true
					}
				})
				// ---- sink
				sinkFlow.onExternLit = func(typ string) {
					sinkExtern = append(sinkExtern, fmt.Sprintf("%s:%s:%s", fs.rel, fname, typ))
					sinkTouch[fkey(fs, fn)] = true
				}
				sinkFlow.scan(fs, fn, func(x *ast.CallExpr, env *fenv) {
					t := func(e ast.Expr) bool { return sinkFlow.isTainted(fs, env, e) }
					callee, pkg, recvE := calleeOf(x)
					if touches(sinkTouch, x, env, anyArg(x, t)) {
						sinkProp = append(sinkProp, fmt.Sprintf("%s:%s:%s:%s", fs.rel, fname, callee, errHandling(fs, fn, x)))
						sinkTouch[fkey(fs, fn)] = true
					}
					if recvE != nil && pkg == "" && t(recvE) && callee == "Write" {
						sinkSites = append(sinkSites, fmt.Sprintf("%s:%s:%s", fs.rel, fname, errHandling(fs, fn, x)))
						sinkTouch[fkey(fs, fn)] = true
					}
					if pkg != "" && anyArg(x, t) {
						wr := (pkg == "binary" && callee == "Write") || (pkg == "io" && (callee == "Copy" || callee == "CopyN" || callee == "WriteString")) ||
							(pkg == "fmt" && strings.HasPrefix(callee, "Fprint"))
						if wr {
							sinkSites = append(sinkSites, fmt.Sprintf("%s:%s:%s", fs.rel, fname, errHandling(fs, fn, x)))
						} else {
							sinkExtern = append(sinkExtern, fmt.Sprintf("%s:%s:%s.%s", fs.rel, fname, pkg, callee))
						}
						sinkTouch[fkey(fs, fn)] = true
					}
				})
			}
		}
		if len(srcTouch)+len(sinkTouch) == nTouch {
			break
		}
	}
	for _, fs := range files {
		for _, fn := range funcsOf(fs) {
			fname := fn.Name.Name
			if fn.Recv != nil && len(fn.Recv.List) == 1 {
				fname = strings.TrimPrefix(exprStr(fs, fn.Recv.List[0].Type), "*") + "." + fname
			}
			gets, puts := 0, 0
			ast.Inspect(fn, func(n ast.Node) bool {
				switch x := n.(type) {
				case *ast.DeferStmt:
					if sel, ok := x.Call.Fun.(*ast.SelectorExpr); ok && isIdent(sel.X, "buffpool") && sel.Sel.Name == "Put" {
						puts++
					}
				case *ast.CallExpr:
					if sel, ok := x.Fun.(*ast.SelectorExpr); ok && isIdent(sel.X, "buffpool") && sel.Sel.Name == "Get" {
						gets++
					}
				}
				return true
			})
			if gets > 0 || puts > 0 {
				esc := "contained"
				// a function that takes pooled buffers and puts them back when it returns must not hand
				// out byte slices: they could alias a buffer that is already back in the pool
				if fn.Type.Results != nil {
					for _, r := range fn.Type.Results.List {
						if exprStr(fs, r.Type) == "[]byte" {
							esc = "escapes"
						}
					}
				}
				ast.Inspect(fn, func(n ast.Node) bool {
					if r, ok := n.(*ast.ReturnStmt); ok {
						for _, e := range r.Results {
							if isIdent(e, "buf", "buff", "compressed") {
								esc = "escapes"
							}
						}
					}
					return true
				})
				poolSites = append(poolSites, fmt.Sprintf("%s:%s:get=%d:deferput=%d:%s", fs.rel, fname, gets, puts, esc))
			}
		}
		for _, d := range fs.f.Decls {
			gd, ok := d.(*ast.GenDecl)
			if !ok || gd.Tok != token.VAR {
				continue
			}
			for _, s := range gd.Specs {
				for _, n := range s.(*ast.ValueSpec).Names {
					globals = append(globals, fs.rel+":"+n.Name)
				}
			}
		}
	}
	sort.Strings(srcSites)
	sort.Strings(sinkSites)
	sort.Strings(poolSites)
	sort.Strings(globals)
	fc.Lists["sourceSites"] = srcSites
	fc.Lists["sinkSites"] = sinkSites
	fc.Lists["poolSites"] = poolSites
	fc.Lists["globalVars"] = globals
	sort.Strings(sinkProp)
	sort.Strings(srcProp)
	fc.Lists["sinkPropagation"] = sinkProp
	fc.Lists["sourcePropagation"] = srcProp
	sort.Strings(srcExtern)
	sort.Strings(sinkExtern)
	fc.Lists["sourceExtern"] = srcExtern
	fc.Lists["sinkExtern"] = sinkExtern

	// structured form for the Lean lemmas
	var raw strings.Builder
	raw.WriteString("inductive Kind | single | full | seek | forward | call\nderiving DecidableEq, Repr\n\n")
	raw.WriteString("inductive Handling | checked | returned | dropped\nderiving DecidableEq, Repr\n\n")
	raw.WriteString("structure Site where\n  file : String\n  fn : String\n  kind : Kind\n  h : Handling\nderiving Repr\n\n")
	emit := func(name string, items []string, kindIdx, hIdx int) {
		fmt.Fprintf(&raw, "def %s : List Site := [", name)
		for i, it := range items {
			p := strings.Split(it, ":")
			kind := "call"
			if kindIdx >= 0 {
				kind = p[kindIdx]
			}
			if i > 0 {
				raw.WriteString(",")
			}
			fmt.Fprintf(&raw, "\n  { file := %q, fn := %q, kind := .%s, h := .%s }", p[0], p[1], kind, p[hIdx])
		}
		raw.WriteString("]\n\n")
	}
	emit("sourceSiteList", srcSites, 2, 3)
	emit("sinkSiteList", sinkSites, -1, 2)
	emit("sinkPropList", sinkProp, -1, 3)
	emit("sourcePropList", srcProp, -1, 3)
	emitStrs := func(name string, items []string) {
		fmt.Fprintf(&raw, "def %s : List String := [", name)
		for i, it := range items {
			if i > 0 {
				raw.WriteString(", ")
			}
			p := strings.Split(it, ":")
			fmt.Fprintf(&raw, "%q", p[len(p)-1])
		}
		raw.WriteString("]\n\n")
	}
	emitStrs("sourceExternList", srcExtern)
	emitStrs("sinkExternList", sinkExtern)
	raw.WriteString("structure PoolSite where\n  file : String\n  fn : String\n  gets : Nat\n  deferPuts : Nat\n  contained : Bool\nderiving Repr\n\n")
	raw.WriteString("def poolSiteList : List PoolSite := [")
	for i, it := range poolSites {
		p := strings.Split(it, ":")
		if i > 0 {
			raw.WriteString(",")
		}
		fmt.Fprintf(&raw, "\n  { file := %q, fn := %q, gets := %s, deferPuts := %s, contained := %v }", p[0], p[1],
			strings.TrimPrefix(p[2], "get="), strings.TrimPrefix(p[3], "deferput="), p[4] == "contained")
	}
	raw.WriteString("]\n")
	fc.Raw = append(fc.Raw, raw.String())
	fc.Raw = append(fc.Raw, checkPageLean(repo))
	fc.Raw = append(fc.Raw, pageDataCodecsLean(repo))
	return nil
}

func loadTemplateWrapped(repo, rel, varName string) (*fileSrc, error) {
	fs, err := loadTemplate2(repo, rel, varName)
	return fs, err
}

func loadTemplate2(repo, rel, varName string) (*fileSrc, error) {
	_, f, err := parseFile(filepath.Join(repo, rel))
	if err != nil {
		return nil, err
	}
	var body string
	ast.Inspect(f, func(n ast.Node) bool {
		vs, ok := n.(*ast.ValueSpec)
		if !ok || len(vs.Names) != 1 || vs.Names[0].Name != varName || len(vs.Values) != 1 {
			return true
		}
		if lit, ok := vs.Values[0].(*ast.BasicLit); ok && lit.Kind == token.STRING {
			body = strings.Trim(lit.Value, "`")
		}
		return true
	})
	if body == "" {
		return nil, fmt.Errorf("%s: template variable %s not found", rel, varName)
	}
	var b strings.Builder
	b.WriteString("package tplpkg\n")
	for {
		i := strings.Index(body, "{{")
		if i < 0 {
			b.WriteString(body)
			break
		}
		j := strings.Index(body[i:], "}}")
		if j < 0 {
			return nil, fmt.Errorf("%s: unbalanced template action", rel)
		}
		b.WriteString(body[:i])
		t := strings.TrimSpace(strings.Trim(body[i:i+j+2], "{}"))
		if !(strings.HasPrefix(t, "define") || strings.HasPrefix(t, "end") || strings.HasPrefix(t, "range") || strings.HasPrefix(t, "template") || strings.HasPrefix(t, "if") || strings.HasPrefix(t, "else")) {
			b.WriteString("TPL")
		}
		body = body[i+j+2:]
	}
	fset := token.NewFileSet()
	pf, err := parser.ParseFile(fset, rel, b.String(), parser.ParseComments)
	if err != nil {
		return nil, fmt.Errorf("%s#%s: template body does not parse after neutralising actions: %v", rel, varName, err)
	}
	return &fileSrc{rel + "#" + varName, fset, pf}, nil
}

// calleeOf: (name, package-qualifier if the call is pkg.Func of an external package, receiver expression)
func calleeOf(x *ast.CallExpr) (string, string, ast.Expr) {
	switch f := x.Fun.(type) {
	case *ast.Ident:
		return f.Name, "", nil
	case *ast.SelectorExpr:
		if id, ok := f.X.(*ast.Ident); ok && externalPkg[id.Name] {
			return f.Sel.Name, id.Name, nil
		}
		return f.Sel.Name, "", f.X
	}
	return "", "", nil
}

func anyArg(x *ast.CallExpr, t func(ast.Expr) bool) bool {
	for _, a := range x.Args {
		if t(a) {
			return true
		}
	}
	return false
}

// isIOMethod: "Read"/"Write" when fn is a method with the io.Reader/io.Writer signature
func isIOMethod(fs *fileSrc, fn *ast.FuncDecl) string {
	if fn.Recv == nil || (fn.Name.Name != "Read" && fn.Name.Name != "Write") {
		return ""
	}
	ps := fn.Type.Params.List
	if len(ps) == 1 && exprStr(fs, ps[0].Type) == "[]byte" {
		return fn.Name.Name
	}
	return ""
}
