package main

// Which expressions denote the data source (the io.ReadSeeker handed to the reader) or the data
// sink (the io.Writer handed to NewParquetWriter)?  Identifier names are not a sound criterion: a
// harmless rename or a helper extraction changes them.  This is a small flow analysis over the
// parsed files instead:
//
//   seeds    source: every parameter of type io.ReadSeeker;
//            sink:   the io.Writer parameter(s) of NewParquetWriter
//   flow     x := y / x = y / x := &T{f: y} / T{f: y}  (taints x and field T.f)
//            callee(..., y, ...)                        (taints that parameter of every function
//                                                        or method with that name)
//            recv.f inside a method of T when T.f is tainted; v.f when v was built from a T literal
//            or has a declared type T
//
// iterated to a fixed point.  Results of calls are never tainted (DoRead returns an in-memory
// reader over the page that was read in full).

import (
	"go/ast"
	"go/token"
	"strings"
)

type flow struct {
	files  []*fileSrc
	seed   func(fs *fileSrc, fn *ast.FuncDecl, typ string) bool
	params map[string]map[int]bool // function or method name -> tainted parameter indices
	fields map[string]bool         // "T.f"
	// struct field names declared in the scanned files: T -> set of field names
	structs map[string]map[string]bool
	ioTypes map[string]bool // struct types with a Read([]byte)/Write([]byte) method
	changed bool
	// second phase: a literal of an external type (thrift.StreamTransport) wrapping the source/sink
	onExternLit func(typ string)
}

func newFlow(files []*fileSrc, seed func(fs *fileSrc, fn *ast.FuncDecl, typ string) bool) *flow {
	fl := &flow{files: files, seed: seed, params: map[string]map[int]bool{}, fields: map[string]bool{}, structs: map[string]map[string]bool{}, ioTypes: map[string]bool{}}
	for _, fs := range files {
		for _, fn := range funcsOf(fs) {
			if isIOMethod(fs, fn) != "" {
				fl.ioTypes[typeName(fs, fn.Recv.List[0].Type)] = true
			}
		}
	}
	for _, fs := range files {
		ast.Inspect(fs.f, func(n ast.Node) bool {
			ts, ok := n.(*ast.TypeSpec)
			if !ok {
				return true
			}
			st, ok := ts.Type.(*ast.StructType)
			if !ok {
				return true
			}
			m := map[string]bool{}
			for _, f := range st.Fields.List {
				for _, nm := range f.Names {
					m[nm.Name] = true
				}
			}
			fl.structs[ts.Name.Name] = m
			return true
		})
	}
	for i := 0; i < 20; i++ {
		fl.changed = false
		for _, fs := range files {
			for _, fn := range funcsOf(fs) {
				fl.scan(fs, fn, nil)
			}
		}
		if !fl.changed {
			break
		}
	}
	return fl
}

func typeName(fs *fileSrc, e ast.Expr) string {
	return strings.TrimPrefix(exprStr(fs, e), "*")
}

func paramList(fn *ast.FuncDecl) []*ast.Ident {
	var out []*ast.Ident
	for _, f := range fn.Type.Params.List {
		if len(f.Names) == 0 {
			out = append(out, nil)
		}
		for _, n := range f.Names {
			out = append(out, n)
		}
	}
	return out
}

// env of one function: tainted local names and the struct type of locals where known
type fenv struct {
	tainted map[string]bool
	typeOf  map[string]string
}

func (fl *flow) markParam(name string, i int) {
	if fl.params[name] == nil {
		fl.params[name] = map[int]bool{}
	}
	if !fl.params[name][i] {
		fl.params[name][i] = true
		fl.changed = true
	}
}

func (fl *flow) markField(t, f string) {
	k := t + "." + f
	if !fl.fields[k] {
		fl.fields[k] = true
		fl.changed = true
	}
}

// isTainted: does e denote the source/sink in this function?
func (fl *flow) isTainted(fs *fileSrc, env *fenv, e ast.Expr) bool {
	switch x := e.(type) {
	case *ast.Ident:
		return env.tainted[x.Name]
	case *ast.ParenExpr:
		return fl.isTainted(fs, env, x.X)
	case *ast.SelectorExpr:
		id, ok := x.X.(*ast.Ident)
		if !ok {
			return false
		}
		if t, ok := env.typeOf[id.Name]; ok {
			return fl.fields[t+"."+x.Sel.Name]
		}
		// unknown base type: any struct with such a tainted field
		for k := range fl.fields {
			if strings.HasSuffix(k, "."+x.Sel.Name) {
				return true
			}
		}
		return false
	case *ast.UnaryExpr:
		if x.Op == token.AND {
			return fl.isTainted(fs, env, x.X)
		}
	case *ast.CompositeLit:
		return fl.compositeTaint(fs, env, x) && fl.ioTypes[typeName(fs, x.Type)]
	}
	return false
}

// a composite literal carrying the source/sink in one of its fields: taints that field
func (fl *flow) compositeTaint(fs *fileSrc, env *fenv, cl *ast.CompositeLit) bool {
	t := typeName(fs, cl.Type)
	any := false
	for _, el := range cl.Elts {
		kv, ok := el.(*ast.KeyValueExpr)
		if !ok {
			continue
		}
		if fl.isTainted(fs, env, kv.Value) {
			fl.markField(t, exprStr(fs, kv.Key))
			any = true
		}
	}
	return any
}

func compositeType(fs *fileSrc, e ast.Expr) string {
	switch x := e.(type) {
	case *ast.UnaryExpr:
		return compositeType(fs, x.X)
	case *ast.CompositeLit:
		return typeName(fs, x.Type)
	}
	return ""
}

// scan one function; visit(call, env) is invoked for every call when non-nil (second phase)
func (fl *flow) scan(fs *fileSrc, fn *ast.FuncDecl, visit func(call *ast.CallExpr, env *fenv)) {
	env := &fenv{tainted: map[string]bool{}, typeOf: map[string]string{}}
	if fn.Recv != nil && len(fn.Recv.List) == 1 && len(fn.Recv.List[0].Names) == 1 {
		env.typeOf[fn.Recv.List[0].Names[0].Name] = typeName(fs, fn.Recv.List[0].Type)
	}
	idx := 0
	for _, f := range fn.Type.Params.List {
		typ := exprStr(fs, f.Type)
		names := f.Names
		if len(names) == 0 {
			idx++
			continue
		}
		for _, n := range names {
			if fl.seed(fs, fn, typ) || fl.params[fn.Name.Name][idx] {
				env.tainted[n.Name] = true
			}
			if _, ok := fl.structs[strings.TrimPrefix(typ, "*")]; ok {
				env.typeOf[n.Name] = strings.TrimPrefix(typ, "*")
			}
			idx++
		}
	}
	// two passes over the body so that an assignment late in the text reaches earlier uses in loops
	for pass := 0; pass < 2; pass++ {
		ast.Inspect(fn.Body, func(n ast.Node) bool {
			switch x := n.(type) {
			case *ast.AssignStmt:
				if len(x.Lhs) == len(x.Rhs) {
					for i := range x.Lhs {
						if t := compositeType(fs, x.Rhs[i]); t != "" {
							if id, ok := x.Lhs[i].(*ast.Ident); ok {
								env.typeOf[id.Name] = t
							}
						}
						if !fl.isTainted(fs, env, x.Rhs[i]) {
							continue
						}
						switch l := x.Lhs[i].(type) {
						case *ast.Ident:
							// v := &T{f: src}: v is a wrapper; it stands for the source/sink only when T
							// is itself an io.Reader/io.Writer (readCounter)
							if t := compositeType(fs, x.Rhs[i]); t == "" || fl.ioTypes[t] {
								env.tainted[l.Name] = true
							}
						case *ast.SelectorExpr:
							if id, ok := l.X.(*ast.Ident); ok {
								if t, ok := env.typeOf[id.Name]; ok {
									fl.markField(t, l.Sel.Name)
								}
							}
						}
					}
				}
			case *ast.CompositeLit:
				if fl.compositeTaint(fs, env, x) && visit != nil && pass == 1 && fl.onExternLit != nil {
					if sel, ok := x.Type.(*ast.SelectorExpr); ok {
						if id, ok := sel.X.(*ast.Ident); ok && externalPkg[id.Name] {
							fl.onExternLit(id.Name + "." + sel.Sel.Name)
						}
					}
				}
			case *ast.CallExpr:
				callee := ""
				switch f := x.Fun.(type) {
				case *ast.Ident:
					callee = f.Name
				case *ast.SelectorExpr:
					callee = f.Sel.Name
					if id, ok := f.X.(*ast.Ident); ok && externalPkg[id.Name] {
						callee = ""
					}
				}
				if callee != "" {
					for i, a := range x.Args {
						if fl.isTainted(fs, env, a) {
							fl.markParam(callee, i)
						}
					}
				}
				if visit != nil && pass == 1 {
					visit(x, env)
				}
			}
			return true
		})
	}
}

var externalPkg = map[string]bool{"io": true, "ioutil": true, "binary": true, "thrift": true, "bytes": true, "gzip": true,
	"snappy": true, "fmt": true, "bufio": true, "sch": true, "rle": true, "buffpool": true, "context": true}
