package main

// Translation of fields.go `checkPage` (the reader's "is this page inside the supported subset?" decision)
// into a Lean Bool function.  Grammar: a sequence of `if COND { return <non-nil> }` followed by
// `return nil`; COND over ||, &&, !, ==, !=, the parameters, selectors of the page header and constants of
// the thrift-generated schema package (resolved to their numeric values from schema/parquet.go).
// Anything else is reported as "not translated" (then only C18's obligation fails).

import (
	"fmt"
	"go/ast"
	"go/token"
	"path/filepath"
	"strings"
)

func schemaConsts(repo string) (map[string]string, error) {
	_, f, err := parseFile(filepath.Join(repo, "schema/parquet.go"))
	if err != nil {
		return nil, err
	}
	out := map[string]string{}
	for _, d := range f.Decls {
		gd, ok := d.(*ast.GenDecl)
		if !ok || gd.Tok != token.CONST {
			continue
		}
		for _, sp := range gd.Specs {
			vs := sp.(*ast.ValueSpec)
			for i, n := range vs.Names {
				if i < len(vs.Values) {
					if lit, ok := vs.Values[i].(*ast.BasicLit); ok && lit.Kind == token.INT {
						out[n.Name] = lit.Value
					}
				}
			}
		}
	}
	return out, nil
}

func guardExpr(e ast.Expr, consts map[string]string, ph string) (string, error) {
	switch x := e.(type) {
	case *ast.ParenExpr:
		return guardExpr(x.X, consts, ph)
	case *ast.UnaryExpr:
		if x.Op == token.NOT {
			s, err := guardExpr(x.X, consts, ph)
			return "(!" + s + ")", err
		}
	case *ast.BinaryExpr:
		switch x.Op {
		case token.LOR, token.LAND:
			a, err := guardExpr(x.X, consts, ph)
			if err != nil {
				return "", err
			}
			b, err := guardExpr(x.Y, consts, ph)
			op := map[token.Token]string{token.LOR: "||", token.LAND: "&&"}[x.Op]
			return "(" + a + " " + op + " " + b + ")", err
		case token.EQL, token.NEQ:
			if id, ok := x.Y.(*ast.Ident); ok && id.Name == "nil" {
				if sel(x.X) == ph+".DataPageHeader" {
					if x.Op == token.EQL {
						return "(!hasDph)", nil
					}
					return "hasDph", nil
				}
				return "", fmt.Errorf("nil comparison of %s", sel(x.X))
			}
			a, err := guardExpr(x.X, consts, ph)
			if err != nil {
				return "", err
			}
			b, err := guardExpr(x.Y, consts, ph)
			op := map[token.Token]string{token.EQL: "==", token.NEQ: "!="}[x.Op]
			return "(" + a + " " + op + " " + b + ")", err
		}
	case *ast.Ident:
		if x.Name == "defs" || x.Name == "reps" {
			return x.Name, nil
		}
		if x.Name == "true" || x.Name == "false" {
			return x.Name, nil
		}
	case *ast.SelectorExpr:
		s := sel(x)
		switch s {
		case ph + ".Type":
			return "ty", nil
		case ph + ".DataPageHeader.Encoding":
			return "enc", nil
		case ph + ".DataPageHeader.DefinitionLevelEncoding":
			return "denc", nil
		case ph + ".DataPageHeader.RepetitionLevelEncoding":
			return "renc", nil
		}
		if strings.HasPrefix(s, "sch.") {
			if v, ok := consts[strings.TrimPrefix(s, "sch.")]; ok {
				return "(" + v + " : Int)", nil
			}
		}
		return "", fmt.Errorf("unknown selector %s", s)
	}
	return "", fmt.Errorf("expression outside the grammar: %T", e)
}

func sel(e ast.Expr) string {
	switch x := e.(type) {
	case *ast.Ident:
		return x.Name
	case *ast.SelectorExpr:
		return sel(x.X) + "." + x.Sel.Name
	}
	return "?"
}

func checkPageLean(repo string) string {
	head := "/-- `checkPage` of fields.go, translated from the working tree: `true` = the page is accepted -/\n" +
		"def checkPageGen (ty : Int) (hasDph : Bool) (enc denc renc : Int) (defs reps : Bool) : Bool :="
	fail := func(err error) string {
		return fmt.Sprintf("def checkPageTranslated : Bool := false\ndef checkPageError : String := %q\n%s false\n", err.Error(), head)
	}
	consts, err := schemaConsts(repo)
	if err != nil {
		return fail(err)
	}
	_, f, err := parseFile(filepath.Join(repo, "fields.go"))
	if err != nil {
		return fail(err)
	}
	fn := findFunc(f, "", "checkPage")
	if fn == nil {
		return fail(fmt.Errorf("func checkPage not found"))
	}
	ps := paramList(fn)
	if len(ps) != 3 || ps[1].Name != "defs" || ps[2].Name != "reps" {
		return fail(fmt.Errorf("unexpected parameters"))
	}
	ph := ps[0].Name
	var guards []string
	stmts := fn.Body.List
	for i, st := range stmts {
		if i == len(stmts)-1 {
			r, ok := st.(*ast.ReturnStmt)
			if !ok || len(r.Results) != 1 || sel(r.Results[0]) != "nil" {
				return fail(fmt.Errorf("last statement is not `return nil`"))
			}
			break
		}
		is, ok := st.(*ast.IfStmt)
		if !ok || is.Init != nil || is.Else != nil || len(is.Body.List) != 1 {
			return fail(fmt.Errorf("statement %d is not a plain guard", i))
		}
		r, ok := is.Body.List[0].(*ast.ReturnStmt)
		if !ok || len(r.Results) != 1 || sel(r.Results[0]) == "nil" {
			return fail(fmt.Errorf("guard %d does not return an error", i))
		}
		g, err := guardExpr(is.Cond, consts, ph)
		if err != nil {
			return fail(err)
		}
		guards = append(guards, "(!"+g+")")
	}
	if len(guards) == 0 {
		return fail(fmt.Errorf("no guards"))
	}
	return "def checkPageTranslated : Bool := true\ndef checkPageError : String := \"\"\n" + head + "\n  " + strings.Join(guards, " &&\n  ") + "\n"
}

// pageDataCodecs: the codecs `pageData` switches on (numeric ids), and whether every other codec ends in an
// error (a `default:` arm whose last statement returns a non-nil error).
func pageDataCodecsLean(repo string) string {
	fail := func(err error) string {
		return fmt.Sprintf("def pageDataTranslated : Bool := false\ndef pageDataError : String := %q\ndef pageDataCodecs : List Int := []\ndef pageDataDefaultErrors : Bool := false\n", err.Error())
	}
	consts, err := schemaConsts(repo)
	if err != nil {
		return fail(err)
	}
	_, f, err := parseFile(filepath.Join(repo, "fields.go"))
	if err != nil {
		return fail(err)
	}
	fn := findFunc(f, "", "pageData")
	if fn == nil {
		return fail(fmt.Errorf("func pageData not found"))
	}
	var sw *ast.SwitchStmt
	ast.Inspect(fn, func(n ast.Node) bool {
		if s, ok := n.(*ast.SwitchStmt); ok && sw == nil && s.Tag != nil && strings.HasSuffix(sel(s.Tag), ".Codec") {
			sw = s
		}
		return true
	})
	if sw == nil {
		return fail(fmt.Errorf("no switch on the chunk's codec in pageData"))
	}
	var ids []string
	defErr := false
	for _, st := range sw.Body.List {
		cc := st.(*ast.CaseClause)
		if cc.List == nil {
			if n := len(cc.Body); n > 0 {
				if r, ok := cc.Body[n-1].(*ast.ReturnStmt); ok && len(r.Results) == 2 && sel(r.Results[1]) != "nil" {
					defErr = true
				}
			}
			continue
		}
		for _, e := range cc.List {
			v, ok := consts[strings.TrimPrefix(sel(e), "sch.")]
			if !ok {
				return fail(fmt.Errorf("case %s is not a codec constant", sel(e)))
			}
			ids = append(ids, v)
		}
	}
	return fmt.Sprintf("def pageDataTranslated : Bool := true\ndef pageDataError : String := \"\"\n/-- the codec ids `pageData` handles; any other id: %s -/\ndef pageDataCodecs : List Int := [%s]\ndef pageDataDefaultErrors : Bool := %v\n",
		map[bool]string{true: "error", false: "NOT an error"}[defErr], strings.Join(ids, ", "), defErr)
}
