package main

import (
	"flag"
	"fmt"
	"os"
	"os/exec"
	"path/filepath"
)

var (
	repo   = flag.String("repo", "/repo", "repository root (working tree)")
	out    = flag.String("out", "", "directory for generated Lean files (PQ/Gen)")
	factsJ = flag.String("facts", "", "path of facts.json")
	bpgen  = flag.String("bitpackgen", "", "path of a bitpackgen binary built from the working tree (optional)")
)

func die(f string, a ...interface{}) {
	fmt.Fprintf(os.Stderr, "xlate: "+f+"\n", a...)
	os.Exit(2)
}

func writeIfChanged(path string, data []byte) {
	old, err := os.ReadFile(path)
	if err == nil && string(old) == string(data) {
		return
	}
	if err := os.WriteFile(path, data, 0o644); err != nil {
		die("%v", err)
	}
}

func main() {
	flag.Parse()
	if *out == "" {
		die("-out required")
	}
	os.MkdirAll(*out, 0o755)

	// 1. checked-in bit-pack tables
	src, err := os.ReadFile(filepath.Join(*repo, "internal/bitpack/bitpack.go"))
	if err != nil {
		die("%v", err)
	}
	lean, err := translateBitpack(src, "PQ.Gen.Bitpack")
	if err != nil {
		die("bitpack.go is outside the translated grammar: %v", err)
	}
	writeIfChanged(filepath.Join(*out, "Bitpack.lean"), []byte(lean))

	// 2. what cmd/bitpackgen produces today
	if *bpgen != "" {
		tmp, err := os.MkdirTemp("", "bpgen")
		if err != nil {
			die("%v", err)
		}
		defer os.RemoveAll(tmp)
		fresh := filepath.Join(tmp, "bitpack.go")
		cmd := exec.Command(*bpgen, "-package", "bitpack", "-maxwidth", "4", "-output", fresh)
		if o, err := cmd.CombinedOutput(); err != nil {
			die("bitpackgen failed: %v\n%s", err, o)
		}
		fsrc, err := os.ReadFile(fresh)
		if err != nil {
			die("%v", err)
		}
		flean, err := translateBitpack(fsrc, "PQ.Gen.BitpackFresh")
		if err != nil {
			die("bitpackgen output is outside the translated grammar: %v", err)
		}
		writeIfChanged(filepath.Join(*out, "BitpackFresh.lean"), []byte(flean))
	}

	// 3. constants, closed facts and call-site inventories
	facts, err := extractFacts(*repo)
	if err != nil {
		die("fact extraction: %v", err)
	}
	writeIfChanged(filepath.Join(*out, "Facts.lean"), []byte(facts.lean()))
	if *factsJ != "" {
		writeIfChanged(*factsJ, facts.json())
	}
}
