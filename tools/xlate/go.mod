module xlate

go 1.20
