#!/usr/bin/env python3
"""Apply each seeded change (seeded/<id>/patch.diff) to /repo, run the named checks, undo it.
usage: run_seeded.py <id> [checks...]   (default checks: the property named in meta.json)
Prints per check: exit code and VIOLATION/KNOWN lines. Never leaves /repo modified."""
import json, os, subprocess, sys
V = os.path.dirname(os.path.dirname(os.path.abspath(__file__)))
sid = sys.argv[1]
d = os.path.join(V, "seeded", sid)
meta = json.load(open(os.path.join(d, "meta.json")))
checks = sys.argv[2:] or [meta["property"]]
if checks == ["all"]:
    checks = ["C%02d" % i for i in range(1, 19)]
tier = os.environ.get("TRIAL_TIER", "quick")
st = subprocess.run(["git", "-C", "/repo", "status", "--porcelain"], capture_output=True, text=True).stdout.strip()
if st:
    print("refusing: /repo is not clean:\n" + st); sys.exit(2)
subprocess.run(["git", "-C", "/repo", "apply", os.path.join(d, "patch.diff")], check=True)
res = {}
try:
    for c in checks:
        p = subprocess.run([os.path.join(V, "check"), c, "--tier", tier], capture_output=True, text=True, timeout=3000)
        lines = [l for l in p.stdout.split("\n") if l.startswith("VIOLATION") or l.startswith("KNOWN")]
        res[c] = {"exit": p.returncode, "lines": [l[:220] for l in lines]}
        print(c, "exit", p.returncode)
        for l in lines[:4]:
            print("   ", l[:220])
finally:
    subprocess.run(["git", "-C", "/repo", "checkout", "--", "."], check=True)
    subprocess.run(["git", "-C", "/repo", "clean", "-fdq", "--", ".", ":!verif_hooks.go"], check=False)
json.dump(res, open(os.path.join(d, "trial_%s.json" % tier), "w"), indent=1)
