#!/bin/bash
# usage: confirm_mutation.sh <worktree> <demo command...>
# confirms: with change -> build ok, suite ok, demo fails; without -> demo passes. Leaves the change applied.
set -u
W=$1; shift
export GOFLAGS=-mod=mod GOPROXY=off GOSUMDB=off GOTOOLCHAIN=local
cd "$W" || exit 2
echo "== with change: build"; go build ./... && echo build-ok || { echo build-FAILED; exit 1; }
echo "== with change: suite"; go test -vet=off -count=1 ./... 2>&1 | grep -v "no test files" | grep -v "^ok" | head -5; go test -vet=off -count=1 ./... >/dev/null 2>&1 && echo suite-ok || echo suite-FAILED
echo "== with change: demo"; ( "$@" ) >/tmp/mut/demo_with.log 2>&1; echo "demo exit=$?"; tail -3 /tmp/mut/demo_with.log
echo "== without change: demo"; git apply -R _mutation/patch.diff || { echo cannot-revert; exit 1; }
( "$@" ) >/tmp/mut/demo_without.log 2>&1; echo "demo exit=$?"; tail -2 /tmp/mut/demo_without.log
git apply _mutation/patch.diff
