#!/usr/bin/env python3
"""Writes MANIFEST.json from the table below (kept in one place so it stays valid)."""
import json, os
HERE = os.path.dirname(os.path.dirname(os.path.abspath(__file__)))
ALL = ["C%02d" % i for i in range(1, 19)]

CHECKS = {}

def add(pid, category, text, note, technique, design):
    CHECKS[pid] = {
        "property_id": pid,
        "quick_cmd": "./check %s --tier quick" % pid,
        "thorough_cmd": "./check %s --tier thorough" % pid,
        "evidence_file": "evidence/%s.json" % pid,
        "replay_cmd_template": "./check %s --replay {path}" % pid,
        "engine": "lean-model",
        "level_claimed": {"category": category, "text": text, "design_ref": design},
        "level_note": note,
        "technique": technique,
    }

exec(open(os.path.join(HERE, "tools", "manifest_entries.py")).read())

m = {
    "version": 1,
    "setup_cmd": "./setup.sh",
    "hooks": {
        "guard": "verif",
        "enable": "go build -tags verif (harness module with `replace github.com/parsyl/parquet => /repo`)",
        "baseline_off_cmd": "cd /repo && GOFLAGS=-mod=mod go test -json -vet=off -count=1 -timeout 25m ./...",
        "source_commits": HOOK_COMMITS,
        "add_only": True,
    },
    "engines": [{
        "name": "lean-model", "path": "lean/",
        "serves_properties": sorted(CHECKS),
        "kind_free_text": "Lean 4 model (PQ/Model), theorems (PQ/Props), regenerated translation (PQ/Gen via tools/xlate), differential correspondence with the Go implementation (harness/cmd/pqh vs lean pqdriver), orchestrated by tools/orch",
    }],
    "checks": [CHECKS[k] for k in sorted(CHECKS)],
    "notes": NOTES,
    "not_applicable": [{"property_id": p, "reason": NA.get(p, "check not built yet in this session; no claim is made")} for p in ALL if p not in CHECKS],
}
json.dump(m, open(os.path.join(HERE, "MANIFEST.json"), "w"), indent=1)
print("wrote MANIFEST.json with", len(CHECKS), "checks")
