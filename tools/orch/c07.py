"""C07 — level streams are valid RLE/bit-packed hybrid; encode and decode are inverses."""
import itertools, json
import common
from common import Pair, proof_stage, rebuild_tools, build_pqh, Lock, TRUSTED_BASE

MODULE = "PQ.Props.C07"
THEOREMS = ["PQ.C07." + t for t in (
    "encode_struct", "encode_wf", "spec_decode_encode", "spec_decode_wf", "impl_decode_wf", "impl_decode_encode",
    "pack_is_spec", "leb128_is_uleb", "writeBuffer_abs", "write_appends", "backpatch_is_set", "header_in_bounds")]


def unh(s):
    return b"" if s == "-" else bytes.fromhex(s)


def hexs(vals):
    return "".join("%02x" % v for v in vals) or "-"


def gen_sequences(chk, thorough):
    """(w, levels) for the encoder side"""
    out = []
    exh = {1: 10, 2: 7, 3: 5, 4: 4}
    if thorough:
        exh = {1: 13, 2: 8, 3: 6, 4: 5}
    for w, L in exh.items():
        for n in range(0, L + 1):
            for t in itertools.product(range(1 << w), repeat=n):
                out.append((w, list(t)))
    # run-structured sequences around the 8-value, 63-group and multi-byte-header boundaries
    pts = [0, 1, 6, 7, 8, 9, 15, 16, 17]
    # 63..72: RLE headers around the one-byte varint limit (run of 64 = header 0x80); 8191..8264: two-byte limit
    big = [63, 64, 65, 71, 72, 495, 496, 503, 504, 505, 511, 512, 513, 1007, 1008, 1009, 8191, 8192, 8193, 8199, 8200, 8255, 8256, 8264]
    for w in (1, 2, 3, 4):
        m = 1 << w
        for a in pts + big:
            for b in (pts if a < 2000 else [0, 7]):
                for c in ((0, 1, 7, 8, 9) if a < 2000 else (0, 8)):
                    x, y = chk.rng.randrange(m), chk.rng.randrange(m)
                    mixed = [(i % (m - 1)) + 1 if m > 2 else i % 2 for i in range(b)]
                    out.append((w, [x] * a + mixed + [y] * c))
                    # non-repeating prefix of length a (forces bit-packed groups), then a long run
                    nr = [(i % m) for i in range(a)]
                    if m == 2:
                        nr = [(i // 3) % 2 for i in range(a)]
                    out.append((w, nr + [y] * (b + c) + mixed))
        for n in ((1 << 14) - 1, 1 << 14, (1 << 14) + 9):
            out.append((w, [m - 1] * n))          # multi-byte RLE header
            out.append((w, [0] * n + [1]))
    # RLE runs whose header needs three and four bytes (2^13, 2^20 repeats): a page of a million equal levels
    for w, n in ((1, (1 << 20) - 1), (2, 1 << 20), (3, (1 << 20) + 9), (4, (1 << 20) + 5), (1, (1 << 13) + 3), (3, 1 << 13)):
        out.append((w, [1] * n))
        out.append((w, [0, 1, 0] + [(1 << w) - 1] * n + [0]))
    n = 30000 if thorough else 6000
    for _ in range(n):
        w = chk.rng.randrange(1, 5)
        m = 1 << w
        ln = chk.rng.choice([chk.rng.randrange(0, 40), chk.rng.randrange(0, 40), chk.rng.randrange(480, 560), chk.rng.randrange(0, 1200)])
        xs = []
        while len(xs) < ln:
            v = chk.rng.randrange(m)
            k = chk.rng.choice([1, 1, 1, chk.rng.randrange(1, 13), chk.rng.randrange(7, 10), chk.rng.randrange(1, 80)])
            xs += [v] * k
        out.append((w, xs[:ln]))
    return out


def gen_runs(chk, thorough):
    """(w, runs-text) well-formed run lists for the decoder side (foreign encodings)"""
    out = []
    n = 20000 if thorough else 4000
    for i in range(n):
        w = chk.rng.randrange(1, 5)
        m = 1 << w
        k = chk.rng.randrange(1, 6)
        runs = []
        for _ in range(k):
            if chk.rng.random() < 0.5:
                c = chk.rng.choice([1, 2, 7, 8, 9, 63, 64, 127, 128, 129, chk.rng.randrange(1, 300),
                                    1 << 13, (1 << 13) + 1, 1 << 20, (1 << 21) - 1])
                if c > 5000 and chk.rng.random() < 0.97:
                    c = chk.rng.randrange(1, 200)
                runs.append("r%d:%d" % (c, chk.rng.randrange(m)))
            else:
                g = chk.rng.choice([1, 1, 2, 3, 62, 63, 64, 65, 127, 128, 200, chk.rng.randrange(1, 100)])
                if g > 20 and chk.rng.random() < 0.7:
                    g = chk.rng.randrange(1, 6)
                runs.append("p" + hexs([chk.rng.randrange(m) for _ in range(8 * g)]))
        out.append((w, ",".join(runs)))
    for w in (1, 2, 3, 4):
        out.append((w, "-"))
        out.append((w, "r1:0"))
        out.append((w, "p" + hexs([1] * 8 * 64)))
        out.append((w, "p" + hexs([(1 << w) - 1] * 8 * 130) + ",r70000:1"))
    return out


def mutate(chk, b):
    b = list(b)
    k = chk.rng.randrange(6)
    if k == 0 and len(b) > 4:
        b = b[:chk.rng.randrange(0, len(b))]                      # truncate
    elif k == 1 and len(b) > 4:
        i = chk.rng.randrange(4, len(b)); b[i] ^= 1 << chk.rng.randrange(8)   # flip a body bit
    elif k == 2 and len(b) > 4:
        i = chk.rng.randrange(4, len(b)); b[i:i] = [1]            # zero-group bit-packed run
    elif k == 3 and len(b) >= 4:
        b[0] = (b[0] + chk.rng.choice([1, 2, 255, 254])) % 256      # wrong length prefix
    elif k == 4 and len(b) > 4:
        b = b + [chk.rng.randrange(256) for _ in range(chk.rng.randrange(1, 4))]   # trailing bytes (rest)
    else:
        b = [chk.rng.randrange(256) for _ in range(chk.rng.randrange(0, 12))]
        if len(b) >= 4:
            b[1] = b[2] = b[3] = 0
            b[0] %= 16
    # keep allocations small: cap the length prefix and RLE counts by construction
    if len(b) >= 4 and (b[1] or b[2] or b[3]):
        b[1], b[2], b[3] = b[1] % 4, 0, 0
    return b


def bounded_headers(b, w):
    """malformed streams may carry huge run counts (memory/time in both implementations); walk the
    stream as the decoder does and keep only streams whose run headers stay small"""
    if len(b) < 4:
        return True
    n = b[0] | b[1] << 8 | b[2] << 16 | b[3] << 24
    if n > 512:
        return False
    body = list(b[4:4 + n]) + [0] * max(0, n - len(b[4:4 + n]))
    i = 0
    while i < len(body):
        v, s = 0, 0
        while True:
            if i >= len(body) or s > 14:
                return s <= 14
            x = body[i]; i += 1
            v |= (x & 0x7f) << s
            s += 7
            if not (x & 0x80):
                break
        if v > (1 << 11):
            return False
        if v & 1:
            i += w * (v >> 1)
        else:
            i += 1
    return True


def run(chk):
    thorough = chk.tier == "thorough"
    cov = {"steps": {}}
    with Lock():
        cov["steps"] = rebuild_tools(chk.log)
        build_pqh(chk.log)
        pr = proof_stage(chk, MODULE, THEOREMS)
    pair = Pair(chk.log)
    tie_breaks, prop_fail = [], []
    nontrivial = set()
    dist = {"enc_len": {}, "run_kinds": {"rle": 0, "packed": 0}, "malformed": {"ok": 0, "err": 0, "panic": 0}}

    # ---------- encoder side
    seqs = gen_sequences(chk, thorough)
    enc_ops = ["rle-enc %d %s" % (w, hexs(xs)) for w, xs in seqs]
    impl = common.chunked_parallel(pair.impl, enc_ops, workers=8, chunk=8000)
    model = common.chunked_parallel(pair.model, enc_ops, workers=8, chunk=8000)
    ok_idx = [i for i, a in enumerate(impl) if a not in ("err", "panic", "crash")]
    spec_ops = ["rle-spec %d %s" % (seqs[i][0], impl[i]) for i in ok_idx]
    spec = dict(zip(ok_idx, common.chunked_parallel(pair.model, spec_ops, workers=8, chunk=8000)))
    dec_ops = ["rle-dec %d %s" % (seqs[i][0], impl[i]) for i in ok_idx]
    idec = dict(zip(ok_idx, common.chunked_parallel(pair.impl, dec_ops, workers=8, chunk=8000)))
    for i, (o, a, b) in enumerate(zip(enc_ops, impl, model)):
        w, xs = seqs[i]
        if a != b:
            tie_breaks.append({"op": o, "impl": a, "model": b})
        b_ = min(len(xs), 600) // 50
        dist["enc_len"][b_ * 50] = dist["enc_len"].get(b_ * 50, 0) + 1
        if a in ("err", "panic", "crash"):
            prop_fail.append({"op": o, "impl": a, "clause": "encoder failed on a legal level sequence"})
            continue
        # the property, evaluated on the implementation's bytes by the specification decoder
        s = spec[i].split(" ")
        good = False
        if s[0] == "ok":
            got = unh(s[1])
            good = (int(s[2]) == len(unh(a)) and got[:len(xs)] == bytes(xs) and len(got) - len(xs) < 8
                    and not any(got[len(xs):]))
        if not good:
            prop_fail.append({"op": o, "impl": a, "spec_decode": spec[i], "clause": "output is not a well-formed hybrid stream decoding to the input (+ <8 zero padding)"})
        d = idec[i].split(" ")
        if not (d[0] == "ok" and d[1] == (s[1] if s[0] == "ok" else None) and int(d[2]) == len(unh(a))):
            prop_fail.append({"op": o, "impl": a, "impl_decode": idec[i], "clause": "library decoder does not invert the library encoder"})
        if len(set(xs)) > 1 or len(xs) >= 8:
            nontrivial.add(o)

    # ---------- decoder side: foreign well-formed encodings
    runs = gen_runs(chk, thorough)
    ser_ops = ["rle-ser %d %s" % (w, r) for w, r in runs]
    ser = common.chunked_parallel(pair.model, ser_ops, workers=8, chunk=2000)
    dops, dmeta = [], []
    for (w, r), s in zip(runs, ser):
        stream, vals = (s.split(" ") + [""])[:2]
        for rest in ("", "ff", "0000000000"):
            dops.append("rle-dec %d %s" % (w, hexs(unh(stream) + unh(rest or "-")))); dmeta.append((w, r, stream, vals))
        for x in r.split(","):
            if x.startswith("r"): dist["run_kinds"]["rle"] += 1
            elif x.startswith("p"): dist["run_kinds"]["packed"] += 1
    dimpl = common.chunked_parallel(pair.impl, dops, workers=8, chunk=250)
    dmodel = common.chunked_parallel(pair.model, dops, workers=8, chunk=250)      # runs of up to 2^21 values: keep a driver process small
    for o, a, b, (w, r, stream, vals) in zip(dops, dimpl, dmodel, dmeta):
        if a != b:
            tie_breaks.append({"op": o[:300], "runs": r[:300], "impl": a[:300], "model": b[:300]})
        want = "ok %s %d" % (vals, len(unh(stream)))
        if a != want:
            prop_fail.append({"op": o[:600], "runs": r[:600], "impl": a[:300], "want": want[:300],
                              "clause": "library decoder rejects or mis-decodes a well-formed stream / consumes the wrong number of bytes"})
        nontrivial.add("dec " + r[:80])

    # ---------- malformed stream: model and code must agree on ok/err/panic and values
    mops = []
    base = [s.split(" ")[0] for s in ser[: (6000 if thorough else 1500)]]
    for i, st in enumerate(base):
        b = mutate(chk, unh(st)[:400])
        if len(b) > 400 or not bounded_headers(b, runs[i][0]):
            continue
        mops.append("rle-dec %d %s" % (runs[i][0], hexs(b)))
    mimpl = common.chunked_parallel(pair.impl, mops, workers=8, chunk=500)
    mmodel = common.chunked_parallel(pair.model, mops, workers=8, chunk=500)
    for o, a, b in zip(mops, mimpl, mmodel):
        dist["malformed"][a.split(" ")[0] if a.split(" ")[0] in dist["malformed"] else "err"] += 1
        if a != b:
            tie_breaks.append({"op": o, "impl": a[:300], "model": b[:300], "stream": "malformed"})

    total = len(enc_ops) + len(dops) + len(mops)
    cov.update({
        "obligations": pr["obligations"], "discharged": pr["discharged"], "axioms": pr["axioms"],
        "checker_cmd": "cd lean && lake build %s  (then `#print axioms` on each theorem; grep for sorry/admit/axiom/native_decide/bv_decide)" % MODULE,
        "trusted_base": TRUSTED_BASE, "forbidden_constructs": pr["forbidden_constructs"],
        "evaluations": total, "distinct_nontrivial": len(nontrivial),
        "rule": "encoder: all level sequences up to a per-width length bound (exhaustive), run-structured sequences around 8 values / 63 groups / 2^14 repeats, seeded random; decoder: seeded random well-formed run lists (RLE counts to 2^21, bit-packed runs to 200 groups) serialised by the specification serialiser, each with three continuations; malformed: mutated streams. non-trivial = distinct sequence with >1 distinct value or >= 8 values, or distinct run list",
        "samples": [enc_ops[5], enc_ops[len(enc_ops) // 2][:200], ser_ops[0][:200], (mops or ["-"])[0][:200]],
        "input_distribution": dist,
        "tie": "exact: PQ.encode vs writeLevels, PQ.implDecode vs readLevels (verif hooks VerifRLEEncode/VerifRLEDecode), incl. err/panic on malformed input",
        "tie_disagreements": len(tie_breaks), "property_failures_on_impl": len(prop_fail),
        "traces_validated_against_impl": total,
    })
    if prop_fail:
        chk.violation("violation", {"theorem_or_tie": "C07 evaluated on the implementation (specification decoder / specification serialiser as oracle)",
                                    "failures": prop_fail[:20], "input": prop_fail[0]["op"][:2000],
                                    "oracle": {"name": prop_fail[0]["clause"], "verdict": "fails"}}, tag="impl")
    if cov["steps"].get("xlate") != "ok":
        chk.violation("tie-broken", {"theorem_or_tie": "translator/fact extractor tools/xlate", "detail": cov["steps"].get("xlate")},
                      found_input=bool(prop_fail), tag="xlate")
    elif not pr["ok"]:
        chk.violation("proof-broken", {"theorem_or_tie": pr["failed"] or pr["forbidden_constructs"], "build_output": pr["build_output"]},
                      found_input=bool(prop_fail), tag="proof")
    if tie_breaks and not prop_fail:
        chk.violation("tie-broken", {"theorem_or_tie": "PQ.encode/PQ.implDecode vs internal/rle", "disagreements": tie_breaks[:20]},
                      found_input=False, tag="tie")
    return chk.finish("proof", cov, [
        "widths 1..4 (rle.New rejects more); values < 2^w; length bound xs.length + 8 <= 2^30 in the decode theorems",
        "the glue writeLevels/readLevels is exercised through the hooks; the page-level use (bits.Len width, level sections inside pages) is covered by the file-level checks C02/C03/C04"])


def replay(chk, path):
    body = json.load(open(path))
    print(json.dumps(body, indent=1)[:4000])
    return run(chk)
