"""C10 — a failed read or seek never turns into silently wrong rows."""
import json, re
import common, zoo as zoolib, filelevel, workloads, iocommon
from common import Pair, proof_stage, rebuild_tools, build_pqh, build_zoo, Lock, TRUSTED_BASE

MODULE = "PQ.Props.C10"
THEOREMS = ["PQ.C10." + t for t in ("source_sites_propagate", "source_calls_propagate", "next_reports", "source_inventory_covers",
    "next_within_rowgroup_src_indep", "inside_not_touching", "nextF_not_touching", "nextF_fault", "next_load_error_eq_fault")]
EXTRA_MODULES = ["PQ.Lemmas.FaultRT", "PQ.Lemmas.FaultRTW"]
EXTRA_THEOREMS = ["PQ.readOutcomeF_specWrite", "PQ.readOutcomeF_gen", "PQ.outLoopF_good_then_fault", "PQ.outLoopF_fault_now", "PQ.readOutcomeF_open",
                  "PQ.readOutcomeF_runWriter", "PQ.outLoopF_batches", "PQ.outLoopF_ge", "PQ.readOutcomeF_ge"]


def phases(trace):
    out = []
    if trace == "-":
        return out
    for part in trace.split(","):
        name, n = part.split("*")
        out += [name] * int(n)
    return out


def run(chk):
    thorough = chk.tier == "thorough"
    cov = {"steps": {}}
    with Lock():
        cov["steps"] = rebuild_tools(chk.log)
        cov["steps"]["zoo"] = build_zoo(chk.log)
        build_pqh(chk.log)
        pr = proof_stage(chk, MODULE, THEOREMS + EXTRA_THEOREMS, EXTRA_MODULES, audit_imports=EXTRA_MODULES)
    pair = Pair(chk.log)
    zs = filelevel.load_zoos(pair, workloads.ZOOS)
    cases = iocommon.corpus(chk, pair, zs, thorough, per_zoo=(2 if thorough else 1))
    traces = common.chunked_parallel(pair.impl, ["zoo-read %s %s trace" % (c.zoo.name, c.impl_file) for c in cases], workers=8, chunk=50)
    ops, meta = [], []
    tie_breaks, prop_fail = [], []
    # the fault model (PQ/Model/Fault.lean): the outcome depends only on which source-touching API call fails
    # (0 = constructor, j = the j-th Next that loads a row group); one model run per such call and workload
    fault_ops, fault_idx, loadcalls = [], {}, {}
    for ci, (c, t) in enumerate(zip(cases, traces)):
        m = re.search(r"trace=(\S+)", t)
        ph = phases(m.group(1)) if m else []
        js = sorted(set(int(x[4:]) for x in ph if x != "open"))
        loadcalls[ci] = js
        for tc in range(len(js) + 1):
            fault_idx[(ci, tc)] = len(fault_ops)
            fault_ops.append("read-fault %s %s %s %d" % (c.zoo.cols_text, c.impl_file, (",".join("%s=%s" % kv for kv in c.dtab.items()) or "-"), tc))
    fault_model = common.chunked_parallel(pair.model, fault_ops, workers=8, chunk=40)
    case_index = {id(c): ci for ci, c in enumerate(cases)}
    model_checked = 0
    for c, t in zip(cases, traces):
        if filelevel.strip_calls(t) != c.model_read:
            tie_breaks.append({"case": c.key()[:400], "what": "reader", "impl": filelevel.strip_calls(t)[:200], "model": c.model_read[:200]})
        m = re.search(r"trace=(\S+)", t)
        ph = phases(m.group(1)) if m else []
        n = len(ph)
        ks = range(1, n + 1)
        if not thorough and n > 260:
            ks = sorted(set(list(range(1, 120)) + list(range(120, n + 1, 5)) + [n - 1, n]))
        for k in ks:
            ops.append("zoo-read %s %s fail=%d" % (c.zoo.name, c.impl_file, k)); meta.append((c, k, ph[k - 1], False))
            # the failing Read hands over its bytes together with the error (legal for an io.Reader; io.ReadFull
            # then drops the error when the request is complete): the rows must be right or the error reported
            if k % (1 if thorough else 3) == 0:
                ops.append("zoo-read %s %s faild=%d" % (c.zoo.name, c.impl_file, k)); meta.append((c, k, ph[k - 1], True))
            # the failing call reports io.EOF: a source that ends early is a failed read like any other
            if k % (1 if thorough else 2) == 0:
                ops.append("zoo-read %s %s faile=%d" % (c.zoo.name, c.impl_file, k)); meta.append((c, k, ph[k - 1], False))
    res = common.chunked_parallel(pair.impl, ops, workers=8, chunk=300)
    nontrivial = set()
    for (c, k, ph, with_data), r in zip(meta, res):
        got = filelevel.strip_calls(r)
        want_recs = filelevel.expected_read(c).split("recs=")[1].split(";")
        # predicted from the fault-free trace: the API call during which call k happens reports the error
        if ph == "open":
            ok = got.startswith("open=err")
            want = "open=err"
        else:
            j = int(ph[4:])                       # failure during the j-th Next
            f = dict(p.split("=", 1) for p in got.split(" ") if "=" in p)      # "crash"/"panic"/"oversize:.." carry no fields
            recs = [] if f.get("recs", "-") == "-" else f["recs"].split(";")
            ok = (f.get("open") == "ok" and f.get("err") == "err" and int(f.get("nexts", -1)) == j - 1 and recs == want_recs[:j - 1])
            want = "open=ok nexts=%d err=err and the first %d rows correct" % (j - 1, j - 1)
        if not ok and with_data and got == filelevel.expected_read(c):
            ok = True            # the data arrived in full: a complete and correct read is as good as a reported error
        # exact tie with the fault model: the line the generated reader prints = readAllF at the touching-call index
        ci = case_index[id(c)]
        tc = 0 if ph == "open" else 1 + loadcalls[ci].index(int(ph[4:]))
        want_model = fault_model[fault_idx[(ci, tc)]]
        model_checked += 1
        if got != want_model and not (with_data and got == filelevel.expected_read(c)):
            if len(tie_breaks) < 40:
                tie_breaks.append({"case": c.key()[:400] + " fail=%d (during %s, touching call %d)" % (k, ph, tc), "what": "fault model (readAllF)",
                                   "impl": got[:200], "model": want_model[:200]})
        if not ok:
            outcome = "panic" if "panic" in got else got.split(" recs=")[0]
            prop_fail.append({"case": c.key()[:2000] + " fail%s=%d (during %s)" % ("d" if with_data else "", k, ph), "key": {"phase": "open" if ph == "open" else "next", "outcome": outcome[:60], "codec": c.codec, "with_data": with_data},
                              "clause": "source failure at call %d (during %s) not reported / wrong rows delivered" % (k, ph), "got": got[:400], "want": want})
        else:
            nontrivial.add((c.m_ops, c.codec, k, with_data))
    cov.update({
        "obligations": pr["obligations"], "discharged": pr["discharged"], "axioms": pr["axioms"],
        "checker_cmd": "cd lean && lake build %s" % MODULE, "trusted_base": TRUSTED_BASE, "forbidden_constructs": pr["forbidden_constructs"],
        "evaluations": len(ops), "distinct_nontrivial": len(nontrivial), "exhaustive": bool(thorough), "workloads": len(cases),
        "rule": "for every workload (8 structs x 3 codecs) a fault-free traced run maps each Read/Seek call index k of the source to the API call it occurs in (open, j-th Next); then the source fails at call k for every k (thorough) / every k < 120 and every 5th beyond (quick); the constructor must fail for faults during open, otherwise Next must be false with Error() != nil after exactly the first j-1 correct rows; never a panic; the same with the error value io.EOF; the same with a failing Read that delivers its bytes together with the error (then a complete correct read is also accepted); non-trivial = distinct (workload, k) with the predicted outcome",
        "samples": [ops[0][:160], ops[len(ops) // 2][:160]],
        "tie": "reader model = generated reader on the fault-free run; per-k outcome = prediction from the fault-free trace; exact: the generated reader's result line under a fault at call k = the fault model's (readAllF, PQ/Model/Fault.lean) at the source-touching API call that call k belongs to",
        "tie_disagreements": len(tie_breaks), "property_failures_on_impl": len(prop_fail),
        "traces_validated_against_impl": len(ops), "fault_model_runs": len(fault_ops), "fault_model_comparisons": model_checked,
    })
    return common.verdict(chk, cov, pr, prop_fail, tie_breaks, "C10", "reader model vs generated reader", [
        "call-site inventories are syntactic (go/ast)", "thrift library's error propagation is trusted (exercised by the fault runs)"])


def replay(chk, path):
    body = json.load(open(path))
    print(json.dumps(body, indent=1)[:4000])
    return run(chk)
