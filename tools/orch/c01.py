"""C01 — write-then-read returns exactly the records that were added."""
import json
import common, zoo as zoolib, filelevel, workloads
from common import Pair, proof_stage, rebuild_tools, build_pqh, build_zoo, Lock, TRUSTED_BASE

MODULE = "PQ.Props.C01"
THEOREMS = ["PQ.C01.levels_roundtrip", "PQ.C01.records_roundtrip", "PQ.C01.header_roundtrip", "PQ.C01.values_roundtrip", "PQ.C01.page_roundtrip", "PQ.C01.roundtrip", "PQ.C01.scan_is_projection", "PQ.readAll_runWriter", "PQ.readAll_text_runWriter", "PQ.readChunk_chunk"]


def run(chk):
    thorough = chk.tier == "thorough"
    cov = {"steps": {}}
    with Lock():
        cov["steps"] = rebuild_tools(chk.log)
        cov["steps"]["zoo"] = build_zoo(chk.log)
        build_pqh(chk.log)
        pr = proof_stage(chk, MODULE, THEOREMS)
    pair = Pair(chk.log)
    zs = filelevel.load_zoos(pair, workloads.ZOOS)
    raw, meta = workloads.file_cases(chk, zs, thorough, large=True)
    cases = [filelevel.Case(z, mx, codec, ops, tag) for z, mx, codec, ops, tag in raw]
    cases.sort(key=lambda c: -len(c.go_ops))      # big cases first so that they spread over the workers
    filelevel.run_cases(pair, cases, want_parse=False)

    tie_breaks, prop_fail, tags = [], [], {}
    nontrivial = set()
    nrec = 0
    for c in cases:
        tags[c.zoo.name + "/" + c.tag] = tags.get(c.zoo.name + "/" + c.tag, 0) + 1
        nrec += sum(1 for o in c.ops if o[0] == "a")
        got = filelevel.strip_calls(c.impl_read)
        if c.impl_file != c.model_file or c.impl_calls != c.model_calls:
            tie_breaks.append({"case": c.key()[:600], "what": "writer bytes / sink calls",
                               "first_diff": next((i for i, (a, b) in enumerate(zip(c.impl_file, c.model_file)) if a != b), -1) // 2})
        if got != c.model_read:
            tie_breaks.append({"case": c.key()[:600], "what": "reader", "impl": got[:300], "model": c.model_read[:300]})
        want = filelevel.expected_read(c)
        if got != want:
            # locate the first differing record / column for the key
            where = "status"
            gr, wr = got.split("recs=")[-1].split(";"), want.split("recs=")[-1].split(";")
            for i, (a, b) in enumerate(zip(gr, wr)):
                if a != b:
                    cols = [k for k, (x, y) in enumerate(zip(a.split("|"), b.split("|"))) if x != y]
                    where = "column %s" % (c.zoo.cols[cols[0]][0],) if cols else "record %d" % i
                    break
            prop_fail.append({"case": c.key()[:3000], "key": {"zoo": c.zoo.name, "where": where},
                              "clause": "records read back differ from the records added (%s)" % where, "got": got[:800], "want": want[:800]})
        else:
            nontrivial.add(c.m_ops)

    # aliasing clauses (runtime memory aliasing: exploration only)
    alias_ops = []
    for c in cases[:: max(1, len(cases) // (400 if thorough else 120))]:
        alias_ops.append((c, "zoo-alias %s %d %d %s" % (c.zoo.name, c.max, c.codec, c.go_ops)))
    alias_res = common.chunked_parallel(pair.impl, [o for _, o in alias_ops], workers=8, chunk=50)
    alias_fail = 0
    for (c, o), r in zip(alias_ops, alias_res):
        if r != "ok":
            alias_fail += 1
            prop_fail.append({"case": c.key()[:3000], "key": {"zoo": c.zoo.name, "where": "aliasing:" + r.split(" ")[0]},
                              "clause": "aliasing: " + r[:300], "got": r[:300], "want": "ok"})

    cov.update({
        "obligations": pr["obligations"], "discharged": pr["discharged"], "axioms": pr["axioms"],
        "checker_cmd": "cd lean && lake build %s" % MODULE, "trusted_base": TRUSTED_BASE, "forbidden_constructs": pr["forbidden_constructs"],
        "evaluations": len(cases) + len(alias_ops), "distinct_nontrivial": len(nontrivial), "records_written_and_read": nrec,
        "rule": "per zoo struct (three, flat = 8 types x required/optional/repeated, person, doc, nested): structural enumeration of records (every nil/non-nil and list-length combination, exhaustive or evenly sampled), seeded random records with boundary values (min/max ints, ±0, ±Inf, NaN payloads, empty/long/non-UTF8 strings, long lists), partitions with batch sizes around the page boundary, page sizes 1..16 and 1000, all three codecs; non-trivial = distinct history whose read-back equals the input",
        "samples": [cases[i].key()[:300] for i in (0, len(cases) // 2, len(cases) - 1)],
        "input_distribution": tags, "structural_enumeration": meta,
        "aliasing_runs": len(alias_ops), "aliasing_failures": alias_fail,
        "tie": "exact: model writer bytes = generated writer's; model reader result = generated reader's on the same bytes",
        "tie_disagreements": len(tie_breaks), "property_failures_on_impl": len(prop_fail),
        "traces_validated_against_impl": len(cases),
    })
    return common.verdict(chk, cov, pr, prop_fail, tie_breaks, "C01", "PQ writer/reader model vs generated code (all zoo structs)",
                          ["floats compared as bit patterns; nil slice = empty slice",
                           "the two aliasing clauses (mutation after Add; scanned records unchanged by later reads) are runtime memory-aliasing facts the pure model cannot exhibit: explored by the harness only (partial)"])


def replay(chk, path):
    body = json.load(open(path))
    print(json.dumps(body, indent=1)[:4000])
    return run(chk)
