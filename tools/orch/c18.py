"""C18 — files outside the supported subset are refused, not misread."""
import json
import common, zoo as zoolib, filelevel, workloads
from common import Pair, proof_stage, rebuild_tools, build_pqh, build_zoo, Lock, TRUSTED_BASE

MODULE = "PQ.Props.C18"
# whole-file form (PQ/Lemmas/ForeignMut.lean): a file of the independent writer with ONE unsupported feature at any
# row group / column / existing page is refused: the rows of earlier row groups are delivered, then an error
EXTRA_MODULES = ["PQ.Lemmas.ForeignMut"]
EXTRA_THEOREMS = ["PQ.readOutcome_specWrite_mutated", "PQ.readOutcome_specWrite_mutated_page0", "PQ.readOutcome_specWrite_codec",
                  "PQ.readAll_specWrite_mutated", "PQ.readOutcome_of_entries", "PQ.next_true_err", "PQ.readAll_of_refused"]
THEOREMS = ["PQ.C18." + t for t in ("checkPage_translated", "checkPage_eq_source", "pageData_codecs_source", "checkPage_spec", "checked_page_total", "required_refuses", "optional_refuses", "codec_refused")]

MUTS = ["dict", "index", "v2", "valenc:2", "valenc:3", "valenc:4", "valenc:5", "valenc:6", "valenc:7", "valenc:8", "valenc:9",
        "defenc:4", "defenc:0", "repenc:4", "repenc:0", "codec:3", "codec:4", "codec:5", "codec:6", "codec:7"]


def has_levels(col, kind):
    reps = col[1]
    if kind.startswith("defenc"):
        return set(reps) != {"r"}
    if kind.startswith("repenc"):
        return "m" in reps
    return True


def run(chk):
    thorough = chk.tier == "thorough"
    cov = {"steps": {}}
    with Lock():
        cov["steps"] = rebuild_tools(chk.log)
        cov["steps"]["zoo"] = build_zoo(chk.log)
        build_pqh(chk.log)
        pr = proof_stage(chk, MODULE, THEOREMS + EXTRA_THEOREMS, EXTRA_MODULES, audit_imports=EXTRA_MODULES)
    pair = Pair(chk.log)
    zs = filelevel.load_zoos(pair, workloads.ZOOS)
    rng = chk.rng
    ops, meta = [], []
    for name in workloads.ZOOS:
        z = zs.get(name)
        if z is None:
            continue
        g = zoolib.Gen(rng, mode="mixed")
        nfiles = 4 if thorough else 1
        for fi in range(nfiles):
            rgs = [[g.record(z.nodes) for _ in range(rng.choice([3, 4, 6]))] for _ in range(2)]
            rtxt = "/".join(";".join(z.proj(r) for r in gr) for gr in rgs)
            base_codec = fi % 3
            for kind in MUTS:
                cols = [i for i, c in enumerate(z.cols) if has_levels(c, kind)]
                if not cols:
                    continue
                # every column in thorough; a rotating sample in quick; both row groups; first and a later page
                pick = cols if thorough else [cols[(MUTS.index(kind) + k) % len(cols)] for k in range(min(3, len(cols)))]
                for ci in dict.fromkeys(pick):
                    for rg in (0, 1):
                        for page in (0, 1):
                            seed = rng.randrange(1 << 30)
                            ops.append("specwrite %s %s sx %d %d,%d,%d,%s %s" % (z.cols_text, ",".join([str(base_codec)] * len(z.cols)), seed, rg, ci, page, kind, rtxt))
                            meta.append((z, kind, rg, ci, page, rgs))
    sw = common.chunked_parallel(pair.model, ops, workers=16, chunk=8)
    files = [(s.split(" ") + ["-"])[:2] for s in sw]
    # reference: the same file without the mutation (same seed): if identical, the page index did not exist -> skip
    ref_ops = [o.replace(" %d,%d,%d,%s " % (m[2], m[3], m[4], m[1]), " - ") for o, m in zip(ops, meta)]
    ref = common.chunked_parallel(pair.model, ref_ops, workers=16, chunk=8)
    impl = common.chunked_parallel(pair.impl, ["zoo-read %s %s" % (m[0].name, f[0]) for m, f in zip(meta, files)], workers=16, chunk=8)
    model = common.chunked_parallel(pair.model, ["read %s %s %s" % (m[0].cols_text, f[0], f[1]) for m, f in zip(meta, files)], workers=16, chunk=8)
    tie_breaks, prop_fail = [], []
    nontrivial = set()
    dist = {}
    applied = 0
    for o, (z, kind, rg, ci, page, rgs), f, r, a, b in zip(ops, meta, files, ref, impl, model):
        if f[0] == r.split(" ")[0]:
            continue        # the mutation target (page index) does not exist in this file
        applied += 1
        got = filelevel.strip_calls(a)
        dist[kind.split(":")[0]] = dist.get(kind.split(":")[0], 0) + 1
        if got != b:
            tie_breaks.append({"what": "reader model vs generated reader on a mutant", "op": o[:300], "impl": got[:200], "model": b[:200]})
        fields = dict(p.split("=", 1) for p in got.split(" ") if "=" in p)      # "crash"/"panic"/"oversize:.." carry no fields
        before = sum(len(x) for x in rgs[:rg])
        recs_want = [z.proj(r_) for gr in rgs for r_ in gr]
        recs = [] if fields.get("recs", "-") == "-" else fields["recs"].split(";")
        if "panic" in got or got.startswith("crash") or got.startswith("oversize"):
            verdict = "panic"          # incl. the process dying (fatal runtime error) or running away
        elif fields.get("open") == "err":
            verdict = "refused-at-open"
        elif fields.get("err") == "err" and int(fields.get("nexts", 0)) <= before and recs == recs_want[:len(recs)]:
            verdict = "refused-at-next"
        else:
            verdict = "misread" if fields.get("err") != "err" else "rows-of-the-bad-row-group-delivered"
        if verdict in ("panic", "misread", "rows-of-the-bad-row-group-delivered"):
            prop_fail.append({"case": o[:3000], "key": {"feature": kind.split(":")[0], "verdict": verdict},
                              "clause": "unsupported feature %s in row group %d column %s page %d: %s" % (kind, rg, ".".join(z.cols[ci][0]), page, verdict),
                              "got": got[:500], "want": "an error no later than when row group %d is loaded, no row of it delivered, no panic" % rg})
        else:
            nontrivial.add(o)
    # a dictionary / index page at the HEAD of a column chunk whose data pages are PLAIN v1 pages (a writer that fell back
    # from dictionary encoding), located by dictionary_page_offset / index_page_offset with data_page_offset after it
    # (seeded change C18-r8: a reader that seeks to data_page_offset never sees the page). Files of the library's own
    # writer (uncompressed, two row groups) rewritten by the protocol glue `dictFile`.
    head_cases, head_ops, head_meta = [], [], []
    for name in workloads.ZOOS:
        z = zs.get(name)
        if z is None:
            continue
        g = zoolib.Gen(rng, mode="mixed")
        rgs = [[g.record(z.nodes) for _ in range(3)] for _ in range(2)]
        ops_ = []
        for gr in rgs:
            ops_ += [("a", r_) for r_ in gr] + [("w",)]
        head_cases.append((filelevel.Case(z, 2, 0, ops_ + [("c",)], "head-page"), rgs))
    filelevel.run_cases(pair, [c for c, _ in head_cases], want_parse=False, want_read=False)
    for c, rgs in head_cases:
        ncols = len(c.zoo.cols)
        for kind in (0, 1):
            for rg in (0, 1):
                for ci in (range(ncols) if thorough else sorted({0, ncols // 2, ncols - 1})):
                    head_ops.append("dictfile %d %d %d %s" % (kind, rg, ci, c.impl_file)); head_meta.append((c, rgs, kind, rg, ci))
    head_files = common.chunked_parallel(pair.model, head_ops, workers=16, chunk=8)
    h_impl = common.chunked_parallel(pair.impl, ["zoo-read %s %s" % (m[0].zoo.name, f) for m, f in zip(head_meta, head_files)], workers=16, chunk=8)
    h_model = common.chunked_parallel(pair.model, ["read %s %s -" % (m[0].zoo.cols_text, f) for m, f in zip(head_meta, head_files)], workers=16, chunk=8)
    for (c, rgs, kind, rg, ci), f, a, b in zip(head_meta, head_files, h_impl, h_model):
        if f in ("none", "bad-op") or f == c.impl_file:
            tie_breaks.append({"what": "dictFile glue produced no file", "op": "dictfile %d %d %d" % (kind, rg, ci)})
            continue
        applied += 1
        z = c.zoo
        feature = "dictionary-page-at-chunk-head" if kind == 0 else "index-page-at-chunk-head"
        dist[feature] = dist.get(feature, 0) + 1
        got = filelevel.strip_calls(a)
        if got != b:
            tie_breaks.append({"what": "reader model vs generated reader on a file with a page before the data pages", "op": "dictfile %d %d %d %s" % (kind, rg, ci, c.key()[:200]), "impl": got[:200], "model": b[:200]})
        fields = dict(p.split("=", 1) for p in got.split(" ") if "=" in p)
        before = sum(len(x) for x in rgs[:rg])
        recs_want = [z.proj(r_) for gr in rgs for r_ in gr]
        recs = [] if fields.get("recs", "-") == "-" else fields["recs"].split(";")
        if "panic" in got or got.startswith("crash") or got.startswith("oversize"):
            verdict = "panic"
        elif fields.get("open") == "err":
            verdict = "refused-at-open"
        elif fields.get("err") == "err" and int(fields.get("nexts", 0)) <= before and recs == recs_want[:len(recs)]:
            verdict = "refused-at-next"
        else:
            verdict = "accepted" if fields.get("err") != "err" else "rows-of-the-bad-row-group-delivered"
        if verdict in ("panic", "accepted", "rows-of-the-bad-row-group-delivered"):
            prop_fail.append({"case": "dictfile %d %d %d on the file of %s" % (kind, rg, ci, c.key()[:2500]), "key": {"feature": feature, "verdict": verdict},
                              "clause": "%s in row group %d column %s: %s" % (feature, rg, ".".join(z.cols[ci][0]), verdict),
                              "got": got[:500], "want": "an error no later than when row group %d is loaded, no row of it delivered, no panic" % rg})
        else:
            nontrivial.add("head %d %d %d %s" % (kind, rg, ci, z.name))
    cov.update({
        "obligations": pr["obligations"], "discharged": pr["discharged"], "axioms": pr["axioms"],
        "checker_cmd": "cd lean && lake build %s" % MODULE, "trusted_base": TRUSTED_BASE, "forbidden_constructs": pr["forbidden_constructs"],
        "evaluations": applied, "distinct_nontrivial": len(nontrivial),
        "rule": "otherwise valid foreign files (PQ.specWrite, 8 structs, 3 codecs) in which ONE page of one column chunk uses one unsupported feature: dictionary page, index page, v2 data page, value encodings 2-9, BIT_PACKED/PLAIN level encodings on columns that have levels, codecs 3-7; every (feature, column [sampled in quick], row group 0/1, first/second page); plus files of the library's own writer with a dictionary or index page inserted at the HEAD of a column chunk (dictionary_page_offset / index_page_offset = chunk start, data_page_offset after it, PLAIN v1 data pages) for row group 0/1 and first/middle/last (thorough: every) column; non-trivial = distinct mutant refused with an error before any row of its row group is delivered",
        "samples": [ops[0][:300], ops[len(ops) // 2][:300]],
        "input_distribution": dist,
        "tie": "reader model outcome (err-at-open | err-at-next k | rows | panic) = generated reader's on every mutant",
        "tie_disagreements": len(tie_breaks), "property_failures_on_impl": len(prop_fail),
        "traces_validated_against_impl": applied,
    })
    return common.verdict(chk, cov, pr, prop_fail, tie_breaks, "C18", "reader model vs generated reader on one-feature mutants", [])


def replay(chk, path):
    body = json.load(open(path))
    print(json.dumps(body, indent=1)[:4000])
    return run(chk)
