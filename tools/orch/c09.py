"""C09 — a failed write to the destination is always reported."""
import json
import common, zoo as zoolib, filelevel, workloads, iocommon
from common import Pair, proof_stage, rebuild_tools, build_pqh, build_zoo, Lock, TRUSTED_BASE

MODULE = "PQ.Props.C09"
THEOREMS = ["PQ.C09." + t for t in ("checked_fault_reported", "dropped_fault_swallowed", "sink_sites_propagate", "sink_calls_propagate", "failing_call", "sink_inventory_covers", "sink_extern_allowed")]
EXTRA_MODULES = ["PQ.Lemmas.SinkFault"]
EXTRA_THEOREMS = ["PQ.faultRun_reports", "PQ.faultRun_ends_failed", "PQ.faultRun_sink_prefix", "PQ.faultRun_zero"]


def counts(calls):
    """sink writes per API call from a calls string like 4;-;39,8;138,4,4"""
    return [0 if c == "-" else len(c.split(",")) for c in calls.split(";")]


def run(chk):
    thorough = chk.tier == "thorough"
    cov = {"steps": {}}
    with Lock():
        cov["steps"] = rebuild_tools(chk.log)
        cov["steps"]["zoo"] = build_zoo(chk.log)
        build_pqh(chk.log)
        pr = proof_stage(chk, MODULE, THEOREMS + EXTRA_THEOREMS, EXTRA_MODULES, audit_imports=EXTRA_MODULES)
    pair = Pair(chk.log)
    zs = filelevel.load_zoos(pair, workloads.ZOOS)
    cases = iocommon.corpus(chk, pair, zs, thorough, per_zoo=(3 if thorough else 1))
    # histories with empty writes / two row groups on struct three
    z = zs["three"]
    g = zoolib.Gen(chk.rng, mode="pool")
    extra = []
    for shape in ("aawaawc", "wawc", "aaaaawc", "c", "awaac"):
        for mx in (1, 2):
            for codec in (0, 1, 2):
                extra.append(filelevel.Case(z, mx, codec, [("a", g.record(z.nodes)) if x == "a" else (x,) for x in shape], "history"))
    # pages well beyond 4 KiB / 64 KiB (sinks that coalesce or split writes by size)
    for name, n in (("three", 700), ("flat", 90)):
        zz = zs.get(name)
        if zz is not None:
            gg = zoolib.Gen(chk.rng, mode="mixed", p_nil=0.1)
            rs = [gg.record(zz.nodes) for _ in range(n)]
            for codec in (0, 1, 2):
                extra.append(filelevel.Case(zz, 100000, codec, [("a", r) for r in rs] + [("w",), ("c",)], "large-page"))
                extra.append(filelevel.Case(zz, n // 3 + 1, codec, [("a", r) for r in rs] + [("w",), ("c",)], "large-page"))
    # a page body beyond 64 KiB under every codec (incompressible string of 70 000 bytes): writers that hand a large
    # body to the sink in pieces (seeded change C09-r8: the error of a piece was shadowed and dropped)
    if z is not None:
        blob = bytes(chk.rng.getrandbits(8) for _ in range(70000))
        big = ("struct", [("leaf", zoolib.le(1, 8)), ("some", ("leaf", blob)), ("list", [])])
        small = ("struct", [("leaf", zoolib.le(2, 8)), ("nil",), ("list", [("leaf", zoolib.le(7, 4))])])
        for codec in (0, 1, 2):
            extra.append(filelevel.Case(z, 10, codec, [("a", big), ("a", small), ("w",), ("a", small), ("w",), ("c",)], "huge-body"))
    filelevel.run_cases(pair, extra, want_parse=False, want_read=False)
    cases += extra
    ops, meta = [], []
    tie_breaks, prop_fail = [], []
    for c in cases:
        if c.impl_calls != c.model_calls:
            tie_breaks.append({"case": c.key()[:400], "what": "sink writes per API call", "impl": c.impl_calls[-200:], "model": c.model_calls[-200:]})
            if "err" in c.impl_calls or "panic" in c.impl_calls:
                continue
            # the segmentation differs from the model's: the property is still decided on the implementation,
            # predicting the failing API call from the implementation's own fault-free run
            cnt = counts(c.impl_calls)
        else:
            cnt = counts(c.model_calls)
        total = sum(cnt)
        for k in range(1, total + 1):
            # three legal ways for an io.Writer to fail: (0, err), (len/2, err), (len, err)
            for mode in "zhfZF":       # lower case: the sink stays broken; upper case: only write k fails (transient)
                ops.append("zoo-write %s %d %d %s %d:%s" % (c.zoo.name, c.max, c.codec, c.go_ops, k, mode)); meta.append((c, k, cnt, mode))
    res = common.chunked_parallel(pair.impl, ops, workers=8, chunk=200)
    # the sink-fault model (PQ/Model/SinkFault.lean): for every k the line of the run cut at write k
    tabtxt = lambda d: ",".join("%s=%s" % kv for kv in d.items()) or "-"
    fl = common.chunked_parallel(pair.model, ["write-faults %s %d %d %s %s" % (c.zoo.cols_text, c.max, c.codec, c.m_ops, tabtxt(c.tab)) for c in cases], workers=8, chunk=4)
    fault_lines = {id(c): l.split(" ") for c, l in zip(cases, fl)}
    model_checked = 0
    nontrivial = set()
    for (c, k, cnt, mode), r in zip(meta, res):
        got = r.split(" ")[1] if " " in r else r
        lines = fault_lines.get(id(c), [])
        if c.impl_calls == c.model_calls and k <= len(lines):
            model_checked += 1
            if got != lines[k - 1] and len(tie_breaks) < 40:
                tie_breaks.append({"case": c.key()[:400] + " failAt=%d:%s" % (k, mode), "what": "sink-fault model (faultRun)", "impl": got[-200:], "model": lines[k - 1][-200:]})
        # predicted: API calls before the one containing write k complete with their write counts; that call reports err
        acc, idx = 0, 0
        for i, n in enumerate(cnt):
            if k <= acc + n:
                idx = i
                break
            acc += n
        gl = got.split(";")
        ok = (len(gl) == idx + 1 and gl[idx] == "err" and counts(";".join(gl[:idx])) == cnt[:idx]) if idx > 0 else (got == "err")
        if not ok:
            prop_fail.append({"case": c.key()[:2000] + " failAt=%d:%s" % (k, mode), "key": {"call_index": idx, "outcome": gl[-1][:20], "codec": c.codec, "mode": mode},
                              "clause": "sink failure at write %d not reported by API call #%d (got %s)" % (k, idx, got[-60:]), "got": got[:300], "want": "calls[0..%d) complete, call %d returns err" % (idx, idx)})
        else:
            nontrivial.add((c.m_ops, c.codec, k, mode))
    cov.update({
        "obligations": pr["obligations"], "discharged": pr["discharged"], "axioms": pr["axioms"],
        "checker_cmd": "cd lean && lake build %s" % MODULE, "trusted_base": TRUSTED_BASE, "forbidden_constructs": pr["forbidden_constructs"],
        "evaluations": len(ops), "distinct_nontrivial": len(nontrivial), "exhaustive": True, "workloads": len(cases),
        "rule": "for every workload (8 structs x 3 codecs, histories with several row groups, empty writes, pending records) the sink fails at its k-th Write call for EVERY k in 1..total (exhaustive), in each of the three ways an io.Writer may fail: (0, err), (len/2, err) after taking half of the bytes, (len, err) after taking all of them, with the sink staying broken afterwards or failing only that once (transient); the API call predicted by the model's per-call write list must return a non-nil error, earlier calls complete with exactly the model's number of writes, nothing panics — including the Close() a caller still makes after the failed call; non-trivial = distinct (workload, k) reported correctly",
        "samples": [ops[0][:200], ops[len(ops) // 2][:200]],
        "tie": "exact: number of sink writes per API call = model's runWriter; outcome per failing index = model's failingCall; exact: the line the generated writer's run prints under a sink failing at write k (completed calls with the lengths of their writes, then err) = the sink-fault model's (faultRun, PQ/Model/SinkFault.lean)",
        "fault_model_comparisons": model_checked,
        "tie_disagreements": len(tie_breaks), "property_failures_on_impl": len(prop_fail),
        "traces_validated_against_impl": len(ops),
    })
    return common.verdict(chk, cov, pr, prop_fail, tie_breaks, "C09", "runWriter call segmentation vs generated writer", [
        "call-site inventories are syntactic (go/ast): a site counts as propagating when its error is returned, or bound to a variable that is tested against nil / returned later in the same function"])


def replay(chk, path):
    body = json.load(open(path))
    print(json.dumps(body, indent=1)[:4000])
    return run(chk)
