"""C03 — column data is the canonical Dremel striping of the records."""
import json
import common, zoo as zoolib, filelevel, workloads
from common import Pair, proof_stage, rebuild_tools, build_pqh, build_zoo, Lock, TRUSTED_BASE

MODULE = "PQ.Props.C03"
THEOREMS = ["PQ.C03." + t for t in (
    "parse_stripe", "assemble_stripe", "assemble_stripe_nil", "levels_bounded", "levels_bounded_gen", "first_rep_zero", "first_rep_gen",
    "takeRecord_stripe", "splitRecords_stripe", "assemble_splitRecords", "stripe_injective", "nonnull_count", "required_only",
    "bitsLen_spec", "bitsLen_min", "bitsLen_least", "maxDef_le_length", "maxRep_le_maxDef", "levels_fit")]

EXTRA_MODULES = ['PQ.Lemmas.Records']
EXTRA_THEOREMS = ['PQ.Records.record_injective', 'PQ.Records.record_injective_cols', 'PQ.Records.skeleton_agree', 'PQ.Records.events_stripe', 'PQ.Records.sibling_events_agree', 'PQ.Records.sibling_count_agree', 'PQ.Records.record_roundtrip', 'PQ.Records.record_roundtrip_unique', 'PQ.Records.records_roundtrip', 'PQ.Records.colStream_levels', 'PQ.Records.colStream_declared', 'PQ.Records.colsOf_eq']


def run(chk):
    thorough = chk.tier == "thorough"
    cov = {"steps": {}}
    with Lock():
        cov["steps"] = rebuild_tools(chk.log)
        cov["steps"]["zoo"] = build_zoo(chk.log)
        build_pqh(chk.log)
        pr = proof_stage(chk, MODULE, THEOREMS + EXTRA_THEOREMS, EXTRA_MODULES, audit_imports=EXTRA_MODULES)
    pair = Pair(chk.log)
    zs = filelevel.load_zoos(pair, workloads.WRITER_ZOOS)
    raw, meta = workloads.file_cases(chk, zs, thorough, per_zoo_cap=(4000 if thorough else 700), zoos=workloads.WRITER_ZOOS)
    raw = [r for r in raw if r[2] == 0 or r[4] != "structural"]   # levels do not depend on the codec
    cases = [filelevel.Case(z, mx, codec, ops, tag) for z, mx, codec, ops, tag in raw]
    filelevel.run_cases(pair, cases, want_read=False, want_parse=False)
    tabtxt = lambda d: ",".join("%s=%s" % kv for kv in d.items()) or "-"
    got = common.chunked_parallel(pair.model, ["entries %s %d %s %s" % (c.zoo.cols_text, c.max, c.impl_file, tabtxt(c.dtab)) for c in cases], workers=8, chunk=200)
    # reference striping of each written batch
    want_ops, owner = [], []
    for c in cases:
        for b in zoolib.batches(c.ops):
            want_ops.append("stripes %s %s" % (c.zoo.cols_text, ";".join(c.zoo.proj(r) for r in b)))
            owner.append(c)
    want_res = common.chunked_parallel(pair.model, want_ops, workers=8, chunk=400)
    want = {}
    for c, w in zip(owner, want_res):
        want.setdefault(id(c), []).append(w)

    tie_breaks, prop_fail, tags = [], [], {}
    nontrivial = set()
    nrec = 0
    for name, z in zs.items():
        if z is not None and z.cols_text != z.cols_fields:
            prop_fail.append({"case": "zoo %s" % name, "key": {"zoo": name, "where": "Fields()"},
                              "clause": "max levels / repetition types declared by the generated Fields() differ from the struct's schema", "got": z.cols_fields, "want": z.cols_text})
    # process history: threerep has the column paths of three with another optional/list structure on every path; each
    # is written after an instance of the other in ONE process and its pages must still be the striping of ITS schema
    # (seeded change C03-r8: max levels memoised process-wide per dotted column path)
    tr = filelevel.load_zoos(pair, ["threerep"]).get("threerep")
    t3 = zs.get("three")
    hist_runs = 0
    if tr is not None and t3 is not None:
        gh = zoolib.Gen(chk.rng, mode="pool")
        wop = lambda c: "zoo-write %s %d %d %s" % (c.zoo.name, c.max, c.codec, c.go_ops)
        for first, second in ((t3, tr), (tr, t3)):
            a_ = filelevel.Case(first, 2, 0, [("a", gh.record(first.nodes)) for _ in range(3)] + [("w",), ("c",)], "process-history")
            b_ = filelevel.Case(second, 100, 0, [("a", gh.record(second.nodes)) for _ in range(6)] + [("w",), ("c",)], "process-history")
            r = pair.impl([wop(a_), wop(b_)])                         # ONE fresh process, two instances after each other
            fb = r[1].split(" ")[0]
            ent = pair.model(["entries %s %d %s -" % (second.cols_text, b_.max, fb)])[0]
            wantb = "ok " + "/".join(pair.model(["stripes %s %s" % (second.cols_text, ";".join(second.proj(x) for x in b)) for b in zoolib.batches(b_.ops)]))
            hist_runs += 1
            if ent != wantb:
                prop_fail.append({"case": "%s\nAFTER (same process) %s" % (b_.key()[:1500], a_.key()[:800]), "key": {"zoo": second.name, "where": "process-history"},
                                  "clause": "levels/values stored for struct %s are not the Dremel striping of the records when an instance for struct %s (same column paths, other repetition types) was used earlier in the process" % (second.name, first.name),
                                  "got": ent[:800], "want": wantb[:800]})
            else:
                nontrivial.add("history:" + second.name)
    for c, g in zip(cases, got):
        tags[c.zoo.name + "/" + c.tag] = tags.get(c.zoo.name + "/" + c.tag, 0) + 1
        nrec += sum(1 for o in c.ops if o[0] == "a")
        if c.impl_file != c.model_file:
            tie_breaks.append({"case": c.key()[:600], "what": "writer bytes"})
        w = "ok " + ("/".join(want.get(id(c), [])) or "-")
        if g != w:
            where = "?"
            if g.startswith("ok "):
                for a, b in zip(g[3:].split("/"), w[3:].split("/")):
                    for k, (x, y) in enumerate(zip(a.split("|"), b.split("|"))):
                        if x != y:
                            where = ".".join(c.zoo.cols[k][0])
                            break
                    if where != "?":
                        break
            prop_fail.append({"case": c.key()[:3000], "key": {"zoo": c.zoo.name, "where": where if g.startswith("ok") else g[:100]},
                              "clause": "levels/values stored in column %s are not the Dremel striping of the records" % where, "got": g[:800], "want": w[:800]})
        else:
            nontrivial.add(c.m_ops)
    cov.update({
        "obligations": pr["obligations"], "discharged": pr["discharged"], "axioms": pr["axioms"],
        "checker_cmd": "cd lean && lake build %s" % MODULE, "trusted_base": TRUSTED_BASE, "forbidden_constructs": pr["forbidden_constructs"],
        "evaluations": len(cases), "distinct_nontrivial": len(nontrivial), "records": nrec,
        "rule": "per zoo struct: structural enumeration of records (every nil/non-nil and list-length {0,1,2} combination at every nesting level; exhaustive where the product is small, evenly sampled otherwise), random and extreme records; the rep/def/value sections of every page are decoded by the Lean specification decoder (not the library) and compared with PQ.stripe of the record's column projections; non-trivial = distinct history whose every column chunk equals the reference striping",
        "samples": [cases[i].key()[:300] for i in (0, len(cases) // 2, len(cases) - 1)],
        "input_distribution": tags, "structural_enumeration": meta,
        "tie": "spec-level: entries decoded independently from the implementation's file = reference stripe of the projections (computed by reflection, independent of generated code); exact writer tie as in C01",
        "tie_disagreements": len(tie_breaks), "property_failures_on_impl": len(prop_fail),
        "traces_validated_against_impl": len(cases),
    })
    return common.verdict(chk, cov, pr, prop_fail, tie_breaks, "C03", "PQ writer model vs generated writer", [
        "sibling-column structural agreement follows from all columns being stripes of projections of the same record (projection by reflection in the harness)"])


def replay(chk, path):
    body = json.load(open(path))
    print(json.dumps(body, indent=1)[:4000])
    return run(chk)
