"""Schema-generic record generation for the zoo structs: schema parsing, structured value
generation from a boundary pool, tree text, column projections, op-line building."""
import struct

# ---------------------------------------------------------------- schema


class Node:
    def __init__(self, name, rep, ptype=None, children=None):
        self.name, self.rep, self.ptype, self.children = name, rep, ptype, children

    def __repr__(self):
        return "%s:%s:%s" % (self.name, self.rep, self.ptype or self.children)


def parse_schema(text):
    pos = [0]

    def nodes():
        assert text[pos[0]] == "{"
        pos[0] += 1
        out = []
        while True:
            j = text.index(":", pos[0])
            name = text[pos[0]:j]
            rep = text[j + 1]
            pos[0] = j + 3
            if text[pos[0]] == "{":
                out.append(Node(name, rep, children=nodes()))
            else:
                k = pos[0]
                while text[k] not in ",}":
                    k += 1
                out.append(Node(name, rep, ptype=text[pos[0]:k]))
                pos[0] = k
            c = text[pos[0]]
            pos[0] += 1
            if c == "}":
                return out
    return nodes()


def columns(nodes, pre=()):
    """[(path tuple, reps string, ptype, node chain)]"""
    out = []
    for n in nodes:
        chain = pre + (n,)
        if n.children is not None:
            out += columns(n.children, chain)
        else:
            out.append((tuple(x.name for x in chain), "".join(x.rep for x in chain), n.ptype, chain))
    return out


# ---------------------------------------------------------------- values

def le(n, w):
    return (n & ((1 << (8 * w)) - 1)).to_bytes(w, "little")


def f32(x):
    return struct.pack("<f", x)


def f64(x):
    return struct.pack("<d", x)


POOL = {
    "i32": [le(v, 4) for v in (0, 1, -1, 2, -2, 7, 100, -100, 2**31 - 1, -2**31, 2**31 - 2, -2**31 + 1, 65536, -65536)],
    "i64": [le(v, 8) for v in (0, 1, -1, 2, -5, -7, 1000, 2**63 - 1, -2**63, 2**62, -2**62, 2**32, -2**32)],
    "u32": [le(v, 4) for v in (0, 1, 2, 7, 2**31 - 1, 2**31, 2**31 + 1, 2**32 - 1, 2**32 - 2, 65535)],
    "u64": [le(v, 8) for v in (0, 1, 2, 9, 2**63 - 1, 2**63, 2**63 + 1, 2**64 - 1, 2**64 - 2, 2**32)],
    "f32": [f32(v) for v in (0.0, -0.0, 1.0, -1.0, 1.5, -2.5, 3.4028235e38, -3.4028235e38, 1e-45, -1e-45, float("inf"), float("-inf"))]
           + [le(0x7fc00000, 4), le(0xffc00001, 4), le(0x7f800001, 4), le(0x7fffffff, 4), le(0x00800000, 4), le(0x007fffff, 4)],
    "f64": [f64(v) for v in (0.0, -0.0, 1.0, -1.0, 2.25, -1e300, 1.7976931348623157e308, -1.7976931348623157e308, 5e-324, -5e-324, float("inf"), float("-inf"))]
           + [le(0x7ff8000000000000, 8), le(0xfff8000000000001, 8), le(0x7ff0000000000001, 8), le(0x7fffffffffffffff, 8), le(0x0010000000000000, 8)],
    "bool": [b"\x00", b"\x01"],
    "str": [b"", b"a", b"b", b"ab", b"abc", b"zzz", b"__#NIL#__", b"__#NIL#_", b"__#NIL#__x", b"\x00", b"\xff", b"\xff\xfe\x00", b"\x80abc",
            b"PAR1", b"hello world", b"A" * 40, bytes(range(256)),
            b"\xff" * 63, b"\xff" * 64, b"\xff" * 65, b"\xff" * 130, b"\x00" * 70, b"k" * 63 + b"\xff" + b"tail", b"k" * 64 + b"\xff" * 3,
            b"\xfe" * 64 + b"\x01", b"z" * 127 + b"\xff", b"z" * 255 + b"\xff\xff"],
}


def leaf_value(rng, ptype, mode="pool"):
    if mode == "pool" or rng.random() < 0.6:
        return rng.choice(POOL[ptype])
    w = {"i32": 4, "u32": 4, "f32": 4, "i64": 8, "u64": 8, "f64": 8}.get(ptype)
    if w:
        return bytes(rng.randrange(256) for _ in range(w))
    if ptype == "bool":
        return bytes([rng.randrange(2)])
    return bytes(rng.randrange(256) for _ in range(rng.choice([0, 1, 2, 3, 5, 9, 17, 33, 130])))


class Gen:
    """structured record generator. p_nil: probability an optional is nil; lens: list-length choices"""

    def __init__(self, rng, p_nil=0.35, lens=(0, 0, 1, 1, 2, 3), mode="mixed", long_lists=False):
        self.rng, self.p_nil, self.lens, self.mode, self.long_lists = rng, p_nil, lens, mode, long_lists

    def inner(self, n):
        if n.children is not None:
            return ("struct", [self.node(c) for c in n.children])
        return ("leaf", leaf_value(self.rng, n.ptype, self.mode))

    def node(self, n):
        if n.rep == "o":
            if self.rng.random() < self.p_nil:
                return ("nil",)
            return ("some", self.inner(n))
        if n.rep == "m":
            k = self.rng.choice(self.lens)
            if self.long_lists and self.rng.random() < 0.05:
                k = self.rng.choice([7, 8, 9, 17, 40])
            return ("list", [self.inner(n) for _ in range(k)])
        return self.inner(n)

    def record(self, nodes):
        return ("struct", [self.node(c) for c in nodes])


def tree_text(v):
    k = v[0]
    if k == "leaf":
        return "x" + v[1].hex()
    if k == "nil":
        return "n"
    if k == "some":
        return "s" + tree_text(v[1])
    if k == "list":
        return "[" + ",".join(tree_text(x) for x in v[1]) + "]"
    if k == "struct":
        return "{" + ",".join(tree_text(x) for x in v[1]) + "}"
    raise ValueError(k)


def project(rec, nodes, chain):
    """projection text of a record tree on the column whose node chain is `chain`"""
    def go(val, ns, chain):
        n = chain[0]
        idx = ns.index(n)
        f = val[1][idx]

        def inner(x):
            if len(chain) == 1:
                return "x" + x[1].hex()
            return go(x, n.children, chain[1:])
        if n.rep == "o":
            return "n" if f[0] == "nil" else "s" + inner(f[1])
        if n.rep == "m":
            return "[" + ",".join(inner(x) for x in f[1]) + "]"
        return inner(f)
    return go(rec, nodes, chain)


class Zoo:
    def __init__(self, name, schema_line):
        self.name = name
        tree, cols_reflect, cols_fields = schema_line.split(" ")
        self.tree_text = tree
        self.nodes = parse_schema(tree)
        self.cols_text = cols_reflect
        self.cols_fields = cols_fields
        self.cols = columns(self.nodes)

    def proj(self, rec):
        return "|".join(project(rec, self.nodes, c[3]) for c in self.cols)

    def ops_text(self, ops):
        """ops: list of ('a', rec) | ('w',) | ('c',)  ->  (go text, model text)"""
        g, m = [], []
        for o in ops:
            if o[0] == "a":
                g.append("a" + tree_text(o[1]))
                m.append("a" + self.proj(o[1]))
            else:
                g.append(o[0])
                m.append(o[0])
        return (";".join(g) or "-", ";".join(m) or "-")


def batches(ops):
    """the list-of-batches specification of a history: records between consecutive writes,
    empty batches dropped, records after the last write dropped"""
    out, cur = [], []
    for o in ops:
        if o[0] == "a":
            cur.append(o[1])
        elif o[0] == "w":
            if cur:
                out.append(cur)
            cur = []
    return out
