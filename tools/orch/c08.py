"""C08 — reading does not depend on how the source fragments its reads."""
import json
import common, zoo as zoolib, filelevel, workloads, iocommon
from common import Pair, proof_stage, rebuild_tools, build_pqh, build_zoo, Lock, TRUSTED_BASE

MODULE = "PQ.Props.C08"
THEOREMS = ["PQ.C08." + t for t in ("readFull_spec", "readFull_indep", "readFull_sched_indep", "model_read_is_readExactly", "no_single_read_sites", "source_sites_propagate", "source_inventory_covers", "source_extern_allowed")]


def run(chk):
    thorough = chk.tier == "thorough"
    cov = {"steps": {}}
    with Lock():
        cov["steps"] = rebuild_tools(chk.log)
        cov["steps"]["zoo"] = build_zoo(chk.log)
        build_pqh(chk.log)
        pr = proof_stage(chk, MODULE, THEOREMS)
    pair = Pair(chk.log)
    zs = filelevel.load_zoos(pair, workloads.ZOOS)
    cases = iocommon.corpus(chk, pair, zs, thorough)
    # files with a large footer (many row groups): footer reads span many source reads
    g = zoolib.Gen(chk.rng, mode="pool")
    extra = []
    for name, nrg in (("flat", 30), ("three", 120)):
        z = zs.get(name)
        if z is not None:
            ops = []
            for _ in range(nrg):
                ops += [("a", g.record(z.nodes)), ("w",)]
            for codec in (0, 1, 2):
                extra.append(filelevel.Case(z, 2, codec, ops + [("c",)], "many-row-groups"))
    filelevel.run_cases(pair, extra, want_parse=False)
    cases += extra
    # gzip pages whose uncompressed size is an exact multiple of the 32 KiB inflate window (4096 / 8192 int64 values
    # per page), followed by further chunks
    z = zs.get("three")
    if z is not None:
        for n in (4096, 8192):
            recs = [("struct", [("leaf", zoolib.le(i * 2654435761 % (1 << 63), 8)), ("nil",) if i % 2 else ("some", ("leaf", b"s%d" % i)), ("list", [])]) for i in range(n)]
            c = filelevel.Case(z, n, 2, [("a", r) for r in recs] + [("w",), ("a", recs[0]), ("w",), ("c",)], "gzip-window-multiple")
            filelevel.run_cases(pair, [c], want_parse=False)
            cases.append(c)
    # one page of more than 2 MiB (a string value of 2.3 MB, hardly compressible): sizes whose varint prefixes need four
    # bytes, reads that span hundreds of source buffers. The model is not run on it (the oracle needs no model).
    z = zs.get("three")
    huge = []
    if z is not None:
        import random as _r
        rr = _r.Random(5)
        blob = bytes(rr.getrandbits(8) for _ in range(2300000))
        recs = [("struct", [("leaf", zoolib.le(1, 8)), ("some", ("leaf", blob)), ("list", [("leaf", zoolib.le(3, 4))])]),
                ("struct", [("leaf", zoolib.le(2, 8)), ("nil",), ("list", [])])]
        for codec in (1, 0):
            huge.append(filelevel.Case(z, 10, codec, [("a", r) for r in recs] + [("w",), ("c",)], "huge-page"))
        filelevel.run_cases(pair, huge, want_parse=False, want_model_write=False, want_read=True)
        for c in huge:
            c.model_read = filelevel.strip_calls(c.impl_read)      # no model run for these
    cases += huge
    scheds = ["frag=%d" % n for n in list(range(1, 18))] + ["frag=1 eof", "frag=3 eof", "frag=64 eof", "eof"]
    scheds += ["rand=%d" % (chk.seed * 100 + i) for i in range(12 if thorough else 5)] + ["rand=%d eof" % (chk.seed * 100 + 50 + i) for i in range(4 if thorough else 2)]
    ops, meta = [], []
    for c in cases:
        for s in (scheds if c.tag not in ("huge-page", "gzip-window-multiple") else ["frag=1", "frag=3", "frag=7", "frag=13", "frag=4096", "rand=7", "frag=2 eof"]):
            ops.append("zoo-read %s %s %s" % (c.zoo.name, c.impl_file, s)); meta.append((c, s))
    res = common.chunked_parallel(pair.impl, ops, workers=8, chunk=100)
    tie_breaks, prop_fail = [], []
    nontrivial = set()
    kinds = {}
    for (c, s), r in zip(meta, res):
        got = filelevel.strip_calls(r)
        want = filelevel.expected_read(c)
        base = filelevel.strip_calls(c.impl_read)
        kinds[s.split("=")[0] + (" eof" if "eof" in s else "")] = kinds.get(s.split("=")[0] + (" eof" if "eof" in s else ""), 0) + 1
        if base != c.model_read:
            tie_breaks.append({"case": c.key()[:400], "what": "reader (unfragmented)", "impl": base[:200], "model": c.model_read[:200]})
        if got != want:
            prop_fail.append({"case": c.key()[:2000] + " schedule=" + s, "key": {"codec": c.codec, "outcome": got.split(" recs=")[0]},
                              "clause": "records/error differ under read fragmentation (schedule %s, codec %d)" % (s, c.codec), "got": got[:400], "want": want[:400]})
        else:
            nontrivial.add((c.m_ops, s))
    cov.update({
        "obligations": pr["obligations"], "discharged": pr["discharged"], "axioms": pr["axioms"],
        "checker_cmd": "cd lean && lake build %s" % MODULE, "trusted_base": TRUSTED_BASE, "forbidden_constructs": pr["forbidden_constructs"],
        "evaluations": len(ops), "distinct_nontrivial": len(nontrivial),
        "rule": "valid files of 8 structs x 3 codecs x page sizes, each read through a fragmenting io.ReadSeeker: fixed chunk sizes 1..17, seeded random short reads, data returned together with io.EOF; non-trivial = distinct (file, schedule) whose result equals the unfragmented expected records",
        "samples": [ops[0][:200], ops[len(ops) // 2][:200]],
        "input_distribution": kinds,
        "tie": "reader model (source reads are full reads) = generated reader on unfragmented input; every schedule must give the same result",
        "tie_disagreements": len(tie_breaks), "property_failures_on_impl": len(prop_fail),
        "traces_validated_against_impl": len(ops),
    })
    return common.verdict(chk, cov, pr, prop_fail, tie_breaks, "C08", "PQ reader model vs generated reader", [
        "schedules that return (0, nil) are outside the io.Reader contract cases the property lists and are excluded"])


def replay(chk, path):
    body = json.load(open(path))
    print(json.dumps(body, indent=1)[:4000])
    return run(chk)
