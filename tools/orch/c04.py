"""C04 — the reader decodes every conformant file of the supported subset."""
import json
import common, zoo as zoolib, filelevel, workloads
from common import Pair, proof_stage, rebuild_tools, build_pqh, build_zoo, Lock, TRUSTED_BASE

MODULE = "PQ.Props.C04"
THEOREMS = ["PQ.C04." + t for t in (
    "segment_spec", "segment_size", "levels_any_segmentation", "spec_levels_any_segmentation", "readLevels_any_segmentation", "readLevels_take",
    "specPage_levels", "specPage_levels_flat", "snappy_roundtrip", "matchLen_spec", "snappy_element", "unknown_fields_skipped",
    "unknown_fields_skipped_anywhere", "page_header_unknown_fields", "page_header_bytes_unknown_fields", "data_page_header_unknown_fields",
    "footer_unknown_fields", "column_meta_unknown_fields", "statistics_irrelevant", "statistics_irrelevant_reader")]
# whole-file theorem: the reader model decodes every file of the independent spec writer, whatever legal
# encoding choices it made (PQ/Lemmas/ForeignPage.lean, ForeignRT.lean)
EXTRA_MODULES = ["PQ.Lemmas.ForeignRT"]
EXTRA_THEOREMS = ["PQ.readAll_specWrite", "PQ.specPageBytes_none", "PQ.decPHdr_spHdr"]


def spec_cases(chk, zs, thorough):
    """[(zoo, codecs, flags, seed, rowgroups)]"""
    rng = chk.rng
    out = []
    n = 140 if thorough else 36
    for name in workloads.ZOOS:
        z = zs.get(name)
        if z is None:
            continue
        g = zoolib.Gen(rng, mode="mixed", long_lists=True)
        for i in range(n):
            ncol = len(z.cols)
            mode = i % 4
            if mode == 0:
                codecs = [0] * ncol
            elif mode == 1:
                codecs = [1] * ncol
            elif mode == 2:
                codecs = [2] * ncol
            else:
                codecs = [rng.randrange(3) for _ in range(ncol)]       # per-column codec
            flags = ("s" if rng.random() < 0.5 else "") + ("e" if rng.random() < 0.5 else "") + "x"
            if "s" in flags and rng.random() < 0.5:
                flags += "n"          # statistics with min/max only: null_count is an optional member
            if rng.random() < 0.4:
                flags += "L"          # parquet-mr style labels: BIT_PACKED for the levels a column does not have
            if rng.random() < 0.3:
                flags += rng.choice("oO")      # deprecated ColumnChunk.file_offset: 0 / just past the chunk instead of its start
            if rng.random() < 0.25:
                flags += "p%d" % rng.choice([1, 3, 7, 15])
            rgs = []
            for _ in range(rng.choice([1, 1, 2, 3])):
                k = rng.choice([1, 2, 3, 5, 9, 17, 40]) if rng.random() < 0.8 else rng.choice([70, 130, 600])
                if name in ("flat", "person") and k > 40:
                    k = 40
                rgs.append([g.record(z.nodes) for _ in range(k)])
            if rng.random() < 0.2:
                rgs.insert(rng.randrange(len(rgs) + 1), [])       # a row group without rows (num_rows = 0) is legal
            if max(len(r) for r in rgs) > 130:
                codecs = [2 if c == 1 else c for c in codecs]       # the Lean snappy encoder is quadratic in the page size
            out.append((z, codecs, flags, rng.randrange(1 << 30), rgs))
    # long pages encoded as ONE bit-packed run per level stream (run payloads far beyond 255 bytes), and as
    # RLE runs of length 1 only
    z = zs.get("three")
    if z is not None:
        g = zoolib.Gen(rng, mode="pool", p_nil=0.4, lens=(0, 1, 2, 3))
        for n in (2200, 300):
            rs = [g.record(z.nodes) for _ in range(n)]
            for flags in (("sxB",) if n > 1000 else ("sxB", "xR")):      # many tiny runs are quadratic in the Lean decoders
                for codec in (0, 2):       # (the Lean snappy encoder is quadratic: kept to the smaller files)
                    out.append((z, [codec] * len(z.cols), flags, rng.randrange(1 << 30), [rs]))
    # members of the footer / page headers beyond 64 KiB: min/max statistics of 70 000-byte string values (uncompressed:
    # the Lean compressors are quadratic), with and without the optional metadata
    z = zs.get("three")
    if z is not None:
        big = ("struct", [("leaf", zoolib.le(1, 8)), ("some", ("leaf", bytes((i * 11 + i // 253) % 256 for i in range(70000)))), ("list", [])])
        small = ("struct", [("leaf", zoolib.le(2, 8)), ("nil",), ("list", [("leaf", zoolib.le(5, 4))])])
        for flags in ("sx", "sex"):
            out.append((z, [0] * len(z.cols), flags, rng.randrange(1 << 30), [[big, small], [small]]))
    return out


def run(chk):
    thorough = chk.tier == "thorough"
    cov = {"steps": {}}
    with Lock():
        cov["steps"] = rebuild_tools(chk.log)
        cov["steps"]["zoo"] = build_zoo(chk.log)
        build_pqh(chk.log)
        pr = proof_stage(chk, MODULE, THEOREMS + EXTRA_THEOREMS, EXTRA_MODULES, audit_imports=EXTRA_MODULES)
    pair = Pair(chk.log)
    zs = filelevel.load_zoos(pair, workloads.ZOOS)
    cases = spec_cases(chk, zs, thorough)
    ops = []
    for z, codecs, flags, seed, rgs in cases:
        rtxt = "/".join(";".join(z.proj(r) for r in g) for g in rgs)
        ops.append("specwrite %s %s %s %d - %s" % (z.cols_text, ",".join(map(str, codecs)), flags, seed, rtxt))
    sw = common.chunked_parallel(pair.model, ops, workers=16, chunk=8)
    files = [(s.split(" ") + ["-"])[:2] for s in sw]
    # the foreign file must itself be valid according to the independent parser (sanity of the writer model)
    par = common.chunked_parallel(pair.model, ["parse %s %d %s %s" % (c[0].cols_text, 100000, f[0], f[1]) for c, f in zip(cases, files)], workers=16, chunk=8)
    impl = common.chunked_parallel(pair.impl, ["zoo-read %s %s" % (c[0].name, f[0]) for c, f in zip(cases, files)], workers=16, chunk=8)
    model = common.chunked_parallel(pair.model, ["read %s %s %s" % (c[0].cols_text, f[0], f[1]) for c, f in zip(cases, files)], workers=16, chunk=8)
    # merged files: the row groups of two foreign files of the same struct, written with DIFFERENT codec assignments,
    # under one footer (what parquet-tools merge does): the codec is a property of each column chunk, not of a column
    merged = []
    byzoo = {}
    for k, ((z, codecs, flags, seed, rgs), f) in enumerate(zip(cases, files)):
        if len(f[0]) < 60000 and "p" not in flags.replace("x", ""):
            byzoo.setdefault(z.name, []).append(k)
    pairs_ = []
    for name, ks in byzoo.items():
        for a, b in zip(ks[::2], ks[1::2]):
            if cases[a][1] != cases[b][1]:
                pairs_.append((a, b))
    pairs_ = pairs_[: (60 if thorough else 16)]
    mres = common.chunked_parallel(pair.model, ["mergefiles %s %s" % (files[a][0], files[b][0]) for a, b in pairs_], workers=8, chunk=4)
    for (a, b), r in zip(pairs_, mres):
        if r.startswith("ok "):
            tab = ",".join(t for t in (files[a][1], files[b][1]) if t != "-") or "-"
            merged.append((a, b, r.split(" ")[1], tab))
    m_impl = common.chunked_parallel(pair.impl, ["zoo-read %s %s" % (cases[a][0].name, f) for a, b, f, t in merged], workers=8, chunk=4)
    m_model = common.chunked_parallel(pair.model, ["read %s %s %s" % (cases[a][0].cols_text, f, t) for a, b, f, t in merged], workers=8, chunk=4)
    # Lean compressors vs the external decoders (validates the foreign snappy / gzip streams)
    dops, dwant = [], []
    for (z, codecs, flags, seed, rgs), f in zip(cases, files):
        if f[1] != "-":
            for kv in f[1].split(",")[:6]:
                k, v = kv.split("=")
                codec = 2 if k.startswith("1f8b") else 1
                dops.append("decompress %d %s" % (codec, k)); dwant.append("ok " + v)
    dres = common.chunked_parallel(pair.impl, dops, workers=8, chunk=200)

    tie_breaks, prop_fail = [], []
    nontrivial = set()
    dist = {"codec_modes": {}, "flags": {}, "rowgroups": {}, "records": 0}
    for o, w, g in zip(dops, dwant, dres):
        if g != w:
            tie_breaks.append({"what": "Lean compressor output not decoded by the external library", "op": o[:200], "got": g[:100]})
    for (a_, b_, f_, t_), gi, gm in zip(merged, m_impl, m_model):
        z = cases[a_][0]
        recs = [z.proj(r) for k in (a_, b_) for g in cases[k][4] for r in g]
        want = "open=ok rows=%d nexts=%d err=ok recs=%s" % (len(recs), len(recs), ";".join(recs) or "-")
        got = filelevel.strip_calls(gi)
        o = "mergefiles of [%s] and [%s]" % (ops[a_][:1500], ops[b_][:1500])
        if got != gm:
            tie_breaks.append({"what": "reader model vs generated reader on a merged foreign file", "op": o[:400], "impl": got[:300], "model": gm[:300]})
        if got != want:
            prop_fail.append({"case": o, "key": {"zoo": z.name, "where": "merged", "outcome": got.split(" recs=")[0][:60], "padding": False},
                              "clause": "records read from a merged file (row groups with different codecs per column) differ", "got": got[:600], "want": want[:600]})
        else:
            nontrivial.add(o)
    for (z, codecs, flags, seed, rgs), f, p, a, b, o in zip(cases, files, par, impl, model, ops):
        recs = [z.proj(r) for g in rgs for r in g]
        want = "open=ok rows=%d nexts=%d err=ok recs=%s" % (len(recs), len(recs), ";".join(recs) or "-")
        wantp = "ok rows=%d rgs=%s" % (len(recs), "/".join((";".join(z.proj(r) for r in g) or "-") for g in rgs))
        dist["codec_modes"]["mixed" if len(set(codecs)) > 1 else str(codecs[0])] = dist["codec_modes"].get("mixed" if len(set(codecs)) > 1 else str(codecs[0]), 0) + 1
        dist["flags"][flags] = dist["flags"].get(flags, 0) + 1
        dist["rowgroups"][len(rgs)] = dist["rowgroups"].get(len(rgs), 0) + 1
        dist["records"] += len(recs)
        got = filelevel.strip_calls(a)
        if p != wantp and not ("p" in flags.replace("x", "") and p == "invalid levels:_non-zero_padding") and not (("o" in flags or "O" in flags) and "file_offset" in p):
            tie_breaks.append({"what": "specWrite output is not valid per the independent parser (writer model defect)", "op": o[:300], "parse": p[:300]})
            continue
        if got != b:
            tie_breaks.append({"what": "reader model vs generated reader on a foreign file", "op": o[:300], "impl": got[:300], "model": b[:300]})
        if got != want:
            where = "status"
            gr, wr = got.split("recs=")[-1].split(";"), want.split("recs=")[-1].split(";")
            for i, (x, y) in enumerate(zip(gr, wr)):
                if x != y:
                    colsd = [k for k, (u, v) in enumerate(zip(x.split("|"), y.split("|"))) if u != v]
                    where = ".".join(z.cols[colsd[0]][0]) if colsd else "record"
                    break
            prop_fail.append({"case": o[:4000], "key": {"zoo": z.name, "where": where, "outcome": got.split(" recs=")[0][:60], "padding": "p" in flags},
                              "clause": "records read from a conformant foreign file differ (%s)" % where, "got": got[:600], "want": want[:600]})
        else:
            nontrivial.add(o)
    cov.update({
        "obligations": pr["obligations"], "discharged": pr["discharged"], "axioms": pr["axioms"],
        "checker_cmd": "cd lean && lake build %s" % MODULE, "trusted_base": TRUSTED_BASE, "forbidden_constructs": pr["forbidden_constructs"],
        "merged_files": len(merged),
        "evaluations": len(cases) + len(merged), "distinct_nontrivial": len(nontrivial),
        "rule": "files produced by the independent Lean writer PQ.specWrite under seeded random legal choices: run segmentation of every level stream (RLE runs of any length, bit-packed runs of any group count incl. > 63, multi-byte headers, padding values), independent page splits per column at record boundaries, per-column codec, and merged files whose row groups use different codecs for the same column (snappy streams from the Lean encoder with random literal/copy segmentation, gzip containers with stored blocks), level-encoding labels as parquet-mr writes them (BIT_PACKED for levels a column does not have); the deprecated file_offset of a column chunk pointing at its start, at 0 or just past it; statistics (complete, or min/max without the optional null_count) and optional/unknown thrift fields present or absent; 5 structs; non-trivial = distinct file read back correctly",
        "samples": [ops[0][:300], ops[len(ops) // 2][:300]],
        "input_distribution": dist,
        "tie": "reader model = generated reader on every foreign file; specWrite's files validated by PQ.parseFile; Lean snappy/gzip streams decoded by the external libraries",
        "tie_disagreements": len(tie_breaks), "property_failures_on_impl": len(prop_fail),
        "traces_validated_against_impl": len(cases),
    })
    return common.verdict(chk, cov, pr, prop_fail, tie_breaks, "C04", "reader model vs generated reader on foreign files", [
        "gzip variety is limited to stored blocks (the inflate implementation is Go's standard library, not repository code)"])


def replay(chk, path):
    body = json.load(open(path))
    print(json.dumps(body, indent=1)[:4000])
    return run(chk)
