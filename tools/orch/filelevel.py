"""Shared file-level pipeline: for each case (zoo struct, page size, codec, history) run the real
generated writer/reader and the Lean model (writer, reader, independent parser) and collect
everything the file-level properties compare."""
import common, zoo as zoolib


def load_zoos(pair, names):
    out = {}
    res = pair.impl(["zoo-schema %s" % n for n in names])
    for n, line in zip(names, res):
        if line in ("panic", "crash", "bad-op"):
            out[n] = None
        else:
            out[n] = zoolib.Zoo(n, line)
    return out


class Case:
    __slots__ = ("zoo", "max", "codec", "ops", "go_ops", "m_ops", "impl_file", "impl_calls", "model_file", "model_calls",
                 "tab", "dtab", "parse", "impl_read", "model_read", "tag")

    def __init__(self, z, mx, codec, ops, tag=""):
        self.zoo, self.max, self.codec, self.ops, self.tag = z, mx, codec, ops, tag
        self.go_ops, self.m_ops = z.ops_text(ops)

    def key(self):
        return "%s max=%d codec=%d ops=%s" % (self.zoo.name, self.max, self.codec, self.go_ops)


def run_cases(pair, cases, workers=8, want_read=True, want_parse=True, want_model_write=True):
    par = lambda f, lines, chunk=max(1, min(400, len(cases) // (2 * workers) + 1)): common.chunked_parallel(f, lines, workers=workers, chunk=chunk)
    # 1. implementation writes
    res = par(pair.impl, ["zoo-write %s %d %d %s" % (c.zoo.name, c.max, c.codec, c.go_ops) for c in cases])
    for c, r in zip(cases, res):
        parts = r.split(" ")
        c.impl_file, c.impl_calls = (parts + [""])[:2] if len(parts) >= 2 else ("-", r)
    # 2. codec graph for the model: payloads -> external library
    need = [c for c in cases if c.codec != 0]
    pls = par(pair.model, ["payloads %s %d %d %s" % (c.zoo.cols_text, c.max, c.codec, c.m_ops) for c in need])
    comp_ops, owner = [], []
    for c, p in zip(need, pls):
        items = [] if p in ("-", "bad-op") else p.split(",")
        for it in dict.fromkeys(items):
            comp_ops.append("compress %d %s" % (c.codec, it)); owner.append((c, it))
    comp = par(pair.impl, comp_ops)
    for c in cases:
        c.tab, c.dtab = {}, {}
    for (c, it), z in zip(owner, comp):
        c.tab[it] = z
        c.dtab[z] = it
    tabtxt = lambda d: ",".join("%s=%s" % kv for kv in d.items()) or "-"
    # 3. model writes
    if want_model_write:
        res = par(pair.model, ["write %s %d %d %s %s" % (c.zoo.cols_text, c.max, c.codec, c.m_ops, tabtxt(c.tab)) for c in cases])
        for c, r in zip(cases, res):
            parts = r.split(" ")
            c.model_file, c.model_calls = (parts + [""])[:2] if len(parts) >= 2 else ("-", r)
    # 4. independent parse of the implementation's bytes
    if want_parse:
        res = par(pair.model, ["parse %s %d %s %s" % (c.zoo.cols_text, c.max, c.impl_file, tabtxt(c.dtab)) for c in cases])
        for c, r in zip(cases, res):
            c.parse = r
    # 5. read back: implementation reader and model reader on the implementation's bytes
    if want_read:
        res = par(pair.impl, ["zoo-read %s %s" % (c.zoo.name, c.impl_file) for c in cases])
        for c, r in zip(cases, res):
            c.impl_read = r
        res = par(pair.model, ["read %s %s %s" % (c.zoo.cols_text, c.impl_file, tabtxt(c.dtab)) for c in cases])
        for c, r in zip(cases, res):
            c.model_read = r
    return cases


def strip_calls(read_line):
    """drop the trailing calls=<n> of zoo-read"""
    return " ".join(p for p in read_line.split(" ") if not p.startswith("calls=") and not p.startswith("trace="))


def expected_parse(c):
    """what the independent parser must report for the history of case c (the list-of-batches model)"""
    bs = zoolib.batches(c.ops)
    rows = sum(len(b) for b in bs)
    rgs = "/".join(";".join(c.zoo.proj(r) for r in b) for b in bs) or "-"
    return "ok rows=%d rgs=%s" % (rows, rgs)


def expected_read(c):
    bs = zoolib.batches(c.ops)
    recs = [c.zoo.proj(r) for b in bs for r in b]
    return "open=ok rows=%d nexts=%d err=ok recs=%s" % (len(recs), len(recs), ";".join(recs) or "-")
