"""C15 — a struct regenerated from a file reads that file back faithfully."""
import json, re
from concurrent.futures import ThreadPoolExecutor
import common, zoo as zoolib, filelevel, workloads, shapes
from common import Pair, proof_stage, rebuild_tools, build_pqh, build_zoo, Lock, TRUSTED_BASE

MODULE = "PQ.Props.C15"
THEOREMS = ["PQ.C15." + t for t in ("goodName", "structOf_regenerates", "parse_regenerated", "regenerate", "regenerate_written")]
PRIMS6 = ["int32", "int64", "float32", "float64", "bool", "string"]


def norm_tree(t):
    """field tree text with group type names and the case of field names' first letter normalised"""
    t = re.sub(r"\|([^|{},]+)\|([rom])\{", r"|G|\2{", t)
    return t


def run(chk):
    thorough = chk.tier == "thorough"
    cov = {"steps": {}}
    allf = [f for f in shapes.corpus(4) if "m" not in shapes.name_of(f)]
    two_groups = [f for f in allf if shapes.name_of(f).count("(") >= 2]      # groups of differing optionality need >= 4 nodes
    forests = allf if thorough else [f for f in allf if sum(1 for c in shapes.name_of(f) if c in "ro") <= 3] + two_groups + allf[::11]
    forests = [f for i, f in enumerate(forests) if f not in forests[:i]]
    items = [("t%04d" % i, shapes.render(f, "t%04d" % i, PRIMS6), "T") for i, f in enumerate(forests)]
    names = {sid: shapes.name_of(f) for (sid, _, _), f in zip(items, forests)}
    # column names that start with a lower-case letter outside ASCII (the regenerated field must still be exported);
    # the Lean model of strings.Title covers ASCII only, so these take part in the oracles, not in the text tie
    NONASCII = [
        ("names:latin1", "type G1 struct {\n\tÂge float64 `parquet:\"âge\"`\n\tÜber *bool `parquet:\"über\"`\n}\n\ntype T struct {\n\tÉté int32 `parquet:\"été\"`\n\tÉquipe *G1 `parquet:\"équipe\"`\n\tÑandú string `parquet:\"ñandú\"`\n}\n"),
        ("names:greek-cyrillic", "type T struct {\n\tΩmega int64 `parquet:\"ωmega\"`\n\tЖук *string `parquet:\"жук\"`\n\tPlain bool `parquet:\"plain\"`\n}\n"),
    ]
    # groups whose concatenated paths spell the same string: meta > data vs metadata; a > bc vs ab > c
    COLLIDE = [
        ("names:concat-collision", "type Data struct {\n\tSize int64 `parquet:\"size\"`\n}\n\ntype Meta struct {\n\tData Data `parquet:\"data\"`\n\tKind *string `parquet:\"kind\"`\n}\n\ntype Metadata struct {\n\tSize int32 `parquet:\"size\"`\n\tRatio *float64 `parquet:\"ratio\"`\n}\n\ntype T struct {\n\tMeta Meta `parquet:\"meta\"`\n\tMetadata *Metadata `parquet:\"metadata\"`\n}\n"),
        ("names:concat-collision-2", "type Bc struct {\n\tX int32 `parquet:\"x\"`\n}\n\ntype A struct {\n\tBc *Bc `parquet:\"bc\"`\n}\n\ntype C struct {\n\tY string `parquet:\"y\"`\n}\n\ntype Ab struct {\n\tC C `parquet:\"c\"`\n}\n\ntype T struct {\n\tA A `parquet:\"a\"`\n\tAb *Ab `parquet:\"ab\"`\n}\n"),
    ]
    COLLIDE.append(("names:type-name-prefix", "type Session_stats struct {\n\tHits int64 `parquet:\"hits\"`\n}\n\ntype Session struct {\n\tStart int64 `parquet:\"start\"`\n\tAgent *string `parquet:\"agent\"`\n}\n\ntype Ev struct {\n\tKind string `parquet:\"kind\"`\n}\n\ntype T struct {\n\tSession_stats Session_stats `parquet:\"session_stats\"`\n\tSession *Session `parquet:\"session\"`\n\tEvents Ev `parquet:\"events\"`\n\tEv *Ev `parquet:\"ev\"`\n}\n"))
    for k, (nm, body) in enumerate(COLLIDE):
        sid = "t8%03d" % k
        items.append((sid, "package %s\n\n%s" % (sid, body), "T"))
        names[sid] = nm
    skip_model = set()
    for k, (nm, body) in enumerate(NONASCII):
        sid = "t9%03d" % k
        items.append((sid, "package %s\n\n%s" % (sid, body), "T"))
        names[sid] = nm
        skip_model.add(sid)
    srcs = {sid: src for sid, src, _ in items}
    with Lock():
        cov["steps"] = rebuild_tools(chk.log)
        cov["steps"]["zoo"] = build_zoo(chk.log)
        build_pqh(chk.log)
        status, shards = shapes.build(items, chk.log, tag="c15a")
        pr = proof_stage(chk, MODULE, THEOREMS)
    prop_fail, tie_breaks = [], []
    # ---- step 1: write a file with every original struct
    written = {}

    def write_all(shard):
        binary, ids = shard
        pair = Pair(chk.log); pair.pqh = binary
        zs = filelevel.load_zoos(pair, ids)
        cases = []
        for sid in ids:
            z = zs.get(sid)
            if z is None:
                continue
            g = zoolib.Gen(chk.rng, mode="mixed")
            recs, _, _ = workloads.structural_records(z, chk.rng, 12)
            ops = [("a", r) for r in recs + [g.record(z.nodes) for _ in range(3)]] + [("w",), ("c",)]
            cases.append(filelevel.Case(z, 4, 0, ops, sid))
        filelevel.run_cases(pair, cases, workers=2, want_parse=False)
        return cases
    with ThreadPoolExecutor(max_workers=16) as ex:
        for cs in ex.map(write_all, shards):
            for c in cs:
                written[c.tag] = c
    pair = Pair(chk.log)
    ok_ids = [sid for sid in written if filelevel.strip_calls(written[sid].impl_read) == filelevel.expected_read(written[sid])]
    # ---- step 2: regenerated struct, structurally (tree level), and structs.Struct vs the model
    metas = common.chunked_parallel(pair.impl, ["meta %s" % written[sid].impl_file for sid in ok_ids], workers=8, chunk=50)
    elems = {}
    for sid, m in zip(ok_ids, metas):
        sc = re.search(r"schema=(\S+)", m).group(1)
        es = []
        for e in sc.split(","):
            nm, ty, rep, nc, conv = e.split(":")
            es.append("%s:%s:%s:%s" % (bytes.fromhex(nm).decode(), ty, rep, nc))
        elems[sid] = ";".join(es)
    so_i = common.chunked_parallel(pair.impl, ["struct-of T %s" % elems[sid] for sid in ok_ids], workers=8, chunk=50)
    so_m = common.chunked_parallel(pair.model, ["struct-of T %s" % elems[sid] for sid in ok_ids], workers=8, chunk=50)
    tr_m = common.chunked_parallel(pair.model, ["struct-of-tree T %s" % elems[sid] for sid in ok_ids], workers=8, chunk=50)
    regen_src = {sid: "package p\n\n" + bytes.fromhex(a).decode() for sid, a in zip(ok_ids, so_i) if a not in ("panic", "crash")}
    tr_regen = dict(zip(regen_src, common.chunked_parallel(pair.impl, ["parse-struct T %s" % regen_src[sid].encode().hex() for sid in regen_src], workers=8, chunk=50)))
    tr_orig = dict(zip(ok_ids, common.chunked_parallel(pair.impl, ["parse-struct T %s" % srcs[sid].encode().hex() for sid in ok_ids], workers=8, chunk=50)))
    nontrivial = set()
    for sid, a, b, tm in zip(ok_ids, so_i, so_m, tr_m):
        if sid in skip_model:
            tm = tr_regen.get(sid, "missing").split(" errs=")[0]
        elif a != b:
            tie_breaks.append({"shape": names[sid], "what": "structs.Struct vs PQ.Structs.structOf (text)", "impl": bytes.fromhex(a).decode()[:300] if a not in ("panic",) else a, "model": b[:100]})
        t_regen = tr_regen.get(sid, "missing").split(" errs=")[0]
        if t_regen != tm:
            tie_breaks.append({"shape": names[sid], "what": "field tree of the regenerated struct: parse.Fields vs model", "impl": t_regen[:300], "model": tm[:300]})
        t_orig = tr_orig[sid].split(" errs=")[0]
        if norm_tree(t_regen) != norm_tree(t_orig):
            prop_fail.append({"case": "shape %s\n%s" % (names[sid], srcs[sid]), "key": {"shape": names[sid], "kind": "struct"},
                              "clause": "regenerated struct differs structurally from the source struct", "got": t_regen[:400], "want": t_orig[:400]})
        else:
            nontrivial.add(sid)
    # ---- step 3: end to end: parquetgen -parquet on the written file, compile, read the file back
    sample = ok_ids if thorough else ok_ids[::3]
    items2 = [("u" + sid[1:], bytes.fromhex(written[sid].impl_file), "T") for sid in sample]
    with Lock():
        status2, shards2 = shapes.build(items2, chk.log, tag="c15b")
    e2e = 0

    def read_all(shard):
        binary, ids = shard
        pair2 = Pair(chk.log); pair2.pqh = binary
        res = pair2.impl(["zoo-read %s %s" % (uid, written["t" + uid[1:]].impl_file) for uid in ids])
        return list(zip(ids, res))
    with ThreadPoolExecutor(max_workers=16) as ex:
        for rs in ex.map(read_all, shards2):
            for uid, r in rs:
                sid = "t" + uid[1:]
                e2e += 1
                if filelevel.strip_calls(r) != filelevel.expected_read(written[sid]):
                    prop_fail.append({"case": "shape %s\n%s" % (names[sid], srcs[sid]), "key": {"shape": names[sid], "kind": "readback"},
                                      "clause": "reader generated from the regenerated struct does not return the written values", "got": filelevel.strip_calls(r)[:400], "want": filelevel.expected_read(written[sid])[:400]})
    for uid, st in status2.items():
        if st != "ok":
            sid = "t" + uid[1:]
            prop_fail.append({"case": "shape %s\n%s" % (names[sid], srcs[sid]), "key": {"shape": names[sid], "kind": st.split(":")[0]},
                              "clause": "parquetgen -parquet on the written file: " + st[:200], "got": st[:300], "want": "generates and compiles"})
    cov.update({
        "obligations": pr["obligations"], "discharged": pr["discharged"], "axioms": pr["axioms"],
        "checker_cmd": "cd lean && lake build %s" % MODULE, "trusted_base": TRUSTED_BASE, "forbidden_constructs": pr["forbidden_constructs"],
        "programs": len(items) + len(items2), "disagreements_checked": len(tie_breaks) + len(prop_fail),
        "evaluations": len(ok_ids) + e2e, "distinct_nontrivial": len(nontrivial), "shapes": len(items), "shapes_with_working_writer": len(ok_ids), "end_to_end": e2e,
        "rule": "all non-repeated struct shapes (required/optional leaves and groups, depth <= 3, leaf types rotating through int32,int64,float32,float64,bool,string) with <= %s nodes: a file is written with the shape's generated writer; structs.Struct on the file's footer schema must equal the Lean model's text and, parsed by parse.Fields, the source struct's field tree (names up to Title-case, group type names aside); end to end: parquetgen -parquet on the file, compile, read the file back and compare with the written records; non-trivial = distinct shape whose regenerated struct matches" % ("4 (thorough)" if thorough else "3 plus a sample of 4 (quick)"),
        "samples": [names[items[0][0]], names[items[len(items) // 2][0]]],
        "tie": "exact: structs.Struct text = PQ.Structs.render (structOf …); parse.Fields tree of the regenerated struct = model's",
        "tie_disagreements": len(tie_breaks), "property_failures_on_impl": len(prop_fail),
        "traces_validated_against_impl": len(ok_ids) + e2e,
    })
    return common.verdict(chk, cov, pr, prop_fail, tie_breaks, "C15", "structs.Struct / parse.Fields vs the Lean models", [
        "shapes whose ORIGINAL generated writer/reader already fail (C05 known findings) are not used as inputs here",
        "unsigned types are outside the property (the footer carries them as INT32/INT64 + converted type, which structs.Struct ignores)"])


def replay(chk, path):
    body = json.load(open(path))
    print(json.dumps(body, indent=1)[:4000])
    return run(chk)
