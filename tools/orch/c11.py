"""C11 — a truncated file is never accepted."""
import json, re
import common, zoo as zoolib, filelevel, workloads, iocommon
from common import Pair, proof_stage, rebuild_tools, build_pqh, build_zoo, Lock, TRUSTED_BASE

MODULE = "PQ.Props.C11"
THEOREMS = ["PQ.C11." + t for t in ("truncated_rejected_partial", "short_rejected", "no_trailing_magic_rejected", "drop_take_prefix", "accepted_has_trailer", "truncated_rejected_unless_trailer")]


def expand(rle):
    out = []
    for part in rle.split(","):
        if part:
            out += [part[0]] * int(part[1:])
    return out


def crafted(z, pair, zs_all=None):
    """files of struct three whose string column holds a complete trailer:
    A: footer ++ le32(len)            (a prefix ending there lacks only the trailing magic)
    B: footer ++ le32(len) ++ "PAR1"  (a prefix ending there is itself a well-formed file: inherent)"""
    empty = pair.impl(["zoo-write %s 2 0 c" % z.name])[0].split(" ")[0]
    raw = bytes.fromhex(empty)
    trailer = raw[4:-4]           # footer ++ le32(len)
    out = []
    footer = raw[4:-8]
    filler = bytes((i * 11 + 3) % 251 for i in range(5000))
    far = footer + filler + zoolib.le(len(footer) + len(filler), 4) + b"abcd"     # a length field pointing far back, no magic
    far_magic = footer + filler + zoolib.le(len(footer) + len(filler), 4)          # same, and the next bytes in the file decide
    # near-miss magics: a reader that compares only part of the magic (a prefix, case-insensitively, ...)
    # accepts the prefix ending there; the real magic is exactly "PAR1"
    # a value that is just the magic (PLAIN writes it as 04 00 00 00 "PAR1": "a footer of length 4") and one preceded by a
    # zero length
    tiny = [("value-is-the-magic", b"PAR1"), ("value-zero-length-then-magic", b"\x00\x00\x00\x00PAR1"), ("value-magic-twice", b"PAR1PAR1")]
    near = tiny + [("embedded-trailer-near-magic-" + m.hex(), trailer + m) for m in (b"PAR2", b"PART", b"PAR\x00", b"par1", b"PARE", b"\x00AR1", b"1RAP")]
    # a complete one-record file of the same struct inside the value of the LAST column of the last page, followed by
    # more bytes of that value: the prefix ending right after the embedded file's magic has a decodable footer of the
    # right table, but its last page is cut short (struct samename: the last column is an optional string)
    zl = zs_all.get("samename") if zs_all else None
    if zl is not None:
        def set_last(rec, payload):
            kind = rec[0]
            if kind == "struct":
                return ("struct", rec[1][:-1] + [set_last(rec[1][-1], payload)])
            if kind in ("some", "nil"):
                return ("some", ("leaf", payload))
            return ("leaf", payload)
        g = zoolib.Gen(__import__("random").Random(11), mode="pool")
        base_rec = g.record(zl.nodes)
        inner = bytes.fromhex(pair.impl(["zoo-write %s 2 0 %s" % (zl.name, zl.ops_text([("a", set_last(base_rec, b"in")), ("w",), ("c",)])[0])])[0].split(" ")[0])
        out.append(filelevel.Case(zl, 2, 0, [("a", set_last(base_rec, inner + b"tail-of-the-value")), ("w",), ("c",)], "embedded-complete-file-in-last-value"))
    # the trailer of a TWO-row-group file (same first row group) inside a value of the second row group: the prefix ending
    # there has a footer that lists more row groups than the prefix holds
    r1 = ("struct", [("leaf", zoolib.le(7, 8)), ("some", ("leaf", b"first")), ("list", [("leaf", zoolib.le(1, 4))])])
    r2s = ("struct", [("leaf", zoolib.le(8, 8)), ("some", ("leaf", b"second")), ("list", [])])
    for codec in (0, 1):
        f2 = bytes.fromhex(pair.impl(["zoo-write %s 2 %d %s" % (z.name, codec, z.ops_text([("a", r1), ("w",), ("a", r2s), ("w",), ("c",)])[0])])[0].split(" ")[0])
        flen = int.from_bytes(f2[-8:-4], "little")
        t2 = f2[-(flen + 8):]
        r2 = ("struct", [("leaf", zoolib.le(8, 8)), ("some", ("leaf", t2)), ("list", [])])
        out.append(filelevel.Case(z, 2, codec, [("a", r1), ("w",), ("a", r2), ("w",), ("c",)], "embedded-two-rowgroup-trailer-in-second-row-group"))
    for tag, payload in [("embedded-footer-no-magic", trailer), ("embedded-complete-trailer", trailer + b"PAR1"),
                         ("embedded-footer-far-length-no-magic", far), ("embedded-footer-far-length", far_magic)] + near:
        rec = ("struct", [("leaf", zoolib.le(7, 8)), ("some", ("leaf", payload)), ("list", [])])
        rec2 = ("struct", [("leaf", zoolib.le(8, 8)), ("nil",), ("list", [("leaf", zoolib.le(1, 4))])])
        out.append(filelevel.Case(z, 2, 0, [("a", rec), ("a", rec2), ("w",), ("c",)], tag))
    return out


def run(chk):
    thorough = chk.tier == "thorough"
    cov = {"steps": {}}
    with Lock():
        cov["steps"] = rebuild_tools(chk.log)
        cov["steps"]["zoo"] = build_zoo(chk.log)
        build_pqh(chk.log)
        pr = proof_stage(chk, MODULE, THEOREMS)
    pair = Pair(chk.log)
    zs = filelevel.load_zoos(pair, workloads.ZOOS)
    cases = iocommon.corpus(chk, pair, zs, thorough, per_zoo=(2 if thorough else 1))
    cr = crafted(zs["three"], pair, zs)
    filelevel.run_cases(pair, cr, want_parse=False)
    cases += cr
    tabtxt = lambda d: ",".join("%s=%s" % kv for kv in d.items()) or "-"
    impl = common.chunked_parallel(pair.impl, ["zoo-read-prefixes %s %s" % (c.zoo.name, c.impl_file) for c in cases], workers=16, chunk=1)
    model = common.chunked_parallel(pair.model, ["read-prefixes %s %s %s" % (c.zoo.cols_text, c.impl_file, tabtxt(c.dtab)) for c in cases], workers=16, chunk=1)
    # the same source handed over at another position (after sniffing the leading magic; at its end): the reader
    # seeks by itself, so the verdicts must be the same (seeded change C11-r8: a "restore the position" defer that
    # overwrote the error whenever the position was not 0)
    moved = [c for i, c in enumerate(cases) if thorough or i % 2 == 0]
    impl4 = common.chunked_parallel(pair.impl, ["zoo-read-prefixes %s %s start=4" % (c.zoo.name, c.impl_file) for c in moved], workers=16, chunk=1)
    imple = common.chunked_parallel(pair.impl, ["zoo-read-prefixes %s %s start=end" % (c.zoo.name, c.impl_file) for c in moved], workers=16, chunk=1)
    modelof = {id(c): b for c, b in zip(cases, model)}
    tie_breaks, prop_fail = [], []
    total, inner = 0, 0
    nontrivial = 0
    triples = [(c, a, b, "") for c, a, b in zip(cases, impl, model)]
    triples += [(c, a, modelof[id(c)], " source handed over at offset 4") for c, a in zip(moved, impl4)]
    triples += [(c, a, modelof[id(c)], " source handed over at its end") for c, a in zip(moved, imple)]
    for c, a, b, how in triples:
        ca, cb = expand(a), expand(b)
        raw = bytes.fromhex(c.impl_file)
        total += len(ca)
        has_inner = raw.find(b"PAR1", 1, len(raw) - 4) >= 0      # NoInnerMagic fails
        inner += has_inner
        norm = lambda x: "R" if x in "Ee" else x
        if [norm(x) for x in ca] != [norm(x) for x in cb]:
            d = next(i for i, (x, y) in enumerate(zip(ca, cb)) if norm(x) != norm(y)) if len(ca) == len(cb) else -1
            tie_breaks.append({"case": c.key()[:300] + how, "what": "accept/reject per prefix length", "first_diff_at_length": d, "impl": a[:200], "model": b[:200]})
        for n, x in enumerate(ca):
            if x in "AP":
                inner_here = n >= 4 and raw[n - 4:n] == b"PAR1"
                prop_fail.append({"case": c.key()[:1500] + " prefix_length=%d" % n + how,
                                  "key": {"tag": c.tag, "outcome": "accepted" if x == "A" else "panic", "prefix_ends_with_magic": inner_here},
                                  "clause": "a strict prefix (length %d of %d) is %s" % (n, len(raw), "accepted as a valid file" if x == "A" else "making the reader panic"),
                                  "got": x, "want": "rejected"})
            else:
                nontrivial += 1
    cov.update({
        "obligations": pr["obligations"], "discharged": pr["discharged"], "axioms": pr["axioms"],
        "checker_cmd": "cd lean && lake build %s" % MODULE, "trusted_base": TRUSTED_BASE, "forbidden_constructs": pr["forbidden_constructs"],
        "evaluations": total, "distinct_nontrivial": nontrivial, "exhaustive": True, "files": len(cases), "files_with_inner_magic": inner,
        "rule": "EVERY strict prefix (every byte length 0..len-1) of valid files of 8 structs x 3 codecs, plus crafted files whose string column holds a complete footer+length (with and without the magic), opened and iterated by the generated reader, the source being handed over at offset 0 and (every second file in quick, every file in thorough) at offset 4 and at its end; non-trivial = distinct (file, prefix length) rejected with an error",
        "samples": [cases[0].key()[:200], cr[0].key()[:200]],
        "tie": "reader model's accept/reject verdict per prefix length = generated reader's",
        "tie_disagreements": len(tie_breaks), "property_failures_on_impl": len(prop_fail),
        "traces_validated_against_impl": total,
    })
    return common.verdict(chk, cov, pr, prop_fail, tie_breaks, "C11", "reader model vs generated reader on every prefix", [
        "the literal statement is false for any reader when a data value contains a complete trailer: that prefix IS a well-formed file (known finding, inherent to the format)",
        "theorem truncated_rejected_partial carries the hypothesis NoInnerMagic (evaluated on every file of the run)"])


def replay(chk, path):
    body = json.load(open(path))
    print(json.dumps(body, indent=1)[:4000])
    return run(chk)
