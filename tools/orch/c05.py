"""C05 — parquetgen never emits silently wrong code for any documented struct shape."""
import json, os, sys
from concurrent.futures import ThreadPoolExecutor
import common, zoo as zoolib, filelevel, workloads, shapes
from common import Pair, proof_stage, rebuild_tools, build_pqh, build_zoo, Lock, TRUSTED_BASE

MODULE = "PQ.Props.C05"
# the generator's level arithmetic (cmd/parquetgen/fields: MaxDef, MaxRep, MaxRepForDef, DefIndex, NilField, IsRep),
# mirrored in PQ/Model/GenLevels.lean and tied exhaustively on all chains up to length 7
GEN_MODULES = ["PQ.Lemmas.GenLevels"]
GEN_THEOREMS = ["PQ.GenLevels." + t for t in ("gMaxDef_eq", "gMaxRep_eq", "gIsRep_eq", "gMaxRepForDef_spec", "gMaxRepForDef_zero", "gMaxRepForDef_le",
                                               "gMaxRepForDef_beyond", "gDefIndex_spec", "gNilField_spec")]
THEOREMS = ["PQ.C05.model_valid_for_every_shape", "PQ.C05.striping_lossless_for_every_shape", "PQ.C02.file_valid", "PQ.schema_valid", "PQ.parseFile_runWriter"]


# (description, declarations): field lists with several names per type
SYNTAX = [
    ("multi-name required leaves", "type T struct {\n\tA, B int32\n\tC string\n}\n"),
    ("multi-name optional leaves", "type T struct {\n\tID int64\n\tX, Y *float64\n}\n"),
    ("multi-name repeated leaves", "type T struct {\n\tP, Q []string\n\tR bool\n}\n"),
    ("multi-name groups", "type G struct {\n\tV int32\n\tW *string\n}\n\ntype T struct {\n\tK int64\n\tL, M G\n}\n"),
    ("one struct type used by several fields", "type A struct {\n\tX int32\n\tY *string\n}\n\ntype T struct {\n\tID int64\n\tB A\n\tS *A\n\tP []A\n}\n"),
    ("one struct type used at two depths", "type A struct {\n\tX int64\n}\n\ntype M struct {\n\tIn A\n\tN *int32\n}\n\ntype T struct {\n\tFirst A\n\tMid *M\n\tLast *A\n}\n"),
    ("multi-name declarations of mixed visibility", "type G struct {\n\tgain, Site *int32\n\tName string\n}\n\ntype T struct {\n\tseq, Samples int32\n\tGain, scratch *int64\n\tLoc G\n\tOpt *G\n}\n"),
    ("multi-name leaves inside a group", "type G struct {\n\tV, W int64\n}\n\ntype T struct {\n\tK int32\n\tH *G\n}\n"),
]


def shape_cases(chk, z, thorough):
    """records for one shape: structural enumeration (capped) and a few random, two page sizes"""
    recs, total, exh = workloads.structural_records(z, chk.rng, 60 if thorough else 24, lens=(0, 1, 2))
    g = zoolib.Gen(chk.rng, mode="mixed")
    recs = recs + [g.record(z.nodes) for _ in range(4)]
    out = []
    for mx in (1000, 2):
        ops = []
        for i in range(0, len(recs), 7):
            ops += [("a", r) for r in recs[i:i + 7]] + [("w",)]
        out.append(filelevel.Case(z, mx, 0 if mx == 1000 else 1, ops + [("c",)], "structural"))
    return out, total, exh


def evaluate(chk, shard, ids, names, thorough):
    """run every shape of one shard binary; returns list of (id, kind, detail, ncases)"""
    binary, _ = shard
    pair = Pair(chk.log)
    pair.pqh = binary
    zs = filelevel.load_zoos(pair, ids)
    res = []
    cases, owner = [], []
    for sid in ids:
        z = zs.get(sid)
        if z is None:
            res.append((sid, "panic", "zoo-schema failed", 0))
            continue
        if z.cols_text != z.cols_fields:
            res.append((sid, "levels", "Fields() declare %s, struct has %s" % (z.cols_fields[:100], z.cols_text[:100]), 0))
            continue
        cs, total, exh = shape_cases(chk, z, thorough)
        cases += cs
        owner += [sid] * len(cs)
    if cases:
        filelevel.run_cases(pair, cases, workers=2)
        tabtxt = lambda d: ",".join("%s=%s" % kv for kv in d.items()) or "-"
        ent = pair.model(["entries %s %d %s %s" % (c.zoo.cols_text, c.max, c.impl_file, tabtxt(c.dtab)) for c in cases])
        want_ops, wowner = [], []
        for k, c in enumerate(cases):
            for b in zoolib.batches(c.ops):
                want_ops.append("stripes %s %s" % (c.zoo.cols_text, ";".join(c.zoo.proj(r) for r in b)))
                wowner.append(k)
        wres = pair.model(want_ops) if want_ops else []
        want = {}
        for k, w in zip(wowner, wres):
            want.setdefault(k, []).append(w)
        bad = {}
        for k, (c, sid, e) in enumerate(zip(cases, owner, ent)):
            if sid in bad:
                continue
            calls = c.impl_calls
            if "panic" in calls:
                bad[sid] = ("panic", "writer panics: " + calls[-60:])
            elif "err" in calls.split(";"):
                bad[sid] = ("panic", "writer returns an error: " + calls[-60:])
            elif c.parse != filelevel.expected_parse(c):
                kind = "invalid-file" if c.parse.startswith("invalid") else "levels"
                bad[sid] = (kind, c.parse[:160])
            elif e != "ok " + ("/".join(want.get(k, [])) or "-"):
                bad[sid] = ("levels", "entries differ from the reference striping")
            elif filelevel.strip_calls(c.impl_read) != filelevel.expected_read(c):
                got = filelevel.strip_calls(c.impl_read)
                bad[sid] = ("roundtrip", got.split(" recs=")[0][:80])
            elif c.impl_file != c.model_file:
                bad[sid] = ("model-tie", "writer bytes differ from the model")
        for sid in ids:
            if zs.get(sid) is None or any(r[0] == sid for r in res):
                continue
            n = sum(1 for o in owner if o == sid)
            if sid in bad:
                res.append((sid, bad[sid][0], bad[sid][1], n))
            else:
                res.append((sid, "ok", "", n))
    return res


def run(chk):
    thorough = chk.tier == "thorough"
    cov = {"steps": {}}
    forests = shapes.corpus_for(thorough)
    items = [("s%04d" % i, f) for i, f in enumerate(forests)]
    names = {sid: shapes.name_of(f) for sid, f in items}
    fmap = dict(items)
    # the same shapes in Go's other field syntax: several names sharing one type (`A, B int32`)
    srcs = {}
    for k, (desc, body) in enumerate(SYNTAX):
        sid = "x%04d" % k
        srcs[sid] = "package %s\n\n%s" % (sid, body)
        items.append((sid, srcs[sid], "T"))
        names[sid] = "syntax:" + desc
    # the same shapes with ONE leaf type throughout (the per-type field code of the generated package is emitted once
    # per primitive type and shared by all columns of that type: columns of equal type but different repetition
    # meet only when types repeat); int32 and string alternate per shape
    uni = shapes.corpus(3) + ([f for f in shapes.corpus(4) if sum(1 for c in shapes.name_of(f) if c in "rom") == 4] if thorough else [])
    for k, f in enumerate(uni):
        if sum(1 for c in shapes.name_of(f) if c in "rom") < 2:
            continue
        sid = "u%04d" % k
        srcs[sid] = shapes.render(f, sid, prims=[["int32"], ["string"]][k % 2])
        items.append((sid, srcs[sid], "T"))
        names[sid] = "uniform:" + shapes.name_of(f)
    with Lock():
        cov["steps"] = rebuild_tools(chk.log)
        cov["steps"]["zoo"] = build_zoo(chk.log)
        build_pqh(chk.log)
        status, shards = shapes.build(items, chk.log)
        pr = proof_stage(chk, MODULE, THEOREMS + GEN_THEOREMS, GEN_MODULES, audit_imports=GEN_MODULES)
    results = {}
    with ThreadPoolExecutor(max_workers=16) as ex:
        for r in ex.map(lambda sh: evaluate(chk, sh, sh[1], names, thorough), shards):
            for sid, kind, detail, n in r:
                results[sid] = (kind, detail, n)
    for sid, st in status.items():
        if st != "ok":
            results[sid] = (st.split(":")[0], st, 0)
    # exact tie of the generator's level arithmetic: every chain of repetition types up to length 7
    import itertools
    gl_ops = ["gen-levels -"] + ["gen-levels " + "".join(c) for n in range(1, 8 if thorough else 7) for c in itertools.product("rom", repeat=n)]
    gpair = Pair(chk.log)
    gl_impl = common.chunked_parallel(gpair.impl, gl_ops, workers=4, chunk=400)
    gl_model = common.chunked_parallel(gpair.model, gl_ops, workers=4, chunk=400)
    gl_bad = [(o, a, b) for o, a, b in zip(gl_ops, gl_impl, gl_model) if a != b]
    known = [k for k in common.load_known() if k.get("property") == "C05" and k.get("status") == "known"]
    kshape = {}
    for k in known:
        for n in k["key"]["shapes"]:
            kshape[(n, k["key"]["kind"])] = k
    prop_fail, tie_breaks = [], []
    for o, a, b in gl_bad[:20]:
        tie_breaks.append({"what": "generator level arithmetic (fields.Field.MaxDef/MaxRep/MaxRepForDef/DefIndex/NilField/IsRep)", "op": o, "impl": a[:200], "model": b[:200]})
    kinds = {}
    ncases = 0
    nontrivial = 0
    hit = set()
    for sid, (kind, detail, n) in sorted(results.items()):
        kinds[kind] = kinds.get(kind, 0) + 1
        ncases += n
        if kind == "ok":
            nontrivial += 1
            continue
        if kind == "model-tie":
            tie_breaks.append({"shape": names[sid], "what": detail})
            continue
        # a uniform-type rendering of a shape that is a known finding fails for the same reason
        match = kshape.get((names[sid], kind)) or kshape.get((names[sid].replace("uniform:", ""), kind))
        if match is not None:
            if id(match) not in hit:
                hit.add(id(match))
                chk.known_hits.append(match)
            continue
        prop_fail.append({"case": "shape %s (%s)\n%s" % (names[sid], sid, srcs[sid] if sid in srcs else shapes.render(fmap[sid], sid)), "key": {"shape": names[sid], "kind": kind},
                          "clause": "shape %s: %s" % (names[sid], kind), "got": detail[:400], "want": "deterministic generation, compiles, valid file, canonical striping, round trip"})
    cov.update({
        "obligations": pr["obligations"], "discharged": pr["discharged"], "axioms": pr["axioms"],
        "checker_cmd": "cd lean && lake build %s" % MODULE, "trusted_base": TRUSTED_BASE, "forbidden_constructs": pr["forbidden_constructs"],
        "level_arithmetic_chains": len(gl_ops), "level_arithmetic_disagreements": len(gl_bad),
        "programs": len(items), "disagreements_checked": len(items) - kinds.get("ok", 0),
        "evaluations": ncases, "distinct_nontrivial": nontrivial, "exhaustive": bool(thorough),
        "rule": "struct shapes of the property's grammar (forest of required/optional/repeated x leaf/group nodes, every sibling position, depth <= 3, leaf types rotated through the 8 primitives): ALL shapes with <= %s; for each: parquetgen run twice (determinism), compiled, and the generated writer/reader driven on structurally enumerated records at two page sizes: writer bytes = model, file validates (PQ.parseFile), entries = reference striping, read-back = input; non-trivial = distinct shape passing everything" % ("4 nodes (1209 shapes), all 4-node chains of three nested groups, every 12th 5-node shape and curated larger shapes" if thorough else "3 nodes (156), every 9th 4-node shape, a fixed sample of deeper/5-node shapes and curated larger shapes (three nested repeated groups, Person, Document)"),
        "samples": [names[items[i][0]] for i in (0, len(items) // 2, len(items) - 1)],
        "outcome_by_kind": kinds, "known_patterns_hit": len(hit),
        "tie": "per shape: generated program = instance of the generic model (exact writer bytes; reader results; independent validation)",
        "tie_disagreements": len(tie_breaks), "property_failures_on_impl": len(prop_fail),
        "traces_validated_against_impl": ncases,
    })
    if os.environ.get("C05_DUMP"):
        json.dump({names[s]: results[s][:2] for s in results if results[s][0] != "ok"}, open(os.environ["C05_DUMP"], "w"), indent=1)
    return common.verdict(chk, cov, pr, prop_fail, tie_breaks, "C05", "generated programs vs the generic model", [
        "'compiles' is the Go compiler's verdict (an observation, not a theorem)",
        "shapes listed in known_findings.json (exact canonical shape + failure kind, derived from the complete enumeration of the <= 4-node corpus on the tree before any change) are reported as KNOWN-FINDING; a listed shape failing in a different kind, or any unlisted shape failing, is a violation"])


def replay(chk, path):
    body = json.load(open(path))
    print(json.dumps(body, indent=1)[:4000])
    return run(chk)
