"""Workloads shared by the file-level checks (C01, C02, C03): structured records for every zoo
struct, partitions into row groups around page boundaries, page sizes, codecs."""
import itertools
import zoo as zoolib

ZOOS = ["three", "flat", "person", "doc", "nested", "samename", "deep", "sameopt", "solo"]
# structs used by the WRITER-side checks only (C02, C03, C12): the generated writer is correct for them on the
# unchanged tree, the generated reader is not (known C05 findings: three nested repeated groups, a list inside a
# list below an optional struct), so the reader-side checks cannot use them
WRITER_ZOOS = ZOOS + ["tri3", "lol"]


def enum_inner(n, lens, leaf):
    if n.children is not None:
        per = [enum_node(c, lens, leaf) for c in n.children]
        return (("struct", list(t)) for t in itertools.product(*per))
    return iter([("leaf", None)])


def enum_node(n, lens, leaf):
    """all structural variants of one field (leaf values are placeholders filled later)"""
    if n.rep == "o":
        return [("nil",)] + [("some", x) for x in enum_inner(n, lens, leaf)]
    if n.rep == "m":
        inner = list(enum_inner(n, lens, leaf))
        out = []
        for k in lens:
            out += [("list", list(t)) for t in itertools.product(inner, repeat=k)]
        return out
    return list(enum_inner(n, lens, leaf))


def fill(v, node_iter, rng, nodes):
    """replace leaf placeholders by pool values (walk in schema order)"""
    def go(v, n):
        k = v[0]
        if k == "leaf":
            return ("leaf", zoolib.leaf_value(rng, n.ptype, "mixed"))
        if k == "nil":
            return v
        if k == "some":
            return ("some", go(v[1], n))
        if k == "list":
            return ("list", [go(x, n) for x in v[1]])
        if k == "struct":
            return ("struct", [goField(x, c) for x, c in zip(v[1], n.children)])
    def goField(v, n):
        return go(v, n)
    return ("struct", [goField(x, c) for x, c in zip(v[1], nodes)])


def structural_records(z, rng, cap, lens=(0, 1, 2)):
    """every combination of nil/non-nil optionals and list lengths at every nesting level, exhaustive
    when the product is <= cap, otherwise an evenly spaced + seeded sample of the enumeration"""
    per = [enum_node(c, lens, None) for c in z.nodes]
    total = 1
    for p in per:
        total *= len(p)
    recs = []
    if total <= cap:
        for t in itertools.product(*per):
            recs.append(fill(("struct", list(t)), None, rng, z.nodes))
        return recs, total, True
    for i in range(cap):
        # mixed-radix decode of a spread index + seeded jitter
        idx = (i * total // cap + rng.randrange(max(1, total // cap))) % total
        t = []
        for p in reversed(per):
            t.append(p[idx % len(p)])
            idx //= len(p)
        recs.append(fill(("struct", list(reversed(t))), None, rng, z.nodes))
    return recs, total, False


def partitions(rng, recs, mx):
    """split a record list into non-empty batches with sizes around the page boundary"""
    out, i = [], 0
    while i < len(recs):
        k = rng.choice([1, mx - 1, mx, mx + 1, 2 * mx, 2 * mx + 1, 3 * mx - 1, rng.randrange(1, 3 * mx + 2)])
        k = max(1, k)
        out.append(recs[i:i + k])
        i += k
    return out


def file_cases(chk, zs, thorough, per_zoo_cap=None, large=False, zoos=None):
    """[(zoo, max, codec, ops, tag)]"""
    out = []
    rng = chk.rng
    cap = per_zoo_cap or (1500 if thorough else 260)
    meta = {}
    for name in (zoos or ZOOS):
        z = zs.get(name)
        if z is None:
            continue
        recs, total, exh = structural_records(z, rng, cap, lens=(0, 1, 2) if name != "flat" else (0, 1, 3))
        meta[name] = {"structural_variants": total, "enumerated": len(recs), "exhaustive": exh}
        # structural records: many per file, several page sizes
        step = 12
        for i in range(0, len(recs), step):
            chunk = recs[i:i + step]
            mx = [1, 2, 3, 5, 1000][(i // step) % 5]
            codec = (i // step) % 3
            ops = []
            for b in partitions(rng, chunk, mx):
                ops += [("a", r) for r in b] + [("w",)]
            out.append((z, mx, codec, ops + [("c",)], "structural"))
        # seeded random records: long lists, extreme values, page-boundary partitions, all codecs
        g = zoolib.Gen(rng, mode="mixed", long_lists=True)
        for j in range(60 if thorough else 14):
            mx = rng.choice([1, 2, 3, 4, 7, 8, 9, 16])
            n = rng.choice([0, 1, mx, mx + 1, 3 * mx, 3 * mx + 1, rng.randrange(1, 40)])
            rs = [g.record(z.nodes) for _ in range(n)]
            ops = []
            for b in partitions(rng, rs, mx):
                ops += [("a", r) for r in b] + [("w",)]
            out.append((z, mx, j % 3, ops + [("c",)], "random"))
        # extremes: all nil / all empty, everything present with long lists
        for p_nil, lens, tag in ((1.0, (0,), "all-absent"), (0.0, (3,), "all-present"), (0.0, (9,), "long-lists")):
            g2 = zoolib.Gen(rng, p_nil=p_nil, lens=lens, mode="pool")
            rs = [g2.record(z.nodes) for _ in range(5)]
            for mx in (2, 1000):
                for codec in (0, 1, 2):
                    out.append((z, mx, codec, [("a", r) for r in rs] + [("w",), ("c",)], tag))
    # large pages: a single page well beyond 32 KiB / 64 KiB of values (decompressor windows, int16/int32 sizes)
    for name, n in ((("three", 4300),) + ((("doc", 1500), ("flat", 600)) if thorough else ())) if large else ():
        z = zs.get(name)
        if z is None:
            continue
        g3 = zoolib.Gen(rng, mode="mixed", p_nil=0.2)
        rs = [g3.record(z.nodes) for _ in range(n)]
        for codec in (0, 1, 2):
            out.append((z, 100000, codec, [("a", r) for r in rs] + [("w",), ("c",)], "large-page"))
            out.append((z, n // 2 + 1, codec, [("a", r) for r in rs] + [("w",), ("c",)], "large-page"))
    # level streams ending at the 63-group boundary of the encoder (504 values) plus a partial group:
    # every third record null / every third list empty so that no RLE run forms
    z = zs.get("three") if large else None
    if z is not None:
        for n in (505, 509, 511, 1012):
            rs = []
            for i in range(n):
                rs.append(("struct", [("leaf", zoolib.le(i, 8)),
                                      ("nil",) if i % 3 == 0 else ("some", ("leaf", b"t%d" % i)),
                                      ("list", [] if i % 3 == 1 else [("leaf", zoolib.le(i, 4))] * (1 + i % 2))]))
            for codec in (0, 1, 2):
                out.append((z, 100000, codec, [("a", r) for r in rs] + [("w",), ("c",)], "level-boundary"))
    # long single pages of the deeply nested structs: level streams of width 3 and 4 with hundreds of
    # values and (nearly) no repeats, i.e. bit-packed runs of dozens of groups at every width
    for name in (("deep", "doc", "nested") if large else ()):
        z = zs.get(name)
        if z is None:
            continue
        g = zoolib.Gen(rng, mode="pool", p_nil=0.35, lens=(0, 1, 2, 3))
        for n in (200, 700):
            rs = [g.record(z.nodes) for _ in range(n)]
            out.append((z, 100000, (n // 100) % 3 if name != "deep" else 0, [("a", r) for r in rs] + [("w",), ("c",)], "wide-levels"))
    # a run of more than 8192 equal levels (three-byte RLE header) FOLLOWED by other levels in the same page
    z = zs.get("three") if large else None
    if z is not None:
        rs = []
        for i in range(8300):
            late = i >= 8210
            rs.append(("struct", [("leaf", zoolib.le(i, 8)), ("some", ("leaf", b"v%d" % i)) if (late and i % 2) else ("nil",),
                                  ("list", [("leaf", zoolib.le(i, 4))] * (i % 3) if late else [])]))
        out.append((z, 100000, 0, [("a", r) for r in rs] + [("w",), ("c",)], "long-run-then-change"))
    # more than 255 pages in one column chunk, and more than 255 row groups (counters narrower than int)
    z = zs.get("three") if large else None
    if z is not None:
        g = zoolib.Gen(rng, mode="pool", p_nil=0.3, lens=(0, 1, 2))
        rs = [g.record(z.nodes) for _ in range(300)]
        for codec in (0, 2):
            out.append((z, 1, codec, [("a", r) for r in rs] + [("w",), ("c",)], "many-pages"))
        ops = []
        for r in rs[:270]:
            ops += [("a", r), ("w",)]
        out.append((z, 5, 0, ops + [("c",)], "many-rowgroups"))
    # one very long string value
    z = zs.get("three") if large else None
    if z is not None:
        big = ("struct", [("leaf", zoolib.le(1, 8)), ("some", ("leaf", bytes((i * 7 + i // 251) % 256 for i in range(70000)))), ("list", [])])
        small = ("struct", [("leaf", zoolib.le(2, 8)), ("nil",), ("list", [("leaf", zoolib.le(5, 4))])])
        for codec in (0, 1, 2):
            out.append((z, 10, codec, [("a", big), ("a", small), ("w",), ("c",)], "long-string"))
    return out, meta
