"""C12 — page statistics are sound bounds and exact null counts."""
import json
import common, zoo as zoolib, filelevel
from common import Pair, proof_stage, rebuild_tools, build_pqh, build_zoo, Lock, TRUSTED_BASE

MODULE = "PQ.Props.C12"
THEOREMS = ["PQ.C12." + t for t in (
    "null_count_exact", "null_count_exact_striped", "null_count_reported", "null_count_required", "bounds_sound", "bounds_not_nan",
    "bounds_sound_key", "bounds_sound_i32", "bounds_sound_i64", "bounds_sound_u32", "bounds_sound_u64", "bounds_sound_f32", "bounds_sound_f64",
    "nan_ignored", "bounds_sound_str", "absent_if_empty", "bool_always_absent", "present_iff_value", "required_numeric_always_present",
    "minmax_attained_or_init", "page_stats_sound")]

EXTRA_MODULES = ['PQ.Lemmas.StatsPage']
EXTRA_THEOREMS = ['PQ.statsFields_get', 'PQ.statsUnsound_eq_none_iff', 'PQ.statsSound_written', 'PQ.statsUnsound_written', 'PQ.statsUnsound_specPage', 'PQ.statsSound_specPage', 'PQ.required_numeric_empty_unsound']


def build_record(z, choose):
    """record of struct flat whose every leaf value comes from choose(ptype, column index)"""
    vals = []
    for i, n in enumerate(z.nodes):
        if n.rep == "r":
            vals.append(("leaf", choose(n.ptype, i, 0)))
        elif n.rep == "o":
            v = choose(n.ptype, i, 0)
            vals.append(("nil",) if v is None else ("some", ("leaf", v)))
        else:
            k = choose("len", i, 0)
            vals.append(("list", [("leaf", choose(n.ptype, i, j + 1, True)) for j in range(k)]))
    return ("struct", vals)


def workloads(chk, z, thorough):
    out = []
    P = zoolib.POOL
    nmax = max(len(v) for v in P.values())
    # all ordered pairs of pool values per column (all columns simultaneously): records r0, r1 on one page
    for t in range(nmax * nmax):
        a, b = t % nmax, t // nmax
        for mx in ((1, 2) if not thorough else (1, 2, 3)):
            recs = []
            for j, idx in enumerate((a, b)):
                def choose(pt, i, k, inlist=False, idx=idx, j=j):
                    if pt == "len":
                        return (idx + i + j) % 3
                    pool = P[pt]
                    v = pool[(idx + k) % len(pool)]
                    if not inlist and z.nodes[i].rep == "o" and (idx + i + j) % 5 == 0:
                        return None
                    return v
                recs.append(build_record(z, choose))
            codec = t % 3
            out.append((mx, codec, [("a", r) for r in recs] + [("w",), ("c",)], "pairs"))
    # triples / longer pages, seeded
    g = zoolib.Gen(chk.rng, mode="mixed", p_nil=0.3)
    n = 600 if thorough else 150
    for i in range(n):
        k = chk.rng.choice([1, 2, 3, 3, 4, 7])
        mx = chk.rng.choice([1, 2, 3, 5])
        ops = []
        for b in range(chk.rng.choice([1, 1, 2])):
            ops += [("a", g.record(z.nodes)) for _ in range(k)] + [("w",)]
        out.append((mx, i % 3, ops + [("c",)], "random"))
    # all-negative, all-equal, all-NaN, all-nil pages
    specials = {"neg": lambda pt: {"i32": zoolib.le(-5, 4), "i64": zoolib.le(-7, 8), "f32": zoolib.f32(-2.5), "f64": zoolib.f64(-1e300)}.get(pt, P[pt][1 % len(P[pt])]),
                "nan": lambda pt: {"f32": zoolib.le(0x7fc00000, 4), "f64": zoolib.le(0x7ff8000000000000, 8)}.get(pt, P[pt][0]),
                "sentinel": lambda pt: b"__#NIL#__" if pt == "str" else P[pt][2 % len(P[pt])],
                "max": lambda pt: P[pt][-1]}
    for name, f in specials.items():
        for second in (None, "zzz"):
            recs = []
            for j in range(2):
                def choose(pt, i, k, inlist=False, j=j):
                    if pt == "len":
                        return 2
                    if pt == "str" and second and j == 1:
                        return second.encode()
                    return f(pt)
                recs.append(build_record(z, choose))
            for codec in (0, 1):
                out.append((3, codec, [("a", r) for r in recs] + [("w",), ("c",)], "special-" + name))
    def allnil(pt, i, k, inlist=False):
        if pt == "len":
            return 0
        return None if z.nodes[i].rep == "o" else P[pt][0]
    out.append((2, 0, [("a", build_record(z, allnil)), ("a", build_record(z, allnil)), ("w",), ("c",)], "all-nil"))
    return out


def run(chk):
    thorough = chk.tier == "thorough"
    cov = {"steps": {}}
    with Lock():
        cov["steps"] = rebuild_tools(chk.log)
        cov["steps"]["zoo"] = build_zoo(chk.log)
        build_pqh(chk.log)
        pr = proof_stage(chk, MODULE, THEOREMS + EXTRA_THEOREMS, EXTRA_MODULES, audit_imports=EXTRA_MODULES)
    pair = Pair(chk.log)
    z = filelevel.load_zoos(pair, ["flat"])["flat"]
    cases = [filelevel.Case(z, mx, codec, ops, tag) for mx, codec, ops, tag in workloads(chk, z, thorough)]
    # nested structs: optional leaves under optional/repeated groups (definition levels between 0 and the
    # maximum are nulls too), lists in lists, same-named groups; records with the group present and the leaf nil
    import workloads as wl
    zs = filelevel.load_zoos(pair, [n for n in wl.WRITER_ZOOS if n != "flat"])
    for name, zz in zs.items():
        if zz is None:
            continue
        for mode, kw in (("mixed", dict(p_nil=0.35)), ("pool", dict(p_nil=0.5, lens=(0, 1, 2, 3)))):
            g = zoolib.Gen(chk.rng, mode=mode, **kw)
            for i in range(24 if thorough else 6):
                ops = []
                for b in range(chk.rng.choice([1, 2])):
                    ops += [("a", g.record(zz.nodes)) for _ in range(chk.rng.choice([2, 3, 5, 9]))] + [("w",)]
                cases.append(filelevel.Case(zz, chk.rng.choice([1, 2, 3, 1000]), i % 3, ops + [("c",)], "nested-" + name))
    filelevel.run_cases(pair, cases, want_read=False)
    tabtxt = lambda d: ",".join("%s=%s" % kv for kv in d.items()) or "-"
    st = common.chunked_parallel(pair.model, ["pagestats %s %d %s %s" % (c.zoo.cols_text, c.max, c.impl_file, tabtxt(c.dtab)) for c in cases], workers=8, chunk=100)

    tie_breaks, prop_fail, tags = [], [], {}
    pages = 0
    nontrivial = set()
    for c, s in zip(cases, st):
        tags[c.tag] = tags.get(c.tag, 0) + 1
        if c.impl_file != c.model_file:
            tie_breaks.append({"case": c.key()[:800], "what": "file bytes (page headers carry the statistics)",
                               "first_diff": next((i for i, (a, b) in enumerate(zip(c.impl_file, c.model_file)) if a != b), -1) // 2})
        if s.startswith("ok pages="):
            pages += int(s.split("=")[1])
            nontrivial.add(c.m_ops)
        else:
            col = s.split(" ")[1].rstrip(":") if s.startswith("unsound") else "?"
            prop_fail.append({"case": c.key()[:3000], "key": {"verdict": s[:200]}, "clause": s, "got": s})
    cov.update({
        "obligations": pr["obligations"], "discharged": pr["discharged"], "axioms": pr["axioms"],
        "checker_cmd": "cd lean && lake build %s" % MODULE, "trusted_base": TRUSTED_BASE, "forbidden_constructs": pr["forbidden_constructs"],
        "evaluations": len(cases), "distinct_nontrivial": len(nontrivial), "pages_checked": pages,
        "rule": "nested structs (optional leaves under optional and repeated groups, lists in lists; seeded random records with the group present and the leaf nil); struct flat (8 types x required/optional/repeated): every ordered pair of boundary-pool values per column on one page (page sizes 1,2[,3]), seeded random pages of 1-7 records, special pages (all negative, all NaN, sentinel strings, maxima, all nil); non-trivial = distinct history whose file parses and whose every page passes the statistics oracle",
        "samples": [cases[i].key()[:300] for i in (0, len(cases) // 2, len(cases) - 1)],
        "input_distribution": tags,
        "tie": "exact: model file bytes (incl. Statistics of every DataPageHeader) = generated writer's; oracle: statsUnsound on values independently decoded from each page",
        "tie_disagreements": len(tie_breaks), "property_failures_on_impl": len(prop_fail),
        "traces_validated_against_impl": len(cases),
    })
    return common.verdict(chk, cov, pr, prop_fail, tie_breaks, "C12", "PQ.pageStats/pageHeaderT vs generated stats code (struct flat)",
                          ["float order = IEEE-754 < on bit patterns (NaN unordered, -0 = +0); strings bytewise; struct flat only"])


def replay(chk, path):
    body = json.load(open(path))
    print(json.dumps(body, indent=1)[:4000])
    return run(chk)
