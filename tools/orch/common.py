"""Shared machinery of the checks: rebuild from the working tree, run the
implementation harness (pqh) and the Lean model driver (pqdriver) on the same
operation lines, Lean proof obligations + axiom audit, evidence, violation
protocol, known findings."""
import fcntl, hashlib, json, os, random, re, shutil, subprocess, sys, time

VERIF = os.path.dirname(os.path.dirname(os.path.dirname(os.path.abspath(__file__))))
REPO = os.environ.get("VERIF_REPO", "/repo")
LEAN = os.path.join(VERIF, "lean")
BIN = os.path.join(VERIF, "bin")
GEN = os.path.join(LEAN, "PQ", "Gen")
EVID = os.path.join(VERIF, "evidence")
REPLAYS = os.path.join(VERIF, "replays")
ALLOWED_AXIOMS = {"propext", "Quot.sound", "Classical.choice"}

GOENV = dict(os.environ, GOFLAGS="-mod=mod", GOPROXY="off", GOSUMDB="off", GOTOOLCHAIN="local",
             CGO_ENABLED="0")

TRUSTED_BASE = [
    "Lean 4.33 kernel; axioms per theorem listed under coverage.axioms (allowed: propext, Quot.sound, Classical.choice)",
    "statements of the property theorems and the model definitions they mention (PQ/Model, PQ/Props)",
    "translator / fact extractor tools/xlate (go/ast) for PQ/Gen/*.lean",
    "correspondence harness (harness/cmd/pqh, Go, in-process calls into /repo) and orchestrator (tools/orch, Python): diffing, generators, evidence",
    "external code modelled, not verified: golang/snappy, compress/gzip, apache/thrift runtime, bytebufferpool, encoding/binary, Go compiler/runtime",
    "model ~ implementation link is differential execution on generated inputs (exact, but sampled), except for translated parts (bit-pack tables, extracted constants)",
]


class BuildError(Exception):
    def __init__(self, step, output):
        super().__init__(step)
        self.step, self.output = step, output


def sh(cmd, cwd=None, env=None, timeout=None, check=True, input=None):
    p = subprocess.run(cmd, cwd=cwd, env=env, stdout=subprocess.PIPE, stderr=subprocess.STDOUT,
                       timeout=timeout, input=input, text=True)
    if check and p.returncode != 0:
        raise BuildError(" ".join(cmd) if isinstance(cmd, list) else cmd, p.stdout)
    return p


class Lock:
    def __init__(self, name="build"):
        self.path = os.path.join(VERIF, ".%s.lock" % name)

    def __enter__(self):
        self.f = open(self.path, "w")
        fcntl.flock(self.f, fcntl.LOCK_EX)
        return self

    def __exit__(self, *a):
        fcntl.flock(self.f, fcntl.LOCK_UN)
        self.f.close()


def rebuild_tools(log):
    """Rebuild everything that depends on /repo's working tree. Returns dict of step -> status."""
    os.makedirs(BIN, exist_ok=True)
    os.makedirs(GEN, exist_ok=True)
    steps = {}
    t = time.time()
    # translator itself (sources under /verif)
    sh(["go", "build", "-o", os.path.join(BIN, "xlate"), "."], cwd=os.path.join(VERIF, "tools", "xlate"), env=GOENV)
    # bitpackgen from the working tree
    bp = os.path.join(BIN, "bitpackgen")
    if os.path.exists(bp):
        os.remove(bp)
    try:
        sh(["go", "build", "-o", bp, "./cmd/bitpackgen"], cwd=REPO, env=GOENV)
        steps["bitpackgen"] = "ok"
    except BuildError as e:
        steps["bitpackgen"] = "build-failed"
        log("bitpackgen does not build:\n" + e.output[-2000:])
        bp = ""
    # regenerate the translated model
    for f in ("Bitpack.lean", "BitpackFresh.lean", "Facts.lean", "facts.json"):
        pass  # xlate rewrites only when content changes (keeps lake's cache valid); stale files are
              # removed below if the translator fails
    cmd = [os.path.join(BIN, "xlate"), "-repo", REPO, "-out", GEN, "-facts", os.path.join(GEN, "facts.json")]
    if bp:
        cmd += ["-bitpackgen", bp]
    p = sh(cmd, check=False)
    if p.returncode != 0:
        steps["xlate"] = "failed: " + p.stdout.strip()[-500:]
        log("translator failed: " + p.stdout)
    else:
        steps["xlate"] = "ok"
    steps["t_tools"] = round(time.time() - t, 2)
    return steps


def build_zoo(log):
    """Run the working tree's parquetgen on every zoo struct and lay out harness/gen/<pkg>.
    Returns dict pkg -> 'ok' | 'gen-failed: ..' | 'compile-failed: ..'."""
    H = os.path.join(VERIF, "harness")
    pg = os.path.join(BIN, "parquetgen")
    if os.path.exists(pg):
        os.remove(pg)
    sh(["go", "build", "-o", pg, "./cmd/parquetgen"], cwd=REPO, env=GOENV)
    gen = os.path.join(H, "gen")
    shutil.rmtree(gen, ignore_errors=True)
    os.makedirs(gen)
    shutil.copy(os.path.join(REPO, "go.sum"), os.path.join(H, "go.sum"))
    tmpl = open(os.path.join(H, "zoo", "adapter.go.tmpl")).read()
    status = {}
    for line in open(os.path.join(H, "zoo", "ZOO.txt")):
        if not line.strip():
            continue
        pkg, typ = line.split()
        d = os.path.join(gen, pkg)
        os.makedirs(d)
        shutil.copy(os.path.join(H, "zoo", pkg, "types.go"), os.path.join(d, "types.go"))
        p = sh([pg, "-input", "types.go", "-type", typ, "-package", pkg, "-output", "parquet.go"], cwd=d, check=False)
        if p.returncode != 0 or not os.path.exists(os.path.join(d, "parquet.go")):
            status[pkg] = "gen-failed: " + p.stdout.strip()[-300:]
            shutil.rmtree(d)
            continue
        open(os.path.join(d, "adapter.go"), "w").write(tmpl.replace("PKG", pkg).replace("TYPE", typ))
        p = sh(["go", "build", "-tags", "verif", "./gen/" + pkg], cwd=H, env=GOENV, check=False)
        if p.returncode != 0:
            status[pkg] = "compile-failed: " + p.stdout.strip()[-600:]
            shutil.rmtree(d)
            continue
        status[pkg] = "ok"
    with open(os.path.join(H, "cmd", "pqh", "zoo_gen.go"), "w") as f:
        f.write("// Code generated by tools/orch (zoo registry). DO NOT EDIT.\npackage main\n\nimport (\n")
        for pkg, st in sorted(status.items()):
            if st == "ok":
                f.write('\t_ "pqh/gen/%s"\n' % pkg)
        f.write(")\n")
    for pkg, st in status.items():
        if st != "ok":
            log("zoo member %s: %s" % (pkg, st))
    return status


def build_pqh(log):
    out = os.path.join(BIN, "pqh")
    if os.path.exists(out):
        os.remove(out)
    shutil.copy(os.path.join(REPO, "go.sum"), os.path.join(VERIF, "harness", "go.sum"))
    sh(["go", "build", "-tags", "verif", "-o", out, "./cmd/pqh"], cwd=os.path.join(VERIF, "harness"), env=GOENV)
    return out


def build_pqh_race(log):
    """the same harness with the Go race detector (needs cgo)"""
    out = os.path.join(BIN, "pqh-race")
    if os.path.exists(out):
        os.remove(out)
    env = dict(GOENV, CGO_ENABLED="1")
    p = sh(["go", "build", "-race", "-tags", "verif", "-o", out, "./cmd/pqh"], cwd=os.path.join(VERIF, "harness"), env=env, check=False)
    if p.returncode != 0:
        log("race build failed: " + p.stdout[-500:])
        return None
    return out


def lake_build(targets, log):
    """Returns (ok, output)."""
    p = sh(["lake", "build"] + targets, cwd=LEAN, check=False)
    return p.returncode == 0, p.stdout


FORBIDDEN = re.compile(r"\bsorry\b|\badmit\b|^\s*axiom\s|native_decide|bv_decide|implemented_by|\bunsafe\s|maxHeartbeats\s+0")


def strip_comments(text):
    # remove /- ... -/ (nested) and -- comments
    out, i, depth = [], 0, 0
    n = len(text)
    while i < n:
        if text.startswith("/-", i):
            depth += 1
            i += 2
        elif depth and text.startswith("-/", i):
            depth -= 1
            i += 2
        elif depth:
            if text[i] == "\n":
                out.append("\n")
            i += 1
        elif text.startswith("--", i):
            while i < n and text[i] != "\n":
                i += 1
        else:
            out.append(text[i])
            i += 1
    return "".join(out)


def forbidden_hits():
    hits = []
    for root, _, files in os.walk(LEAN):
        if ".lake" in root:
            continue
        for f in files:
            if f.endswith(".lean"):
                p = os.path.join(root, f)
                for ln, line in enumerate(strip_comments(open(p).read()).split("\n"), 1):
                    if FORBIDDEN.search(line):
                        hits.append("%s:%d: %s" % (os.path.relpath(p, LEAN), ln, line.strip()))
    return hits


def audit_axioms(module, theorems, log, extra_imports=()):
    """#print axioms for each theorem; returns dict thm -> list of axioms (or None if missing)."""
    src = "".join("import %s\n" % m for m in [module] + list(extra_imports)) + "".join("#print axioms %s\n" % t for t in theorems)
    path = os.path.join(LEAN, ".audit_%s.lean" % module.replace(".", "_"))
    open(path, "w").write(src)
    p = sh(["lake", "env", "lean", path], cwd=LEAN, check=False)
    os.remove(path)
    res = {t: None for t in theorems}
    # output: 'thm' depends on axioms: [a, b]   |  'thm' does not depend on any axioms
    text = p.stdout
    for m in re.finditer(r"'(\S+)' depends on axioms: \[([^\]]*)\]", text, re.S):
        res[m.group(1)] = [a.strip() for a in m.group(2).replace("\n", " ").split(",") if a.strip()]
    for m in re.finditer(r"'(\S+)' does not depend on any axioms", text):
        res[m.group(1)] = []
    if p.returncode != 0:
        log("axiom audit output:\n" + text[-3000:])
    return res


class Pair:
    """Runs operation lines through pqh (implementation) and pqdriver (model)."""

    def __init__(self, log):
        self.log = log
        self.pqh = os.path.join(BIN, "pqh")
        self.drv = os.path.join(LEAN, ".lake", "build", "bin", "pqdriver")

    def _run(self, exe, lines, timeout=600, env=None):
        data = "".join(l + "\n" for l in lines)
        try:
            # address-space cap: 8 GiB for the implementation harness (a mutated implementation may try to allocate
            # tens of GB); the Lean runtime reserves address space generously and rarely returns it, so the model
            # driver gets 48 GiB of address space (its resident set stays far below)
            lim = 8388608 if exe == self.pqh or os.path.basename(exe).startswith("pqh") else 50331648
            p = subprocess.run(["/bin/sh", "-c", "ulimit -v %d; exec \"$0\"" % lim, exe], input=data, stdout=subprocess.PIPE,
                               stderr=subprocess.PIPE, text=True, timeout=timeout, env=env)
        except subprocess.TimeoutExpired as e:
            out = (e.stdout or b"")
            out = out.decode() if isinstance(out, bytes) else out
            out = out.split("\n")
            if out and out[-1] == "":
                out.pop()
            return -9, out, "timeout"
        out = p.stdout.split("\n")
        if out and out[-1] == "":
            out.pop()
        return p.returncode, out, p.stderr

    def impl(self, lines, **kw):
        env = dict(os.environ, GOMEMLIMIT="6GiB")
        rc, out, err = self._run(self.pqh, lines, env=env, **kw)
        if len(out) != len(lines):
            # the process died on some line: re-run the remaining lines one by one
            out = out[:len(out)]
            k = len(out)
            self.log("pqh died after %d/%d lines (rc=%s): %s" % (k, len(lines), rc, err[-400:]))
            out.append("crash")
            self.crashes = getattr(self, "crashes", 0) + 1
            if self.crashes > 6:
                # a (mutated) implementation that keeps dying: do not spend the run restarting it
                out += ["crash"] * (len(lines) - k - 1)
            else:
                rest = self.impl(lines[k + 1:]) if k + 1 < len(lines) else []
                out += rest
        return out

    def model(self, lines, **kw):
        """the model driver; an operation on which it dies (stack overflow on input derived from a mutated implementation's
        output) or hangs yields 'model-crash' / 'model-timeout' for that line: the tie then breaks on it, the run goes on"""
        rc, out, err = self._run(self.drv, lines, **kw)
        if len(out) == len(lines):
            return out
        if rc == 0 or len(lines) == 0:
            raise BuildError("pqdriver", "driver produced %d lines for %d ops (rc=%s): %s" % (len(out), len(lines), rc, err[-1000:]))
        k = len(out)
        self.log("pqdriver died after %d/%d lines (rc=%s): %s | %s" % (k, len(lines), rc, err[-200:], lines[k][:200]))
        self.mcrashes = getattr(self, "mcrashes", 0) + 1
        out.append("model-timeout" if rc == -9 else "model-crash")
        if self.mcrashes > 8:
            return out + ["model-crash"] * (len(lines) - k - 1)
        return out + (self.model(lines[k + 1:], **({"timeout": 120} if rc == -9 else kw)) if k + 1 < len(lines) else [])


def chunked_parallel(fn, lines, workers=8, chunk=4000):
    """Run fn over chunks of lines in parallel threads (fn spawns a subprocess)."""
    from concurrent.futures import ThreadPoolExecutor
    parts = [lines[i:i + chunk] for i in range(0, len(lines), chunk)]
    if not parts:
        return []
    with ThreadPoolExecutor(max_workers=workers) as ex:
        res = list(ex.map(fn, parts))
    out = []
    for r in res:
        out += r
    return out


def load_known():
    p = os.path.join(VERIF, "known_findings.json")
    if not os.path.exists(p):
        return []
    return json.load(open(p))


class Check:
    """One run of one property's check."""

    def __init__(self, pid, tier, seed):
        self.pid, self.tier, self.seed = pid, tier, seed
        self.t0 = time.time()
        self.logs = []
        self.violations = []     # (replay_path, suffix)
        self.known_hits = []
        self.cov = {}
        self.rng = random.Random((seed * 1000003) ^ int(hashlib.sha256(pid.encode()).hexdigest()[:8], 16))
        os.makedirs(EVID, exist_ok=True)
        os.makedirs(REPLAYS, exist_ok=True)

    def log(self, msg):
        self.logs.append(msg)
        print("[%s] %s" % (self.pid, msg), file=sys.stderr)

    def write_replay(self, kind, body, tag=None):
        h = hashlib.sha256(json.dumps(body, sort_keys=True).encode()).hexdigest()[:12]
        path = os.path.join(REPLAYS, "%s-%s.json" % (self.pid, tag or h))
        body = dict(body, property=self.pid, kind=kind, seed=self.seed, tier=self.tier)
        json.dump(body, open(path, "w"), indent=1)
        return path

    def violation(self, kind, body, found_input=True, tag=None):
        """Record a violation unless it matches a known finding."""
        key = body.get("key")
        if key is not None:
            for k in load_known():
                if k.get("property") == self.pid and k.get("status") == "known" and k.get("key") == key:
                    if k not in self.known_hits:
                        self.known_hits.append(k)
                    return False
        path = self.write_replay(kind, body, tag)
        self.violations.append((path, "" if found_input else " no-failing-input-found"))
        return True

    def finish(self, level, coverage, assumptions):
        for k in self.known_hits:
            print("KNOWN-FINDING: property=%s %s" % (self.pid, k.get("what", "")))
        if getattr(self, "leanchecker", None) and isinstance(coverage, dict):
            coverage["leanchecker"] = self.leanchecker
        seen = set()
        found = [v for v in self.violations if not v[1]]
        # a concrete failing input is the primary report; broken proofs / ties are then context
        # inside it (the replay files are still written)
        for path, suffix in (found or self.violations):
            if path in seen:
                continue
            seen.add(path)
            print("VIOLATION property=%s replay=%s%s" % (self.pid, path, suffix))
        ev = {
            "property_id": self.pid, "tier": self.tier, "seed": self.seed, "level": level,
            "coverage": coverage, "assumptions": assumptions,
            "wall_s": round(time.time() - self.t0, 2), "violations": len(seen),
            "known_findings_reported": [k.get("what") for k in self.known_hits],
        }
        json.dump(ev, open(os.path.join(EVID, "%s.json" % self.pid), "w"), indent=1)
        sys.stdout.flush()
        return 1 if seen else 0


def pq_closure(modules):
    """the project's own modules (PQ.*) that the given modules import, transitively, themselves included"""
    seen, todo = [], list(modules)
    while todo:
        m = todo.pop()
        if m in seen or not (m == "PQ" or m.startswith("PQ.")):
            continue
        f = os.path.join(LEAN, *m.split(".")) + ".lean"
        if not os.path.exists(f):
            continue
        seen.append(m)
        for line in open(f):
            mm = re.match(r"\s*(?:public\s+)?import\s+(\S+)", line)
            if mm:
                todo.append(mm.group(1))
    return sorted(seen)


def proof_stage(chk, module, theorems, extra_targets=(), audit_imports=()):
    """Build the property's theorem module against the regenerated Gen files and audit axioms.
    Returns dict(obligations, discharged, axioms, ok, failed, build_output)."""
    ok, out = lake_build([module, "pqdriver"] + list(extra_targets), chk.log)
    res = {"obligations": len(theorems), "discharged": 0, "axioms": {}, "ok": False, "failed": [], "build_output": ""}
    hits = forbidden_hits()
    res["forbidden_constructs"] = hits
    if not ok:
        res["build_output"] = out[-4000:]
        chk.log("lake build %s failed:\n%s" % (module, out[-3000:]))
        # which theorems are still provable is not known: count none as discharged
        res["failed"] = theorems
        return res
    ax = audit_axioms(module, theorems, chk.log, audit_imports)
    for t, a in ax.items():
        if a is None:
            res["failed"].append(t)
        elif set(a) - ALLOWED_AXIOMS:
            res["failed"].append(t)
            res["axioms"][t] = a
        else:
            res["axioms"][t] = a
            res["discharged"] += 1
    if chk.tier == "thorough":
        # independent re-check of the compiled theorem modules by the toolchain's stand-alone kernel replayer
        mods = pq_closure([module] + list(audit_imports))
        p = sh(["lake", "env", "leanchecker"] + mods, cwd=LEAN, check=False)
        res["leanchecker"] = {"modules": mods, "exit": p.returncode}
        chk.leanchecker = res["leanchecker"]
        if p.returncode != 0:
            res["failed"].append("leanchecker rejects %s: %s" % (" ".join(mods), (p.stdout or "")[-600:]))
    res["ok"] = (not res["failed"]) and not hits
    return res


def verdict(chk, cov, pr, prop_fail, tie_breaks, pid, tie_name, assumptions, level="proof"):
    """Common violation protocol: property failures found on the implementation are violations with
    the failing input as replay (unless listed in known_findings.json, matched on `key`); a broken
    proof / translator / tie without a failing input is reported with no-failing-input-found."""
    if "leanchecker" in pr:
        cov["leanchecker"] = pr["leanchecker"]
    groups = {}
    for f in prop_fail:
        k = json.dumps(f.get("key"), sort_keys=True) if f.get("key") is not None else f.get("clause", "")
        groups.setdefault(k, []).append(f)
    any_new = False
    for k, fs in groups.items():
        body = {"theorem_or_tie": "%s evaluated on the implementation" % pid, "failures": fs[:5], "n_failures": len(fs),
                "input": fs[0].get("case") or fs[0].get("op"), "key": fs[0].get("key"),
                "oracle": {"name": fs[0].get("clause"), "verdict": "fails"}}
        tag = "impl-" + hashlib.sha256(k.encode()).hexdigest()[:10]
        if chk.violation("violation", body, found_input=True, tag=tag):
            any_new = True
    found = bool(prop_fail)
    if cov.get("steps", {}).get("xlate") not in (None, "ok"):
        chk.violation("tie-broken", {"theorem_or_tie": "translator/fact extractor tools/xlate", "detail": cov["steps"].get("xlate")},
                      found_input=found, tag="xlate")
    elif not pr["ok"]:
        chk.violation("proof-broken", {"theorem_or_tie": pr["failed"] or pr["forbidden_constructs"], "build_output": pr["build_output"]},
                      found_input=found, tag="proof")
    if tie_breaks and not any_new:
        # a tie that broke only on inputs already explained by known findings is not a new alarm
        unexplained = tie_breaks if not chk.known_hits else []
        if unexplained:
            chk.violation("tie-broken", {"theorem_or_tie": tie_name, "disagreements": tie_breaks[:20]}, found_input=False, tag="tie")
    return chk.finish(level, cov, assumptions)
