"""C13 — output depends only on an instance's own history; instances do not interfere."""
import json, os, subprocess
import common, zoo as zoolib, filelevel, workloads
from common import Pair, proof_stage, rebuild_tools, build_pqh, build_zoo, Lock, TRUSTED_BASE

MODULE = "PQ.Props.C13"
THEOREMS = ["PQ.C13." + t for t in (
    "interleaving_indep", "interleaving_indep_turns", "interleaving_indep_complete", "all_outputs_complete", "exists_complete_schedule",
    "wellBracketed_take", "no_conflicting_access", "output_indep_pool", "output_indep_pool_prefix", "put_before_emit_breaks",
    "encodeInto_indep", "pageProgram_wellBracketed", "pageProgram_seqOut", "pageProgram_indep", "pageProgramUncompressed_wellBracketed",
    "pageProgramUncompressed_seqOut", "errorPath_wellBracketed_seqOut", "pool_sites_paired", "pool_sites_nonempty", "pool_sites_at_most_two",
    "pool_sites_are_writers", "global_vars_inventory")]


def run(chk):
    thorough = chk.tier == "thorough"
    cov = {"steps": {}}
    with Lock():
        cov["steps"] = rebuild_tools(chk.log)
        cov["steps"]["zoo"] = build_zoo(chk.log)
        build_pqh(chk.log)
        race = common.build_pqh_race(chk.log)
        pr = proof_stage(chk, MODULE, THEOREMS)
    pair = Pair(chk.log)
    zs = filelevel.load_zoos(pair, workloads.ZOOS)
    rng = chk.rng
    # batches of mixed workloads (different structs, codecs, page sizes) sharing the process
    lines = []
    nb = 10 if thorough else 4
    for b in range(nb):
        wls = []
        for name in workloads.ZOOS:
            z = zs.get(name)
            if z is None:
                continue
            g = zoolib.Gen(rng, mode="mixed", long_lists=True)
            for codec in (0, 1, 2):
                mx = rng.choice([1, 2, 3, 7])
                ops = []
                for _ in range(rng.choice([1, 2])):
                    ops += [("a", g.record(z.nodes)) for _ in range(rng.choice([1, 3, 8, 20]))] + [("w",)]
                go_ops, _ = z.ops_text(ops + [("c",)])
                wls.append("%s,%d,%d,%s" % (name, mx, codec, go_ops))
        rng.shuffle(wls)
        # the phases with failing writers / readers are the expensive ones: every batch in thorough, the first one in quick
        lines.append("c13 16 %d %s%s" % (6 if thorough else 3, "#".join(wls), " fail" if (thorough or b == 0) else ""))
    res = pair.impl(lines)
    prop_fail, tie_breaks = [], []
    runs = 0
    # process history: the same workloads as the FIRST instances of fresh processes, alone and after an
    # instance of every other struct (including a struct with the same column paths and repetition types
    # but other physical types), in both orders: a workload's output must not depend on who came first
    zs2 = filelevel.load_zoos(pair, ["threetwin"])
    hist_lines, hist_meta = [], []
    members = [(n, zs[n]) for n in workloads.ZOOS if zs.get(n) is not None] + [(n, z) for n, z in zs2.items() if z is not None]
    gh = zoolib.Gen(rng, mode="mixed")
    solo = {}
    for n, z in members:
        for codec in ((0, 1, 2) if thorough else (0,)):
            go_ops, _ = z.ops_text([("a", gh.record(z.nodes)) for _ in range(3)] + [("w",), ("c",)])
            solo[(n, codec)] = "%s,%d,%d,%s" % (n, 2, codec, go_ops)
    keys = sorted(solo)
    for k in keys:
        hist_lines.append("c13 1 1 " + solo[k]); hist_meta.append([k])
    for a in keys:
        for b in keys:
            if a != b and (thorough or "three" in (a[0], b[0]) or "threetwin" in (a[0], b[0])):
                hist_lines.append("c13 1 1 %s#%s" % (solo[a], solo[b])); hist_meta.append([a, b])
    hres = common.chunked_parallel(pair.impl, hist_lines, workers=16, chunk=1)       # chunk=1: a fresh process per line
    seen = {}
    for l, meta, r in zip(hist_lines, hist_meta, hres):
        if not r.startswith("ok "):
            prop_fail.append({"case": l[:3000], "key": {"what": " ".join(r.split(" ")[:2])}, "clause": "outputs differ: " + r, "got": r, "want": "byte-identical files and read results"})
            continue
        runs += int(r.split(" ")[1])
        for k, h in zip(meta, r.split(" ")[2].split(",")):
            if k in seen and seen[k][0] != h:
                prop_fail.append({"case": "%s\nvs\n%s" % (l[:1500], seen[k][1][:1500]), "key": {"what": "process-history", "workload": list(k)},
                                  "clause": "the output of workload %s,%s depends on which instances ran earlier in the process" % k,
                                  "got": h, "want": seen[k][0]})
            seen.setdefault(k, (h, l))
    for l, r in zip(lines, res):
        if r.startswith("ok "):
            runs += int(r.split(" ")[1])
        else:
            prop_fail.append({"case": l[:3000], "key": {"what": " ".join(r.split(" ")[:2])}, "clause": "outputs differ: " + r, "got": r, "want": "byte-identical files and read results"})
    # the same under the race detector (exploration only: data-race freedom is a runtime property)
    race_runs, race_reports = 0, 0
    if race:
        env = dict(os.environ, GORACE="halt_on_error=0 exitcode=66")
        p = subprocess.run([race], input="".join(l.replace(" fail", "") + "\n" for l in lines[: (6 if thorough else 2)]), stdout=subprocess.PIPE, stderr=subprocess.PIPE, text=True, timeout=1500, env=env)
        race_reports = p.stderr.count("WARNING: DATA RACE")
        for r in p.stdout.split("\n"):
            if r.startswith("ok "):
                race_runs += int(r.split(" ")[1])
            elif r.strip():
                prop_fail.append({"case": "race build", "key": {"what": "race-build " + " ".join(r.split(" ")[:2])}, "clause": "outputs differ under -race: " + r, "got": r, "want": "ok"})
        if race_reports:
            prop_fail.append({"case": lines[0][:2000], "key": {"what": "data-race"}, "clause": "the Go race detector reported %d data race(s)" % race_reports,
                              "got": p.stderr[:3000], "want": "no report"})
    cov.update({
        "obligations": pr["obligations"], "discharged": pr["discharged"], "axioms": pr["axioms"],
        "checker_cmd": "cd lean && lake build %s" % MODULE, "trusted_base": TRUSTED_BASE, "forbidden_constructs": pr["forbidden_constructs"],
        "evaluations": runs + race_runs, "distinct_nontrivial": len(lines) * 15, "instance_runs": runs, "race_detector_runs": race_runs, "race_reports": race_reports,
        "race_build": bool(race),
        "rule": "batches of 24 mixed workloads (8 structs x 3 codecs, random page sizes and records) in one process: each workload's file bytes and read-back are compared with its own baseline (i) when repeated after the others ran, (ii) after the runtime's and every generated package's buffer pools were filled with 0xAA/0xFF/0x00 garbage buffers, (ii-b) after other writer instances failed (sinks failing at their 2nd..12th write, persistently and transiently), (ii-c) after other reader instances failed on damaged copies of the files, (iii) while 16 goroutines run the workloads concurrently; (iv) as first instances of fresh processes, alone and after an instance of another struct (incl. a twin struct with the same column paths and repetition types but other physical types), in both orders; the same under the Go race detector; non-trivial = distinct workload per batch",
        "samples": [lines[0][:300]],
        "tie": "byte equality of outputs across repeat / poisoned-pool / concurrent runs; inventories (Get/defer-Put pairing, package-level variables) regenerated from the source",
        "tie_disagreements": len(tie_breaks), "property_failures_on_impl": len(prop_fail),
        "traces_validated_against_impl": runs + race_runs,
        "global_vars": json.load(open(os.path.join(common.GEN, "facts.json")))["lists"].get("globalVars"),
    })
    return common.verdict(chk, cov, pr, prop_fail, tie_breaks, "C13", "outputs across runs", [
        "data-race freedom is a property of the Go memory model and scheduler that no executable model exhibits: the race-detector runs are exploration; the claim for that clause is partial",
        "the pool model abstracts bytebufferpool/sync.Pool (trusted): Get returns a buffer nobody else holds"])


def replay(chk, path):
    body = json.load(open(path))
    print(json.dumps(body, indent=1)[:4000])
    return run(chk)
