"""C16 — introspection calls report exactly what is in the file."""
import json, re
import common, zoo as zoolib, filelevel, workloads, iocommon
from common import Pair, proof_stage, rebuild_tools, build_pqh, build_zoo, Lock, TRUSTED_BASE

MODULE = "PQ.Props.C16"
# the same statement for the files of the INDEPENDENT writer (any page split, codec, optional metadata, empty row groups)
EXTRA_MODULES = ["PQ.Lemmas.ForeignIntrospect"]
EXTRA_THEOREMS = ["PQ.introspection_specWrite", "PQ.introspection_specWrite_ne", "PQ.pageHeadersAt_specWrite", "PQ.pageHeadersAt_spCover", "PQ.pageHeadersAt_spAll", "PQ.pageHeadersAt_spZero", "PQ.spEmit_append", "PQ.pageHeadersAt_spPageCover"]
THEOREMS = ["PQ.C16." + t for t in ("at_zero_one_header", "meta_is_footer", "readMetaData_runWriter", "readMetaData_eq_parseFile", "pageHeadersAt_chunk", "pageHeadersAt_chunk_cover", "pageHeadersAt_chunk_zero", "chunkBytes_append", "pageHeadersAt_page_cover", "pageHeadersAt_page_zero", "pageHeadersAt_runWriter", "pageHeaders_runWriter", "fileHdrs_facts", "introspection_runWriter")]


def run(chk):
    thorough = chk.tier == "thorough"
    cov = {"steps": {}}
    with Lock():
        cov["steps"] = rebuild_tools(chk.log)
        cov["steps"]["zoo"] = build_zoo(chk.log)
        build_pqh(chk.log)
        pr = proof_stage(chk, MODULE, THEOREMS + EXTRA_THEOREMS, EXTRA_MODULES, audit_imports=EXTRA_MODULES)
    pair = Pair(chk.log)
    zs = filelevel.load_zoos(pair, workloads.ZOOS)
    cases = iocommon.corpus(chk, pair, zs, thorough, per_zoo=(8 if thorough else 3))
    # more pages per chunk: page size 1 with several records, two row groups
    g = zoolib.Gen(chk.rng, mode="mixed", lens=(0, 1, 2, 3, 4, 5), p_nil=0.2)      # lists averaging more than one element
    extra = []
    for name in workloads.ZOOS:
        z = zs.get(name)
        if z is None:
            continue
        for codec in (0, 1, 2):
            ops = [("a", g.record(z.nodes)) for _ in range(4)] + [("w",)] + [("a", g.record(z.nodes)) for _ in range(3)] + [("w",), ("c",)]
            extra.append(filelevel.Case(z, 1 + codec % 2, codec, ops, "multi-page"))
    # page headers of several hundred bytes up to > 128 KiB: min/max statistics of long string values
    z = zs.get("three")
    if z is not None:
        for k, size in enumerate((300, 600, 2100, 9000, 70000)):
            val = lambda j: bytes((i * 7 + j + i // 251) % 256 for i in range(size))
            recs = [("struct", [("leaf", zoolib.le(j, 8)), ("some", ("leaf", val(j))), ("list", [])]) for j in range(3)]
            ops = [("a", r) for r in recs] + [("w",), ("a", recs[0]), ("w",), ("c",)]
            extra.append(filelevel.Case(z, 2, k % 3, ops, "large-header"))
    filelevel.run_cases(pair, extra, want_parse=False, want_read=False)
    cases += extra
    # foreign files (independent Lean writer PQ.specWrite): several pages per chunk with sizes of its own choosing,
    # per-column codecs, optional metadata, and row groups WITHOUT rows (legal; this library's writer never emits them)
    class Foreign:
        def __init__(self, zoo, op, file, tab):
            self.zoo, self.max, self.impl_file, self.m_ops, self._op = zoo, 100000, file, op[:200], op
            self.dtab = {} if tab == "-" else dict(kv.split("=") for kv in tab.split(","))
        def key(self):
            return self._op
    fops, fz = [], []
    gf = zoolib.Gen(chk.rng, mode="mixed", lens=(0, 1, 2, 3))
    for name in ("three", "flat", "nested", "doc"):
        z = zs.get(name)
        if z is None:
            continue
        for i in range(8 if thorough else 3):
            rgs = [[gf.record(z.nodes) for _ in range(chk.rng.choice([1, 2, 5, 9]))] for _ in range(chk.rng.choice([1, 2, 3]))]
            rgs.insert(chk.rng.randrange(len(rgs) + 1), [])
            if i % 2:
                rgs.insert(chk.rng.randrange(len(rgs) + 1), [])
            codecs = [chk.rng.choice([0, 2]) for _ in z.cols]
            rtxt = "/".join(";".join(z.proj(r) for r in g) for g in rgs)
            fops.append("specwrite %s %s %s %d - %s" % (z.cols_text, ",".join(map(str, codecs)), ["sx", "xo", "sexO", "sxn", "xO", "sxo"][i % 6], chk.rng.randrange(1 << 30), rtxt))
            fz.append(z)
    # files with file_offset = 0 / past the chunk: the independent walk (which insists on file_offset = chunk start) is
    # run on the twin written with the same choices and file_offset = chunk start: the pages, hence the headers, are the same
    def twin(op):
        p_ = op.split(" ")
        p_[3] = p_[3].replace("o", "").replace("O", "")
        return " ".join(p_)
    tw_ops = [twin(op) for op in fops]
    fres = common.chunked_parallel(pair.model, fops, workers=8, chunk=2)
    tres = common.chunked_parallel(pair.model, tw_ops, workers=8, chunk=2)
    for z, op, top, r, tr in zip(fz, fops, tw_ops, fres, tres):
        f = (r.split(" ") + ["-"])[:2]
        if len(f[0]) > 16:
            c = Foreign(z, op, f[0], f[1])
            if top != op:
                c.walk_file, c.skip_meta = tr.split(" ")[0], True
            cases.append(c)
    tabtxt = lambda d: ",".join("%s=%s" % kv for kv in d.items()) or "-"
    par = lambda f, ops: common.chunked_parallel(f, ops, workers=8, chunk=50)
    walk = par(pair.model, ["walk %s %d %s %s" % (c.zoo.cols_text, c.max, getattr(c, "walk_file", c.impl_file), tabtxt(c.dtab)) for c in cases])
    imeta = par(pair.impl, ["meta %s" % c.impl_file for c in cases])
    mmeta = par(pair.model, ["meta %s" % c.impl_file for c in cases])
    iph = par(pair.impl, ["pageheaders %s" % c.impl_file for c in cases])
    mph = par(pair.model, ["pageheaders %s" % c.impl_file for c in cases])
    tie_breaks, prop_fail = [], []
    # files whose row groups are not adjacent (padding before every row group, offsets shifted; legal, e.g. parquet-mr
    # aligns row groups): page headers carry no offsets, so the calls must list exactly the headers of the
    # unpadded file, located through each chunk's data_page_offset
    gsrc = [c for c in cases if len(c.impl_file) < 40000][:: (1 if thorough else 3)]
    gops = ["gapfile %d %s" % ([3, 64, 1][i % 3], c.impl_file) for i, c in enumerate(gsrc)]
    gfiles = par(pair.model, gops)
    gph_ops = ["pageheaders %s" % g.split(" ")[1] for g in gfiles if g.startswith("ok ")]
    gsrc = [c for c, g in zip(gsrc, gfiles) if g.startswith("ok ")]
    gi, gm = par(pair.impl, gph_ops), par(pair.model, gph_ops)
    base = dict(zip([c.impl_file for c in cases], iph))
    gap_checked = 0
    for c, o, a, b in zip(gsrc, gph_ops, gi, gm):
        gap_checked += 1
        if a != b:
            tie_breaks.append({"case": c.key()[:300], "what": "PageHeaders on a file with padded row groups", "impl": a[:300], "model": b[:300]})
        if a != base[c.impl_file]:
            prop_fail.append({"case": c.key()[:1500] + " | " + o[:120] + "...", "key": {"call": "PageHeaders", "layout": "padded-row-groups"},
                              "clause": "PageHeaders of the file with padding before every row group differs from the headers of the same pages laid out back to back",
                              "got": a[:500], "want": base[c.impl_file][:500]})
    # no side effects: on one footer object the calls give the same answers before and after each other
    seq = par(pair.impl, ["introspect-seq %s" % c.impl_file for c in cases])
    for c, r in zip(cases, seq):
        if r != "ok":
            prop_fail.append({"case": c.key()[:2000], "key": {"call": "sequence", "what": r[:60]},
                              "clause": "introspection calls on one footer object are not repeatable: " + r, "got": r, "want": "ok"})
    at_ops, at_want, at_case = [], [], []
    nontrivial = set()
    for c, w, im, mm, ip, mp in zip(cases, walk, imeta, mmeta, iph, mph):
        if im != mm:
            tie_breaks.append({"case": c.key()[:300], "what": "ReadMetaData", "impl": im[:300], "model": mm[:300]})
        if ip != mp:
            tie_breaks.append({"case": c.key()[:300], "what": "PageHeaders", "impl": ip[:300], "model": mp[:300]})
        m = re.match(r"ok (.*) pages=(\S+) headers=(\S+)$", w)
        if not m:
            tie_breaks.append({"case": c.key()[:300], "what": "independent walk failed", "walk": w[:300]})
            continue
        fmd, pages, headers = m.groups()
        if im != "ok " + fmd and not getattr(c, "skip_meta", False):
            prop_fail.append({"case": c.key()[:2000], "key": {"call": "ReadMetaData"}, "clause": "ReadMetaData differs from the footer an independent parser decodes", "got": im[:500], "want": ("ok " + fmd)[:500]})
        if ip != "ok " + headers:
            prop_fail.append({"case": c.key()[:2000], "key": {"call": "PageHeaders"}, "clause": "PageHeaders is not exactly one header per data page in file order with the walked counts and sizes", "got": ip[:500], "want": ("ok " + headers)[:500]})
        else:
            nontrivial.add(c.m_ops)
        # PageHeadersAtOffset from every page start of every chunk
        hs = [] if headers == "-" else headers.split(",")
        k = 0
        for chunk in ([] if pages == "-" else pages.split(",")):
            if not chunk:
                continue
            pgs = [tuple(map(int, p.split(":"))) for p in chunk.split("+")]
            for i, (pos, nv) in enumerate(pgs):
                rest = pgs[i:]
                for n in sorted(set([0, nv, nv + 1, sum(x[1] for x in rest), max(0, nv - 1)])):
                    # expectation: shortest run of headers from this page whose num_values cover n (one header when n = 0)
                    acc, cnt = 0, 0
                    for (_, v) in rest:
                        cnt += 1
                        acc += v
                        if n == 0 or acc >= n:
                            break
                    if n > sum(x[1] for x in rest):
                        continue           # would run past the chunk: outside the property
                    at_ops.append("pageheaders-at %s %d %d" % (c.impl_file, pos, n))
                    at_want.append("ok " + ",".join(hs[k + i:k + i + cnt]))
                    at_case.append(c)
            k += len(pgs)
    ai = par(pair.impl, at_ops)
    am = par(pair.model, at_ops)
    for o, w, a, b, c in zip(at_ops, at_want, ai, am, at_case):
        if a != b:
            tie_breaks.append({"case": c.key()[:300], "what": "PageHeadersAtOffset " + o.split(" ", 2)[2][-30:], "impl": a[:300], "model": b[:300]})
        if a != w:
            prop_fail.append({"case": c.key()[:2000] + " " + " ".join(o.split(" ")[2:]), "key": {"call": "PageHeadersAtOffset", "n_zero": o.endswith(" 0")},
                              "clause": "PageHeadersAtOffset does not return the shortest run of headers covering n", "got": a[:500], "want": w[:500]})
    cov.update({
        "obligations": pr["obligations"], "discharged": pr["discharged"], "axioms": pr["axioms"],
        "checker_cmd": "cd lean && lake build %s" % MODULE, "trusted_base": TRUSTED_BASE, "forbidden_constructs": pr["forbidden_constructs"],
        "padded_layout_files": gap_checked,
        "evaluations": 2 * len(cases) + len(at_ops), "distinct_nontrivial": len(nontrivial) + len(set(at_ops)),
        "rule": "valid files of 7 structs x 3 codecs x page sizes (incl. several pages per chunk and two row groups), files with page headers up to > 128 KiB, foreign files from PQ.specWrite incl. row groups without rows, files with padding before every row group (offsets shifted): ReadMetaData vs the footer decoded by the independent Lean thrift decoder; PageHeaders vs one header per page found by the independent walk (PQ.parseFile); PageHeadersAtOffset from EVERY page start with n in {0, nv-1, nv, nv+1, rest of chunk}; call sequences on one footer object (footer, per-chunk listing, PageHeaders twice, footer again: all repeatable); non-trivial = distinct call with the expected result",
        "samples": [at_ops[0][-60:] if at_ops else "-", cases[0].key()[:200]],
        "tie": "exact: Lean mirrors readMetaData/pageHeaders/pageHeadersAt = Go functions (canonical field-by-field text)",
        "tie_disagreements": len(tie_breaks), "property_failures_on_impl": len(prop_fail),
        "traces_validated_against_impl": 2 * len(cases) + len(at_ops),
    })
    return common.verdict(chk, cov, pr, prop_fail, tie_breaks, "C16", "Lean introspection mirrors vs parquet.ReadMetaData/PageHeaders/PageHeadersAtOffset", [
        "n larger than the values remaining in the chunk is outside the property (the call then runs into the next chunk)"])


def replay(chk, path):
    body = json.load(open(path))
    print(json.dumps(body, indent=1)[:4000])
    return run(chk)
