"""C06 — every Add/Write/Close history gives one row group per non-empty batch."""
import itertools, json
import common, zoo as zoolib, filelevel
from common import Pair, proof_stage, rebuild_tools, build_pqh, build_zoo, Lock, TRUSTED_BASE

MODULE = "PQ.Props.C06"
THEOREMS = ["PQ.C06." + t for t in (
    "empty_write_inert", "empty_write_inert_file", "empty_write_inert_batches", "chain_is_chunks", "chain_shape", "chain_page_count",
    "chain_columns", "state_is_stateOf", "footerT_eq", "rowgroups_refine_batches", "sink_calls_shape", "sink_calls_history",
    "pending_at_close_dropped", "pending_at_close_dropped_file", "offsets_truthful", "offsets_contiguous")] + ["PQ.C02.file_valid"]


def histories(chk, z, thorough, L=None, mxs=(1, 2, 3, 4, 5)):
    """(max, codec, ops, tag)"""
    g = zoolib.Gen(chk.rng, mode="pool")
    L = L or (8 if thorough else 6)
    out = []
    ctr = [0]

    def rec():
        ctr[0] += 1
        r = g.record(z.nodes)
        # make the ID column carry the running number so that misplaced rows are visible
        r[1][0] = ("leaf", zoolib.le(ctr[0], 8))
        return r
    for n in range(0, L + 1):
        for t in itertools.product("aw", repeat=n):
            for mx in (1, 2, 3, 4):
                if n > 5 and mx == 4:
                    continue
                for codec in ((0, 1, 2) if n <= 4 else (0,)):
                    ops = [("a", rec()) if x == "a" else ("w",) for x in t] + [("c",)]
                    out.append((mx, codec, ops, "exhaustive"))
    # targeted: k*max, k*max±1 adds, empty writes at every position, pending at close
    for mx in mxs:
        for k in (1, 2, 3):
            for d in (-1, 0, 1):
                n = k * mx + d
                if n < 0:
                    continue
                for codec in (0, 1, 2):
                    base = [("a", rec()) for _ in range(n)]
                    out.append((mx, codec, base + [("w",), ("c",)], "boundary"))
                    out.append((mx, codec, base + [("w",), ("w",), ("a", rec()), ("w",), ("c",)], "empty-write-mid"))
                    out.append((mx, codec, [("w",)] + base + [("w",), ("c",)], "empty-write-first"))
                    out.append((mx, codec, base + [("w",)] + [("a", rec()) for _ in range(mx)] + [("c",)], "pending-at-close"))
                    out.append((mx, codec, base + [("w",)] + [("a", rec()) for _ in range(mx + 1)] + [("w",), ("w",), ("c",)], "two-groups"))
    return out


def run(chk):
    thorough = chk.tier == "thorough"
    cov = {"steps": {}}
    with Lock():
        cov["steps"] = rebuild_tools(chk.log)
        cov["steps"]["zoo"] = build_zoo(chk.log)
        build_pqh(chk.log)
        pr = proof_stage(chk, MODULE, THEOREMS, ["PQ.Props.C02"], audit_imports=["PQ.Props.C02"])
    pair = Pair(chk.log)
    zs = filelevel.load_zoos(pair, ["three", "solo"])
    z = zs["three"]
    cases = [filelevel.Case(z, mx, codec, ops, tag) for mx, codec, ops, tag in histories(chk, z, thorough)]
    # a schema with exactly one column: the last page of a row group and the first page of the next share their
    # column path (seeded change C06-r8: a "same column as the previous page" shortcut in the row-group accounting)
    if "solo" in zs:
        cases += [filelevel.Case(zs["solo"], mx, codec, ops, tag + "-solo")
                  for mx, codec, ops, tag in histories(chk, zs["solo"], thorough, L=(6 if thorough else 5), mxs=(1, 2, 3))]
    filelevel.run_cases(pair, cases)

    tie_breaks, prop_fail = [], []
    nontrivial, tags = set(), {}
    for c in cases:
        tags[c.tag] = tags.get(c.tag, 0) + 1
        shape = "".join(o[0] for o in c.ops)
        if "a" in shape and "w" in shape:
            nontrivial.add((shape, c.max, c.codec))
        # exact ties
        if c.impl_file != c.model_file or c.impl_calls != c.model_calls:
            tie_breaks.append({"case": c.key()[:600], "what": "writer bytes / sink calls", "impl_calls": c.impl_calls, "model_calls": c.model_calls,
                               "first_diff": next((i for i, (a, b) in enumerate(zip(c.impl_file, c.model_file)) if a != b), -1) // 2})
        if filelevel.strip_calls(c.impl_read) != c.model_read:
            tie_breaks.append({"case": c.key()[:600], "what": "reader", "impl": filelevel.strip_calls(c.impl_read)[:400], "model": c.model_read[:400]})
        # the property, on the implementation: independent parse + read-back vs list-of-batches model
        want_p, want_r = filelevel.expected_parse(c), filelevel.expected_read(c)
        shape_key = {"history": shape, "max": c.max}
        if c.parse != want_p:
            prop_fail.append({"case": c.key()[:1500], "key": dict(shape_key, kind="file"), "clause": "independent parse of the file differs from the list-of-batches model",
                              "got": c.parse[:600], "want": want_p[:600]})
        elif filelevel.strip_calls(c.impl_read) != want_r:
            prop_fail.append({"case": c.key()[:1500], "key": dict(shape_key, kind="readback"), "clause": "records read back differ from the non-empty written batches",
                              "got": filelevel.strip_calls(c.impl_read)[:600], "want": want_r[:600]})

    cov.update({
        "obligations": pr["obligations"], "discharged": pr["discharged"], "axioms": pr["axioms"],
        "checker_cmd": "cd lean && lake build %s" % MODULE, "trusted_base": TRUSTED_BASE, "forbidden_constructs": pr["forbidden_constructs"],
        "evaluations": len(cases), "distinct_nontrivial": len(nontrivial),
        "rule": "all histories over {Add, Write} up to length %d (then Close) x page sizes 1..4 x codecs, plus histories targeted at page boundaries (k*max, k*max±1 adds), empty writes first/middle/last, records pending at Close; non-trivial = distinct (history shape, page size, codec) containing both an Add and a Write" % (8 if thorough else 6),
        "samples": [cases[i].key()[:300] for i in (0, len(cases) // 2, len(cases) - 1)],
        "input_distribution": tags,
        "tie": "exact: model writer bytes and sink-call segmentation = generated writer's; model reader = generated reader on the same bytes",
        "tie_disagreements": len(tie_breaks), "property_failures_on_impl": len(prop_fail),
        "traces_validated_against_impl": len(cases),
    })
    return common.verdict(chk, cov, pr, prop_fail, tie_breaks, "C06",
                          "PQ writer/reader model vs generated ParquetWriter/ParquetReader (struct three)",
                          ["structs three (required int64, optional string, repeated int32) and solo (one required int64 column); other shapes are covered by C01/C02/C05",
                           "page size >= 1"])


def replay(chk, path):
    body = json.load(open(path))
    print(json.dumps(body, indent=1)[:4000])
    return run(chk)
