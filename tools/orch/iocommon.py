"""Valid files for the I/O properties (C08-C11, C16): a modest corpus from the C01 workloads."""
import common, zoo as zoolib, filelevel, workloads


def corpus(chk, pair, zs, thorough, per_zoo=None):
    """cases with impl_file/expected read filled in: small but varied (all zoos x 3 codecs x page sizes)"""
    rng = chk.rng
    raw = []
    per_zoo = per_zoo or (6 if thorough else 2)
    for name in workloads.ZOOS:
        z = zs.get(name)
        if z is None:
            continue
        g = zoolib.Gen(rng, mode="mixed")
        for i in range(per_zoo):
            for codec in (0, 1, 2):
                mx = rng.choice([1, 2, 3])
                n = rng.choice([1, 2, 3, 5])
                ops = []
                for b in range(rng.choice([1, 2])):
                    ops += [("a", g.record(z.nodes)) for _ in range(n)] + [("w",)]
                raw.append((z, mx, codec, ops + [("c",)], "corpus"))
    cases = [filelevel.Case(z, mx, codec, ops, tag) for z, mx, codec, ops, tag in raw]
    filelevel.run_cases(pair, cases, want_parse=False)
    return cases
