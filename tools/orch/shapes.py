"""Struct-shape corpus for C05 (and the program-level parts of C14/C15): deterministic enumeration of
the property's grammar, Go source rendering, generation with the working tree's parquetgen,
compilation in shards, canonical names and the pattern-embedding relation used by known findings."""
import os, shutil, subprocess, re
from concurrent.futures import ThreadPoolExecutor
import common

PRIMS = ["int32", "int64", "uint32", "uint64", "float32", "float64", "bool", "string"]


# ---------------------------------------------------------------- enumeration
# a shape is a forest: list of nodes; node = (rep, children) with children None for a leaf

def forests(n):
    """all forests with exactly n nodes"""
    if n == 0:
        return [[]]
    out = []
    for k in range(1, n + 1):          # size of the first tree
        for t in trees(k):
            for rest in forests(n - k):
                out.append([t] + rest)
    return out


_tree_cache = {}


def trees(k):
    if k in _tree_cache:
        return _tree_cache[k]
    out = []
    for rep in "rom":
        if k == 1:
            out.append((rep, None))
        else:
            for f in forests(k - 1):
                if f:
                    out.append((rep, f))
    _tree_cache[k] = out
    return out


def name_of(forest):
    def t(n):
        return n[0] if n[1] is None else "%s(%s)" % (n[0], name_of(n[1]))
    return ",".join(t(n) for n in forest)


def depth(forest):
    return 0 if not forest else max(1 + (depth(n[1]) if n[1] else 0) for n in forest)


def parse_name(s):
    pos = [0]

    def forest():
        out = []
        while pos[0] < len(s) and s[pos[0]] != ")":
            rep = s[pos[0]]
            pos[0] += 1
            ch = None
            if pos[0] < len(s) and s[pos[0]] == "(":
                pos[0] += 1
                ch = forest()
                pos[0] += 1
            out.append((rep, ch))
            if pos[0] < len(s) and s[pos[0]] == ",":
                pos[0] += 1
        return out
    return forest()


def embeds(pattern, shape):
    """fixed, documented embedding: P's root forest embeds, in order, into the children list of some
    node of S (or S's top level): each pattern node matches a node with the same repetition type and
    kind (leaf/group), and its children embed, in order, into that node's children."""
    def node_embeds(p, s):
        if p[0] != s[0] or (p[1] is None) != (s[1] is None):
            return False
        return p[1] is None or forest_embeds(p[1], s[1])

    def forest_embeds(pf, sf):
        i = 0
        for s in sf:
            if i < len(pf) and node_embeds(pf[i], s):
                i += 1
        return i == len(pf)

    def anywhere(pf, sf):
        if forest_embeds(pf, sf):
            return True
        return any(s[1] is not None and anywhere(pf, s[1]) for s in sf)
    return anywhere(pattern, shape)


def corpus(max_nodes):
    out = []
    for n in range(1, max_nodes + 1):
        for f in forests(n):
            if depth(f) <= 3:
                out.append(f)
    return out


CURATED = ["m(m(m(r,o)))", "m(m(m(r,r)))", "m(m(m(r,m)))", "m(m(m(r,o),r))", "m(m(m(r,o)),r)", "r,m(m(m(r,o)))", "o(m(m(r,o)))",
           "m(m(r,m(r,o)))", "m(r,m(r,m(r,o)))", "r(r(r(r,o)))", "o(o(o(r,o)))", "o(r,o(r,o(r,o)))",
           "r,r,o,o(r,o,m(r,r)),m(r,r,o)", "r,m(m,m),m(m(r,o),o)", "r,o,m,r(r,o,m),o(r,o,m),m(r,r,m)"]


def corpus_for(thorough):
    """the seed-independent shape corpus of a tier: all shapes with <= 3 nodes; 4-node shapes (all in
    thorough, every 9th in quick; depth <= 3) plus the 4-node chains of three nested groups; a fixed
    sample of 5-node shapes (depth <= 4); curated larger shapes (three nested repeated groups, the
    repository's own Person/Document shapes)"""
    out = corpus(3)
    four = [f for f in corpus(4) if sum(1 for c in name_of(f) if c in "rom") == 4]
    deep4 = [f for f in forests(4) if depth(f) == 4]
    five = [f for f in forests(5) if depth(f) <= 4]
    if thorough:
        out += four + deep4 + five[::12]
    else:
        out += four[::9] + deep4[::3] + five[::120]
    out += [parse_name(n) for n in CURATED]
    seen, res = set(), []
    for f in out:
        n = name_of(f)
        if n not in seen:
            seen.add(n)
            res.append(f)
    return res


# ---------------------------------------------------------------- Go source

def render(forest, pkg, prims=None):
    """Go source of the struct for a shape; leaf types rotate through the 8 primitives"""
    prims = prims or PRIMS
    ctr = {"leaf": 0, "grp": 0}
    decls = []

    def fields(f, prefix):
        lines = []
        for i, (rep, ch) in enumerate(f):
            fname = "%s%d" % (prefix, i)
            star = {"r": "", "o": "*", "m": "[]"}[rep]
            if ch is None:
                ty = prims[ctr["leaf"] % len(prims)]
                ctr["leaf"] += 1
                lines.append("\t%s %s%s" % (fname, star, ty))
            else:
                ctr["grp"] += 1
                gname = "G%d" % ctr["grp"]
                body = fields(ch, fname + "x")
                decls.append("type %s struct {\n%s\n}\n" % (gname, "\n".join(body)))
                lines.append("\t%s %s%s" % (fname, star, gname))
        return lines
    top = fields(forest, "F")
    return "package %s\n\n%s\ntype T struct {\n%s\n}\n" % (pkg, "\n".join(decls), "\n".join(top))


# ---------------------------------------------------------------- generation and compilation

def build(shapes, log, tag="shapes", workers=16):
    """shapes: list of (id, forest) or (id, go_source_text, type_name). Returns (status, shard binaries):
    status[id] = 'ok' | 'gen-error: ..' | 'no-compile: ..' ; shard binaries are pqh variants that register
    the compiled packages under their id."""
    H = os.path.join(common.VERIF, "harness")
    root = os.path.join(H, "gen_" + tag)
    shutil.rmtree(root, ignore_errors=True)
    os.makedirs(root)
    pg = os.path.join(common.BIN, "parquetgen")
    tmpl = open(os.path.join(H, "zoo", "adapter.go.tmpl")).read()
    status = {}

    def gen(item):
        sid = item[0]
        d = os.path.join(root, sid)
        os.makedirs(d)
        from_parquet = len(item) == 3 and isinstance(item[1], bytes)
        if from_parquet:
            typ = item[2]
            open(os.path.join(d, "in.parquet"), "wb").write(item[1])
        elif len(item) == 2:
            src, typ = render(item[1], sid), "T"
        else:
            src, typ = item[1], item[2]
        if not from_parquet:
            open(os.path.join(d, "types.go"), "w").write(src)
        res = []
        for k in range(2):      # twice: deterministic output
            if from_parquet:
                cmd = [pg, "-parquet", "in.parquet", "-type", typ, "-package", sid, "-struct-output", "types.go", "-output", "parquet%d.go.txt" % k]
            else:
                cmd = [pg, "-input", "types.go", "-type", typ, "-package", sid, "-output", "parquet%d.go.txt" % k]
            p = subprocess.run(cmd, cwd=d,
                               stdout=subprocess.PIPE, stderr=subprocess.STDOUT, text=True)
            if p.returncode != 0 or not os.path.exists(os.path.join(d, "parquet%d.go.txt" % k)):
                shutil.rmtree(d)
                return sid, "gen-error: " + p.stdout.strip()[-200:]
            res.append(open(os.path.join(d, "parquet%d.go.txt" % k)).read())
        if res[0] != res[1]:
            shutil.rmtree(d)
            return sid, "gen-error: nondeterministic output"
        os.rename(os.path.join(d, "parquet0.go.txt"), os.path.join(d, "parquet.go"))
        os.remove(os.path.join(d, "parquet1.go.txt"))
        open(os.path.join(d, "adapter.go"), "w").write(tmpl.replace("PKG", sid).replace("TYPE", typ))
        return sid, "generated"
    with ThreadPoolExecutor(max_workers=workers) as ex:
        for sid, st in ex.map(gen, shapes):
            status[sid] = st
    # compile everything once; collect failing packages from the compiler's output
    p = subprocess.run(["go", "build", "-tags", "verif", "./gen_%s/..." % tag], cwd=H, env=common.GOENV, stdout=subprocess.PIPE, stderr=subprocess.STDOUT, text=True)
    bad = {}
    cur = None
    for line in p.stdout.split("\n"):
        m = re.match(r"# pqh/gen_%s/(\S+)" % tag, line)
        if m:
            cur = m.group(1)
            bad[cur] = ""
        elif cur and line.strip():
            if len(bad[cur]) < 300:
                bad[cur] += line.strip()[:150] + " | "
    for sid in bad:
        status[sid] = "no-compile: " + bad[sid]
        shutil.rmtree(os.path.join(root, sid), ignore_errors=True)
    good = [sid for sid, st in status.items() if st == "generated"]
    for sid in good:
        status[sid] = "ok"
    # shard binaries
    shards = []
    per = max(1, (len(good) + workers - 1) // workers)
    src_main = os.path.join(H, "cmd", "pqh")

    def link(k):
        ids = good[k * per:(k + 1) * per]
        if not ids:
            return None
        d = os.path.join(H, "cmd", "pqh_%s_%d" % (tag, k))
        shutil.rmtree(d, ignore_errors=True)
        os.makedirs(d)
        for f in os.listdir(src_main):
            if f.endswith(".go") and f != "zoo_gen.go":
                shutil.copy(os.path.join(src_main, f), os.path.join(d, f))
        with open(os.path.join(d, "zoo_gen.go"), "w") as f:
            f.write("package main\n\nimport (\n" + "".join('\t_ "pqh/gen_%s/%s"\n' % (tag, i) for i in ids) + ")\n")
        out = os.path.join(common.BIN, "pqh_%s_%d" % (tag, k))
        q = subprocess.run(["go", "build", "-tags", "verif", "-o", out, "./cmd/pqh_%s_%d" % (tag, k)], cwd=H, env=common.GOENV,
                           stdout=subprocess.PIPE, stderr=subprocess.STDOUT, text=True)
        shutil.rmtree(d, ignore_errors=True)
        if q.returncode != 0:
            log("shard %d link failed: %s" % (k, q.stdout[-400:]))
            return None
        return (out, ids)
    with ThreadPoolExecutor(max_workers=workers) as ex:
        for r in ex.map(link, range(workers)):
            if r:
                shards.append(r)
    return status, shards
