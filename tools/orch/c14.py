"""C14 — excluded fields are inert and embedding equals inlining."""
import json, copy
import common, zoo as zoolib, filelevel, workloads, shapes
from common import Pair, proof_stage, rebuild_tools, build_pqh, build_zoo, Lock, TRUSTED_BASE

MODULE = "PQ.Props.C14"
THEOREMS = ["PQ.C14." + t for t in ("excluded_contributes_nothing", "getFields_insert", "getChildren_congr'", "excluded_inert", "excluded_inert_many", "multi_name_split", "embed_eq_inline_fuel", "embed_eq_inline", "upper_not_primitive", "tag_dash_anywhere", "tag_dash_excluded", "exported_test_recognised")]

# ---------------------------------------------------------------- abstract declarations
# type expr: ("id", name) | ("star", t) | ("arr", t, fixedlen) | ("map", k, v) | ("chan", t) | ("func", [(pname, t)...]) |
#            ("sel", pkg, name) | ("other", go text)


def go_t(t):
    k = t[0]
    if k == "id":
        return t[1]
    if k == "star":
        return "*" + go_t(t[1])
    if k == "arr":
        return ("[4]" if t[2] else "[]") + go_t(t[1])
    if k == "map":
        return "map[%s]%s" % (go_t(t[1]), go_t(t[2]))
    if k == "chan":
        return "chan " + go_t(t[1])
    if k == "func":
        return "func(%s) error" % ", ".join("%s %s" % (n, go_t(x)) for n, x in t[1])
    if k == "sel":
        return "%s.%s" % (t[1], t[2])
    return t[1]


def model_t(t):
    k = t[0]
    if k == "id":
        return t[1]
    if k == "star":
        return "*" + model_t(t[1])
    if k == "arr":
        return ("#" if t[2] else "[]") + model_t(t[1])
    if k == "map":
        return "map<%s|%s>" % (model_t(t[1]), model_t(t[2]))
    if k == "chan":
        return "chan>" + model_t(t[1])
    if k == "func":
        return "func(%s)" % "|".join(model_t(x) for _, x in t[1] + [("", ("id", "error"))])
    if k == "sel":
        return "%s.%s" % (t[1], t[2])
    return "?"


def render(decls):
    out = ["package p\n"]
    for name, fs in decls:
        out.append("type %s struct {" % name)
        for names, t, tag in fs:
            out.append("\t%s %s%s" % (", ".join(names), go_t(t), (" `%s`" % tag) if tag else ""))
        out.append("}\n")
    return "\n".join(out)


def clutter(decls):
    """other legal top-level content of the input file, none of which declares a package-level type: a method and a
    function whose bodies declare LOCAL types named like the structs (other fields, other tags), variables of inline
    struct types, constants.  parse.Fields must give the same tree with or without it, wherever it stands."""
    names = [n for n, _ in decls]
    out = ["func (t T) MarshalJSON() ([]byte, error) {"]
    for n in names:
        out.append("\ttype %s struct {\n\t\tShadow%s int64 `parquet:\"shadow\"`\n\t\tsecret string\n\t}" % (n, n))
        out.append("\tvar v%s %s\n\t_ = v%s" % (n, n, n))
    out.append("\treturn nil, nil\n}\n")
    out.append("func helper() {\n\ttype (\n%s\t)\n}\n" % "".join("\t\t%s struct{ Other []string `parquet:\"other\"` }\n" % n for n in names))
    out.append("var Global = struct {\n\tA int32 `parquet:\"g\"`\n}{}\n\nconst K = 3\n")
    return "\n".join(out)


def render_with(decls, where):
    body = render(decls)
    c = clutter(decls)
    if where == "after":
        return body + "\n" + c
    head, rest = body.split("\n", 2)[0], body.split("\n", 2)[2]
    return head + "\n\n" + c + "\n" + rest


def model_text(decls):
    return ";".join("%s{%s}" % (name, ",".join("%s:%s:%s" % ("+".join(names), model_t(t), tag.encode().hex() if tag else "-") for names, t, tag in fs))
                    for name, fs in decls)


ID = lambda n: ("id", n)
BASES = [
    [("T", [(["A"], ID("int32"), 'parquet:"a"'), (["B"], ("star", ID("string")), None), (["C"], ("arr", ID("int64"), False), 'parquet:"c"')])],
    [("Being", [(["ID"], ID("int32"), 'parquet:"id"'), (["Name"], ID("string"), 'parquet:"name"'), (["Age"], ("star", ID("int32")), 'parquet:"age"')]),
     ("Hobby", [(["Name"], ID("string"), 'parquet:"name"'), (["Difficulty"], ("star", ID("int32")), None)]),
     ("T", [([], ID("Being"), None), (["Happiness"], ID("int64"), 'parquet:"happiness"'), (["Hobby"], ("star", ID("Hobby")), 'parquet:"hobby"'),
            (["Friends"], ("arr", ID("Being"), False), 'parquet:"friends"'), (["Keen"], ("star", ID("bool")), None)])],
    [("Link", [(["Backward"], ("arr", ID("int64"), False), None), (["Forward"], ("arr", ID("int64"), False), None)]),
     ("Language", [(["Code"], ID("string"), None), (["Country"], ("star", ID("string")), None)]),
     ("Name", [(["Languages"], ("arr", ID("Language"), False), None), (["URL"], ("star", ID("string")), None)]),
     ("T", [(["DocID"], ID("int64"), None), (["Links"], ("arr", ID("Link"), False), None), (["Names"], ("arr", ID("Name"), False), None)])],
    [("In", [(["X"], ID("float64"), None), (["Y"], ("star", ID("uint32")), 'json:"y" parquet:"why"')]),
     ("Mid", [([], ID("In"), None), (["Z"], ID("bool"), None)]),
     ("T", [([], ID("Mid"), None), (["W"], ID("uint64"), None), (["V"], ("star", ID("In")), None)])],
    # one struct embedded as the FIRST field of two different structs (3 columns: a slice with spare capacity)
    [("Base", [(["A"], ID("int32"), 'parquet:"a"'), (["B"], ID("string"), 'parquet:"b"'), (["C"], ("star", ID("int64")), 'parquet:"c"')]),
     ("Home", [([], ID("Base"), None), (["Zip"], ID("string"), 'parquet:"home_zip"')]),
     ("Work", [([], ID("Base"), None), (["Zip"], ID("string"), 'parquet:"work_zip"'), (["Floor"], ("star", ID("int32")), None)]),
     ("T", [(["ID"], ID("int64"), None), (["Home"], ID("Home"), 'parquet:"home"'), (["Work"], ("star", ID("Work")), 'parquet:"work"'), (["Past"], ("arr", ID("Home"), False), None)])],
    # field declarations with several names sharing one type (and one tag-less declaration each)
    [("Pt", [(["X", "Y"], ID("float64"), None), (["Label"], ("star", ID("string")), 'parquet:"label"')]),
     ("T", [(["A", "B", "C"], ID("int32"), None), (["P", "Q"], ("star", ID("Pt")), None), (["Tags", "More"], ("arr", ID("string"), False), None)])],
]

EXOTIC = [ID("int32"), ID("string"), ("star", ID("float64")), ("map", ID("string"), ID("int32")), ("chan", ID("int32")),
          ("func", [("Key", ID("int32")), ("Other", ID("string"))]), ("arr", ID("int32"), True), ("sel", "other", "Thing"),
          ("star", ("sel", "other", "Thing")), ("arr", ID("byte"), False), ("other", "struct{ A int32; B string }"),
          ("other", "interface{ M(X int32) }"), ("arr", ("star", ID("int32")), False), ("map", ID("string"), ("arr", ID("string"), False)),
          ID("T"), ("star", ID("Missing")),
          # an inline struct whose own fields carry tags (the tags of a field's type are not the field's)
          ("other", 'struct{ A int32 `parquet:"a"`; B string `json:"b" parquet:"bee"` }'),
          ("star", ("other", 'struct{ Inner []int64 `parquet:"inner"` }'))]
# unexported names: ASCII lower case, underscore, non-ASCII lower case, letters without case (CJK, Hebrew)
UNEXPORTED = ["secret", "x", "z9", "_hid", "_", "éa", "ßeta", "名前", "טעם", "データ", "ʻo"]     # 11: coprime with len(EXOTIC)


def variants_excluded(base):
    """(decorated decls, description) for every struct, every position, names x exotic types (rotating)"""
    out = []
    k = 0
    for si, (sname, fs) in enumerate(base):
        for pos in range(len(fs) + 1):
            for j in range(3):
                t = EXOTIC[k % len(EXOTIC)]
                nm = UNEXPORTED[k % len(UNEXPORTED)]
                k += 1
                for field, desc in (((([nm], t, None)), "unexported %s %s" % (nm, go_t(t))),
                                    ((["Hidden%d" % k], t, 'parquet:"-"'), "tagged - %s" % go_t(t)),
                                    ((["Also%d" % k], t, 'json:"x" parquet:"-"'), "tagged json+- %s" % go_t(t)),
                                    # several names in one excluded declaration
                                    ((["Sec%d" % k, "Tok%d" % k], t, 'parquet:"-"'), "multi-name tagged - %s" % go_t(t)),
                                    (([nm, nm + "b"], t, None), "multi-name unexported %s %s" % (nm, go_t(t)))):
                    if field[0][0] == "_" and pos % 2:
                        continue
                    if len(field[0]) > 1 and (k % 2 or field[0][0] == "_"):
                        continue
                    d = copy.deepcopy(base)
                    d[si][1].insert(pos, field)
                    out.append((d, "%s in %s at %d" % (desc, sname, pos)))
            # an embedded struct whose TYPE name is unexported is an unexported field like any other
            for hid in (("audit", "éclair") if pos % 2 == 0 else ("_meta",)):
                d = copy.deepcopy(base)
                d.insert(0, (hid, [(["Rev"], ID("int32"), None), (["Note"], ("star", ID("string")), 'parquet:"note"'), (["Dirty"], ID("bool"), None)]))
                d[si + 1][1].insert(pos, ([], ID(hid), None))
                out.append((d, "unexported embedded struct %s in %s at %d" % (hid, sname, pos)))
    return out


def variants_embedded(base):
    """replace every contiguous run of ordinary fields of every struct by an embedded struct holding them"""
    out = []
    for si, (sname, fs) in enumerate(base):
        for i in range(len(fs)):
            for j in range(i + 1, len(fs) + 1):
                run = fs[i:j]
                if any(not names for names, _, _ in run):
                    continue      # already contains an embedded field: keep it simple
                d = copy.deepcopy(base)
                emb = "Emb%d%d%d" % (si, i, j)
                d.insert(0, (emb, run))
                d[si + 1] = (sname, fs[:i] + [([], ID(emb), None)] + fs[j:])
                out.append((d, "fields %d..%d of %s embedded" % (i, j, sname)))
    return out


def inline_all(base):
    """every embedded field replaced by the fields of its struct, recursively (the inline definition)"""
    byname = dict(base)
    def fields_of(fs, depth=0):
        out = []
        for names, t, tag in fs:
            if not names and t[0] == "id" and t[1] in byname and depth < 8:
                out += fields_of(byname[t[1]], depth + 1)
            else:
                out.append((names, t, tag))
        return out
    return [(n, fields_of(fs)) for n, fs in base]


def run(chk):
    thorough = chk.tier == "thorough"
    cov = {"steps": {}}
    with Lock():
        cov["steps"] = rebuild_tools(chk.log)
        cov["steps"]["zoo"] = build_zoo(chk.log)
        build_pqh(chk.log)
        pr = proof_stage(chk, MODULE, THEOREMS)
    pair = Pair(chk.log)
    cases = []       # (decls, base decls, description, kind)
    for b in BASES:
        cases.append((b, b, "base", "base"))
        for d, desc in variants_excluded(b):
            cases.append((d, b, desc, "excluded"))
        for d, desc in variants_embedded(b):
            cases.append((d, b, desc, "embedded"))
        if any(not names for _, fs in b for names, _, _ in fs):
            cases.append((inline_all(b), b, "every embedded struct written inline", "embedded"))
    # the same declarations surrounded by functions with same-named LOCAL types, variables and constants
    # (seeded change C14-r8: type discovery by ast.Inspect recorded function-local types over package-level ones)
    rendered = {}
    for b in BASES:
        picks = [(b, "base")] + [(d, desc) for d, desc in variants_embedded(b)[:3]] + [(d, desc) for d, desc in variants_excluded(b)[:2]]
        for d, desc in picks:
            for where in ("after", "before"):
                cases.append((d, b, "%s; local types of the same names in function bodies %s the declarations" % (desc, where), "surroundings"))
                rendered[len(cases) - 1] = render_with(d, where)
    impl = common.chunked_parallel(pair.impl, ["parse-struct T %s" % rendered.get(i, render(d) if i not in rendered else "").encode().hex() for i, (d, _, _, _) in enumerate(cases)], workers=8, chunk=50)
    model = common.chunked_parallel(pair.model, ["parse-struct T %s" % model_text(d) for d, _, _, _ in cases], workers=8, chunk=100)
    base_tree = {}
    for (d, b, desc, kind), a in zip(cases, impl):
        if kind == "base":
            base_tree[id(b)] = a
    tie_breaks, prop_fail = [], []
    nontrivial = set()
    kinds = {}
    for ci, ((d, b, desc, kind), a, m) in enumerate(zip(cases, impl, model)):
        kinds[kind] = kinds.get(kind, 0) + 1
        src = rendered.get(ci) or render(d)
        tree = a.split(" errs=")[0]
        if tree != m:
            tie_breaks.append({"what": "parse.Fields vs PQ.Parse.parseStruct", "variant": desc, "source": src[:900], "impl": tree[:300], "model": m[:300]})
        want = base_tree[id(b)].split(" errs=")[0]
        if kind != "base" and tree != want:
            fname = desc.split(" ")[1] if kind == "excluded" else ""
            cls = "unexported-name-not-a-z" if (kind == "excluded" and desc.startswith("unexported") and not ("a" <= fname[:1] <= "z")) else \
                  ("nested-field-list" if kind == "excluded" and ("func(" in desc or "struct{" in desc or "interface{" in desc) else kind)
            prop_fail.append({"case": "%s\n%s" % (desc, src), "key": {"class": cls},
                              "clause": "field tree of the decorated struct differs from the plain struct's (%s)" % desc, "got": tree[:500], "want": want[:500]})
        else:
            nontrivial.add(desc + str(id(b)))
    cov.update({
        "obligations": pr["obligations"], "discharged": pr["discharged"], "axioms": pr["axioms"],
        "checker_cmd": "cd lean && lake build %s" % MODULE, "trusted_base": TRUSTED_BASE, "forbidden_constructs": pr["forbidden_constructs"],
        "evaluations": len(cases), "distinct_nontrivial": len(nontrivial),
        "rule": "4 base struct families (flat with tags; Person with embedded Being, optional and repeated groups; the Dremel Document; doubly embedded structs with mixed tags) x insertion of an excluded field at EVERY position of EVERY struct (unexported names incl. _x, non-ASCII lower case; exported with parquet:\"-\" alone or among other tags) with types rotating through a pool of exotic Go types (maps, chans, funcs with named parameters, arrays, other packages' types, inline structs, interfaces) x replacement of EVERY contiguous run of fields by an embedded struct; the field tree returned by parse.Fields for Go source rendered from the declaration must equal the plain struct's; non-trivial = distinct variant with an unchanged tree",
        "samples": [cases[1][2], cases[len(cases) // 2][2], render(cases[5][0])[:300]],
        "input_distribution": kinds,
        "tie": "exact: field tree of parse.Fields (imported from the working tree) = PQ.Parse.parseStruct on the same declarations",
        "tie_disagreements": len(tie_breaks), "property_failures_on_impl": len(prop_fail),
        "traces_validated_against_impl": len(cases),
    })
    return common.verdict(chk, cov, pr, prop_fail, tie_breaks, "C14", "parse.Fields vs PQ.Parse.parseStruct", [
        "everything after parsing (fields, dremel, gen) is a function of the field tree and the struct's type names only: equal trees give identical generated code up to type names, hence byte-identical files (checked on generated programs in the thorough tier)"])


def replay(chk, path):
    body = json.load(open(path))
    print(json.dumps(body, indent=1)[:4000])
    return run(chk)
