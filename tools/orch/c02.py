"""C02 — every written file is structurally valid Parquet with a truthful footer."""
import json
import common, zoo as zoolib, filelevel, workloads
from common import Pair, proof_stage, rebuild_tools, build_pqh, build_zoo, Lock, TRUSTED_BASE

MODULE = "PQ.Props.C02"
THEOREMS = ["PQ.C02.thrift_decodes", "PQ.C02.thrift_bytes", "PQ.C02.level_section_valid", "PQ.C02.page_valid", "PQ.C02.file_valid", "PQ.schema_valid", "PQ.schemaElems_tree", "PQ.schemaLeaves_tree", "PQ.parseFile_runWriter", "PQ.parseFile_runWriter_records", "PQ.C06.offsets_truthful", "PQ.C06.offsets_contiguous", "PQ.C06.rowgroups_refine_batches", "PQ.C06.chain_shape"]


def run(chk):
    thorough = chk.tier == "thorough"
    cov = {"steps": {}}
    with Lock():
        cov["steps"] = rebuild_tools(chk.log)
        cov["steps"]["zoo"] = build_zoo(chk.log)
        build_pqh(chk.log)
        pr = proof_stage(chk, MODULE, THEOREMS)
    pair = Pair(chk.log)
    zs = filelevel.load_zoos(pair, workloads.WRITER_ZOOS)
    raw, meta = workloads.file_cases(chk, zs, thorough, zoos=workloads.WRITER_ZOOS)
    # histories with empty writes / pending records too: validity must hold for every history
    g = zoolib.Gen(chk.rng, mode="pool")
    for name, z in zs.items():
        if z is None:
            continue
        for shape in ("wac", "awwac", "aawaac", "c", "wc", "ac", "aaawwaaac"):
            for mx in (1, 2):
                for codec in (0, 1, 2):
                    raw.append((z, mx, codec, [("a", g.record(z.nodes)) if x == "a" else (x,) for x in shape], "history"))
    cases = [filelevel.Case(z, mx, codec, ops, tag) for z, mx, codec, ops, tag in raw]
    filelevel.run_cases(pair, cases, want_read=False)

    tie_breaks, prop_fail, tags = [], [], {}
    nontrivial = set()
    # process history: a file must not depend on what the process did before. threetwin has the column paths and
    # repetition types of three but other physical types; each is written alone (fresh process: the reference, which is
    # also validated by the independent parser below) and after an instance of the other in ONE process
    tw = filelevel.load_zoos(pair, ["threetwin"]).get("threetwin")
    t3 = zs.get("three")
    hist_pairs = []
    if tw is not None and t3 is not None:
        for codec in (0, 1, 2):
            a_ = filelevel.Case(t3, 2, codec, [("a", g.record(t3.nodes)) for _ in range(3)] + [("w",), ("c",)], "process-history")
            b_ = filelevel.Case(tw, 2, codec, [("a", g.record(tw.nodes)) for _ in range(3)] + [("w",), ("c",)], "process-history")
            hist_pairs += [(a_, b_), (b_, a_)]
        wop = lambda c: "zoo-write %s %d %d %s" % (c.zoo.name, c.max, c.codec, c.go_ops)
        for first, second in hist_pairs:
            solo = pair.impl([wop(second)])[0].split(" ")[0]                       # fresh process
            f1 = pair.impl([wop(first)])[0].split(" ")[0]
            r = pair.impl([wop(first), "zoo-read %s %s" % (first.zoo.name, f1), wop(second)])      # ONE process
            got = r[2].split(" ")[0]
            if got != solo:
                diff = next((i for i, (x, y) in enumerate(zip(got, solo)) if x != y), -1) // 2
                prop_fail.append({"case": "%s\nAFTER (same process) %s" % (second.key()[:1500], first.key()[:1500]),
                                  "key": {"zoo": second.zoo.name, "clause": "process-history"},
                                  "clause": "the file written for struct %s differs (first at byte %d) from the one a fresh process writes when an instance for struct %s was used earlier in the process" % (second.zoo.name, diff, first.zoo.name),
                                  "got": got[max(0, 2 * diff - 40):2 * diff + 80], "want": solo[max(0, 2 * diff - 40):2 * diff + 80]})
            else:
                nontrivial.add("history:" + second.key()[:200] + first.zoo.name)
    for name, z in zs.items():
        if z is None:
            prop_fail.append({"case": "zoo %s" % name, "key": {"zoo": name, "clause": "generated code unavailable"}, "clause": "parquetgen output for struct %s does not generate/compile: %s" % (name, cov["steps"]["zoo"].get(name)), "got": "-", "want": "-"})
        elif z.cols_text != z.cols_fields:
            prop_fail.append({"case": "zoo %s" % name, "key": {"zoo": name, "clause": "Fields() disagree with the struct"},
                              "clause": "columns declared by the generated Fields() differ from the struct's columns", "got": z.cols_fields, "want": z.cols_text})
    for c in cases:
        tags[c.zoo.name + "/" + c.tag] = tags.get(c.zoo.name + "/" + c.tag, 0) + 1
        if c.impl_file != c.model_file or c.impl_calls != c.model_calls:
            tie_breaks.append({"case": c.key()[:600], "what": "writer bytes / sink calls", "impl_calls": c.impl_calls[-80:], "model_calls": c.model_calls[-80:],
                               "first_diff": next((i for i, (a, b) in enumerate(zip(c.impl_file, c.model_file)) if a != b), -1) // 2})
        want = filelevel.expected_parse(c)
        if c.parse != want:
            clause = c.parse.split(" ")[1] if c.parse.startswith("invalid") else "parsed content differs from the records written"
            prop_fail.append({"case": c.key()[:3000], "key": {"zoo": c.zoo.name, "clause": c.parse[:120] if c.parse.startswith("invalid") else "content"},
                              "clause": "independent parser: " + clause, "got": c.parse[:600], "want": want[:600]})
        else:
            nontrivial.add(c.m_ops)
    cov.update({
        "obligations": pr["obligations"], "discharged": pr["discharged"], "axioms": pr["axioms"],
        "checker_cmd": "cd lean && lake build %s" % MODULE, "trusted_base": TRUSTED_BASE, "forbidden_constructs": pr["forbidden_constructs"],
        "process_history_pairs": len(hist_pairs),
        "evaluations": len(cases) + len(hist_pairs), "distinct_nontrivial": len(nontrivial),
        "rule": "every file written for the C01 workloads (8 structs plus 2 writer-side ones, incl. nested groups 3 deep and same-named groups under different parents; structural enumeration, random, extremes; page sizes; 3 codecs) plus histories with empty writes and pending records, parsed by the independent Lean parser/validator PQ.parseFile (magic, footer length, thrift, schema tree vs struct columns, every offset/size/count/codec, page record limits and boundaries, exact level and value section lengths); non-trivial = distinct history whose file validates and whose parsed content equals the list-of-batches model",
        "samples": [cases[i].key()[:300] for i in (0, len(cases) // 2, len(cases) - 1)],
        "input_distribution": tags, "structural_enumeration": meta,
        "tie": "exact: model file bytes = generated writer's (all codecs; compressed payloads supplied by the external codec library)",
        "tie_disagreements": len(tie_breaks), "property_failures_on_impl": len(prop_fail),
        "traces_validated_against_impl": len(cases),
    })
    return common.verdict(chk, cov, pr, prop_fail, tie_breaks, "C02", "PQ writer model vs generated ParquetWriter (all zoo structs)",
                          ["total_byte_size accepted as either the compressed or the uncompressed sum",
                           "compressed pages are checked after decompression by the external library (codec is a parameter of the model)"])


def replay(chk, path):
    body = json.load(open(path))
    print(json.dumps(body, indent=1)[:4000])
    return run(chk)
