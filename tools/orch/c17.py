"""C17 — bit packing of 8-value groups is exactly invertible and spec-ordered."""
import itertools, json
import common
from common import Pair, proof_stage, rebuild_tools, build_pqh, Lock, TRUSTED_BASE

MODULE = "PQ.Props.C17"
THEOREMS = (["PQ.C17.unpack_pack%d" % w for w in (1, 2, 3, 4)] +
            ["PQ.C17.pack_unpack%d" % w for w in (1, 2, 3, 4)] +
            ["PQ.C17.pack_spec%d" % w for w in (1, 2, 3, 4)] +
            ["PQ.C17.fresh_pack%d" % w for w in (1, 2, 3, 4)] +
            ["PQ.C17.fresh_unpack%d" % w for w in (1, 2, 3, 4)] +
            ["PQ.C17.fresh_dispatch", "PQ.C17.dispatch_ok", "PQ.C17.maxSize_ok"] +
            ["PQ." + t for t in ("pack_length", "pack_lt", "unpack_pack", "pack_unpack", "unpack_length", "unpack_lt",
                                 "pack_eq_packSpec", "unpack_eq_unpackSpec", "unpackSpec_packSpec")])
EXTRA = ["PQ.Lemmas.BitpackNat"]


def hexs(vals):
    return "".join("%02x" % v for v in vals) or "-"


def gen_groups(chk, w, thorough):
    """value groups for width w (values < 2^w), deterministic part + seeded random part"""
    m = 1 << w
    out = []
    if m ** 8 <= 70000:
        out += [list(t) for t in itertools.product(range(m), repeat=8)]
    else:
        # one value set, others zero / all-ones; pairs; then random
        for i in range(8):
            for v in range(m):
                for bg in (0, m - 1):
                    g = [bg] * 8
                    g[i] = v
                    out.append(g)
        for i in range(8):
            for j in range(i + 1, 8):
                for v in range(m):
                    for u in (1, m - 1, m >> 1):
                        g = [0] * 8
                        g[i], g[j] = v, u
                        out.append(g)
        # uniform groups and short-period patterns (what a "fast path" would single out), ramps
        for v in range(m):
            out.append([v] * 8)
            for u in range(m):
                out.append([v, u] * 4)
                out.append([v, v, u, u] * 2)
                out.append([v] * 4 + [u] * 4)
                out.append([v] * 7 + [u])
                out.append([u] + [v] * 7)
        out.append([i % m for i in range(8)])
        out.append([(7 - i) % m for i in range(8)])
        n = 400000 if thorough else 60000
        for _ in range(n):
            out.append([chk.rng.randrange(m) for _ in range(8)])
    return out


def gen_bytes(chk, w, thorough):
    if w <= 2:
        return [list(t) for t in itertools.product(range(256), repeat=w)]
    out = []
    for i in range(w):
        for v in range(256):
            for bg in (0, 255):
                b = [bg] * w
                b[i] = v
                out.append(b)
    n = 400000 if thorough else 60000
    for _ in range(n):
        out.append([chk.rng.randrange(256) for _ in range(w)])
    return out


def run(chk):
    thorough = chk.tier == "thorough"
    cov = {"steps": {}}
    with Lock():
        cov["steps"] = rebuild_tools(chk.log)
        build_pqh(chk.log)
        pr = proof_stage(chk, MODULE, THEOREMS, EXTRA, audit_imports=EXTRA)
    pair = Pair(chk.log)

    # ---- correspondence (exact) + the property evaluated on the implementation (search oracle)
    ops, meta = [], []
    for w in (1, 2, 3, 4):
        for g in gen_groups(chk, w, thorough):
            ops.append("pack %d %s" % (w, hexs(g))); meta.append(("pack", w, g))
        for b in gen_bytes(chk, w, thorough):
            ops.append("unpack %d %s" % (w, hexs(b))); meta.append(("unpack", w, b))
        # out-of-range values are masked
        for _ in range(2000):
            g = [chk.rng.randrange(256) for _ in range(8)]
            ops.append("pack %d %s" % (w, hexs(g))); meta.append(("pack-oor", w, g))
    for w in (0, 5, 6, 8):   # default: arms
        ops.append("pack %d %s" % (w, hexs([1, 2, 3, 4, 5, 6, 7, 8]))); meta.append(("pack-default", w, None))
        ops.append("unpack %d %s" % (w, hexs([255] * max(w, 1)))); meta.append(("unpack-default", w, None))
    impl = common.chunked_parallel(pair.impl, ops, workers=8, chunk=20000)
    model = common.chunked_parallel(pair.model, ops, workers=8, chunk=20000)
    # spec oracle from the model library (arithmetic layout, written from the specification)
    spec_ops = [("packspec" if k.startswith("pack") else "unpackspec") + o[o.index(" "):] if k in ("pack", "unpack") else None
                for o, (k, w, g) in zip(ops, meta)]
    idx = [i for i, s in enumerate(spec_ops) if s]
    spec = dict(zip(idx, common.chunked_parallel(pair.model, [spec_ops[i] for i in idx], workers=8, chunk=20000)))

    tie_breaks, prop_fail = [], []
    nontrivial = set()
    for i, (o, a, b) in enumerate(zip(ops, impl, model)):
        k, w, g = meta[i]
        if a != b:
            tie_breaks.append({"op": o, "impl": a, "model": b})
        if k == "pack":
            if a != spec[i]:
                prop_fail.append({"op": o, "impl": a, "spec_layout": spec[i], "clause": "packed bytes are not the LSB-first little-endian layout"})
            if any(g):
                nontrivial.add(o)
        if k == "unpack":
            if a != spec[i]:
                prop_fail.append({"op": o, "impl": a, "spec_layout": spec[i], "clause": "unpack disagrees with the specification layout"})
            if any(g):
                nontrivial.add(o)
    # round trips on the implementation itself
    rt_ops, rt_meta = [], []
    for i, (k, w, g) in enumerate(meta):
        if k == "pack" and len(impl[i]) == 2 * w:
            rt_ops.append("unpack %d %s" % (w, impl[i])); rt_meta.append((i, hexs(g)))
        if k == "unpack" and len(impl[i]) == 16:
            rt_ops.append("pack %d %s" % (w, impl[i])); rt_meta.append((i, hexs(g)))
    rt = common.chunked_parallel(pair.impl, rt_ops, workers=8, chunk=20000)
    for (i, want), got, o in zip(rt_meta, rt, rt_ops):
        if got != want:
            prop_fail.append({"op": ops[i], "then": o, "got": got, "want": want, "clause": "round trip is not the identity"})

    # Pack appends to its destination: the packed bytes must not depend on what the destination's spare capacity held
    # (seeded change C17-r8: in-place packing that only ORs into the first byte of a reused buffer)
    d_idx = [i for i, (k, w, g) in enumerate(meta) if k == "pack" and (thorough or i % 5 == 0)]
    d_res = common.chunked_parallel(pair.impl, ["pack-dirty" + ops[i][4:] for i in d_idx], workers=8, chunk=20000)
    for i, got in zip(d_idx, d_res):
        if got != impl[i] or got != spec[i]:
            prop_fail.append({"op": "pack-dirty" + ops[i][4:], "impl": got, "spec_layout": spec[i], "pack_into_fresh_buffer": impl[i],
                              "clause": "packed bytes depend on the garbage in the destination's spare capacity (Pack into a reused buffer)"})
    dirty_checked = len(d_idx)

    cov.update({
        "obligations": pr["obligations"], "discharged": pr["discharged"], "axioms": pr["axioms"],
        "checker_cmd": "cd lean && lake build %s  (then `#print axioms` on each theorem; grep for sorry/admit/axiom/native_decide/bv_decide)" % MODULE,
        "trusted_base": TRUSTED_BASE,
        "forbidden_constructs": pr["forbidden_constructs"],
        "evaluations": len(ops) + len(rt_ops) + dirty_checked, "dirty_destination_packs": dirty_checked, "distinct_nontrivial": len(nontrivial),
        "rule": "pack/unpack groups: all 2^8 and 4^8 value groups and all 1- and 2-byte groups (exhaustive); for w=3,4 every single-value and two-value group over zero/all-ones backgrounds, all uniform groups and period-2/4 patterns, plus seeded random groups; non-trivial = distinct group with at least one non-zero element",
        "exhaustive": False,
        "samples": [ops[0], ops[len(ops) // 3], ops[len(ops) // 2], ops[-1]],
        "tie": "exact: PQ.pack/PQ.unpack (wrappers over the translated tables) vs bitpack.Pack/Unpack via the verif hook",
        "tie_disagreements": len(tie_breaks), "property_failures_on_impl": len(prop_fail),
        "traces_validated_against_impl": len(ops),
    })

    # ---- verdict
    if prop_fail:
        chk.violation("violation", {"theorem_or_tie": "C17 evaluated on the implementation", "failures": prop_fail[:20],
                                    "input": prop_fail[0]["op"], "oracle": {"name": prop_fail[0]["clause"], "verdict": "fails"}}, tag="impl")
    if cov["steps"].get("xlate") != "ok":
        chk.violation("tie-broken", {"theorem_or_tie": "translator tools/xlate (bitpack.go outside the translated grammar)",
                                     "detail": cov["steps"].get("xlate")}, found_input=bool(prop_fail), tag="xlate")
    elif not pr["ok"]:
        chk.violation("proof-broken", {"theorem_or_tie": pr["failed"] or pr["forbidden_constructs"], "build_output": pr["build_output"]},
                      found_input=bool(prop_fail), tag="proof")
    if tie_breaks and not prop_fail:
        chk.violation("tie-broken", {"theorem_or_tie": "PQ.pack/unpack vs bitpack.Pack/Unpack", "disagreements": tie_breaks[:20]},
                      found_input=False, tag="tie")
    return chk.finish("proof", cov, [
        "widths outside 1..4 take the default arms of Pack/Unpack (checked as such)",
        "call sites (one Pack per full group, one Unpack per w-byte slice) belong to the RLE model (C07)"])


def replay(chk, path):
    body = json.load(open(path))
    print(json.dumps(body, indent=1)[:4000])
    return run(chk)
