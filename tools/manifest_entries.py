HOOK_COMMITS = ["9b11c26"]
NOTES = "Technique family: machine-checked proof in Lean 4. See DESIGN.md. Every check rebuilds from /repo's working tree: translator (tools/xlate) regenerates PQ/Gen, the harness is rebuilt with -tags verif, theorems are re-checked by `lake build`, then the correspondence run compares model and implementation."
NA = {}

add("C17", "proof",
    "Theorems over all BitVec 8 inputs (all value groups and all byte groups of widths 1-4) about definitions regenerated from internal/bitpack/bitpack.go and from cmd/bitpackgen's fresh output on every run: unpack∘pack = mask, pack∘unpack = id, packed bit k = bit (k mod w) of value (k div w). The quantifier of the property is covered completely by the theorems; the translator is validated each run by exact comparison with bitpack.Pack/Unpack.",
    "Trusted: Lean kernel (axioms propext, Quot.sound), tools/xlate (go/ast translator, ~300 lines), the verif hook VerifBitPack/VerifBitUnpack, the statement of streamBit/specBit.",
    "Lean 4 theorems by bit extensionality over a model translated from the Go source on every run",
    "DESIGN.md §6 C17")
