HOOK_COMMITS = ["9b11c26"]
NOTES = ("Technique family: machine-checked proof in Lean 4. See DESIGN.md. Every check rebuilds from /repo's working tree: "
         "the translator (tools/xlate) regenerates PQ/Gen, parquetgen is rebuilt and re-run on the zoo structs, the harness is rebuilt with -tags verif, "
         "the property's theorems are re-checked by `lake build` and audited with `#print axioms`, then the correspondence run compares the executable Lean model "
         "and the implementation on generated inputs, and the property's executable oracle is evaluated on the implementation's behaviour. "
         "Genuine defects repaired by fix: commits in /repo are listed in known_findings.json (status fixed).")
NA = {}

PROOF_NOTE = ("Trusted: Lean kernel (axioms propext, Quot.sound, Classical.choice only; audited every run), the statements and model definitions, "
              "the Go harness (reflect-based record/projection conversion), the Python orchestrator, external libraries (snappy, gzip, thrift runtime) as parameters. "
              "The model-implementation link is exact differential execution on generated inputs (sampled), except translated parts. "
              "Thorough tier: leanchecker replays the theorem module and every project module it imports.")

add("C17", "proof",
    "Theorems over all BitVec 8 inputs (all value groups and all byte groups of widths 1-4) about definitions regenerated from internal/bitpack/bitpack.go and from cmd/bitpackgen's fresh output on every run: unpack∘pack = mask, pack∘unpack = id, packed bit k = bit (k mod w) of value (k div w); Nat-level corollaries used by the RLE proofs (pack = arithmetic LSB-first layout). The quantifier of the property is covered completely by the theorems; the translator is validated each run by exact comparison with bitpack.Pack/Unpack.",
    "Trusted: Lean kernel (axioms propext, Quot.sound, Classical.choice), tools/xlate (go/ast translator), the verif hook VerifBitPack/VerifBitUnpack, the statement of streamBit/specBit.",
    "Lean 4 theorems by bit extensionality over a model translated from the Go source on every run",
    "DESIGN.md §6 C17")

add("C07", "proof",
    "Theorems for every width 1-4 and every level sequence (unbounded length up to the int32 prefix guard): the encoder model's output is le32 len ++ a serialisation of well-formed runs whose values are the input plus <8 zeros (invariant over the encoder state machine), the specification decoder inverts it, and the implementation-decoder model accepts every well-formed run list (any mix of run kinds, >63 groups, multi-byte headers) consuming exactly the stream; writeBuffer abstraction. The encoder/decoder models are tied to internal/rle by exact comparison (bytes, values, consumed count, err/panic) on exhaustive short sequences, boundary-structured sequences, foreign well-formed encodings and malformed streams; thresholds 8/63 are extracted from the source into the model on every run.",
    PROOF_NOTE, "Lean 4 invariant proof of a hand-written model + exact differential correspondence", "DESIGN.md §6 C07")

add("C12", "proof",
    "Theorems for every page (every list of striped entries) and every type: null_count = number of entries without a value; reported min/max bound every non-null non-NaN value in the type's order (signed, unsigned, IEEE-754 on bit patterns, bytewise); min/max absent iff no non-null value (optional kinds, strings); NaN never enters. The accumulator model is tied to the generated stats code by exact equality of whole files (page headers carry the Statistics) on boundary-value pages of all 8 types x required/optional/repeated; the statement itself is also evaluated on every page of the implementation's files after independent decoding.",
    PROOF_NOTE, "Lean 4 fold-invariant proofs + exact differential correspondence + executable oracle", "DESIGN.md §6 C12")

add("C03", "proof",
    "Theorems for every repetition-type list and every value: assemble∘stripe = id (a reader that knows only the specification reassembles the record), levels bounded by the column maxima, value present iff def = maxDef, record boundaries are exactly rep = 0, striping injective, level bit width sufficient and minimal. The reference striping is compared with the rep/def/value sections of every page of the implementation's files, decoded by the Lean specification decoder (not the library), for structurally enumerated records of five structs; projections are computed by reflection independently of generated code.",
    PROOF_NOTE, "Lean 4 structural-induction proofs of the reference striping + spec-level correspondence", "DESIGN.md §6 C03")

add("C06", "proof",
    "Writer state machine (Add/Write/Close, page chain, row-group accounting, footer) as an executable Lean model whose sink bytes and sink-call segmentation equal the generated writer's on all histories up to a length bound x page sizes x codecs; refinement theorems over all histories (chain = chunks of max, closed row groups = non-empty batches, empty Write inert, pending records dropped, offsets truthful) as listed in evidence; the property is also evaluated directly on the implementation: independent parse + read-back vs the list-of-batches model.",
    PROOF_NOTE + " Theorems carried so far are listed in the evidence file under coverage.axioms; clauses not yet carried by a theorem are decided by the correspondence and the oracle only.",
    "Lean 4 refinement proofs of a hand-written state machine + exhaustive history enumeration against the implementation", "DESIGN.md §6 C06")

add("C02", "proof",
    "Theorem PQ.C02.file_valid, the property's full statement over the model: for every field forest, every Add/Write/Close history, page size >= 1 and codec with a correct decompressor, the independent parser/validator PQ.parseFile (written from the specification: magic, footer, thrift, schema tree, offsets, sizes, counts, codec, page record limits and boundaries, exact section lengths) accepts the writer model's bytes and finds exactly the written records per row group (parseFile_runWriter_records composed with schema_valid); hypotheses: records are Dremel-striped, nesting <= 15, sizes below the format's 32-bit fields. Tie: the writer model's bytes equal the implementation's exactly on ten structs (incl. nesting 9 deep and same-named groups at different depths) and the validator is evaluated on every file the implementation writes.",
    PROOF_NOTE,
    "Lean 4 layer theorems + independent validator as executable oracle + exact byte correspondence", "DESIGN.md §6 C02")

add("C01", "proof",
    "Theorem PQ.C01.roundtrip, the property's full statement over the models: for every field forest, history, page size >= 1 and codec with a correct decompressor, the reader model applied to the writer model's bytes reports Rows() = number of written records, Next() true exactly that many times, every Scan delivering the record's per-column entries (hence its projection), Error() nil (readAll_runWriter composed with schema_valid; extra hypothesis: joined column names pairwise distinct); layer theorems (levels, records, header, values incl. multi-page booleans, page, chunk). Tie: exact writer bytes and exact reader results on structurally enumerated and boundary-valued records of eight structs, partitions around page boundaries, page sizes, three codecs, single pages beyond 32 KiB, level streams of hundreds of values at every width, a 70 000-byte string. The two aliasing clauses are runtime facts explored by the harness only (mutation after Add, scanned records re-checked after later reads): partial.",
    PROOF_NOTE,
    "Lean 4 layer theorems + exact differential correspondence of writer and reader models", "DESIGN.md §6 C01")

add("C08", "proof",
    "Theorem readFull_indep: io.ReadFull over any fragmentation schedule (any grants >= 1, EOF with or without data) returns exactly the requested bytes or fails exactly when fewer are available; lemma no_single_read_sites over the call-site inventory regenerated from the source on every run (every source read is ReadFull/CopyN/binary.Read, a Seek or a pass-through); the reader model consumes the source only through readExactly. Tie: the generated reader over a fragmenting ReadSeeker (fixed chunk sizes 1..17, seeded random short reads, data+EOF) on valid files of five structs x three codecs must give the unfragmented result.",
    PROOF_NOTE + " The thrift transport's reads are library code (trusted; exercised by the runs). Schedules returning (0, nil) are excluded.",
    "Lean 4 proof of the read loop + regenerated call-site inventory + fragmenting-source correspondence", "DESIGN.md §6 C08")

add("C09", "proof",
    "Theorems: a sequence of I/O steps whose every error is checked or returned reports a failure of its k-th step for every k (and a dropped error is exactly what swallows one); lemmas over the inventories regenerated on every run: every sink write and every call that reaches the sink has its error checked/returned; failing_call identifies the API call containing write k. Tie: exhaustive over k — for every workload the sink fails at its k-th Write for every k; the API call predicted from the model's per-call write list must return an error, earlier calls complete with the model's write counts, nothing panics.",
    PROOF_NOTE + " Inventories are syntactic (go/ast).",
    "Lean 4 proof of error propagation over a regenerated call-site inventory + exhaustive fault enumeration", "DESIGN.md §6 C09")

add("C10", "proof",
    "Lemmas over the regenerated inventories: every source read/seek and every call that reaches the source has its error checked, returned or stored in the sticky reader error; with C09's propagation theorem a failure of any step of an API call is reported by that call; next_reports: a failing row-group load makes Next false with the error set. Tie: a fault-free traced run maps each Read/Seek call index to the API call it occurs in; the source then fails at call k for every k (thorough) / a dense sample (quick) and the outcome must be the predicted one: constructor error, or Next false + Error() after exactly the first j-1 correct rows; never a panic.",
    PROOF_NOTE + " Inventories are syntactic (go/ast); the thrift runtime's error propagation is trusted (exercised).",
    "Lean 4 lemmas over a regenerated call-site inventory + exhaustive fault enumeration against the implementation", "DESIGN.md §6 C10")

add("C11", "proof",
    "Theorem accepted_has_trailer: whatever bytes the reader model is given, if it accepts them at open time they end with a complete trailer (magic, length, decodable footer), so the only strict prefixes that can be accepted are those that are complete files up to a footer of their own; theorem truncated_rejected_partial: for every file in which PAR1 occurs only at its two ends, every strict prefix is rejected by the reader model at open time (trailing magic is checked before the footer length is trusted); the full statement is false for any reader (a value may hold a complete trailer): that crafted input is a known finding. Tie: EVERY strict prefix of files of five structs x three codecs plus crafted files is opened and iterated by the generated reader; accept/reject per prefix length must equal the reader model's; the NoInnerMagic hypothesis is evaluated on every file.",
    PROOF_NOTE, "Lean 4 theorem under an explicit decidable hypothesis + exhaustive prefix enumeration", "DESIGN.md §6 C11")

add("C04", "proof",
    "Theorem PQ.readAll_specWrite, the property's full statement over the models: for every choice stream (every run segmentation of every level stream of every page, every page split of every column at record boundaries), every per-column codec out of uncompressed/snappy/gzip with a correct decompressor, with or without statistics (complete or min/max only) and unknown/optional thrift fields, any row-group partition including row groups without rows, the reader model decodes the file of the independent writer PQ.specWrite to exactly the written records (Rows, Next count, per-Scan entries, no error); layer theorems: segment_spec, levels_any_segmentation, snappy_roundtrip (every literal/copy segmentation), unknown_fields_skipped, statistics_irrelevant. Tie: files from PQ.specWrite under seeded random legal choices must be read back correctly by the generated reader and identically by the reader model; the files are validated by PQ.parseFile and the Lean compressors' output by the external decoders.",
    PROOF_NOTE + " Hypotheses of the whole-file theorem: column names resolve, level widths <= 4 bits, < 2^28 entries per chunk, file < 4 GiB. gzip variety is limited to stored blocks (inflate is Go's standard library).",
    "Lean 4 theorems about a nondeterministic conformant writer + differential correspondence on its files", "DESIGN.md §6 C04")

add("C18", "proof",
    "Theorem PQ.readOutcome_specWrite_mutated, the property's full statement over the models: a file of the independent writer PQ.specWrite in which ONE page (any row group, any column, any existing page) carries an unsupported feature - dictionary/index/v2 page, a value encoding other than PLAIN, a non-RLE level encoding on a column that has those levels, a codec id > 2 - is refused by the reader model: NewParquetReader fails when the feature is in the first row group, otherwise exactly the records of the earlier row groups are delivered and Next then returns false with the error set; never a panic, never a row of the affected row group (also stated on the text line the driver prints: readAll_specWrite_mutated); page-level theorems checkPage_spec, required_refuses, optional_refuses, codec_refused. Tie: one-feature mutants of otherwise valid foreign files (feature x column [sampled in quick] x row group x page): the generated reader's outcome must be an error no later than the bad row group with no row of it delivered and no panic, and equal to the reader model's.",
    PROOF_NOTE,
    "Lean 4 theorems about the reader model's validation + exhaustive one-feature mutants", "DESIGN.md §6 C18")

add("C16", "proof",
    "Theorems introspection_runWriter and introspection_specWrite: for every file the writer model produces, and for every file the independent writer PQ.specWrite produces (any page split, codec, optional metadata, empty row groups), ReadMetaData is the footer the independent parser decodes and PageHeaders is exactly one header per data page in file order with the walked counts and sizes; at_zero_one_header, meta_is_footer. Lean mirrors of ReadMetaData / PageHeaders / PageHeadersAtOffset are compared field by field with the Go functions and with the independent walk of PQ.parseFile (from every page start: the shortest run of headers covering n, exactly one for n = 0) on files with page headers from a few dozen bytes to > 128 KiB.",
    PROOF_NOTE + " PageHeadersAtOffset started at the first or at any later page of a chunk: the shortest run of headers covering n is a theorem for both writers (pageHeadersAt_chunk_cover, pageHeadersAt_page_cover, pageHeadersAt_spPageCover); an offset that is not a page start is outside the property (no header starts there).",
    "Lean 4 mirrors + independent walk as oracle", "DESIGN.md §6 C16")

add("C13", "proof",
    "Theorems over a heap/pool/instance model: for every world (arbitrary stale pool contents), every interleaving of instances whose programs follow the Get…defer Put discipline and every free-buffer choice, each instance's output equals what it emits alone (interleaving_indep, output_indep_pool), with a counter-example when Put precedes the emit; stale bytes exposed by reslicing a pooled buffer never reach the output; inventories regenerated from the source: every Get is paired with a deferred Put, buffers do not escape, the only package-level variables are the two pools and read-only values. Tie: byte equality of files and read results across repeat runs, runs after both pools were filled with garbage, and 16 concurrent goroutines; the same under the Go race detector.",
    PROOF_NOTE + " Data-race freedom is a property of the Go memory model and scheduler that no executable model exhibits: the race-detector runs are exploration and that clause is partial.",
    "Lean 4 invariant proof over interleavings of a pool model + regenerated inventories + byte-equality runs", "DESIGN.md §6 C13")

add("C14", "proof",
    "Lean model of parse.Fields (getField's traversal, exportedness, tag parsing, embedded hoisting, one field per declared name) with theorems excluded_inert(_many) (inserting excluded fields anywhere, at any nesting level, leaves the parsed tree unchanged), embed_eq_inline (replacing any run of fields by an embedded struct; acyclic declarations), tag_dash_anywhere, multi_name_split; compared exactly with parse.Fields (imported from the working tree) on Go source rendered from declarations: insertion of an excluded field (unexported names: ASCII, underscore, non-ASCII lower case, caseless scripts; exotic Go types incl. inline structs with tagged fields) at every position of every struct of five struct families, and replacement of every contiguous run of fields by an embedded struct; the decorated struct's field tree must equal the plain struct's.",
    PROOF_NOTE + " Everything after parsing is a function of the field tree and type names; byte-identical files for equal trees are observed on generated programs, not proved.",
    "Lean 4 model of the struct parser + exact differential correspondence", "DESIGN.md §6 C14")

add("C15", "proof",
    "Theorem regenerate_written: for every non-repeated field forest with usable names, parsing (parse.Fields model) the struct text regenerated (structs.Struct model) from the footer schema written for it gives back the forest. Tie: the structs.Struct model is compared exactly (text) with the Go function on the footer schema of files written for every non-repeated shape; the regenerated struct parsed by parse.Fields must have the source struct's field tree; end to end: parquetgen -parquet on the file, compile, read the file back and compare with the written records.",
    PROOF_NOTE,
    "Lean 4 models of struct regeneration and parsing + per-program validation", "DESIGN.md §6 C15")

add("C05", "proof",
    "Proved about the generic model: for every struct shape (field forest) and all values the model writer's file validates and holds exactly the written records (file_valid), striping is lossless; proved about the generator's own level arithmetic (cmd/parquetgen/fields: MaxDef, MaxRep, MaxRepForDef, DefIndex, NilField, IsRep, mirrored loop for loop): it equals the Dremel maxima / the closed forms for every chain, tied exhaustively on all chains up to length 7. What ties a shape to the generic model is per-program validation: today's parquetgen is run twice on every shape of the corpus (all <= 3-node shapes + samples of 4/5-node and curated larger shapes in quick; all 1209 shapes with <= 4 nodes + more in thorough; plus struct definitions in Go's multi-name field syntax), the output compiled, and the generated writer/reader compared with the model on structurally enumerated values (writer bytes, independent validation, reference striping, read-back). The generator fails for a listed set of shapes (known findings, exact shape lists); any other failing shape, or a listed shape failing differently, is a violation.",
    PROOF_NOTE + " 'Compiles' is the Go compiler's verdict. The generator's string synthesis is not modelled.",
    "Lean 4 theorems for the generic model + translation validation per generated program", "DESIGN.md §6 C05")
