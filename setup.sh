#!/bin/sh
# Builds the framework from files on disk only (offline). Run once after a fresh restore.
set -e
cd "$(dirname "$0")"
export GOFLAGS=-mod=mod GOPROXY=off GOSUMDB=off GOTOOLCHAIN=local CGO_ENABLED=0
mkdir -p bin evidence replays lean/PQ/Gen
python3 - <<'PY'
import sys
sys.path.insert(0, "tools/orch")
import common
log = lambda m: print(m, file=sys.stderr)
print(common.rebuild_tools(log))
print(common.build_zoo(log))
common.build_pqh(log)
PY
(cd lean && lake build PQ pqdriver PQ.Props.All)
echo setup-ok
