#!/bin/sh
# Builds the framework from files on disk only (offline). Run once after a fresh restore.
set -e
cd "$(dirname "$0")"
export GOFLAGS=-mod=mod GOPROXY=off GOSUMDB=off GOTOOLCHAIN=local CGO_ENABLED=0
mkdir -p bin evidence replays lean/PQ/Gen
(cd tools/xlate && go build -o ../../bin/xlate .)
(cd /repo && go build -o /verif/bin/bitpackgen ./cmd/bitpackgen)
./bin/xlate -repo /repo -out lean/PQ/Gen -facts lean/PQ/Gen/facts.json -bitpackgen bin/bitpackgen
cp /repo/go.sum harness/go.sum
(cd harness && go build -tags verif -o ../bin/pqh ./cmd/pqh)
(cd lean && lake build PQ pqdriver PQ.Props.All)
echo setup-ok
