import Rl.Thrift
namespace TH

theorem uvar_length_pos (n : Nat) : 0 < (uvar n).length := by
  unfold uvar; split <;> simp

theorem readUvar_uvar (n : Nat) (rest : Bytes) (fuel : Nat) (hf : (uvar n).length ≤ fuel) :
    readUvar fuel (uvar n ++ rest) = some (n, rest) := by
  induction n using Nat.strongRecOn generalizing fuel with
  | _ n ih =>
    unfold uvar at hf ⊢
    by_cases h : n < 128
    · rw [dif_pos h] at hf ⊢
      cases fuel with
      | zero => simp at hf
      | succ f => simp [readUvar, h]
    · rw [dif_neg h] at hf ⊢
      cases fuel with
      | zero => simp at hf
      | succ f =>
        have := ih (n / 128) (by omega) f (by simpa using hf)
        simp only [List.cons_append, readUvar]
        have h1 : ¬ (n % 128 + 128 < 128) := by omega
        rw [if_neg h1, this]
        simp only [Option.some.injEq, Prod.mk.injEq, and_true]
        omega

theorem readUvar_uvar' (n : Nat) (rest : Bytes) :
    readUvar (uvar n ++ rest).length (uvar n ++ rest) = some (n, rest) :=
  readUvar_uvar n rest _ (by simp)

theorem unzig_zig (i : Int) : unzig (zig i) = i := by
  unfold zig unzig
  by_cases h : i ≥ 0
  · rw [if_pos h]
    have : 2 * i.toNat % 2 = 0 := by omega
    rw [if_pos this]
    have : 2 * i.toNat / 2 = i.toNat := by omega
    rw [this]; omega
  · rw [if_neg h]
    have : ¬ ((2 * (-i - 1).toNat + 1) % 2 = 0) := by omega
    rw [if_neg this]
    have : (2 * (-i - 1).toNat + 1) / 2 = (-i - 1).toNat := by omega
    rw [this]; omega

def okCode (c : Nat) : Prop := c = tTrue ∨ c = tI32 ∨ c = tI64 ∨ c = tBin ∨ c = tList ∨ c = tStruct

/-- code used when the value is decoded in element position -/
def TVal.ecode : TVal → Nat
  | .bool _ => tTrue
  | v => v.code

mutual
def TVal.WF : TVal → Prop
  | .bool _ => True
  | .int ty _ => ty = tI32 ∨ ty = tI64
  | .bin _ => True
  | .list ety xs => okCode ety ∧ WFList ety xs
  | .struct fs => WFFields 0 fs
def WFList (ety : Nat) : List TVal → Prop
  | [] => True
  | x :: xs => x.ecode = ety ∧ x.WF ∧ WFList ety xs
def WFFields : Nat → List (Nat × TVal) → Prop
  | _, [] => True
  | last, (id, v) :: fs => last < id ∧ v.WF ∧ WFFields id fs
end

mutual
def TVal.size : TVal → Nat
  | .bool _ => 1
  | .int _ _ => 1
  | .bin _ => 1
  | .list _ xs => 1 + sizeList xs
  | .struct fs => 1 + sizeFields fs
def sizeList : List TVal → Nat
  | [] => 0
  | x :: xs => 1 + x.size + sizeList xs
def sizeFields : List (Nat × TVal) → Nat
  | [] => 1
  | (_, v) :: fs => 1 + v.size + sizeFields fs
end

theorem fieldHeader_short (last id code : Nat) (h : last < id ∧ id - last ≤ 15) :
    fieldHeader last id code = [(id - last) * 16 + code] := by
  unfold fieldHeader; rw [if_pos h]

theorem fieldHeader_long (last id code : Nat) (h : ¬ (last < id ∧ id - last ≤ 15)) :
    fieldHeader last id code = code :: uvar (zig id) := by
  unfold fieldHeader; rw [if_neg h]


theorem okCode_lt (c : Nat) (h : okCode c) : c < 16 ∧ c ≠ 0 ∧ c ≠ tFalse := by
  unfold okCode tTrue tI32 tI64 tBin tList tStruct at h
  unfold tFalse
  omega

theorem code_ok (v : TVal) (hv : v.WF) : v.code < 16 ∧ v.code ≠ 0 := by
  cases v with
  | bool b => cases b <;> simp [TVal.code, tTrue, tFalse]
  | int ty n =>
    have : ty = tI32 ∨ ty = tI64 := by simpa [TVal.WF] using hv
    simp only [TVal.code]; unfold tI32 tI64 at this; omega
  | bin bs => simp [TVal.code, tBin]
  | list e xs => simp [TVal.code, tList]
  | struct fs => simp [TVal.code, tStruct]

/-- decoding a field header -/
theorem header_dec (last id code : Nat) (hlt : last < id) (hc : code < 16) (hc0 : code ≠ 0) (rest : Bytes) :
    ∃ h r, fieldHeader last id code ++ rest = h :: r ∧ h ≠ 0 ∧ h % 16 = code ∧
      readFieldId last h r = some (id, rest) := by
  by_cases hs : last < id ∧ id - last ≤ 15
  · rw [fieldHeader_short _ _ _ hs]
    refine ⟨(id - last) * 16 + code, rest, rfl, by omega, by omega, ?_⟩
    have : ((id - last) * 16 + code) / 16 = id - last := by omega
    unfold readFieldId
    rw [this, if_neg (by omega)]
    simp only [Option.some.injEq, Prod.mk.injEq, and_true]; omega
  · rw [fieldHeader_long _ _ _ hs]
    refine ⟨code, uvar (zig id) ++ rest, rfl, hc0, by omega, ?_⟩
    have : code / 16 = 0 := by omega
    unfold readFieldId
    rw [this, if_pos rfl, readUvar_uvar']
    simp [unzig_zig]

mutual
theorem decVal_enc : (v : TVal) → v.WF → ∀ (fuel : Nat) (rest : Bytes), v.size ≤ fuel →
    decVal v.ecode fuel (v.enc ++ rest) = some (v, rest)
  | .bool b, _, fuel, rest, hf => by
    cases fuel with
    | zero => simp [TVal.size] at hf
    | succ f => cases b <;> simp [TVal.ecode, TVal.enc, decVal, tTrue]
  | .int ty n, hv, fuel, rest, hf => by
    cases fuel with
    | zero => simp [TVal.size] at hf
    | succ f =>
      have hty : ty = tI32 ∨ ty = tI64 := by simpa [TVal.WF] using hv
      have h1 : ¬ (ty = tTrue ∨ ty = tFalse) := by unfold tI32 tI64 at hty; unfold tTrue tFalse; omega
      simp only [TVal.ecode, TVal.code, TVal.enc]
      unfold decVal
      rw [if_neg h1, if_pos hty, readUvar_uvar']
      simp [unzig_zig]
  | .bin bs, _, fuel, rest, hf => by
    cases fuel with
    | zero => simp [TVal.size] at hf
    | succ f =>
      simp only [TVal.ecode, TVal.code, TVal.enc, List.append_assoc]
      unfold decVal
      rw [if_neg (by unfold tBin tTrue tFalse; omega), if_neg (by unfold tBin tI32 tI64; omega), if_pos rfl,
        readUvar_uvar']
      simp
  | .list ety xs, hv, fuel, rest, hf => by
    cases fuel with
    | zero => simp [TVal.size] at hf
    | succ f =>
      have hv' : okCode ety ∧ WFList ety xs := by simpa [TVal.WF] using hv
      obtain ⟨hok, hwl⟩ := hv'
      obtain ⟨h16, h0, hnf⟩ := okCode_lt ety hok
      have hf' : sizeList xs ≤ f := by simp only [TVal.size] at hf; omega
      have ih := decList_enc ety xs hwl f rest hf'
      have hety : (if ety = tTrue ∨ ety = tFalse then tTrue else ety) = ety := by
        by_cases h : ety = tTrue
        · simp [h]
        · simp [h, hnf]
      simp only [TVal.ecode, TVal.code, TVal.enc, hety, List.append_assoc]
      unfold decVal
      rw [if_neg (by unfold tList tTrue tFalse; omega), if_neg (by unfold tList tI32 tI64; omega),
        if_neg (by unfold tList tBin; omega), if_pos rfl]
      unfold listHeader
      by_cases hn : xs.length < 15
      · rw [if_pos hn]
        have e1 : (xs.length * 16 + ety) % 16 = ety := by omega
        have e2 : (xs.length * 16 + ety) / 16 = xs.length := by omega
        simp only [List.cons_append, List.nil_append, e1, e2]
        rw [if_neg (by omega)]
        simp only [ih]
      · rw [if_neg hn]
        have e1 : (15 * 16 + ety) % 16 = ety := by omega
        have e2 : (15 * 16 + ety) / 16 = 15 := by omega
        simp only [List.cons_append, e1, e2, if_true, readUvar_uvar', ih]
  | .struct fs, hv, fuel, rest, hf => by
    cases fuel with
    | zero => simp [TVal.size] at hf
    | succ f =>
      have hv' : WFFields 0 fs := by simpa [TVal.WF] using hv
      have hf' : sizeFields fs ≤ f := by simp only [TVal.size] at hf; omega
      have ih := decFields_enc 0 fs hv' f rest hf'
      simp only [TVal.ecode, TVal.code, TVal.enc]
      unfold decVal
      rw [if_neg (by unfold tStruct tTrue tFalse; omega), if_neg (by unfold tStruct tI32 tI64; omega),
        if_neg (by unfold tStruct tBin; omega), if_neg (by unfold tStruct tList; omega), if_pos rfl, ih]
theorem decList_enc : (ety : Nat) → (xs : List TVal) → WFList ety xs → ∀ (fuel : Nat) (rest : Bytes),
    sizeList xs ≤ fuel → decList ety xs.length fuel (encList xs ++ rest) = some (xs, rest)
  | _, [], _, fuel, rest, _ => by cases fuel <;> simp [decList, encList]
  | ety, x :: xs, hw, fuel, rest, hf => by
    cases fuel with
    | zero => simp [sizeList] at hf
    | succ f =>
      have hw' : x.ecode = ety ∧ x.WF ∧ WFList ety xs := by simpa [WFList] using hw
      obtain ⟨hc, hx, hxs⟩ := hw'
      simp only [sizeList] at hf
      have i1 := decVal_enc x hx f (encList xs ++ rest) (by omega)
      have i2 := decList_enc ety xs hxs f rest (by omega)
      simp only [encList, List.length_cons, decList, List.append_assoc]
      rw [← hc, i1]
      simp only [hc, i2]
theorem decFields_enc : (last : Nat) → (fs : List (Nat × TVal)) → WFFields last fs → ∀ (fuel : Nat) (rest : Bytes),
    sizeFields fs ≤ fuel → decFields last fuel (encFields last fs ++ rest) = some (fs, rest)
  | _, [], _, fuel, rest, hf => by
    cases fuel with
    | zero => simp [sizeFields] at hf
    | succ f => simp [encFields, decFields]
  | last, (id, v) :: fs, hw, fuel, rest, hf => by
    cases fuel with
    | zero => simp [sizeFields] at hf
    | succ f =>
      have hw' : last < id ∧ v.WF ∧ WFFields id fs := by simpa [WFFields] using hw
      obtain ⟨hlt, hv, hfs⟩ := hw'
      simp only [sizeFields] at hf
      obtain ⟨hc16, hc0⟩ := code_ok v hv
      have i2 := decFields_enc id fs hfs f rest (by omega)
      cases v with
      | bool b =>
        obtain ⟨h, r, he, hne, hmod, hid⟩ := header_dec last id (TVal.bool b).code hlt hc16 hc0 (encFields id fs ++ rest)
        simp only [encFields, List.append_assoc]
        rw [he]
        unfold decFields
        simp only [if_neg hne, hmod, hid]
        have hb : (TVal.bool b).code = tTrue ∨ (TVal.bool b).code = tFalse := by
          cases b <;> simp [TVal.code]
        simp only [if_pos hb, i2]
        cases b <;> simp [TVal.code, tTrue, tFalse]
      | int ty n =>
        have i1 := decVal_enc (.int ty n) hv f (encFields id fs ++ rest) (by omega)
        obtain ⟨h, r, he, hne, hmod, hid⟩ := header_dec last id (TVal.int ty n).code hlt hc16 hc0
          ((TVal.int ty n).enc ++ (encFields id fs ++ rest))
        have hty : ty = tI32 ∨ ty = tI64 := by simpa [TVal.WF] using hv
        have hnb : ¬ ((TVal.int ty n).code = tTrue ∨ (TVal.int ty n).code = tFalse) := by
          simp only [TVal.code]; unfold tI32 tI64 at hty; unfold tTrue tFalse; omega
        simp only [encFields, List.append_assoc]
        rw [he]
        unfold decFields
        simp only [if_neg hne, hmod, hid, if_neg hnb]
        simp only [TVal.ecode] at i1
        simp only [i1, i2]
      | bin bs =>
        have i1 := decVal_enc (.bin bs) hv f (encFields id fs ++ rest) (by omega)
        obtain ⟨h, r, he, hne, hmod, hid⟩ := header_dec last id (TVal.bin bs).code hlt hc16 hc0
          ((TVal.bin bs).enc ++ (encFields id fs ++ rest))
        have hnb : ¬ ((TVal.bin bs).code = tTrue ∨ (TVal.bin bs).code = tFalse) := by
          simp only [TVal.code]; unfold tBin tTrue tFalse; omega
        simp only [encFields, List.append_assoc]
        rw [he]
        unfold decFields
        simp only [if_neg hne, hmod, hid, if_neg hnb]
        simp only [TVal.ecode] at i1
        simp only [i1, i2]
      | list e xs =>
        have i1 := decVal_enc (.list e xs) hv f (encFields id fs ++ rest) (by omega)
        obtain ⟨h, r, he, hne, hmod, hid⟩ := header_dec last id (TVal.list e xs).code hlt hc16 hc0
          ((TVal.list e xs).enc ++ (encFields id fs ++ rest))
        have hnb : ¬ ((TVal.list e xs).code = tTrue ∨ (TVal.list e xs).code = tFalse) := by
          simp only [TVal.code]; unfold tList tTrue tFalse; omega
        simp only [encFields, List.append_assoc]
        rw [he]
        unfold decFields
        simp only [if_neg hne, hmod, hid, if_neg hnb]
        simp only [TVal.ecode] at i1
        simp only [i1, i2]
      | struct gs =>
        have i1 := decVal_enc (.struct gs) hv f (encFields id fs ++ rest) (by omega)
        obtain ⟨h, r, he, hne, hmod, hid⟩ := header_dec last id (TVal.struct gs).code hlt hc16 hc0
          ((TVal.struct gs).enc ++ (encFields id fs ++ rest))
        have hnb : ¬ ((TVal.struct gs).code = tTrue ∨ (TVal.struct gs).code = tFalse) := by
          simp only [TVal.code]; unfold tStruct tTrue tFalse; omega
        simp only [encFields, List.append_assoc]
        rw [he]
        unfold decFields
        simp only [if_neg hne, hmod, hid, if_neg hnb]
        simp only [TVal.ecode] at i1
        simp only [i1, i2]
end

#print axioms decVal_enc
end TH
