namespace DR

inductive Rep | req | opt | rpt deriving DecidableEq, Repr

def Proj (α : Type) : List Rep → Type
  | [] => α
  | .req :: ts => Proj α ts
  | .opt :: ts => Option (Proj α ts)
  | .rpt :: ts => List (Proj α ts)

structure Entry (α : Type) where
  rep : Nat
  dl : Nat
  val : Option α
deriving Repr, DecidableEq

variable {α : Type}

/-- reference striping. r = rep level for the first entry emitted, d = def level reached so far,
    k = number of repeated ancestors so far -/
def stripe : (ts : List Rep) → (r d k : Nat) → Proj α ts → List (Entry α)
  | [], r, d, _, v => [⟨r, d, some v⟩]
  | .req :: ts, r, d, k, v => stripe ts r d k (v : Proj α ts)
  | .opt :: ts, r, d, k, v =>
      match (v : Option (Proj α ts)) with
      | none => [⟨r, d, none⟩]
      | some x => stripe ts r (d+1) k x
  | .rpt :: ts, r, d, k, v =>
      match (v : List (Proj α ts)) with
      | [] => [⟨r, d, none⟩]
      | x :: xs => stripe ts r (d+1) (k+1) x ++ xs.flatMap (stripe ts (k+1) (d+1) (k+1))

/-- parse elements while the next entry continues the list at level `lvl` -/
def many {β : Type} (p : List (Entry α) → Option (β × List (Entry α))) (lvl : Nat) :
    Nat → List (Entry α) → Option (List β × List (Entry α))
  | 0, es => some ([], es)
  | fuel+1, es =>
    match es with
    | [] => some ([], [])
    | e :: rest =>
      if e.rep = lvl then
        match p (e :: rest) with
        | none => none
        | some (x, es') =>
          match many p lvl fuel es' with
          | none => none
          | some (xs, es'') => some (x :: xs, es'')
      else some ([], e :: rest)

/-- reference assembly of one column value from the front of an entry list -/
def parse : (ts : List Rep) → (d k : Nat) → List (Entry α) → Option (Proj α ts × List (Entry α))
  | [], d, _, es =>
    match es with
    | ⟨_, d', some v⟩ :: rest => if d' = d then some (v, rest) else none
    | _ => none
  | .req :: ts, d, k, es => parse ts d k es
  | .opt :: ts, d, k, es =>
    match es with
    | [] => none
    | e :: rest =>
      if e.dl = d then some ((none : Option (Proj α ts)), rest)
      else match parse ts (d+1) k (e :: rest) with
        | none => none
        | some (x, es') => some ((some x : Option (Proj α ts)), es')
  | .rpt :: ts, d, k, es =>
    match es with
    | [] => none
    | e :: rest =>
      if e.dl = d then some (([] : List (Proj α ts)), rest)
      else match parse ts (d+1) (k+1) (e :: rest) with
        | none => none
        | some (x, es') =>
          match many (parse ts (d+1) (k+1)) (k+1) es'.length es' with
          | none => none
          | some (xs, es'') => some ((x :: xs : List (Proj α ts)), es'')

theorem stripe_head (ts : List Rep) (r d k : Nat) (v : Proj α ts) :
    ∃ e tl, stripe ts r d k v = e :: tl ∧ e.rep = r ∧ d ≤ e.dl := by
  induction ts generalizing r d k with
  | nil => exact ⟨_, _, rfl, rfl, Nat.le_refl _⟩
  | cons t ts ih =>
    cases t with
    | req => exact ih r d k v
    | opt =>
      cases v with
      | none => exact ⟨_, _, rfl, rfl, Nat.le_refl _⟩
      | some x =>
        obtain ⟨e, tl, h1, h2, h3⟩ := ih r (d+1) k x
        exact ⟨e, tl, h1, h2, by omega⟩
    | rpt =>
      cases v with
      | nil => exact ⟨_, _, rfl, rfl, Nat.le_refl _⟩
      | cons x xs =>
        obtain ⟨e, tl, h1, h2, h3⟩ := ih r (d+1) (k+1) x
        refine ⟨e, tl ++ xs.flatMap (stripe ts (k+1) (d+1) (k+1)), ?_, h2, by omega⟩
        show stripe ts r (d+1) (k+1) x ++ _ = _
        rw [h1]; rfl

def Stops (k : Nat) (rest : List (Entry α)) : Prop := ∀ e, rest.head? = some e → e.rep ≤ k

theorem many_spec {β : Type} (p : List (Entry α) → Option (β × List (Entry α))) (lvl : Nat)
    (enc : β → List (Entry α))
    (henc : ∀ x, ∃ e tl, enc x = e :: tl ∧ e.rep = lvl)
    (hp : ∀ x rest, Stops lvl rest → p (enc x ++ rest) = some (x, rest))
    (xs : List β) (rest : List (Entry α)) (hrest : Stops (lvl - 1) rest) (hl : 0 < lvl)
    (fuel : Nat) (hf : (xs.flatMap enc ++ rest).length ≤ fuel) :
    many p lvl fuel (xs.flatMap enc ++ rest) = some (xs, rest) := by
  induction xs generalizing fuel with
  | nil =>
    simp only [List.flatMap_nil, List.nil_append]
    cases fuel with
    | zero => simp [many]
    | succ f =>
      cases rest with
      | nil => simp [many]
      | cons e rest =>
        have : e.rep ≤ lvl - 1 := hrest e rfl
        have : e.rep ≠ lvl := by omega
        simp [many, this]
  | cons x xs ih =>
    obtain ⟨e, tl, he, hrep⟩ := henc x
    have hstop : Stops lvl (xs.flatMap enc ++ rest) := by
      intro e' he'
      cases xs with
      | nil =>
        simp only [List.flatMap_nil, List.nil_append] at he'
        have := hrest e' he'; omega
      | cons y ys =>
        obtain ⟨e2, tl2, he2, hrep2⟩ := henc y
        simp only [List.flatMap_cons, he2, List.cons_append, List.head?_cons, Option.some.injEq] at he'
        subst he'; omega
    cases fuel with
    | zero => simp [List.flatMap_cons, he] at hf
    | succ f =>
      have hpx := hp x _ hstop
      simp only [List.flatMap_cons, List.append_assoc] at hf ⊢
      rw [he] at hf hpx ⊢
      simp only [List.cons_append] at hf hpx ⊢
      simp only [many, hrep, if_true, hpx]
      have := ih f (by simp only [List.length_cons] at hf; simp at hf ⊢; omega)
      rw [this]

/-- per-column Dremel losslessness, all repetition-type lists, all values -/
theorem parse_stripe (ts : List Rep) (r d k : Nat) (v : Proj α ts) (rest : List (Entry α))
    (h : Stops k rest) : parse ts d k (stripe ts r d k v ++ rest) = some (v, rest) := by
  induction ts generalizing r d k rest with
  | nil => simp [stripe, parse]
  | cons t ts ih =>
    cases t with
    | req => exact ih r d k v rest h
    | opt =>
      cases v with
      | none => simp [stripe, parse]
      | some x =>
        obtain ⟨e, tl, h1, _, h3⟩ := stripe_head ts r (d+1) k x
        have hx := ih r (d+1) k x rest h
        simp only [stripe, parse]
        rw [h1] at hx ⊢
        have : e.dl ≠ d := by omega
        simp only [List.cons_append, this, if_false] at hx ⊢
        rw [hx]
    | rpt =>
      cases v with
      | nil => simp [stripe, parse]
      | cons x xs =>
        obtain ⟨e, tl, h1, _, h3⟩ := stripe_head ts r (d+1) (k+1) x
        have henc : ∀ y : Proj α ts, ∃ e tl, stripe ts (k+1) (d+1) (k+1) y = e :: tl ∧ e.rep = k+1 := by
          intro y; obtain ⟨e, tl, a, b, _⟩ := stripe_head ts (k+1) (d+1) (k+1) y; exact ⟨e, tl, a, b⟩
        have hmany := many_spec (parse ts (d+1) (k+1)) (k+1) (stripe ts (k+1) (d+1) (k+1)) henc
          (fun y rest' hs => ih (k+1) (d+1) (k+1) y rest' hs) xs rest (by simpa using h) (by omega)
          _ (Nat.le_refl _)
        have hstop : Stops (k+1) (xs.flatMap (stripe ts (k+1) (d+1) (k+1)) ++ rest) := by
          intro e' he'
          cases xs with
          | nil =>
            simp only [List.flatMap_nil, List.nil_append] at he'
            have := h e' he'; omega
          | cons y ys =>
            obtain ⟨e2, tl2, he2, hrep2⟩ := henc y
            simp only [List.flatMap_cons, he2, List.cons_append, List.head?_cons, Option.some.injEq] at he'
            subst he'; omega
        have hx := ih r (d+1) (k+1) x _ hstop
        simp only [stripe, parse, List.append_assoc]
        rw [h1] at hx ⊢
        have : e.dl ≠ d := by omega
        simp only [List.cons_append, this, if_false] at hx ⊢
        rw [hx]
        simp only [hmany]

#print axioms parse_stripe
end DR
