import Rl.Model
open RL
def hexVal (c : Char) : Nat := if c.isDigit then c.toNat - 48 else c.toNat - 87
def unhex (s : String) : List Nat := Id.run do
  let cs := s.toList.toArray
  let mut out : Array Nat := #[]
  for i in [0:cs.size/2] do
    out := out.push (hexVal cs[2*i]! * 16 + hexVal cs[2*i+1]!)
  return out.toList
def main : IO Unit := do
  let lines ← IO.FS.lines "/var/tmp/pqr/vectors.txt"
  let mut bad := 0
  let mut n := 0
  for l in lines do
    match l.splitOn " " with
    | [w, xs, out] =>
      let w := w.toNat!
      let xs := unhex xs
      let exp := unhex out
      let got := encode w xs
      n := n + 1
      let dec := decode w got
      let okDec := match dec with
        | some (vs, c) => c == got.length && vs.take xs.length == xs && vs.length < xs.length + 8
        | none => false
      if got != exp || !okDec then
        bad := bad + 1
        if bad < 5 then IO.println s!"MISMATCH w={w} xs={xs}\n exp={exp}\n got={got} dec={okDec}"
    | _ => pure ()
  IO.println s!"{n} vectors, {bad} mismatches"
