import Rl.Model
namespace RL

inductive Run where
  | rle (count v : Nat)
  | packed (gs : List (List Nat))

def Run.ser (w : Nat) : Run → List Byte
  | .rle c v => leb128 (c * 2) ++ valBytes w v
  | .packed gs => [gs.length * 2 + 1] ++ gs.flatMap (pack w)

def Run.vals : Run → List Nat
  | .rle c v => List.replicate c v
  | .packed gs => gs.flatten

def serRuns (w : Nat) (rs : List Run) : List Byte := rs.flatMap (Run.ser w)
def runsVals (rs : List Run) : List Nat := rs.flatMap Run.vals

structure Abs where
  runs : List Run
  gs : List (List Nat)

/-- structural part of the invariant: how `out` is laid out -/
structure Shape (e : Enc) (a : Abs) : Prop where
  closed : e.headerPointer = none → e.out = serRuns e.w a.runs ∧ a.gs = [] ∧ e.groupCount = 0
  opened : ∀ p, e.headerPointer = some p →
      e.out = serRuns e.w a.runs ++ 0 :: a.gs.flatMap (pack e.w) ∧ p = (serRuns e.w a.runs).length
      ∧ a.gs.length = e.groupCount ∧ 1 ≤ e.groupCount ∧ e.groupCount ≤ 63

theorem set_mid (l r : List Nat) (x y : Nat) : (l ++ x :: r).set l.length y = l ++ y :: r := by
  induction l with
  | nil => rfl
  | cons a l ih => simp [ih]

theorem serRuns_append (w : Nat) (a b : List Run) : serRuns w (a ++ b) = serRuns w a ++ serRuns w b := by
  simp [serRuns]

theorem runsVals_append (a b : List Run) : runsVals (a ++ b) = runsVals a ++ runsVals b := by
  simp [runsVals]

/-- closing the open run -/
def Abs.close (a : Abs) (e : Enc) : Abs :=
  match e.headerPointer with
  | none => a
  | some _ => { runs := a.runs ++ [.packed a.gs], gs := [] }

theorem endPrev_none (e : Enc) (h : e.headerPointer = none) : e.endPrev = e := by
  simp [Enc.endPrev, h]

theorem endPrev_some (e : Enc) (p : Nat) (h : e.headerPointer = some p) :
    e.endPrev = { e with out := e.out.set p ((e.groupCount * 2 + 1) % 256), headerPointer := none, groupCount := 0 } := by
  simp [Enc.endPrev, h]

theorem close_none (a : Abs) (e : Enc) (h : e.headerPointer = none) : a.close e = a := by
  simp [Abs.close, h]

theorem close_some (a : Abs) (e : Enc) (p : Nat) (h : e.headerPointer = some p) :
    a.close e = { runs := a.runs ++ [.packed a.gs], gs := [] } := by
  simp [Abs.close, h]

theorem endPrev_fields (e : Enc) : e.endPrev.headerPointer = none ∧ e.endPrev.w = e.w
    ∧ e.endPrev.prev = e.prev ∧ e.endPrev.pending = e.pending ∧ e.endPrev.repeatCount = e.repeatCount
    ∧ e.endPrev.groupCount = 0 ∨ e.headerPointer = none := by
  cases hp : e.headerPointer with
  | none => exact Or.inr rfl
  | some p => rw [endPrev_some e p hp]; exact Or.inl ⟨rfl, rfl, rfl, rfl, rfl, rfl⟩

theorem endPrev_shape (e : Enc) (a : Abs) (h : Shape e a) :
    Shape e.endPrev (a.close e) ∧ e.endPrev.headerPointer = none ∧ e.endPrev.w = e.w
    ∧ e.endPrev.prev = e.prev ∧ e.endPrev.pending = e.pending ∧ e.endPrev.repeatCount = e.repeatCount
    ∧ e.endPrev.groupCount = 0
    ∧ runsVals (a.close e).runs ++ (a.close e).gs.flatten = runsVals a.runs ++ a.gs.flatten := by
  cases hp : e.headerPointer with
  | none =>
    have hc := h.closed hp
    rw [endPrev_none e hp, close_none a e hp]
    exact ⟨h, hp, rfl, rfl, rfl, rfl, hc.2.2, rfl⟩
  | some p =>
    obtain ⟨ho, hpp, hl, h1, h63⟩ := h.opened p hp
    rw [endPrev_some e p hp, close_some a e p hp]
    refine ⟨⟨?_, ?_⟩, rfl, rfl, rfl, rfl, rfl, rfl, ?_⟩
    · intro _
      refine ⟨?_, rfl, rfl⟩
      have h2 : (e.groupCount * 2 + 1) % 256 = a.gs.length * 2 + 1 := by omega
      show e.out.set p _ = _
      rw [ho, hpp, set_mid, serRuns_append, h2]
      simp [serRuns, Run.ser]
    · intro p' hp'; simp at hp'
    · simp [runsVals, Run.vals]

/-- second half of flushGroup: open a run if needed and append the packed group -/
def Enc.appendGroup (e : Enc) (g : List Nat) : Enc :=
  let e := match e.headerPointer with
    | none => { e with out := e.out ++ [0], headerPointer := some e.out.length }
    | some _ => e
  { e with out := e.out ++ pack e.w g, pending := [], repeatCount := 0, groupCount := e.groupCount + 1 }

theorem flushGroup_eq (e : Enc) (g : List Nat) :
    e.flushGroup g = (if e.groupCount ≥ 63 then e.endPrev else e).appendGroup g := rfl

theorem appendGroup_shape (e : Enc) (a : Abs) (h : Shape e a) (hlt : e.groupCount < 63) (g : List Nat) :
    Shape (e.appendGroup g) { runs := a.runs, gs := a.gs ++ [g] }
    ∧ (e.appendGroup g).w = e.w ∧ (e.appendGroup g).prev = e.prev
    ∧ (e.appendGroup g).pending = [] ∧ (e.appendGroup g).repeatCount = 0 := by
  cases hp : e.headerPointer with
  | none =>
    obtain ⟨ho, hg, hc⟩ := h.closed hp
    have : e.appendGroup g = { e with out := e.out ++ [0] ++ pack e.w g, headerPointer := some e.out.length, pending := [], repeatCount := 0, groupCount := e.groupCount + 1 } := by
      simp [Enc.appendGroup, hp]
    rw [this]
    refine ⟨⟨?_, ?_⟩, rfl, rfl, rfl, rfl⟩
    · intro hn; simp at hn
    · intro p hp'
      simp only [Option.some.injEq] at hp'
      subst hp'
      refine ⟨?_, ?_, ?_, ?_, ?_⟩
      · show e.out ++ [0] ++ pack e.w g = _
        simp [ho, hg]
      · show e.out.length = _
        rw [ho]
      · show (a.gs ++ [g]).length = e.groupCount + 1
        simp [hg, hc]
      · show 1 ≤ e.groupCount + 1
        omega
      · show e.groupCount + 1 ≤ 63
        omega
  | some p =>
    obtain ⟨ho, hpp, hl, h1, h63⟩ := h.opened p hp
    have : e.appendGroup g = { e with out := e.out ++ pack e.w g, pending := [], repeatCount := 0, groupCount := e.groupCount + 1 } := by
      simp [Enc.appendGroup, hp]
    rw [this]
    refine ⟨⟨?_, ?_⟩, rfl, rfl, rfl, rfl⟩
    · intro hn
      have : e.headerPointer = none := hn
      simp [hp] at this
    · intro p' hp'
      have hp'' : e.headerPointer = some p' := hp'
      rw [hp] at hp''
      simp only [Option.some.injEq] at hp''
      subst hp''
      refine ⟨?_, hpp, ?_, ?_, ?_⟩
      · show e.out ++ pack e.w g = _
        simp [ho]
      · show (a.gs ++ [g]).length = e.groupCount + 1
        simp [hl]
      · show 1 ≤ e.groupCount + 1
        omega
      · show e.groupCount + 1 ≤ 63
        omega

theorem flushGroup_shape (e : Enc) (a : Abs) (h : Shape e a) (g : List Nat) :
    ∃ a', Shape (e.flushGroup g) a'
      ∧ runsVals a'.runs ++ a'.gs.flatten = runsVals a.runs ++ a.gs.flatten ++ g
      ∧ (e.flushGroup g).w = e.w ∧ (e.flushGroup g).prev = e.prev
      ∧ (e.flushGroup g).pending = [] ∧ (e.flushGroup g).repeatCount = 0 := by
  rw [flushGroup_eq]
  by_cases hge : e.groupCount ≥ 63
  · simp only [hge, if_true]
    obtain ⟨hs, _, hw, hpv, _, _, hgc, hv⟩ := endPrev_shape e a h
    obtain ⟨hs', h1, h2, h3, h4⟩ := appendGroup_shape e.endPrev (a.close e) hs (by omega) g
    refine ⟨_, hs', ?_, by rw [h1, hw], by rw [h2, hpv], h3, h4⟩
    simp only [List.flatten_append, List.flatten_cons, List.flatten_nil, List.append_nil]
    rw [← List.append_assoc, hv]
  · simp only [hge, if_false]
    obtain ⟨hs', h1, h2, h3, h4⟩ := appendGroup_shape e a h (by omega) g
    refine ⟨_, hs', ?_, h1, h2, h3, h4⟩
    simp [List.append_assoc]

theorem writeRLERun_shape (e : Enc) (a : Abs) (h : Shape e a) :
    Shape e.writeRLERun { runs := (a.close e).runs ++ [.rle e.repeatCount e.prev], gs := [] }
    ∧ e.writeRLERun.w = e.w ∧ e.writeRLERun.prev = e.prev
    ∧ e.writeRLERun.pending = [] ∧ e.writeRLERun.repeatCount = 0
    ∧ runsVals ((a.close e).runs ++ [.rle e.repeatCount e.prev])
        = runsVals a.runs ++ a.gs.flatten ++ List.replicate e.repeatCount e.prev := by
  obtain ⟨hs, hn, hw, hpv, _, hrc, hgc, hv⟩ := endPrev_shape e a h
  obtain ⟨ho, hg, _⟩ := hs.closed hn
  have : e.writeRLERun = { e.endPrev with out := e.endPrev.out ++ leb128 (e.endPrev.repeatCount * 2) ++ valBytes e.endPrev.w e.endPrev.prev, repeatCount := 0, pending := [] } := rfl
  rw [this]
  refine ⟨⟨?_, ?_⟩, hw, hpv, rfl, rfl, ?_⟩
  · intro _
    refine ⟨?_, rfl, hgc⟩
    show e.endPrev.out ++ leb128 (e.endPrev.repeatCount * 2) ++ valBytes e.endPrev.w e.endPrev.prev = _
    rw [ho, serRuns_append, hrc, hpv]
    simp [serRuns, Run.ser, hw]
  · intro p hp
    have : e.endPrev.headerPointer = some p := hp
    rw [hn] at this; simp at this
  · rw [runsVals_append]
    rw [hg] at hv
    simp only [List.flatten_nil, List.append_nil] at hv
    rw [hv]
    simp [runsVals, Run.vals]

def Run.WF : Run → Prop
  | .rle c _ => 8 ≤ c
  | .packed gs => 1 ≤ gs.length ∧ gs.length ≤ 63 ∧ ∀ g ∈ gs, g.length = 8

structure AWF (a : Abs) : Prop where
  runs : ∀ r ∈ a.runs, r.WF
  gs : ∀ g ∈ a.gs, g.length = 8

theorem close_awf (e : Enc) (a : Abs) (h : Shape e a) (hw : AWF a) : AWF (a.close e) := by
  cases hp : e.headerPointer with
  | none => rw [close_none a e hp]; exact ⟨hw.runs, hw.gs⟩
  | some p =>
    obtain ⟨_, _, hl, h1, h63⟩ := h.opened p hp
    rw [close_some a e p hp]
    refine ⟨?_, by simp⟩
    intro r hr
    simp only [List.mem_append, List.mem_singleton] at hr
    rcases hr with hr | hr
    · exact hw.runs r hr
    · subst hr; exact ⟨by omega, by omega, hw.gs⟩

theorem shape_congr (e e' : Enc) (a : Abs) (h : Shape e a) (h1 : e'.out = e.out) (h2 : e'.w = e.w)
    (h3 : e'.headerPointer = e.headerPointer) (h4 : e'.groupCount = e.groupCount) : Shape e' a := by
  constructor
  · intro hn; rw [h1, h2, h4]; exact h.closed (h3 ▸ hn)
  · intro p hp; rw [h1, h2, h4]; exact h.opened p (h3 ▸ hp)

theorem flushGroup_inv (e : Enc) (a : Abs) (h : Shape e a) (hw : AWF a) (g : List Nat) (hg : g.length = 8) :
    ∃ a', Shape (e.flushGroup g) a' ∧ AWF a'
      ∧ runsVals a'.runs ++ a'.gs.flatten = runsVals a.runs ++ a.gs.flatten ++ g
      ∧ (e.flushGroup g).w = e.w ∧ (e.flushGroup g).prev = e.prev
      ∧ (e.flushGroup g).pending = [] ∧ (e.flushGroup g).repeatCount = 0 := by
  rw [flushGroup_eq]
  by_cases hge : e.groupCount ≥ 63
  · rw [if_pos hge]
    obtain ⟨hs, _, hw1, hpv, _, _, hgc, hv⟩ := endPrev_shape e a h
    have hcw := close_awf e a h hw
    obtain ⟨hs', h1, h2, h3, h4⟩ := appendGroup_shape e.endPrev (a.close e) hs (by omega) g
    refine ⟨_, hs', ?_, ?_, by rw [h1, hw1], by rw [h2, hpv], h3, h4⟩
    · refine ⟨hcw.runs, ?_⟩
      intro g' hg'
      simp only [List.mem_append, List.mem_singleton] at hg'
      rcases hg' with h' | h'
      · exact hcw.gs g' h'
      · rw [h']; exact hg
    · simp only [List.flatten_append, List.flatten_cons, List.flatten_nil, List.append_nil]
      rw [← List.append_assoc, hv]
  · rw [if_neg hge]
    obtain ⟨hs', h1, h2, h3, h4⟩ := appendGroup_shape e a h (by omega) g
    refine ⟨_, hs', ?_, ?_, h1, h2, h3, h4⟩
    · refine ⟨hw.runs, ?_⟩
      intro g' hg'
      simp only [List.mem_append, List.mem_singleton] at hg'
      rcases hg' with h' | h'
      · exact hw.gs g' h'
      · rw [h']; exact hg
    · simp [List.append_assoc]

structure Inv (e : Enc) (a : Abs) (xs : List Nat) : Prop where
  shape : Shape e a
  awf : AWF a
  lt8 : e.repeatCount < 8 → xs = runsVals a.runs ++ a.gs.flatten ++ e.pending ∧ e.pending.length < 8
        ∧ e.repeatCount ≤ e.pending.length
        ∧ ∀ x ∈ e.pending.drop (e.pending.length - e.repeatCount), x = e.prev
  ge8 : 8 ≤ e.repeatCount → xs = runsVals a.runs ++ a.gs.flatten ++ List.replicate e.repeatCount e.prev
        ∧ e.pending = List.replicate 7 e.prev

/-- buffer a value (after repeatCount/prev were updated) and flush when 8 are pending -/
def Enc.buffer (e : Enc) (v : Nat) : Enc :=
  let e := { e with pending := e.pending ++ [v] }
  if e.pending.length = 8 then e.flushGroup e.pending else e

theorem buffer_inv (e : Enc) (a : Abs) (ys : List Nat) (v : Nat)
    (hs : Shape e a) (hw : AWF a)
    (hxs : ys = runsVals a.runs ++ a.gs.flatten ++ e.pending) (hlen : e.pending.length < 8)
    (hv : v = e.prev) (hrc1 : 1 ≤ e.repeatCount) (hrc8 : e.repeatCount < 8)
    (hrc : e.repeatCount ≤ e.pending.length + 1)
    (hsuf : ∀ x ∈ e.pending.drop (e.pending.length + 1 - e.repeatCount), x = e.prev) :
    ∃ a', Inv (e.buffer v) a' (ys ++ [v]) ∧ (e.buffer v).w = e.w := by
  unfold Enc.buffer
  by_cases h8 : (e.pending ++ [v]).length = 8
  · rw [if_pos h8]
    have hs' : Shape { e with pending := e.pending ++ [v] } a := shape_congr e _ a hs rfl rfl rfl rfl
    obtain ⟨a', hsh, hawf, hvals, hw', hp', hpe, hr0⟩ := flushGroup_inv _ a hs' hw (e.pending ++ [v]) h8
    refine ⟨a', ⟨hsh, hawf, ?_, ?_⟩, hw'⟩
    · intro _
      rw [hpe, hr0]
      refine ⟨?_, by simp, by simp, by simp⟩
      rw [hvals, hxs]; simp
    · intro h; rw [hr0] at h; omega
  · rw [if_neg h8]
    refine ⟨a, ⟨shape_congr e _ a hs rfl rfl rfl rfl, hw, ?_, ?_⟩, rfl⟩
    · intro _
      refine ⟨?_, ?_, ?_, ?_⟩
      · show ys ++ [v] = _ ++ (e.pending ++ [v]); rw [hxs]; simp
      · show (e.pending ++ [v]).length < 8
        simp only [List.length_append, List.length_singleton] at h8 ⊢; omega
      · show e.repeatCount ≤ (e.pending ++ [v]).length
        simp only [List.length_append, List.length_singleton]; omega
      · show ∀ x ∈ (e.pending ++ [v]).drop ((e.pending ++ [v]).length - e.repeatCount), x = e.prev
        intro x hx
        simp only [List.length_append, List.length_singleton] at hx
        rw [List.drop_append_of_le_length (by omega)] at hx
        simp only [List.mem_append, List.mem_singleton] at hx
        rcases hx with hx | hx
        · exact hsuf x hx
        · rw [hx, hv]
    · intro h
      have : 8 ≤ e.repeatCount := h
      omega

theorem write_eq (e : Enc) (v : Nat) : e.write v =
    if v = e.prev then
      if e.repeatCount + 1 ≥ 8 then { e with repeatCount := e.repeatCount + 1 }
      else ({ e with repeatCount := e.repeatCount + 1 }).buffer v
    else
      ({ (if e.repeatCount ≥ 8 then e.writeRLERun else e) with repeatCount := 1, prev := v }).buffer v := by
  unfold Enc.write Enc.buffer
  rfl

theorem replicate_of_all (l : List Nat) (p : Nat) (h : ∀ x ∈ l, x = p) : l = List.replicate l.length p := by
  induction l with
  | nil => rfl
  | cons a l ih =>
    simp only [List.length_cons, List.replicate_succ]
    rw [h a (by simp), ← ih (fun x hx => h x (by simp [hx]))]

theorem write_inv (e : Enc) (a : Abs) (xs : List Nat) (v : Nat) (h : Inv e a xs) :
    ∃ a', Inv (e.write v) a' (xs ++ [v]) ∧ (e.write v).w = e.w := by
  rw [write_eq]
  by_cases hv : v = e.prev
  · rw [if_pos hv]
    by_cases h8 : e.repeatCount + 1 ≥ 8
    · rw [if_pos h8]
      refine ⟨a, ⟨shape_congr e _ a h.shape rfl rfl rfl rfl, h.awf, ?_, ?_⟩, rfl⟩
      · intro hlt
        have : e.repeatCount + 1 < 8 := hlt
        omega
      · intro _
        show xs ++ [v] = runsVals a.runs ++ a.gs.flatten ++ List.replicate (e.repeatCount + 1) e.prev
            ∧ e.pending = List.replicate 7 e.prev
        by_cases h7 : e.repeatCount < 8
        · obtain ⟨hx, hl, hr, hsuf⟩ := h.lt8 h7
          have hlen : e.pending.length = 7 := by omega
          have hrc : e.repeatCount = 7 := by omega
          have hall : ∀ x ∈ e.pending, x = e.prev := by
            intro x hx'
            apply hsuf
            rw [hlen, hrc]; simpa using hx'
          have hp := replicate_of_all e.pending e.prev hall
          rw [hlen] at hp
          refine ⟨?_, hp⟩
          rw [hx, hp, hrc, hv]
          simp [List.replicate_succ']
        · obtain ⟨hx, hp⟩ := h.ge8 (by omega)
          refine ⟨?_, hp⟩
          rw [hx, hv]
          simp [List.replicate_succ', List.append_assoc]
    · rw [if_neg h8]
      have h7 : e.repeatCount < 8 := by omega
      obtain ⟨hx, hl, hr, hsuf⟩ := h.lt8 h7
      exact buffer_inv { e with repeatCount := e.repeatCount + 1 } a xs v
        (shape_congr e _ a h.shape rfl rfl rfl rfl) h.awf hx hl hv
        (by show 1 ≤ e.repeatCount + 1; omega) (by show e.repeatCount + 1 < 8; omega)
        (by show e.repeatCount + 1 ≤ e.pending.length + 1; omega)
        (by
          show ∀ x ∈ e.pending.drop (e.pending.length + 1 - (e.repeatCount + 1)), x = e.prev
          have : e.pending.length + 1 - (e.repeatCount + 1) = e.pending.length - e.repeatCount := by omega
          rw [this]; exact hsuf)
  · rw [if_neg hv]
    by_cases h8 : e.repeatCount ≥ 8
    · rw [if_pos h8]
      obtain ⟨hx, hp⟩ := h.ge8 h8
      obtain ⟨hs, hw, hpv, hpe, hrc, hvals⟩ := writeRLERun_shape e a h.shape
      have hcw := close_awf e a h.shape h.awf
      have hawf : AWF { runs := (a.close e).runs ++ [Run.rle e.repeatCount e.prev], gs := [] } := by
        refine ⟨?_, by simp⟩
        intro r hr
        simp only [List.mem_append, List.mem_singleton] at hr
        rcases hr with hr | hr
        · exact hcw.runs r hr
        · subst hr; exact h8
      obtain ⟨a', hinv, hw'⟩ := buffer_inv { e.writeRLERun with repeatCount := 1, prev := v } _ xs v
        (shape_congr e.writeRLERun _ _ hs rfl rfl rfl rfl) hawf
        (by show xs = _ ++ e.writeRLERun.pending; rw [hpe, hvals, hx]; simp)
        (by show e.writeRLERun.pending.length < 8; rw [hpe]; simp)
        rfl (by show 1 ≤ 1; omega) (by show 1 < 8; omega)
        (by show 1 ≤ e.writeRLERun.pending.length + 1; omega)
        (by show ∀ x ∈ e.writeRLERun.pending.drop _, x = v; rw [hpe]; simp)
      exact ⟨a', hinv, by rw [hw']; exact hw⟩
    · rw [if_neg h8]
      have h7 : e.repeatCount < 8 := by omega
      obtain ⟨hx, hl, hr, hsuf⟩ := h.lt8 h7
      exact buffer_inv { e with repeatCount := 1, prev := v } a xs v
        (shape_congr e _ a h.shape rfl rfl rfl rfl) h.awf hx hl rfl
        (by show 1 ≤ 1; omega) (by show 1 < 8; omega)
        (by show 1 ≤ e.pending.length + 1; omega)
        (by
          show ∀ x ∈ e.pending.drop (e.pending.length + 1 - 1), x = v
          have : e.pending.length + 1 - 1 = e.pending.length := by omega
          rw [this]; simp)

theorem init_inv (w : Nat) : Inv { w := w } { runs := [], gs := [] } [] := by
  refine ⟨⟨?_, ?_⟩, ⟨by simp, by simp⟩, ?_, ?_⟩
  · intro _; exact ⟨rfl, rfl, rfl⟩
  · intro p hp; simp at hp
  · intro _; simp [runsVals]
  · intro h; simp at h

theorem foldl_inv (w : Nat) (xs : List Nat) :
    ∃ a, Inv (xs.foldl Enc.write { w := w }) a xs ∧ (xs.foldl Enc.write { w := w }).w = w := by
  suffices ∀ (ys : List Nat) (e : Enc) (a : Abs) (pre : List Nat), Inv e a pre → e.w = w →
      ∃ a', Inv (ys.foldl Enc.write e) a' (pre ++ ys) ∧ (ys.foldl Enc.write e).w = w by
    simpa using this xs { w := w } _ [] (init_inv w) rfl
  intro ys
  induction ys with
  | nil => intro e a pre h hw; exact ⟨a, by simpa using h, hw⟩
  | cons y ys ih =>
    intro e a pre h hw
    obtain ⟨a', h', hw'⟩ := write_inv e a pre y h
    obtain ⟨a'', h'', hw''⟩ := ih (e.write y) a' (pre ++ [y]) h' (by rw [hw', hw])
    exact ⟨a'', by simpa using h'', hw''⟩

/-- the encoder state after finalisation (what `Bytes()` does before adding the length prefix) -/
def Enc.finish (e : Enc) : Enc :=
  if e.repeatCount ≥ 8 then e.writeRLERun
  else if e.pending.length > 0 then
    (e.flushGroup (e.pending ++ List.replicate (8 - e.pending.length) 0)).endPrev
  else e.endPrev

theorem bytes_eq (e : Enc) : e.bytes = le32 e.finish.out.length ++ e.finish.out := rfl

theorem finish_spec (e : Enc) (a : Abs) (xs : List Nat) (h : Inv e a xs) :
    ∃ runs pad, e.finish.out = serRuns e.w runs ∧ (∀ r ∈ runs, r.WF)
      ∧ runsVals runs = xs ++ List.replicate pad 0 ∧ pad < 8 := by
  unfold Enc.finish
  by_cases h8 : e.repeatCount ≥ 8
  · rw [if_pos h8]
    obtain ⟨hx, _⟩ := h.ge8 h8
    obtain ⟨hs, hw, _, _, _, hvals⟩ := writeRLERun_shape e a h.shape
    have hcw := close_awf e a h.shape h.awf
    have hnone : e.writeRLERun.headerPointer = none := by
      obtain ⟨_, hn, _⟩ := endPrev_shape e a h.shape
      exact hn
    obtain ⟨ho, _, _⟩ := hs.closed hnone
    refine ⟨_, 0, by rw [ho, hw], ?_, by rw [hvals, hx]; simp, by omega⟩
    intro r hr
    simp only [List.mem_append, List.mem_singleton] at hr
    rcases hr with hr | hr
    · exact hcw.runs r hr
    · subst hr; exact h8
  · rw [if_neg h8]
    obtain ⟨hx, hl, _, _⟩ := h.lt8 (by omega)
    by_cases hp : e.pending.length > 0
    · rw [if_pos hp]
      obtain ⟨a', hsh, hawf, hvals, hw', _, _, _⟩ := flushGroup_inv e a h.shape h.awf
        (e.pending ++ List.replicate (8 - e.pending.length) 0) (by simp; omega)
      obtain ⟨hs2, hn2, hw2, _, _, _, _, hv2⟩ := endPrev_shape _ a' hsh
      have hcw := close_awf _ a' hsh hawf
      obtain ⟨ho, hg, _⟩ := hs2.closed hn2
      refine ⟨_, 8 - e.pending.length, by rw [ho, hw2, hw'], hcw.runs, ?_, by omega⟩
      rw [hg] at hv2
      simp only [List.flatten_nil, List.append_nil] at hv2
      rw [hv2, hvals, hx]; simp [List.append_assoc]
    · rw [if_neg hp]
      obtain ⟨hs2, hn2, hw2, _, _, _, _, hv2⟩ := endPrev_shape e a h.shape
      have hcw := close_awf e a h.shape h.awf
      obtain ⟨ho, hg, _⟩ := hs2.closed hn2
      have hpe : e.pending = [] := by
        cases hpp : e.pending with
        | nil => rfl
        | cons x l => rw [hpp] at hp; simp at hp
      refine ⟨_, 0, by rw [ho, hw2], hcw.runs, ?_, by omega⟩
      rw [hg] at hv2
      simp only [List.flatten_nil, List.append_nil] at hv2
      rw [hv2, hx, hpe]; simp

/-- C07 (encoder half), for every width and every level sequence -/
theorem encode_wf (w : Nat) (xs : List Nat) :
    ∃ runs pad, encode w xs = le32 (serRuns w runs).length ++ serRuns w runs
      ∧ (∀ r ∈ runs, r.WF) ∧ runsVals runs = xs ++ List.replicate pad 0 ∧ pad < 8 := by
  obtain ⟨a, hinv, hw⟩ := foldl_inv w xs
  obtain ⟨runs, pad, ho, hwf, hv, hp⟩ := finish_spec _ a xs hinv
  refine ⟨runs, pad, ?_, hwf, hv, hp⟩
  unfold encode
  rw [bytes_eq, ho, hw]

#print axioms encode_wf
end RL
