import Rl.Proof
namespace RL

/-! ### LEB128 -/
theorem readLeb_leb128 (n : Nat) (hn : n < 2^32) (rest : List Byte) (fuel : Nat) (hf : (leb128 n).length ≤ fuel) :
    readLeb fuel (leb128 n ++ rest) = some (n, rest) := by
  induction n using Nat.strongRecOn generalizing fuel with
  | _ n ih =>
    unfold leb128 at hf ⊢
    have hmod : n % 2^32 = n := Nat.mod_eq_of_lt hn
    by_cases h : (n % 2^32) / 128 ≠ 0
    · rw [dif_pos h] at hf ⊢
      cases fuel with
      | zero => simp at hf
      | succ f =>
        have hlt : n / 128 < n := by omega
        have := ih (n / 128) hlt (by omega) f (by simpa using hf)
        simp only [List.cons_append, readLeb]
        have h1 : ¬ (n % 128 + 128 < 128) := by omega
        rw [if_neg h1, this]
        simp only [Option.some.injEq, Prod.mk.injEq, and_true]
        omega
    · rw [dif_neg h] at hf ⊢
      cases fuel with
      | zero => simp at hf
      | succ f =>
        simp only [List.cons_append, List.nil_append, readLeb]
        have h1 : n % 128 < 128 := by omega
        rw [if_pos h1]
        simp only [Option.some.injEq, Prod.mk.injEq, and_true]
        omega

theorem leb128_length_pos (n : Nat) : 0 < (leb128 n).length := by
  unfold leb128; split <;> simp

/-! ### little-endian bytes -/
theorem fromLE_leBytes (k x : Nat) (h : x < 256^k) : fromLE (leBytes k x) = x := by
  induction k generalizing x with
  | zero => simp at h; simp [leBytes, fromLE, h]
  | succ k ih =>
    simp only [leBytes, fromLE]
    have : x / 256 < 256^k := by
      rw [Nat.pow_succ] at h
      exact Nat.div_lt_of_lt_mul (by rw [Nat.mul_comm]; exact h)
    rw [ih _ this]; omega

theorem leBytes_length (k x : Nat) : (leBytes k x).length = k := by
  induction k generalizing x with
  | zero => rfl
  | succ k ih => simp [leBytes, ih]

theorem pack_length (w : Nat) (g : List Nat) : (pack w g).length = w := leBytes_length _ _

/-! ### bit packing as arithmetic -/
theorem packNum_lt (w : Nat) (g : List Nat) : packNum w g < (2^w)^g.length := by
  induction g with
  | nil => simp [packNum]
  | cons v vs ih =>
    simp only [packNum, List.length_cons, Nat.pow_succ]
    have h1 : v % 2^w < 2^w := Nat.mod_lt _ (Nat.pow_pos (by omega))
    have h2 : 0 < 2^w := Nat.pow_pos (by omega)
    calc v % 2^w + 2^w * packNum w vs < 2^w + 2^w * packNum w vs := by omega
      _ = 2^w * (packNum w vs + 1) := by rw [Nat.mul_add]; omega
      _ ≤ 2^w * (2^w)^vs.length := Nat.mul_le_mul_left _ ih
      _ = (2^w)^vs.length * 2^w := Nat.mul_comm _ _

theorem unpackNum_packNum (w : Nat) (g : List Nat) (hg : ∀ x ∈ g, x < 2^w) :
    unpackNum w g.length (packNum w g) = g := by
  induction g with
  | nil => rfl
  | cons v vs ih =>
    have hv : v < 2^w := hg v (by simp)
    have h2 : 0 < 2^w := Nat.pow_pos (by omega)
    simp only [List.length_cons, unpackNum, packNum]
    rw [Nat.mod_eq_of_lt hv]
    have e1 : (v + 2^w * packNum w vs) % 2^w = v := by
      rw [Nat.add_mul_mod_self_left]; exact Nat.mod_eq_of_lt hv
    have e2 : (v + 2^w * packNum w vs) / 2^w = packNum w vs := by
      rw [Nat.add_mul_div_left _ _ h2, Nat.div_eq_of_lt hv]; simp
    rw [e1, e2, ih (fun x hx => hg x (by simp [hx]))]

theorem unpack_pack (w : Nat) (g : List Nat) (hl : g.length = 8) (hg : ∀ x ∈ g, x < 2^w) :
    unpack w (pack w g) = g := by
  unfold unpack pack
  have hlt : packNum w g < 256^w := by
    have := packNum_lt w g
    rw [hl] at this
    have e : (2^w)^8 = 256^w := by
      rw [← Nat.pow_mul, Nat.mul_comm, Nat.pow_mul]
    rw [e] at this; exact this
  rw [fromLE_leBytes _ _ hlt, ← hl]
  exact unpackNum_packNum w g hg


/-! ### slicing the packed body back into groups -/
theorem groups_unpack (w : Nat) (gs : List (List Nat)) (hl : ∀ g ∈ gs, g.length = 8)
    (hv : ∀ g ∈ gs, ∀ x ∈ g, x < 2^w) (tail : List Byte) :
    (List.range gs.length).flatMap (fun i => unpack w (((gs.flatMap (pack w) ++ tail).drop (i * w)).take w))
      = gs.flatten := by
  induction gs with
  | nil => simp
  | cons g gs ih =>
    rw [List.length_cons, List.range_succ_eq_map, List.flatMap_cons, List.flatMap_map]
    have h0 : unpack w (((List.flatMap (pack w) (g :: gs) ++ tail).drop (0 * w)).take w) = g := by
      simp only [Nat.zero_mul, List.drop_zero, List.flatMap_cons, List.append_assoc]
      rw [List.take_left' (pack_length w g)]
      exact unpack_pack w g (hl g (by simp)) (hv g (by simp))
    rw [h0]
    have hstep : ∀ i, unpack w (((List.flatMap (pack w) (g :: gs) ++ tail).drop ((i + 1) * w)).take w)
        = unpack w (((gs.flatMap (pack w) ++ tail).drop (i * w)).take w) := by
      intro i
      have : (i + 1) * w = (pack w g).length + i * w := by rw [pack_length, Nat.add_mul]; omega
      simp only [List.flatMap_cons, List.append_assoc]
      rw [this, List.drop_append]
      have hnil : List.drop ((pack w g).length + i * w) (pack w g) = [] := List.drop_eq_nil_of_le (by omega)
      rw [hnil]
      simp
    simp only [Function.comp_def, hstep]
    rw [ih (fun g' h' => hl g' (by simp [h'])) (fun g' h' => hv g' (by simp [h']))]
    simp

theorem flatMap_pack_length (w : Nat) (gs : List (List Nat)) : (gs.flatMap (pack w)).length = gs.length * w := by
  induction gs with
  | nil => simp
  | cons g gs ihg =>
    rw [List.flatMap_cons, List.length_append, pack_length, ihg, List.length_cons, Nat.add_mul]; omega

def Run.Bounded (w : Nat) : Run → Prop
  | .rle c v => c * 2 < 2^32 ∧ v < 2^w
  | .packed gs => ∀ g ∈ gs, ∀ x ∈ g, x < 2^w

theorem valBytes_one (w v : Nat) (h1 : 1 ≤ w) (h8 : w ≤ 8) : valBytes w v = [v % 256] := by
  unfold valBytes
  have : (w + 7) / 8 = 1 := by omega
  rw [this]
  rfl

theorem decodeRuns_ser (w : Nat) (h1 : 1 ≤ w) (h8 : w ≤ 8) (runs : List Run)
    (hwf : ∀ r ∈ runs, r.WF) (hb : ∀ r ∈ runs, r.Bounded w) (fuel : Nat) (hf : runs.length < fuel) :
    decodeRuns w fuel (serRuns w runs) = some (runsVals runs) := by
  induction runs generalizing fuel with
  | nil =>
    cases fuel with
    | zero => omega
    | succ f => simp [serRuns, runsVals, decodeRuns]
  | cons r rs ih =>
    cases fuel with
    | zero => omega
    | succ f =>
      have ihr := ih (fun r' h' => hwf r' (by simp [h'])) (fun r' h' => hb r' (by simp [h'])) f
        (by simp only [List.length_cons] at hf; omega)
      have hpow : 2^w ≤ 256 := by
        calc 2^w ≤ 2^8 := Nat.pow_le_pow_right (by omega) h8
          _ = 256 := by decide
      cases r with
      | rle c v =>
        obtain ⟨hc, hv⟩ := hb (.rle c v) (by simp)
        have hser : serRuns w (Run.rle c v :: rs) = leb128 (c * 2) ++ ([v % 256] ++ serRuns w rs) := by
          simp [serRuns, Run.ser, valBytes_one w v h1 h8]
        rw [hser]
        have hne : leb128 (c * 2) ++ ([v % 256] ++ serRuns w rs) ≠ [] := by
          have hpos := leb128_length_pos (c * 2)
          intro h
          have h' := congrArg List.length h
          simp at h'
        unfold decodeRuns
        rw [if_neg hne, readLeb_leb128 (c * 2) hc _ _ (by simp)]
        have hev : c * 2 % 2 = 0 := by omega
        have hnb : (w + 7) / 8 = 1 := by omega
        simp only [hev, if_true, hnb]
        have hvv : v % 256 = v := Nat.mod_eq_of_lt (by omega)
        simp only [List.cons_append, List.nil_append, List.length_cons, List.take_succ_cons, List.take_zero,
          List.drop_succ_cons, List.drop_zero, fromLE]
        rw [ihr]
        have : ¬ (serRuns w rs).length + 1 < 1 := by omega
        simp [this, runsVals, Run.vals, hvv]
      | packed gs =>
        obtain ⟨hg1, hg63, hg8⟩ := hwf (.packed gs) (by simp)
        have hbv := hb (.packed gs) (by simp)
        have hser : serRuns w (Run.packed gs :: rs) = (gs.length * 2 + 1) :: (gs.flatMap (pack w) ++ serRuns w rs) := by
          simp [serRuns, Run.ser]
        rw [hser]
        unfold decodeRuns
        rw [if_neg (by simp)]
        have hrl : readLeb ((gs.length * 2 + 1) :: (gs.flatMap (pack w) ++ serRuns w rs)).length
            ((gs.length * 2 + 1) :: (gs.flatMap (pack w) ++ serRuns w rs))
            = some (gs.length * 2 + 1, gs.flatMap (pack w) ++ serRuns w rs) := by
          have hlt : gs.length * 2 + 1 < 128 := by omega
          simp only [List.length_cons, readLeb, hlt, if_true]
        rw [hrl]
        have hodd : ¬ ((gs.length * 2 + 1) % 2 = 0) := by omega
        have hdiv : (gs.length * 2 + 1) / 2 = gs.length := by omega
        have hblen := flatMap_pack_length w gs
        simp only [hodd, if_false, hdiv]
        have hlen : ¬ ((gs.flatMap (pack w) ++ serRuns w rs).length < gs.length * w) := by
          simp [hblen]
        rw [if_neg hlen]
        have htake : (gs.flatMap (pack w) ++ serRuns w rs).take (gs.length * w) = gs.flatMap (pack w) := by
          rw [← hblen]; exact List.take_left
        have hdrop : (gs.flatMap (pack w) ++ serRuns w rs).drop (gs.length * w) = serRuns w rs := by
          rw [← hblen]; exact List.drop_left
        rw [htake, hdrop, ihr]
        have := groups_unpack w gs hg8 hbv []
        simp only [List.append_nil] at this
        simp [this, runsVals, Run.vals]


theorem leb128_length_le (k : Nat) (hk : 1 ≤ k) (n : Nat) (h32 : n < 2^32) (h : n < 128^k) : (leb128 n).length ≤ k := by
  induction k generalizing n with
  | zero => omega
  | succ k ih =>
    unfold leb128
    have hmod : n % 2^32 = n := Nat.mod_eq_of_lt h32
    by_cases hc : (n % 2^32) / 128 ≠ 0
    · rw [dif_pos hc]
      simp only [List.length_cons]
      have hk1 : 1 ≤ k := by
        cases k with
        | zero => simp at h; omega
        | succ k => omega
      have : n / 128 < 128^k := by
        rw [Nat.pow_succ] at h
        exact Nat.div_lt_of_lt_mul (by rw [Nat.mul_comm]; exact h)
      have := ih hk1 (n / 128) (by omega) this
      omega
    · rw [dif_neg hc]; simp

theorem flatten_length8 (gs : List (List Nat)) (hg8 : ∀ g ∈ gs, g.length = 8) : gs.flatten.length = gs.length * 8 := by
  induction gs with
  | nil => simp
  | cons g gs ih =>
    rw [List.flatten_cons, List.length_append, hg8 g (by simp), ih (fun g' h' => hg8 g' (by simp [h'])),
      List.length_cons, Nat.add_mul]; omega

theorem ser_length_le (w : Nat) (h8 : w ≤ 8) (r : Run) (hwf : r.WF) (hb : r.Bounded w) :
    (r.ser w).length ≤ 2 * r.vals.length := by
  cases r with
  | rle c v =>
    have hc : 8 ≤ c := hwf
    obtain ⟨hc2, _⟩ := hb
    have h5 := leb128_length_le 5 (by omega) (c * 2) hc2 (by
      have : (2:Nat)^32 < 128^5 := by decide
      omega)
    have hv : (valBytes w v).length ≤ 2 := by
      unfold valBytes; split <;> simp
    simp only [Run.ser, Run.vals, List.length_append, List.length_replicate]
    omega
  | packed gs =>
    obtain ⟨hg1, _, hg8⟩ := hwf
    have hfl := flatten_length8 gs hg8
    simp only [Run.ser, Run.vals, List.length_append, List.length_cons, List.length_nil, flatMap_pack_length, hfl]
    have : gs.length * w ≤ gs.length * 8 := Nat.mul_le_mul_left _ h8
    omega

theorem serRuns_length_le (w : Nat) (h8 : w ≤ 8) (runs : List Run) (hwf : ∀ r ∈ runs, r.WF)
    (hb : ∀ r ∈ runs, r.Bounded w) : (serRuns w runs).length ≤ 2 * (runsVals runs).length := by
  induction runs with
  | nil => simp [serRuns, runsVals]
  | cons r rs ih =>
    have h1 := ser_length_le w h8 r (hwf r (by simp)) (hb r (by simp))
    have h2 := ih (fun r' h' => hwf r' (by simp [h'])) (fun r' h' => hb r' (by simp [h']))
    simp only [serRuns, runsVals, List.flatMap_cons, List.length_append] at h2 ⊢
    omega

theorem bounded_of_vals (w : Nat) (runs : List Run) (hwf : ∀ r ∈ runs, r.WF)
    (hv : ∀ x ∈ runsVals runs, x < 2^w) (hlen : (runsVals runs).length * 2 < 2^32) :
    ∀ r ∈ runs, r.Bounded w := by
  intro r hr
  have hsub : ∀ x ∈ r.vals, x ∈ runsVals runs := by
    intro x hx; simp only [runsVals, List.mem_flatMap]; exact ⟨r, hr, hx⟩
  have hlenr : r.vals.length ≤ (runsVals runs).length := by
    clear hsub hv hlen hwf
    induction runs with
    | nil => simp at hr
    | cons r' rs ih =>
      simp only [runsVals, List.flatMap_cons, List.length_append]
      simp only [List.mem_cons] at hr
      rcases hr with h | h
      · subst h; omega
      · have := ih h; simp only [runsVals] at this; omega
  cases r with
  | rle c v =>
    have hc : 8 ≤ c := hwf _ hr
    simp only [Run.vals, List.length_replicate] at hlenr
    refine ⟨by omega, hv v (hsub v ?_)⟩
    simp only [Run.vals, List.mem_replicate]; exact ⟨by omega, trivial⟩
  | packed gs =>
    intro g hg x hx
    exact hv x (hsub x (by simp only [Run.vals, List.mem_flatten]; exact ⟨g, hg, hx⟩))

theorem runs_length_le (w : Nat) (runs : List Run) : runs.length ≤ (serRuns w runs).length := by
  induction runs with
  | nil => simp
  | cons r rs ih =>
    have hpos : 0 < (r.ser w).length := by
      cases r with
      | rle c v => simp only [Run.ser, List.length_append]; have := leb128_length_pos (c*2); omega
      | packed gs => simp [Run.ser]
    simp only [serRuns, List.flatMap_cons, List.length_append, List.length_cons] at ih ⊢
    omega

theorem le32_take (n : Nat) (h : n < 2^32) (rest : List Byte) :
    fromLE ((le32 n ++ rest).take 4) = n ∧ (le32 n ++ rest).drop 4 = rest ∧ (le32 n).length = 4 := by
  have hl : (le32 n).length = 4 := leBytes_length 4 n
  refine ⟨?_, ?_, hl⟩
  · rw [List.take_left' hl]
    exact fromLE_leBytes 4 n (by
      have : (256:Nat)^4 = 2^32 := by decide
      omega)
  · rw [← hl]; exact List.drop_left

/-- C07, encoder/spec-decoder half: for every width 1..8 and every level sequence within the
    `int32` range, the specification decoder returns the input (plus < 8 zero padding values)
    and consumes exactly the encoder's bytes. -/
theorem decode_encode (w : Nat) (h1 : 1 ≤ w) (h8 : w ≤ 8) (xs : List Nat)
    (hx : ∀ x ∈ xs, x < 2^w) (hlen : xs.length + 8 ≤ 2^30) :
    ∃ pad, pad < 8 ∧ decode w (encode w xs) = some (xs ++ List.replicate pad 0, (encode w xs).length) := by
  obtain ⟨runs, pad, henc, hwf, hvals, hpad⟩ := encode_wf w xs
  refine ⟨pad, hpad, ?_⟩
  have hvlen : (runsVals runs).length = xs.length + pad := by rw [hvals]; simp
  have hvlt : ∀ x ∈ runsVals runs, x < 2^w := by
    intro x hx'
    rw [hvals] at hx'
    simp only [List.mem_append, List.mem_replicate] at hx'
    rcases hx' with h | ⟨_, h⟩
    · exact hx x h
    · rw [h]; exact Nat.pow_pos (by omega)
  have h30 : (2:Nat)^32 = 4 * 2^30 := by decide
  have hb := bounded_of_vals w runs hwf hvlt (by omega)
  have hsl := serRuns_length_le w h8 runs hwf hb
  have hn : (serRuns w runs).length < 2^32 := by omega
  obtain ⟨ht, hd, hl4⟩ := le32_take (serRuns w runs).length hn (serRuns w runs)
  rw [henc]
  unfold decode
  have hge : ¬ ((le32 (serRuns w runs).length ++ serRuns w runs).length < 4) := by
    simp only [List.length_append, hl4]; omega
  rw [if_neg hge]
  simp only [ht, hd, List.take_length, Nat.lt_irrefl, if_false]
  have hrl := runs_length_le w runs
  rw [decodeRuns_ser w h1 h8 runs hwf hb _ (by omega)]
  simp [hvals, hl4]

#print axioms decode_encode
end RL
