package main

import (
	"bytes"
	"encoding/hex"
	"fmt"
	"math/rand"
	"scr/rle"
)

func enc(w int32, xs []uint8) []byte {
	e, _ := rle.New(w, len(xs))
	for _, x := range xs {
		e.Write(x)
	}
	return e.Bytes()
}

func main() {
	rng := rand.New(rand.NewSource(7))
	for i := 0; i < 3000; i++ {
		w := int32(1 + rng.Intn(4))
		n := rng.Intn(60)
		if i%10 == 0 {
			n = 480 + rng.Intn(80)
		}
		xs := make([]uint8, 0, n)
		for len(xs) < n {
			v := uint8(rng.Intn(1 << uint(w)))
			run := 1
			switch rng.Intn(4) {
			case 0:
				run = 1 + rng.Intn(12)
			case 1:
				run = 7 + rng.Intn(3)
			}
			for j := 0; j < run && len(xs) < n; j++ {
				xs = append(xs, v)
			}
		}
		out := enc(w, xs)
		d, _ := rle.New(w, 0)
		vals, cons, err := d.Read(bytes.NewBuffer(out))
		ok := err == nil && cons == len(out) && len(vals) >= len(xs) && bytes.Equal(vals[:len(xs)], xs)
		if !ok {
			fmt.Println("# GO ROUNDTRIP FAIL", w, xs)
		}
		fmt.Printf("%d %s %s\n", w, hex.EncodeToString(xs), hex.EncodeToString(out))
	}
}
