namespace RL
abbrev Byte := Nat   -- probe: bytes as Nat < 256

/-- spec bit packing: little-endian bytes of Σ vᵢ·2^(w·i) -/
def packNum (w : Nat) : List Nat → Nat
  | [] => 0
  | v :: vs => v % 2^w + 2^w * packNum w vs

def leBytes : Nat → Nat → List Byte
  | 0, _ => []
  | n+1, x => x % 256 :: leBytes n (x / 256)

def pack (w : Nat) (g : List Nat) : List Byte := leBytes w (packNum w g)

def fromLE : List Byte → Nat
  | [] => 0
  | b :: bs => b + 256 * fromLE bs

def unpackNum (w : Nat) : Nat → Nat → List Nat
  | 0, _ => []
  | n+1, x => x % 2^w :: unpackNum w n (x / 2^w)

def unpack (w : Nat) (bs : List Byte) : List Nat := unpackNum w 8 (fromLE bs)

def leb128 (value : Nat) : List Byte :=
  if h : (value % 2^32) / 128 ≠ 0 then (value % 128 + 128) :: leb128 (value / 128)
  else [value % 128]
termination_by value
decreasing_by
  have : value % 2^32 ≤ value := Nat.mod_le _ _
  omega

structure Enc where
  w : Nat
  out : List Byte := []
  prev : Nat := 0
  pending : List Nat := []      -- valBuf[0..bufCount)
  repeatCount : Nat := 0
  groupCount : Nat := 0
  headerPointer : Option Nat := none
deriving Repr

def Enc.endPrev (e : Enc) : Enc :=
  match e.headerPointer with
  | none => e
  | some p => { e with out := e.out.set p ((e.groupCount * 2 + 1) % 256), headerPointer := none, groupCount := 0 }

def Enc.flushGroup (e : Enc) (g : List Nat) : Enc :=
  let e := if e.groupCount ≥ 63 then e.endPrev else e
  let e := match e.headerPointer with
    | none => { e with out := e.out ++ [0], headerPointer := some e.out.length }
    | some _ => e
  { e with out := e.out ++ pack e.w g, pending := [], repeatCount := 0, groupCount := e.groupCount + 1 }

def valBytes (w : Nat) (v : Nat) : List Byte :=
  match (w + 7) / 8 with
  | 0 => []
  | 1 => [v % 256]
  | _ => [v % 256, 0]      -- uint8 >> 8 = 0

def Enc.writeRLERun (e : Enc) : Enc :=
  let e := e.endPrev
  { e with out := e.out ++ leb128 (e.repeatCount * 2) ++ valBytes e.w e.prev, repeatCount := 0, pending := [] }

def Enc.write (e : Enc) (v : Nat) : Enc :=
  if v = e.prev then
    let e := { e with repeatCount := e.repeatCount + 1 }
    if e.repeatCount ≥ 8 then e
    else
      let e := { e with pending := e.pending ++ [v] }
      if e.pending.length = 8 then e.flushGroup e.pending else e
  else
    let e := if e.repeatCount ≥ 8 then e.writeRLERun else e
    let e := { e with repeatCount := 1, prev := v }
    let e := { e with pending := e.pending ++ [v] }
    if e.pending.length = 8 then e.flushGroup e.pending else e

def le32 (n : Nat) : List Byte := leBytes 4 n

def Enc.bytes (e : Enc) : List Byte :=
  let e :=
    if e.repeatCount ≥ 8 then e.writeRLERun
    else if e.pending.length > 0 then
      (e.flushGroup (e.pending ++ List.replicate (8 - e.pending.length) 0)).endPrev
    else e.endPrev
  le32 e.out.length ++ e.out

def encode (w : Nat) (xs : List Nat) : List Byte := (xs.foldl Enc.write { w := w }).bytes

/-! spec decoder -/
def readLeb : Nat → List Byte → Option (Nat × List Byte)
  | 0, _ => none
  | _, [] => none
  | fuel+1, b :: bs =>
    if b < 128 then some (b, bs)
    else match readLeb fuel bs with
      | none => none
      | some (x, rest) => some (b % 128 + 128 * x, rest)

def decodeRuns (w : Nat) : Nat → List Byte → Option (List Nat)
  | 0, bs => if bs = [] then some [] else none
  | fuel+1, bs =>
    if bs = [] then some [] else
    match readLeb bs.length bs with
    | none => none
    | some (h, rest) =>
      if h % 2 = 0 then
        let nb := (w + 7) / 8
        if rest.length < nb then none else
        let v := fromLE (rest.take nb)
        match decodeRuns w fuel (rest.drop nb) with
        | none => none
        | some tl => some (List.replicate (h / 2) v ++ tl)
      else
        let groups := h / 2
        let nb := groups * w
        if rest.length < nb then none else
        let body := rest.take nb
        let vals := (List.range groups).flatMap fun i => unpack w ((body.drop (i * w)).take w)
        match decodeRuns w fuel (rest.drop nb) with
        | none => none
        | some tl => some (vals ++ tl)

def decode (w : Nat) (bs : List Byte) : Option (List Nat × Nat) :=
  if bs.length < 4 then none else
  let n := fromLE (bs.take 4)
  let body := (bs.drop 4).take n
  if body.length < n then none else
  match decodeRuns w (n + 1) body with
  | none => none
  | some vs => some (vs, 4 + n)

end RL
