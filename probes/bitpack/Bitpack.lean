/-! Probe: what tools/xlate would emit for pack3/unpack3 of internal/bitpack/bitpack.go, and the
    kernel-only proof script (bit extensionality + simp). Same script works for w = 1,2,4. -/
namespace BP
abbrev B := BitVec 8

def pack3 (v0 v1 v2 v3 v4 v5 v6 v7 : B) : B × B × B :=
  ( ((v0 &&& 7#8) <<< 0) ||| ((v1 &&& 7#8) <<< 3) ||| ((v2 &&& 3#8) <<< 6),
    ((v2 &&& 4#8) >>> 2) ||| ((v3 &&& 7#8) <<< 1) ||| ((v4 &&& 7#8) <<< 4) ||| ((v5 &&& 1#8) <<< 7),
    ((v5 &&& 6#8) >>> 1) ||| ((v6 &&& 7#8) <<< 2) ||| ((v7 &&& 7#8) <<< 5) )

def unpack3 (b0 b1 b2 : B) : B × B × B × B × B × B × B × B :=
  ( (b0 &&& 7#8) >>> 0,
    (b0 &&& 56#8) >>> 3,
    ((b0 &&& 192#8) >>> 6) ||| ((b1 &&& 1#8) <<< 2),
    (b1 &&& 14#8) >>> 1,
    (b1 &&& 112#8) >>> 4,
    ((b1 &&& 128#8) >>> 7) ||| ((b2 &&& 3#8) <<< 1),
    (b2 &&& 28#8) >>> 2,
    (b2 &&& 224#8) >>> 5 )

set_option maxRecDepth 4000 in
theorem unpack_pack3 (v0 v1 v2 v3 v4 v5 v6 v7 : B) :
    (let p := pack3 v0 v1 v2 v3 v4 v5 v6 v7; unpack3 p.1 p.2.1 p.2.2) =
    (v0 &&& 7#8, v1 &&& 7#8, v2 &&& 7#8, v3 &&& 7#8, v4 &&& 7#8, v5 &&& 7#8, v6 &&& 7#8, v7 &&& 7#8) := by
  simp only [pack3, unpack3]
  refine Prod.ext ?_ (Prod.ext ?_ (Prod.ext ?_ (Prod.ext ?_ (Prod.ext ?_ (Prod.ext ?_ (Prod.ext ?_ ?_)))))) <;>
  · simp only []
    apply BitVec.eq_of_getLsbD_eq
    intro i hi
    have : i = 0 ∨ i = 1 ∨ i = 2 ∨ i = 3 ∨ i = 4 ∨ i = 5 ∨ i = 6 ∨ i = 7 := by omega
    rcases this with h|h|h|h|h|h|h|h <;> subst h <;>
      simp [BitVec.getLsbD_and, BitVec.getLsbD_or, BitVec.getLsbD_shiftLeft, BitVec.getLsbD_ushiftRight, BitVec.getLsbD_ofNat]

set_option maxRecDepth 4000 in
theorem pack_unpack3 (b0 b1 b2 : B) :
    (let u := unpack3 b0 b1 b2; pack3 u.1 u.2.1 u.2.2.1 u.2.2.2.1 u.2.2.2.2.1 u.2.2.2.2.2.1 u.2.2.2.2.2.2.1 u.2.2.2.2.2.2.2) = (b0, b1, b2) := by
  simp only [pack3, unpack3]
  refine Prod.ext ?_ (Prod.ext ?_ ?_) <;>
  · simp only []
    apply BitVec.eq_of_getLsbD_eq
    intro i hi
    have : i = 0 ∨ i = 1 ∨ i = 2 ∨ i = 3 ∨ i = 4 ∨ i = 5 ∨ i = 6 ∨ i = 7 := by omega
    rcases this with h|h|h|h|h|h|h|h <;> subst h <;>
      simp [BitVec.getLsbD_and, BitVec.getLsbD_or, BitVec.getLsbD_shiftLeft, BitVec.getLsbD_ushiftRight, BitVec.getLsbD_ofNat]

#print axioms unpack_pack3
#print axioms pack_unpack3
end BP
