package main

import (
	"bytes"
	"compress/gzip"
	"errors"
	"fmt"
	"io"
	"reflect"
	"strconv"
	"strings"

	"github.com/golang/snappy"
	"pqh/adapter"
)

// ------------------------------------------------------------------ sink / source wrappers

type sink struct {
	buf    bytes.Buffer
	sizes  []int // sizes of the Write calls of the current API call
	n      int   // Write calls so far
	failAt int   // 1-based index of the Write call that fails; 0 = never
	mode   byte  // how it fails: 'z' (0, err)  'h' (len/2, err) after taking half  'f' (len, err) after taking everything;
	// upper case = transient (only write k fails)
}

var errSink = errors.New("sink failure")

func (s *sink) Write(p []byte) (int, error) {
	s.n++
	// lower-case modes: the sink stays broken from write k on; upper-case: only write k fails (transient)
	if s.failAt > 0 && (s.n == s.failAt || (s.n > s.failAt && s.mode >= 'a')) {
		switch s.mode | 0x20 {
		case 'h':
			s.buf.Write(p[:len(p)/2])
			return len(p) / 2, errSink
		case 'f':
			s.buf.Write(p)
			return len(p), errSink
		}
		return 0, errSink
	}
	s.sizes = append(s.sizes, len(p))
	return s.buf.Write(p)
}

func (s *sink) take() string {
	if len(s.sizes) == 0 {
		return "-"
	}
	var p []string
	for _, x := range s.sizes {
		p = append(p, strconv.Itoa(x))
	}
	s.sizes = nil
	return strings.Join(p, ",")
}

// source: a ReadSeeker over bytes with a fragmentation schedule and a fault index.
type source struct {
	data         []byte
	pos          int64
	calls        int  // Read+Seek calls so far
	failAt       int  // 1-based index of the failing call; 0 = never
	failWithData bool // the failing Read delivers bytes together with its error
	failEOF      bool // the failing call reports io.EOF (a source that ends early) instead of a generic error
	frag         int  // >0: at most frag bytes per Read; <0: seeded random short reads
	eofTogether  bool // return io.EOF together with the last bytes
	rng          uint64
	trace        []string // per call: the API phase it happened in
	phase        string
}

var errSource = errors.New("source failure")

func (s *source) next() uint64 {
	s.rng ^= s.rng << 13
	s.rng ^= s.rng >> 7
	s.rng ^= s.rng << 17
	return s.rng
}

func (s *source) Read(p []byte) (int, error) {
	s.calls++
	s.trace = append(s.trace, s.phase)
	if s.failAt > 0 && s.calls == s.failAt {
		if s.failWithData && len(p) > 0 && s.pos < int64(len(s.data)) {
			// legal for io.Reader: n > 0 bytes AND a non-EOF error from the same call
			n := copy(p, s.data[s.pos:])
			s.pos += int64(n)
			return n, errSource
		}
		if s.failEOF {
			return 0, io.EOF
		}
		return 0, errSource
	}
	if s.pos >= int64(len(s.data)) {
		return 0, io.EOF
	}
	if len(p) == 0 {
		return 0, nil
	}
	n := len(p)
	if s.frag > 0 && n > s.frag {
		n = s.frag
	} else if s.frag < 0 && n > 1 {
		n = 1 + int(s.next()%uint64(n))
	}
	if rem := int(int64(len(s.data)) - s.pos); n > rem {
		n = rem
	}
	copy(p, s.data[s.pos:s.pos+int64(n)])
	s.pos += int64(n)
	if s.eofTogether && s.pos == int64(len(s.data)) {
		return n, io.EOF
	}
	return n, nil
}

func (s *source) Seek(off int64, whence int) (int64, error) {
	s.calls++
	s.trace = append(s.trace, s.phase)
	if s.failAt > 0 && s.calls == s.failAt {
		return 0, errSource
	}
	var np int64
	switch whence {
	case io.SeekStart:
		np = off
	case io.SeekCurrent:
		np = s.pos + off
	case io.SeekEnd:
		np = int64(len(s.data)) + off
	}
	if np < 0 {
		return 0, errors.New("negative position")
	}
	s.pos = np
	return np, nil
}

// ------------------------------------------------------------------ helpers

func zoo(name string) adapter.Zoo {
	z, ok := adapter.Registry[name]
	if !ok {
		panic("unknown zoo member " + name)
	}
	return z
}

func nodesOf(z adapter.Zoo) []*adapter.Node {
	return adapter.SchemaOf(reflect.TypeOf(z.NewRec()).Elem())
}

// guard runs f and maps a panic to "panic"
func guard(f func() error) (res string) {
	defer func() {
		if r := recover(); r != nil {
			res = "panic"
			if debug {
				fmt.Fprintf(stderr, "panic: %v\n", r)
			}
		}
	}()
	if err := f(); err != nil {
		if debug {
			fmt.Fprintf(stderr, "err: %v\n", err)
		}
		return "err"
	}
	return "ok"
}

// colsText: columns as the model wants them, from the struct type alone (reflection)
func colsText(z adapter.Zoo) string {
	var p []string
	for _, c := range adapter.Columns(nodesOf(z)) {
		reps := c.Reps
		if strings.Trim(reps, "r") == "" {
			reps = "r" // RequiredField: Types = []int{0}
		}
		p = append(p, fmt.Sprintf("%s:%s:%s", strings.Join(c.Path, "."), reps, c.PType))
	}
	return strings.Join(p, ";")
}

// fieldsText: the same, from what the generated Fields() declares
func fieldsText(z adapter.Zoo) string {
	var p []string
	for _, f := range z.Fields() {
		reps := ""
		for _, t := range f.Types {
			if t < 0 || t > 2 {
				reps += "?"
			} else {
				reps += string("rom"[t])
			}
		}
		p = append(p, fmt.Sprintf("%s:%s:%s", strings.Join(f.Path, "."), reps, f.PType))
	}
	return strings.Join(p, ";")
}

func extCompress(codec int, b []byte) []byte {
	switch codec {
	case 1:
		return snappy.Encode(nil, b)
	case 2:
		var buf bytes.Buffer
		zw, _ := gzip.NewWriterLevel(&buf, gzip.BestSpeed)
		zw.Write(b)
		zw.Close()
		return buf.Bytes()
	}
	return b
}

func init() {
	// zoo-schema <name> -> <tree> <cols-by-reflection> <cols-by-Fields()>
	register("zoo-schema", func(a []string) string {
		z := zoo(a[0])
		return adapter.SchemaText(nodesOf(z)) + " " + colsText(z) + " " + fieldsText(z)
	})
	// project <name> <tree> -> projections separated by |
	register("project", func(a []string) string {
		z := zoo(a[0])
		ns := nodesOf(z)
		rec := z.NewRec()
		adapter.Build(reflect.ValueOf(rec).Elem(), ns, a[1])
		var p []string
		for _, c := range adapter.Columns(ns) {
			p = append(p, adapter.Project(reflect.ValueOf(rec).Elem(), c))
		}
		return strings.Join(p, "|")
	})
	// compress <codec> <hex> -> <hex>   (external library, not repository code)
	register("compress", func(a []string) string {
		return tohex(extCompress(atoi(a[0]), unhex(a[1])))
	})
	// decompress <codec> <hex> -> ok <hex> | err   (external library)
	register("decompress", func(a []string) string {
		b := unhex(a[1])
		switch atoi(a[0]) {
		case 1:
			out, err := snappy.Decode(nil, b)
			if err != nil {
				return "err"
			}
			return "ok " + tohex(out)
		case 2:
			zr, err := gzip.NewReader(bytes.NewReader(b))
			if err != nil {
				return "err"
			}
			out, err := io.ReadAll(zr)
			if err != nil {
				return "err"
			}
			return "ok " + tohex(out)
		}
		return "ok " + tohex(b)
	})
	// zoo-write <name> <max> <codec> <ops> [failAt] -> <filehex> <calls>
	// calls: per API call (constructor first) the sink write sizes, or err / panic
	register("zoo-write", func(a []string) string {
		z := zoo(a[0])
		max, codec := atoi(a[1]), atoi(a[2])
		s := &sink{}
		if len(a) > 4 {
			// failAt = <k> or <k>:<mode>
			ks := strings.SplitN(a[4], ":", 2)
			s.failAt = atoi(ks[0])
			s.mode = 'z'
			if len(ks) == 2 && ks[1] != "" {
				s.mode = ks[1][0]
			}
		}
		ns := nodesOf(z)
		var calls []string
		var w adapter.Writer
		res := guard(func() error {
			var err error
			w, err = z.NewWriter(s, max, codec)
			return err
		})
		if res != "ok" {
			return tohex(s.buf.Bytes()) + " " + res
		}
		calls = append(calls, s.take())
		if a[3] != "-" {
			for _, op := range strings.Split(a[3], ";") {
				var r string
				switch op[0] {
				case 'a':
					rec := z.NewRec()
					adapter.Build(reflect.ValueOf(rec).Elem(), ns, op[1:])
					r = guard(func() error { w.Add(rec); return nil })
				case 'w':
					r = guard(w.Write)
				case 'c':
					r = guard(w.Close)
				default:
					return "bad-op"
				}
				if r != "ok" {
					calls = append(calls, r)
					// a caller that got an error still closes the writer (defer w.Close()): that must not panic.
					// Reported as a suffix only when it does.
					if r == "err" && op[0] != 'c' && s.failAt > 0 {
						if guard(w.Close) == "panic" {
							calls[len(calls)-1] = "err+close-panics"
						}
					}
					break
				}
				calls = append(calls, s.take())
			}
		}
		return tohex(s.buf.Bytes()) + " " + strings.Join(calls, ";")
	})
	// zoo-read <name> <filehex> [frag=<n>|rand=<seed>|eof|fail=<k>|trace]... ->
	//   open=<ok|err|panic> rows=<n> nexts=<k> err=<ok|err> calls=<n> recs=<tree;...>
	register("zoo-read", func(a []string) string {
		z := zoo(a[0])
		src := &source{data: unhex(a[1]), rng: 88172645463325252}
		wantTrace := false
		for _, o := range a[2:] {
			switch {
			case strings.HasPrefix(o, "frag="):
				src.frag = atoi(o[5:])
			case strings.HasPrefix(o, "rand="):
				src.frag = -1
				src.rng ^= uint64(atoi(o[5:])) * 0x9e3779b97f4a7c15
			case o == "eof":
				src.eofTogether = true
			case strings.HasPrefix(o, "faile="):
				src.failAt = atoi(o[6:])
				src.failEOF = true
			case strings.HasPrefix(o, "faild="):
				src.failAt = atoi(o[6:])
				src.failWithData = true
			case strings.HasPrefix(o, "fail="):
				src.failAt = atoi(o[5:])
			case o == "trace":
				wantTrace = true
			}
		}
		ns := nodesOf(z)
		var rd adapter.Reader
		src.phase = "open"
		open := guard(func() error {
			var err error
			rd, err = z.NewReader(src)
			return err
		})
		if open != "ok" {
			out := fmt.Sprintf("open=%s rows=0 nexts=0 err=- recs=- calls=%d", open, src.calls)
			if wantTrace {
				out += " trace=" + compressTrace(src.trace)
			}
			return out
		}
		var recs []string
		cols := adapter.Columns(ns)
		nexts := 0
		rows := rd.Rows()
		limit := int(rows) + 3
		status := "ok"
		func() {
			defer func() {
				if r := recover(); r != nil {
					status = "panic"
					if debug {
						fmt.Fprintf(stderr, "panic: %v\n", r)
					}
				}
			}()
			for nexts < limit {
				src.phase = "next" + strconv.Itoa(nexts+1)
				if !rd.Next() {
					break
				}
				nexts++
				rec := z.NewRec()
				rd.Scan(rec)
				var pr []string
				for _, c := range cols {
					pr = append(pr, adapter.Project(reflect.ValueOf(rec).Elem(), c))
				}
				recs = append(recs, strings.Join(pr, "|"))
			}
			if rd.Error() != nil {
				status = "err"
			}
		}()
		rs := "-"
		if len(recs) > 0 {
			rs = strings.Join(recs, ";")
		}
		out := fmt.Sprintf("open=ok rows=%d nexts=%d err=%s recs=%s calls=%d", rows, nexts, status, rs, src.calls)
		if wantTrace {
			out += " trace=" + compressTrace(src.trace)
		}
		return out
	})
}

// run-length compressed list of phases, e.g. open*120,next1*40
func compressTrace(t []string) string {
	var p []string
	for i := 0; i < len(t); {
		j := i
		for j < len(t) && t[j] == t[i] {
			j++
		}
		p = append(p, fmt.Sprintf("%s*%d", t[i], j-i))
		i = j
	}
	if len(p) == 0 {
		return "-"
	}
	return strings.Join(p, ",")
}

// classify one read attempt: A accepted (no error anywhere), E constructor error, e error reported
// by Error() after iterating, P panic
func classify(z adapter.Zoo, data []byte, start int64) byte {
	// start: where the caller left the source before handing it over (-1 = at its end); a reader that has been
	// sniffed or read before is as legal an io.ReadSeeker as a fresh one
	if start < 0 || start > int64(len(data)) {
		start = int64(len(data))
	}
	src := &source{data: data, pos: start}
	var rd adapter.Reader
	open := guard(func() error {
		var err error
		rd, err = z.NewReader(src)
		return err
	})
	if open == "panic" {
		return 'P'
	}
	if open != "ok" {
		return 'E'
	}
	res := byte('A')
	func() {
		defer func() {
			if r := recover(); r != nil {
				res = 'P'
			}
		}()
		limit := int(rd.Rows()) + 3
		for n := 0; n < limit && rd.Next(); n++ {
			rec := z.NewRec()
			rd.Scan(rec)
		}
		if rd.Error() != nil {
			res = 'e'
		}
	}()
	return res
}

func rle(classes []byte) string {
	var p []string
	for i := 0; i < len(classes); {
		j := i
		for j < len(classes) && classes[j] == classes[i] {
			j++
		}
		p = append(p, fmt.Sprintf("%c%d", classes[i], j-i))
		i = j
	}
	return strings.Join(p, ",")
}

func init() {
	// zoo-read-prefixes <name> <filehex> [start=<pos>|start=end] -> run-length classes for prefix lengths 0..len-1
	register("zoo-read-prefixes", func(a []string) string {
		z := zoo(a[0])
		data := unhex(a[1])
		var start int64
		if len(a) > 2 && strings.HasPrefix(a[2], "start=") {
			if a[2] == "start=end" {
				start = -1
			} else {
				n, _ := strconv.Atoi(a[2][6:])
				start = int64(n)
			}
		}
		classes := make([]byte, len(data))
		for n := 0; n < len(data); n++ {
			classes[n] = classify(z, data[:n], start)
		}
		return rle(classes)
	})
}
