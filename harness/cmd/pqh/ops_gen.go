package main

import (
	"fmt"
	"strings"

	"github.com/parsyl/parquet/cmd/parquetgen/fields"
)

// chainOf builds the leaf of a chain root -> F1 -> ... -> Fn with the given repetition types
// (r = required, o = optional, m = repeated), first children throughout.
func chainOf(rts string) fields.Field {
	cur := &fields.Field{Type: "T"}
	if rts == "-" {
		rts = ""
	}
	for i, c := range rts {
		rt := fields.Required
		switch c {
		case 'o':
			rt = fields.Optional
		case 'm':
			rt = fields.Repeated
		}
		typ := "G"
		if i == len(rts)-1 {
			typ = "int32"
		}
		cur = &fields.Field{Name: fmt.Sprintf("F%d", i), Type: typ, RepetitionType: rt, Parent: cur}
	}
	return *cur
}

func init() {
	// gen-levels <rts> -> "<MaxDef> <MaxRep> <MaxRepForDef(0..md+1)> <DefIndex(0..md+1)> <NilField(0..md+1) as j:o:reps>"
	// the generator's level arithmetic (cmd/parquetgen/fields) on one chain
	register("gen-levels", func(a []string) string {
		f := chainOf(a[0])
		md := f.MaxDef()
		var mr, di, nf []string
		for d := 0; d <= md+1; d++ {
			mr = append(mr, fmt.Sprint(f.MaxRepForDef(d)))
			di = append(di, fmt.Sprint(f.DefIndex(d)))
			_, o, j, reps := f.NilField(d)
			nf = append(nf, fmt.Sprintf("%d:%d:%d", j, int(o), reps))
		}
		isrep := ""
		for r := 0; r <= f.MaxRep()+1; r++ {
			if f.IsRep(r) {
				isrep += fmt.Sprint(r)
			}
		}
		return fmt.Sprintf("%d %d %s %s %s isrep=%s", md, f.MaxRep(), strings.Join(mr, ","), strings.Join(di, ","), strings.Join(nf, ","), isrep)
	})
}
