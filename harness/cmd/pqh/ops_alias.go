package main

import (
	"bytes"
	"fmt"
	"reflect"
	"strings"

	"pqh/adapter"
)

func init() {
	// zoo-alias <name> <max> <codec> <ops> -> ok | writer-alias .. | reader-alias ..
	register("zoo-alias", func(a []string) string {
		z := zoo(a[0])
		max, codec := atoi(a[1]), atoi(a[2])
		ns := nodesOf(z)
		write := func(mutate bool) ([]byte, string) {
			s := &sink{}
			w, err := z.NewWriter(s, max, codec)
			if err != nil {
				return nil, "err"
			}
			if a[3] != "-" {
				for _, op := range strings.Split(a[3], ";") {
					switch op[0] {
					case 'a':
						rec := z.NewRec()
						adapter.Build(reflect.ValueOf(rec).Elem(), ns, op[1:])
						w.Add(rec)
						if mutate {
							adapter.Scramble(reflect.ValueOf(rec))
						}
					case 'w':
						if err := w.Write(); err != nil {
							return nil, "err"
						}
					case 'c':
						if err := w.Close(); err != nil {
							return nil, "err"
						}
					}
				}
			}
			return s.buf.Bytes(), "ok"
		}
		f1, r1 := write(false)
		f2, r2 := write(true)
		if r1 != "ok" || r2 != "ok" {
			return "writer-alias write-failed"
		}
		if !bytes.Equal(f1, f2) {
			return "writer-alias file-differs-after-mutating-added-records"
		}
		rd, err := z.NewReader(&source{data: f1})
		if err != nil {
			return "ok" // nothing to iterate (e.g. no row groups): reader clause vacuous
		}
		var held []interface{}
		var texts []string
		limit := int(rd.Rows()) + 3
		for n := 0; n < limit && rd.Next(); n++ {
			rec := z.NewRec()
			rd.Scan(rec)
			held = append(held, rec)
			texts = append(texts, adapter.Show(reflect.ValueOf(rec).Elem(), ns))
			// re-check everything scanned so far after every later read
			for i, h := range held {
				if adapter.Show(reflect.ValueOf(h).Elem(), ns) != texts[i] {
					return fmt.Sprintf("reader-alias record-%d-changed-after-read-%d", i, n)
				}
			}
		}
		return "ok"
	})
}
