// pqh: verification harness. Reads one operation per line on stdin, executes it
// against the real code of /repo (in-process, build tag verif), prints one
// canonical line per operation.
package main

import (
	"bufio"
	"encoding/hex"
	"fmt"
	"hash/fnv"
	"os"
	"strconv"
	"strings"
)

type opFunc func(args []string) string

var debug = os.Getenv("PQH_DEBUG") != ""
var stderr = os.Stderr

var ops = map[string]opFunc{}

func register(name string, f opFunc) { ops[name] = f }

func unhex(s string) []byte {
	if s == "-" {
		return []byte{}
	}
	b, err := hex.DecodeString(s)
	if err != nil {
		panic("bad hex: " + s)
	}
	return b
}

func tohex(b []byte) string {
	if len(b) == 0 {
		return "-"
	}
	return hex.EncodeToString(b)
}

func atoi(s string) int {
	n, err := strconv.Atoi(s)
	if err != nil {
		panic("bad int: " + s)
	}
	return n
}

func run(line string) (out string) {
	defer func() {
		if r := recover(); r != nil {
			out = "panic"
			if os.Getenv("PQH_DEBUG") != "" {
				fmt.Fprintf(os.Stderr, "panic: %v\n", r)
			}
		}
	}()
	f := strings.Split(strings.TrimSpace(line), " ")
	op, ok := ops[f[0]]
	if !ok {
		return "bad-op"
	}
	res := op(f[1:])
	if len(res) > 16<<20 {
		// a (mutated) implementation can produce absurdly large results; keep the orchestrator alive
		h := fnv.New64a()
		h.Write([]byte(res))
		return fmt.Sprintf("oversize:%d:%x", len(res), h.Sum64())
	}
	return res
}

func main() {
	in := bufio.NewReaderSize(os.Stdin, 1<<20)
	w := bufio.NewWriterSize(os.Stdout, 1<<20)
	defer w.Flush()
	for {
		line, err := in.ReadString('\n')
		if len(line) > 0 {
			fmt.Fprintln(w, run(line))
			w.Flush()
		}
		if err != nil {
			return
		}
	}
}
