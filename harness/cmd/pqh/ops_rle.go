package main

import (
	"fmt"

	"github.com/parsyl/parquet"
)

func init() {
	register("rle-enc", func(a []string) string {
		out, err := parquet.VerifRLEEncode(int32(atoi(a[0])), unhex(a[1]))
		if err != nil {
			return "err"
		}
		return tohex(out)
	})
	register("rle-dec", func(a []string) string {
		vals, n, err, panicked := parquet.VerifRLEDecode(int32(atoi(a[0])), unhex(a[1]))
		if panicked {
			return "panic"
		}
		if err != nil {
			return "err"
		}
		return fmt.Sprintf("ok %s %d", tohex(vals), n)
	})
	register("pack", func(a []string) string {
		return tohex(parquet.VerifBitPack(atoi(a[0]), unhex(a[1])))
	})
	// pack-dirty <width> <vals>: Pack into an empty destination whose spare capacity is filled with 0xff
	register("pack-dirty", func(a []string) string {
		return tohex(parquet.VerifBitPackDirty(atoi(a[0]), unhex(a[1]), 0xff))
	})
	register("unpack", func(a []string) string {
		return tohex(parquet.VerifBitUnpack(atoi(a[0]), unhex(a[1])))
	})
}
