package main

import (
	"fmt"
	"strings"

	"github.com/parsyl/parquet"
	sch "github.com/parsyl/parquet/schema"
)

func optI32(p *int32) string {
	if p == nil {
		return "-"
	}
	return fmt.Sprint(*p)
}

func optI64(p *int64) string {
	if p == nil {
		return "-"
	}
	return fmt.Sprint(*p)
}

func optBin(b []byte) string {
	if b == nil {
		return "-"
	}
	return "x" + fmt.Sprintf("%x", b)
}

func showFMD(m *sch.FileMetaData) string {
	var se []string
	for _, e := range m.Schema {
		t, r, c := "-", "-", "-"
		if e.Type != nil {
			t = fmt.Sprint(int32(*e.Type))
		}
		if e.RepetitionType != nil {
			r = fmt.Sprint(int32(*e.RepetitionType))
		}
		if e.ConvertedType != nil {
			c = fmt.Sprint(int32(*e.ConvertedType))
		}
		se = append(se, fmt.Sprintf("%x:%s:%s:%s:%s", e.Name, t, r, optI32(e.NumChildren), c))
	}
	var rgs []string
	for _, rg := range m.RowGroups {
		var cs []string
		for _, ch := range rg.Columns {
			if ch.MetaData == nil {
				cs = append(cs, fmt.Sprintf("%d;nometa", ch.FileOffset))
				continue
			}
			md := ch.MetaData
			var pth []string
			for _, p := range md.PathInSchema {
				pth = append(pth, fmt.Sprintf("%x", p))
			}
			cs = append(cs, fmt.Sprintf("%d;%s;%d;%d;%d;%d;%d;%d", ch.FileOffset, strings.Join(pth, "."), int32(md.Type), int32(md.Codec),
				md.NumValues, md.TotalUncompressedSize, md.TotalCompressedSize, md.DataPageOffset))
		}
		rgs = append(rgs, fmt.Sprintf("%d:%d:%s", rg.NumRows, rg.TotalByteSize, strings.Join(cs, ",")))
	}
	return fmt.Sprintf("v=%d rows=%d schema=%s rgs=%s", m.Version, m.NumRows, strings.Join(se, ","), dash(strings.Join(rgs, "/")))
}

func dash(s string) string {
	if s == "" {
		return "-"
	}
	return s
}

func showPH(h sch.PageHeader) string {
	d := "nodph"
	if h.DataPageHeader != nil {
		p := h.DataPageHeader
		st := "nostats"
		if p.Statistics != nil {
			st = fmt.Sprintf("%s;%s;%s", optI64(p.Statistics.NullCount), optBin(p.Statistics.MinValue), optBin(p.Statistics.MaxValue))
		}
		d = fmt.Sprintf("%d;%d;%d;%d;%s", p.NumValues, int32(p.Encoding), int32(p.DefinitionLevelEncoding), int32(p.RepetitionLevelEncoding), st)
	}
	return fmt.Sprintf("%d:%d:%d:%s", int32(h.Type), h.UncompressedPageSize, h.CompressedPageSize, d)
}

func showPHs(hs []sch.PageHeader) string {
	var p []string
	for _, h := range hs {
		p = append(p, showPH(h))
	}
	return dash(strings.Join(p, ","))
}

func init() {
	// meta <filehex> -> ok <canonical FileMetaData> | err
	register("meta", func(a []string) string {
		m, err := parquet.ReadMetaData(&source{data: unhex(a[0])})
		if err != nil {
			return "err"
		}
		return "ok " + showFMD(m)
	})
	// pageheaders <filehex> -> ok <h,h,...> | err
	register("pageheaders", func(a []string) string {
		src := &source{data: unhex(a[0])}
		m, err := parquet.ReadMetaData(src)
		if err != nil {
			return "err"
		}
		hs, err := parquet.PageHeaders(m, src)
		if err != nil {
			return "err"
		}
		return "ok " + showPHs(hs)
	})
	// introspect-seq <filehex> -> ok | differs <what>
	// the introspection calls have no side effects: on ONE footer object, footer text, PageHeaders and the per-chunk
	// PageHeadersAtOffset listing give the same answers before and after each other, and twice in a row
	register("introspect-seq", func(a []string) string {
		src := &source{data: unhex(a[0])}
		m, err := parquet.ReadMetaData(src)
		if err != nil {
			return "err"
		}
		f1 := showFMD(m)
		perChunk := func() (string, error) {
			var all []sch.PageHeader
			for _, rg := range m.RowGroups {
				for _, col := range rg.Columns {
					if col.MetaData.TotalCompressedSize == 0 {
						continue
					}
					hs, err := parquet.PageHeadersAtOffset(src, col.MetaData.DataPageOffset, col.MetaData.NumValues)
					if err != nil {
						return "", err
					}
					all = append(all, hs...)
				}
			}
			return showPHs(all), nil
		}
		c0, err := perChunk()
		if err != nil {
			return "err"
		}
		h1, err := parquet.PageHeaders(m, src)
		if err != nil {
			return "err"
		}
		if f2 := showFMD(m); f2 != f1 {
			return "differs footer-after-PageHeaders"
		}
		h2, err := parquet.PageHeaders(m, src)
		if err != nil {
			return "differs second-PageHeaders-errors"
		}
		if showPHs(h1) != showPHs(h2) {
			return "differs second-PageHeaders"
		}
		c1, err := perChunk()
		if err != nil || c1 != c0 {
			return "differs per-chunk-listing-after-PageHeaders"
		}
		if c0 != showPHs(h1) {
			return "differs per-chunk-listing-vs-PageHeaders"
		}
		m2, err := parquet.ReadMetaData(src)
		if err != nil || showFMD(m2) != f1 {
			return "differs second-ReadMetaData"
		}
		return "ok"
	})
	// pageheaders-at <filehex> <o> <n> -> ok <h,...> | err
	register("pageheaders-at", func(a []string) string {
		hs, err := parquet.PageHeadersAtOffset(&source{data: unhex(a[0])}, int64(atoi(a[1])), int64(atoi(a[2])))
		if err != nil {
			return "err"
		}
		return "ok " + showPHs(hs)
	})
}
