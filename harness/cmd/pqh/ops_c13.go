package main

import (
	"bytes"
	"crypto/sha256"
	"fmt"
	"reflect"
	"strings"
	"sync"

	"github.com/parsyl/parquet"
	"pqh/adapter"
)

type workload struct {
	z     adapter.Zoo
	max   int
	codec int
	ops   string
}

// one complete use of a fresh writer and a fresh reader: file bytes and read-back text
func (wl workload) run() ([]byte, string) { return wl.runWith(0, 0) }

// runWith: failAt > 0 makes the sink fail at that write (mode as in zoo-write); the result is then meaningless
// to the caller, what matters is what the failing instance leaves behind in the process
func (wl workload) runWith(failAt int, mode byte) ([]byte, string) {
	ns := nodesOf(wl.z)
	s := &sink{failAt: failAt, mode: mode}
	w, err := wl.z.NewWriter(s, wl.max, wl.codec)
	if err != nil {
		return nil, "writer-err"
	}
	if wl.ops != "-" {
		for _, op := range strings.Split(wl.ops, ";") {
			switch op[0] {
			case 'a':
				rec := wl.z.NewRec()
				adapter.Build(reflect.ValueOf(rec).Elem(), ns, op[1:])
				w.Add(rec)
			case 'w':
				if err := w.Write(); err != nil {
					return nil, "write-err"
				}
			case 'c':
				if err := w.Close(); err != nil {
					return nil, "close-err"
				}
			}
		}
	}
	file := append([]byte{}, s.buf.Bytes()...)
	rd, err := wl.z.NewReader(&source{data: file})
	if err != nil {
		return file, "open-err"
	}
	var recs []string
	limit := int(rd.Rows()) + 3
	for n := 0; n < limit && rd.Next(); n++ {
		rec := wl.z.NewRec()
		rd.Scan(rec)
		recs = append(recs, adapter.Show(reflect.ValueOf(rec).Elem(), ns))
	}
	st := "ok"
	if rd.Error() != nil {
		st = "err"
	}
	return file, st + ":" + strings.Join(recs, ";")
}

func init() {
	// c13 <goroutines> <rounds> <workload>#<workload>... with workload = name,max,codec,ops
	// -> ok <n runs> | differs <what>
	register("c13", func(a []string) string {
		g, rounds := atoi(a[0]), atoi(a[1])
		var wls []workload
		for _, t := range strings.Split(a[2], "#") {
			p := strings.SplitN(t, ",", 4)
			wls = append(wls, workload{zoo(p[0]), atoi(p[1]), atoi(p[2]), p[3]})
		}
		type res struct {
			file []byte
			read string
		}
		base := make([]res, len(wls))
		for i, wl := range wls {
			f, r := wl.run()
			base[i] = res{f, r}
		}
		runs := 0
		check := func(i int, phase string) string {
			f, r := wls[i].run()
			runs++
			if !bytes.Equal(f, base[i].file) {
				return fmt.Sprintf("differs %s workload=%d file-bytes", phase, i)
			}
			if r != base[i].read {
				return fmt.Sprintf("differs %s workload=%d read-result", phase, i)
			}
			return ""
		}
		// (i) repeat, in a different order (other instances ran earlier in the process)
		for i := len(wls) - 1; i >= 0; i-- {
			if d := check(i, "repeat"); d != "" {
				return d
			}
		}
		// (ii) poisoned pools: runtime pool and every generated package's pool hold garbage buffers
		for _, fill := range []byte{0xAA, 0xFF, 0x00} {
			parquet.VerifPoisonPool(24, 1<<14, fill)
			for _, wl := range wls {
				if wl.z.Poison != nil {
					wl.z.Poison(24, 1<<14, fill)
				}
			}
			for i := range wls {
				if d := check(i, "poisoned-pool"); d != "" {
					return d
				}
			}
		}
		// (ii-b) other instances FAILED earlier in the process: every workload is run against sinks that fail at
		// their 2nd, 3rd, 5th, 8th and 12th write (persistently, transiently, after taking the bytes); error paths of one
		// instance must not disturb what later instances produce
		for _, k := range []int{2, 3, 5, 8, 12} {
			for _, mode := range []byte{'z', 'Z', 'f'} {
				for i := range wls {
					func() {
						defer func() { recover() }()
						wls[i].runWith(k, mode)
					}()
				}
			}
			if k == 3 || k == 12 {
				for i := range wls {
					if d := check(i, "after-failed-writers"); d != "" {
						return d
					}
				}
			}
		}
		// (iii) concurrent instances on g goroutines, each running a workload `rounds` times
		var wg sync.WaitGroup
		var mu sync.Mutex
		var first string
		for k := 0; k < g; k++ {
			wg.Add(1)
			go func(k int) {
				defer wg.Done()
				defer func() {
					if r := recover(); r != nil {
						mu.Lock()
						if first == "" {
							first = fmt.Sprintf("differs concurrent goroutine=%d panic", k)
						}
						mu.Unlock()
					}
				}()
				for r := 0; r < rounds; r++ {
					i := (k + r) % len(wls)
					f, rd := wls[i].run()
					mu.Lock()
					runs++
					if first == "" {
						if !bytes.Equal(f, base[i].file) {
							first = fmt.Sprintf("differs concurrent workload=%d file-bytes", i)
						} else if rd != base[i].read {
							first = fmt.Sprintf("differs concurrent workload=%d read-result", i)
						}
					}
					mu.Unlock()
				}
			}(k)
		}
		wg.Wait()
		if first != "" {
			return first
		}
		// hashes of the baseline outputs (first run of every workload in this process, in the order
		// given): compared by the orchestrator across fresh processes that ran them in other orders
		var hs []string
		for _, b := range base {
			h := sha256.Sum256(append(append([]byte{}, b.file...), []byte(b.read)...))
			hs = append(hs, fmt.Sprintf("%x", h[:8]))
		}
		return fmt.Sprintf("ok %d %s", runs, strings.Join(hs, ","))
	})
}
