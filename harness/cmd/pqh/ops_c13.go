package main

import (
	"bytes"
	"crypto/sha256"
	"fmt"
	"reflect"
	rtdebug "runtime/debug"
	"strings"
	"sync"

	"github.com/parsyl/parquet"
	"pqh/adapter"
)

type workload struct {
	z     adapter.Zoo
	max   int
	codec int
	ops   string
}

// one complete use of a fresh writer and a fresh reader: file bytes and read-back text
func (wl workload) run() ([]byte, string) { return wl.runWith(0, 0) }

// runWith: failAt > 0 makes the sink fail at that write (mode as in zoo-write); the result is then meaningless
// to the caller, what matters is what the failing instance leaves behind in the process
func (wl workload) runWith(failAt int, mode byte) ([]byte, string) {
	ns := nodesOf(wl.z)
	s := &sink{failAt: failAt, mode: mode}
	w, err := wl.z.NewWriter(s, wl.max, wl.codec)
	if err != nil {
		return nil, "writer-err"
	}
	if wl.ops != "-" {
		for _, op := range strings.Split(wl.ops, ";") {
			switch op[0] {
			case 'a':
				rec := wl.z.NewRec()
				adapter.Build(reflect.ValueOf(rec).Elem(), ns, op[1:])
				w.Add(rec)
			case 'w':
				if err := w.Write(); err != nil {
					return nil, "write-err"
				}
			case 'c':
				if err := w.Close(); err != nil {
					return nil, "close-err"
				}
			}
		}
	}
	file := append([]byte{}, s.buf.Bytes()...)
	rd, err := wl.z.NewReader(&source{data: file})
	if err != nil {
		return file, "open-err"
	}
	var recs []string
	limit := int(rd.Rows()) + 3
	for n := 0; n < limit && rd.Next(); n++ {
		rec := wl.z.NewRec()
		rd.Scan(rec)
		recs = append(recs, adapter.Show(reflect.ValueOf(rec).Elem(), ns))
	}
	st := "ok"
	if rd.Error() != nil {
		st = "err"
	}
	return file, st + ":" + strings.Join(recs, ";")
}

func init() {
	// c13 <goroutines> <rounds> <workload>#<workload>... with workload = name,max,codec,ops
	// -> ok <n runs> | differs <what>
	register("c13", func(a []string) string {
		g, rounds := atoi(a[0]), atoi(a[1])
		var wls []workload
		for _, t := range strings.Split(a[2], "#") {
			p := strings.SplitN(t, ",", 4)
			wls = append(wls, workload{zoo(p[0]), atoi(p[1]), atoi(p[2]), p[3]})
		}
		type res struct {
			file []byte
			read string
		}
		base := make([]res, len(wls))
		for i, wl := range wls {
			f, r := wl.run()
			base[i] = res{f, r}
		}
		runs := 0
		check := func(i int, phase string) string {
			f, r := wls[i].run()
			runs++
			if !bytes.Equal(f, base[i].file) {
				return fmt.Sprintf("differs %s workload=%d file-bytes", phase, i)
			}
			if r != base[i].read {
				return fmt.Sprintf("differs %s workload=%d read-result", phase, i)
			}
			return ""
		}
		// (i) repeat, in a different order (other instances ran earlier in the process)
		for i := len(wls) - 1; i >= 0; i-- {
			if d := check(i, "repeat"); d != "" {
				return d
			}
		}
		// (ii) poisoned pools: runtime pool and every generated package's pool hold garbage buffers
		for _, fill := range []byte{0xAA, 0xFF, 0x00} {
			parquet.VerifPoisonPool(24, 1<<14, fill)
			for _, wl := range wls {
				if wl.z.Poison != nil {
					wl.z.Poison(24, 1<<14, fill)
				}
			}
			for i := range wls {
				if d := check(i, "poisoned-pool"); d != "" {
					return d
				}
			}
		}
		// (ii-b) other instances FAILED earlier in the process: every workload is run against sinks that fail at
		// their 2nd, 3rd, 5th, 8th and 12th write (persistently, transiently, after taking the bytes); error paths of one
		// instance must not disturb what later instances produce
		withFailures := len(a) > 3 && a[3] == "fail"
		if withFailures {
			// pooled objects are dropped by the garbage collector: keep it out of the two failure phases so that what a
			// failed instance left in a pool is still there when the next instance asks for it
			old := rtdebug.SetGCPercent(-1)
			defer rtdebug.SetGCPercent(old)
			// ... but not at the price of running out of memory: with a memory limit the collector still runs when
			// the heap approaches it (damaged files can make a reader allocate a lot)
			oldLim := rtdebug.SetMemoryLimit(3 << 30)
			defer rtdebug.SetMemoryLimit(oldLim)
		}
		for _, k := range []int{2, 5, 12} {
			if !withFailures {
				break
			}
			for _, mode := range []byte{'z', 'Z', 'f'} {
				for i := range wls {
					func() {
						defer func() { recover() }()
						wls[i].runWith(k, mode)
					}()
					// at once (pooled state does not survive a garbage collection): a gzip workload and the next one
					j := (i + 1) % len(wls)
					for t := 0; t < len(wls) && wls[j].codec != 2; t++ {
						j = (j + 1) % len(wls)
					}
					if d := check(j, "after-failed-writer"); d != "" {
						return d
					}
					if d := check((i+1)%len(wls), "after-failed-writer"); d != "" {
						return d
					}
				}
			}
		}
		// (ii-c) other READER instances failed earlier in the process: every baseline file is damaged in the middle of its
		// data region (three places) and in its first page, and read by a fresh reader (whatever happens to that reader)
		for i := range wls {
			f := base[i].file
			if len(f) < 40 || !withFailures {
				continue
			}
			places := []int{len(f) / 3, len(f) / 2}
			// the container magic of compressed pages (gzip: 1f 8b 08): the first, a middle and the last one
			var magics []int
			for j := 4; j+3 < len(f)-12; j++ {
				if f[j] == 0x1f && f[j+1] == 0x8b && f[j+2] == 0x08 {
					magics = append(magics, j)
				}
			}
			if len(magics) > 0 {
				places = append(places, magics[0], magics[len(magics)-1])
			}
			for _, at := range places {
				bad := append([]byte{}, f...)
				for j := at; j < at+5 && j < len(bad)-12; j++ {
					bad[j] ^= 0xA5
				}
				func() {
					defer func() { recover() }()
					rd, err := wls[i].z.NewReader(&source{data: bad})
					if err != nil {
						return
					}
					for n := 0; n < int(rd.Rows())+3 && n < 100000 && rd.Next(); n++ {
						rd.Scan(wls[i].z.NewRec())
					}
				}()
				// at once (pooled state does not survive a garbage collection): the same workload, and the next one
				if d := check(i, "after-failed-reader"); d != "" {
					return d
				}
				if d := check((i+1)%len(wls), "after-failed-reader"); d != "" {
					return d
				}
			}
		}
		// (iii) concurrent instances on g goroutines, each running a workload `rounds` times
		var wg sync.WaitGroup
		var mu sync.Mutex
		var first string
		for k := 0; k < g; k++ {
			wg.Add(1)
			go func(k int) {
				defer wg.Done()
				defer func() {
					if r := recover(); r != nil {
						mu.Lock()
						if first == "" {
							first = fmt.Sprintf("differs concurrent goroutine=%d panic", k)
						}
						mu.Unlock()
					}
				}()
				for r := 0; r < rounds; r++ {
					i := (k + r) % len(wls)
					f, rd := wls[i].run()
					mu.Lock()
					runs++
					if first == "" {
						if !bytes.Equal(f, base[i].file) {
							first = fmt.Sprintf("differs concurrent workload=%d file-bytes", i)
						} else if rd != base[i].read {
							first = fmt.Sprintf("differs concurrent workload=%d read-result", i)
						}
					}
					mu.Unlock()
				}
			}(k)
		}
		wg.Wait()
		if first != "" {
			return first
		}
		// hashes of the baseline outputs (first run of every workload in this process, in the order
		// given): compared by the orchestrator across fresh processes that ran them in other orders
		var hs []string
		for _, b := range base {
			h := sha256.Sum256(append(append([]byte{}, b.file...), []byte(b.read)...))
			hs = append(hs, fmt.Sprintf("%x", h[:8]))
		}
		return fmt.Sprintf("ok %d %s", runs, strings.Join(hs, ","))
	})
}
