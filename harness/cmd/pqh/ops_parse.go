package main

import (
	"fmt"
	"os"
	"path/filepath"
	"strings"

	"github.com/parsyl/parquet/cmd/parquetgen/fields"
	"github.com/parsyl/parquet/cmd/parquetgen/parse"
	"github.com/parsyl/parquet/cmd/parquetgen/structs"
	sch "github.com/parsyl/parquet/schema"
)

func showField(f fields.Field) string {
	rep := "?"
	switch f.RepetitionType {
	case fields.Required:
		rep = "r"
	case fields.Optional:
		rep = "o"
	case fields.Repeated:
		rep = "m"
	}
	s := fmt.Sprintf("%s|%s|%s|%s", f.Name, f.ColumnName, f.Type, rep)
	if len(f.Children) > 0 {
		var c []string
		for _, ch := range f.Children {
			c = append(c, showField(ch))
		}
		s += "{" + strings.Join(c, ",") + "}"
	}
	return s
}

func init() {
	// parse-struct <type> <go source hex> -> ok <field tree> errs=<n> | err
	register("parse-struct", func(a []string) string {
		dir, err := os.MkdirTemp("", "pqhparse")
		if err != nil {
			return "err"
		}
		defer os.RemoveAll(dir)
		pth := filepath.Join(dir, "t.go")
		if err := os.WriteFile(pth, unhex(a[1]), 0o644); err != nil {
			return "err"
		}
		res, err := parse.Fields(a[0], pth)
		if err != nil {
			return "err"
		}
		var c []string
		for _, ch := range res.Parent.Children {
			c = append(c, showField(ch))
		}
		return fmt.Sprintf("ok {%s} errs=%d", strings.Join(c, ","), len(res.Errors))
	})
	// struct-of <type name> <schema elements: name:type:rep:numchildren;...> -> go source hex of structs.Struct
	// (type/rep/numchildren as integers or '-')
	register("struct-of", func(a []string) string {
		var els []*sch.SchemaElement
		for _, t := range strings.Split(a[1], ";") {
			p := strings.Split(t, ":")
			e := &sch.SchemaElement{Name: p[0]}
			if p[1] != "-" {
				v := sch.Type(atoi(p[1]))
				e.Type = &v
			}
			if p[2] != "-" {
				v := sch.FieldRepetitionType(atoi(p[2]))
				e.RepetitionType = &v
			}
			if p[3] != "-" {
				v := int32(atoi(p[3]))
				e.NumChildren = &v
			}
			els = append(els, e)
		}
		return tohex([]byte(structs.Struct(a[0], els)))
	})
}
