module pqh

go 1.20

require (
	github.com/golang/snappy v0.0.2
	github.com/parsyl/parquet v0.0.0
	github.com/valyala/bytebufferpool v1.0.0
)

require github.com/apache/thrift v0.18.1 // indirect

replace github.com/parsyl/parquet => /repo
