package u0011


type T struct {
	F0 []string
	F1 []string
}
