package s0361

type G2 struct {
	F0x0x0 int32
}

type G1 struct {
	F0x0 []G2
	F0x1 *int64
	F0x2 uint32
}

type T struct {
	F0 G1
}
