package u0311


type T struct {
	F0 *string
	F1 *string
	F2 string
	F3 []string
}
