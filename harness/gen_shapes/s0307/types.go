package s0307

type G3 struct {
	F1x0x0x0 int64
}

type G2 struct {
	F1x0x0 *G3
}

type G1 struct {
	F1x0 *G2
}

type T struct {
	F0 int32
	F1 G1
}
