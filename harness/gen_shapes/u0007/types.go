package u0007


type T struct {
	F0 *string
	F1 *string
}
