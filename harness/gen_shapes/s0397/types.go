package s0397

type G1 struct {
	F1x0 []int64
	F1x1 []uint32
}

type G3 struct {
	F2x0x0 uint64
	F2x0x1 *float32
}

type G2 struct {
	F2x0 []G3
	F2x1 *float64
}

type T struct {
	F0 int32
	F1 []G1
	F2 []G2
}
