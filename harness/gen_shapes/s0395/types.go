package s0395

type G3 struct {
	F0x1x1x0 uint32
	F0x1x1x1 *uint64
}

type G2 struct {
	F0x1x0 int64
	F0x1x1 *G3
}

type G1 struct {
	F0x0 int32
	F0x1 *G2
}

type T struct {
	F0 *G1
}
