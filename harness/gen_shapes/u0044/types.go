package u0044


type T struct {
	F0 *int32
	F1 *int32
	F2 []int32
}
