package x0005

type A struct {
	X int64
}

type M struct {
	In A
	N *int32
}

type T struct {
	First A
	Mid *M
	Last *A
}
