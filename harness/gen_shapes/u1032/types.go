package u1032

type G1 struct {
	F0x0 []int32
	F0x1 *int32
	F0x2 int32
}

type T struct {
	F0 *G1
}
