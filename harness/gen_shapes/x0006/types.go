package x0006

type G struct {
	gain, Site *int32
	Name string
}

type T struct {
	seq, Samples int32
	Gain, scratch *int64
	Loc G
	Opt *G
}
