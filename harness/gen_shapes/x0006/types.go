package x0006

type G struct {
	V, W int64
}

type T struct {
	K int32
	H *G
}
