package u0729

type G1 struct {
	F0x0 string
	F0x1 []string
}

type T struct {
	F0 G1
	F1 string
}
