package s0370

type G2 struct {
	F0x0x0 *int32
}

type G3 struct {
	F0x1x0 int64
}

type G1 struct {
	F0x0 []G2
	F0x1 *G3
}

type T struct {
	F0 *G1
}
