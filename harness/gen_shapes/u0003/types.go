package u0003


type T struct {
	F0 string
	F1 string
}
