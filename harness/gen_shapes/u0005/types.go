package u0005


type T struct {
	F0 string
	F1 []string
}
