package s0332

type G1 struct {
	F0x0 int32
}

type G2 struct {
	F2x0 uint32
}

type T struct {
	F0 *G1
	F1 *int64
	F2 []G2
}
