package s0314

type G1 struct {
	F1x0 *int64
}

type G2 struct {
	F2x0 uint32
}

type T struct {
	F0 *int32
	F1 []G1
	F2 []G2
}
