package u0456

type G1 struct {
	F2x0 int32
}

type T struct {
	F0 []int32
	F1 *int32
	F2 *G1
}
