package s0398

type G1 struct {
	F3x0 uint64
	F3x1 *float32
	F3x2 []float64
}

type G2 struct {
	F4x0 bool
	F4x1 *string
	F4x2 []int32
}

type G3 struct {
	F5x0 int64
	F5x1 uint32
	F5x2 []uint64
}

type T struct {
	F0 int32
	F1 *int64
	F2 []uint32
	F3 G1
	F4 *G2
	F5 []G3
}
