package x0007

type G struct {
	V, W int64
}

type T struct {
	K int32
	H *G
}
