package s0190


type T struct {
	F0 []int32
	F1 []int64
	F2 uint32
	F3 uint64
}
