package s0304

type G1 struct {
	F1x0 *int64
}

type T struct {
	F0 int32
	F1 *G1
	F2 *uint32
	F3 uint64
}
