package s0366

type G2 struct {
	F0x1x0 int64
}

type G1 struct {
	F0x0 int32
	F0x1 *G2
	F0x2 uint32
}

type T struct {
	F0 *G1
}
