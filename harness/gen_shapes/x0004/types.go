package x0004

type A struct {
	X int32
	Y *string
}

type T struct {
	ID int64
	B A
	S *A
	P []A
}
