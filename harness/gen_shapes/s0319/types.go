package s0319

type G1 struct {
	F3x0 uint64
}

type T struct {
	F0 []int32
	F1 int64
	F2 uint32
	F3 *G1
}
