package u0687

type G1 struct {
	F0x0 *string
}

type T struct {
	F0 []G1
	F1 string
	F2 string
}
