package s0189

type G1 struct {
	F2x0 uint32
}

type T struct {
	F0 []int32
	F1 *int64
	F2 G1
}
