package s0345

type G1 struct {
	F0x0 []int32
	F0x1 *int64
}

type G2 struct {
	F1x0 uint32
}

type T struct {
	F0 []G1
	F1 G2
}
