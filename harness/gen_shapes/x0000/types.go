package x0000

type T struct {
	A, B int32
	C string
}
