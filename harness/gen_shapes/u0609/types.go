package u0609

type G1 struct {
	F0x0 []string
}

type G2 struct {
	F1x0 string
}

type T struct {
	F0 G1
	F1 *G2
}
