package u0178


type T struct {
	F0 int32
	F1 *int32
	F2 *int32
	F3 *int32
}
