package s0248

type G2 struct {
	F0x0x0 int32
	F0x0x1 int64
}

type G1 struct {
	F0x0 []G2
}

type T struct {
	F0 G1
}
