package s0002


type T struct {
	F0 []int32
}
