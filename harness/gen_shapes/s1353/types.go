package s1353

type G2 struct {
	F1x1x0 uint32
}

type G1 struct {
	F1x0 *int64
	F1x1 G2
}

type T struct {
	F0 int32
	F1 G1
}
