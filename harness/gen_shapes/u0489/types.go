package u0489

type G1 struct {
	F1x0 string
}

type T struct {
	F0 []string
	F1 *G1
	F2 string
}
