package u0063


type T struct {
	F0 []string
	F1 []string
	F2 string
}
