package s0337

type G1 struct {
	F0x0 *int32
}

type G3 struct {
	F1x0x0 int64
}

type G2 struct {
	F1x0 *G3
}

type T struct {
	F0 []G1
	F1 G2
}
