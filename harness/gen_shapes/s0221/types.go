package s0221

type G1 struct {
	F0x0 []int32
	F0x1 int64
}

type T struct {
	F0 G1
	F1 uint32
}
