package u0381

type G2 struct {
	F1x0x0 string
}

type G1 struct {
	F1x0 G2
}

type T struct {
	F0 *string
	F1 G1
}
