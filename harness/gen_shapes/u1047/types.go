package u1047

type G2 struct {
	F0x0x0 string
}

type G1 struct {
	F0x0 G2
	F0x1 string
}

type T struct {
	F0 *G1
}
