package u0045


type T struct {
	F0 *string
	F1 []string
	F2 string
}
