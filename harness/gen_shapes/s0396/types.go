package s0396

type G2 struct {
	F3x2x0 float64
	F3x2x1 bool
}

type G1 struct {
	F3x0 uint64
	F3x1 *float32
	F3x2 []G2
}

type G3 struct {
	F4x0 string
	F4x1 int32
	F4x2 *int64
}

type T struct {
	F0 int32
	F1 int64
	F2 *uint32
	F3 *G1
	F4 []G3
}
