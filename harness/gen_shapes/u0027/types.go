package u0027


type T struct {
	F0 string
	F1 []string
	F2 string
}
