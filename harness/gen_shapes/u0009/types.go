package u0009


type T struct {
	F0 []string
	F1 string
}
