package x0001

type T struct {
	ID int64
	X, Y *float64
}
