package s0309

type G2 struct {
	F1x0x0 int64
	F1x0x1 uint32
}

type G1 struct {
	F1x0 G2
}

type T struct {
	F0 int32
	F1 []G1
}
