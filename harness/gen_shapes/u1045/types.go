package u1045

type G2 struct {
	F0x1x0 *string
}

type G1 struct {
	F0x0 []string
	F0x1 []G2
}

type T struct {
	F0 *G1
}
