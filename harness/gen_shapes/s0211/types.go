package s0211

type G1 struct {
	F0x0 []int32
}

type T struct {
	F0 *G1
	F1 int64
	F2 uint32
}
