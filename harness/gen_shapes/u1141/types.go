package u1141

type G1 struct {
	F0x0 []string
	F0x1 *string
	F0x2 *string
}

type T struct {
	F0 []G1
}
