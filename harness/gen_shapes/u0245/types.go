package u0245

type G1 struct {
	F1x0 []string
	F1x1 []string
}

type T struct {
	F0 string
	F1 G1
}
