package u0475

type G1 struct {
	F2x0 *string
}

type T struct {
	F0 []string
	F1 []string
	F2 *G1
}
