package s0367

type G2 struct {
	F0x2x0 uint32
}

type G1 struct {
	F0x0 *int32
	F0x1 []int64
	F0x2 *G2
}

type T struct {
	F0 *G1
}
