package s0165

type G1 struct {
	F1x0 int64
	F1x1 uint32
}

type T struct {
	F0 int32
	F1 G1
}
