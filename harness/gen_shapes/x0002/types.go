package x0002

type T struct {
	P, Q []string
	R bool
}
