package s0320

type G2 struct {
	F2x0x0 uint32
}

type G1 struct {
	F2x0 []G2
}

type T struct {
	F0 []int32
	F1 int64
	F2 []G1
}
