package x0003

type G struct {
	V int32
	W *string
}

type T struct {
	K int64
	L, M G
}
