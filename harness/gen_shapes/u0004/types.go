package u0004


type T struct {
	F0 int32
	F1 *int32
}
