package s0330

type G1 struct {
	F0x0 *int32
}

type G2 struct {
	F1x0 int64
}

type T struct {
	F0 G1
	F1 *G2
	F2 uint32
}
