// Package adapter is the schema-generic glue between the line protocol and the
// code parquetgen generates for a concrete struct: reflect-based conversion
// between record text and Go values, column projections, registry.
package adapter

import (
	"encoding/binary"
	"encoding/hex"
	"fmt"
	"io"
	"math"
	"reflect"
	"strings"
)

type Writer interface {
	Add(rec interface{})
	Write() error
	Close() error
}

type Reader interface {
	Rows() int64
	Next() bool
	Scan(rec interface{})
	Error() error
	Levels() []Levels
}

type Levels struct {
	Name string
	Defs []uint8
	Reps []uint8
}

// FieldInfo is what the generated Fields() says about a column.
type FieldInfo struct {
	Path  []string
	Types []int
	PType string
	Rep   int // repetition type the field's RepetitionType func sets
}

type Zoo struct {
	Name      string
	NewRec    func() interface{}
	NewWriter func(w io.Writer, max int, codec int) (Writer, error)
	NewReader func(r io.ReadSeeker) (Reader, error)
	Fields    func() []FieldInfo
	// Poison puts garbage-filled buffers into the generated package's own buffer pool
	Poison func(n, size int, fill byte)
}

var Registry = map[string]Zoo{}

func Register(z Zoo) { Registry[z.Name] = z }

// ---------------------------------------------------------------- schema by reflection

type Node struct {
	Name     string
	Rep      byte // 'r','o','m'
	PType    string
	Children []*Node
	index    []int // reflect field index path inside the parent struct value
}

var kinds = map[reflect.Kind]string{
	reflect.Int32: "i32", reflect.Int64: "i64", reflect.Uint32: "u32", reflect.Uint64: "u64",
	reflect.Float32: "f32", reflect.Float64: "f64", reflect.Bool: "bool", reflect.String: "str",
}

// SchemaOf derives the column tree from the Go struct type alone (independent of generated code):
// exported fields, `parquet:"-"` skipped, tag = column name, embedded structs inlined,
// pointer = optional, slice = repeated.
func SchemaOf(t reflect.Type) []*Node {
	var out []*Node
	for i := 0; i < t.NumField(); i++ {
		f := t.Field(i)
		if f.PkgPath != "" && !f.Anonymous {
			continue
		}
		tag := f.Tag.Get("parquet")
		if tag == "-" {
			continue
		}
		if f.Anonymous && f.Type.Kind() == reflect.Struct {
			for _, c := range SchemaOf(f.Type) {
				c.index = append([]int{i}, c.index...)
				out = append(out, c)
			}
			continue
		}
		if f.PkgPath != "" {
			continue
		}
		name := f.Name
		if tag != "" {
			name = tag
		}
		n := &Node{Name: name, Rep: 'r', index: []int{i}}
		ft := f.Type
		switch ft.Kind() {
		case reflect.Ptr:
			n.Rep = 'o'
			ft = ft.Elem()
		case reflect.Slice:
			n.Rep = 'm'
			ft = ft.Elem()
		}
		if ft.Kind() == reflect.Struct {
			n.Children = SchemaOf(ft)
			if len(n.Children) == 0 {
				continue
			}
		} else if k, ok := kinds[ft.Kind()]; ok {
			n.PType = k
		} else {
			continue // unsupported type: ignored by parquetgen (-ignore)
		}
		out = append(out, n)
	}
	return out
}

func SchemaText(ns []*Node) string {
	var p []string
	for _, n := range ns {
		if n.Children != nil {
			p = append(p, fmt.Sprintf("%s:%c:%s", n.Name, n.Rep, SchemaText(n.Children)))
		} else {
			p = append(p, fmt.Sprintf("%s:%c:%s", n.Name, n.Rep, n.PType))
		}
	}
	return "{" + strings.Join(p, ",") + "}"
}

// ---------------------------------------------------------------- record text <-> value

func leafBytes(v reflect.Value) []byte {
	switch v.Kind() {
	case reflect.Int32:
		b := make([]byte, 4)
		binary.LittleEndian.PutUint32(b, uint32(v.Int()))
		return b
	case reflect.Int64:
		b := make([]byte, 8)
		binary.LittleEndian.PutUint64(b, uint64(v.Int()))
		return b
	case reflect.Uint32:
		b := make([]byte, 4)
		binary.LittleEndian.PutUint32(b, uint32(v.Uint()))
		return b
	case reflect.Uint64:
		b := make([]byte, 8)
		binary.LittleEndian.PutUint64(b, v.Uint())
		return b
	case reflect.Float32:
		// through the interface, not v.Float(): widening to float64 would quiet signalling NaNs
		b := make([]byte, 4)
		binary.LittleEndian.PutUint32(b, math.Float32bits(v.Interface().(float32)))
		return b
	case reflect.Float64:
		b := make([]byte, 8)
		binary.LittleEndian.PutUint64(b, math.Float64bits(v.Float()))
		return b
	case reflect.Bool:
		if v.Bool() {
			return []byte{1}
		}
		return []byte{0}
	case reflect.String:
		return []byte(v.String())
	}
	panic("leafBytes: unsupported kind " + v.Kind().String())
}

func setLeaf(v reflect.Value, b []byte) {
	switch v.Kind() {
	case reflect.Int32:
		v.SetInt(int64(int32(binary.LittleEndian.Uint32(b))))
	case reflect.Int64:
		v.SetInt(int64(binary.LittleEndian.Uint64(b)))
	case reflect.Uint32:
		v.SetUint(uint64(binary.LittleEndian.Uint32(b)))
	case reflect.Uint64:
		v.SetUint(binary.LittleEndian.Uint64(b))
	case reflect.Float32:
		// via the bit pattern, so NaN payloads survive
		f := math.Float32frombits(binary.LittleEndian.Uint32(b))
		*(v.Addr().Interface().(*float32)) = f
	case reflect.Float64:
		*(v.Addr().Interface().(*float64)) = math.Float64frombits(binary.LittleEndian.Uint64(b))
	case reflect.Bool:
		v.SetBool(len(b) > 0 && b[0] != 0)
	case reflect.String:
		v.SetString(string(b))
	default:
		panic("setLeaf: unsupported kind " + v.Kind().String())
	}
}

// Show prints the parquet view of a struct value: {field,field,...}
func Show(v reflect.Value, ns []*Node) string {
	var p []string
	for _, n := range ns {
		p = append(p, showNode(v.FieldByIndex(n.index), n))
	}
	return "{" + strings.Join(p, ",") + "}"
}

func showInner(v reflect.Value, n *Node) string {
	if n.Children != nil {
		return Show(v, n.Children)
	}
	return "x" + hex.EncodeToString(leafBytes(v))
}

func showNode(v reflect.Value, n *Node) string {
	switch n.Rep {
	case 'o':
		if v.IsNil() {
			return "n"
		}
		return "s" + showInner(v.Elem(), n)
	case 'm':
		var p []string
		for i := 0; i < v.Len(); i++ {
			p = append(p, showInner(v.Index(i), n))
		}
		return "[" + strings.Join(p, ",") + "]"
	}
	return showInner(v, n)
}

type parser struct {
	s string
	i int
}

func (p *parser) peek() byte {
	if p.i < len(p.s) {
		return p.s[p.i]
	}
	return 0
}

func (p *parser) expect(c byte) {
	if p.peek() != c {
		panic(fmt.Sprintf("record text: expected %q at %d in %q", c, p.i, p.s))
	}
	p.i++
}

// Build fills a zero struct value from record text.
func Build(v reflect.Value, ns []*Node, text string) {
	p := &parser{s: text}
	p.build(v, ns)
	if p.i != len(p.s) {
		panic("record text: trailing input")
	}
}

func (p *parser) build(v reflect.Value, ns []*Node) {
	p.expect('{')
	for i, n := range ns {
		if i > 0 {
			p.expect(',')
		}
		p.node(v.FieldByIndex(n.index), n)
	}
	p.expect('}')
}

func (p *parser) inner(v reflect.Value, n *Node) {
	if n.Children != nil {
		p.build(v, n.Children)
		return
	}
	p.expect('x')
	j := p.i
	for j < len(p.s) && strings.IndexByte("0123456789abcdef", p.s[j]) >= 0 {
		j++
	}
	b, err := hex.DecodeString(p.s[p.i:j])
	if err != nil {
		panic(err)
	}
	p.i = j
	setLeaf(v, b)
}

func (p *parser) node(v reflect.Value, n *Node) {
	switch n.Rep {
	case 'o':
		if p.peek() == 'n' {
			p.i++
			return
		}
		p.expect('s')
		e := reflect.New(v.Type().Elem())
		p.inner(e.Elem(), n)
		v.Set(e)
	case 'm':
		p.expect('[')
		sl := reflect.MakeSlice(v.Type(), 0, 0)
		for p.peek() != ']' {
			if sl.Len() > 0 {
				p.expect(',')
			}
			e := reflect.New(v.Type().Elem()).Elem()
			p.inner(e, n)
			sl = reflect.Append(sl, e)
		}
		p.i++
		if sl.Len() > 0 {
			v.Set(sl)
		}
	default:
		p.inner(v, n)
	}
}

// ---------------------------------------------------------------- column projections

type Column struct {
	Path  []string
	Reps  string // one of r/o/m per path element
	PType string
	nodes []*Node
}

func Columns(ns []*Node) []Column {
	var out []Column
	var walk func(ns []*Node, pre []*Node)
	walk = func(ns []*Node, pre []*Node) {
		for _, n := range ns {
			chain := append(append([]*Node{}, pre...), n)
			if n.Children != nil {
				walk(n.Children, chain)
				continue
			}
			c := Column{PType: n.PType, nodes: chain}
			for _, x := range chain {
				c.Path = append(c.Path, x.Name)
				c.Reps += string(x.Rep)
			}
			out = append(out, c)
		}
	}
	walk(ns, nil)
	return out
}

// Project prints the projection of a struct value on one column.
func Project(v reflect.Value, c Column) string { return project(v, c.nodes) }

func project(v reflect.Value, chain []*Node) string {
	n := chain[0]
	f := v.FieldByIndex(n.index)
	in := func(x reflect.Value) string {
		if len(chain) == 1 {
			return "x" + hex.EncodeToString(leafBytes(x))
		}
		return project(x, chain[1:])
	}
	switch n.Rep {
	case 'o':
		if f.IsNil() {
			return "n"
		}
		return "s" + in(f.Elem())
	case 'm':
		var p []string
		for i := 0; i < f.Len(); i++ {
			p = append(p, in(f.Index(i)))
		}
		return "[" + strings.Join(p, ",") + "]"
	}
	return in(f)
}

// Scramble overwrites, in place, everything reachable from v through pointers and slices
// (the memory a writer might have kept a reference to after Add).
func Scramble(v reflect.Value) {
	switch v.Kind() {
	case reflect.Ptr:
		if !v.IsNil() {
			Scramble(v.Elem())
		}
	case reflect.Slice:
		for i := 0; i < v.Len(); i++ {
			Scramble(v.Index(i))
		}
	case reflect.Struct:
		for i := 0; i < v.NumField(); i++ {
			if v.Field(i).CanSet() {
				Scramble(v.Field(i))
			}
		}
	case reflect.Int32, reflect.Int64:
		v.SetInt(v.Int() ^ 0x5a5a5a5a)
	case reflect.Uint32, reflect.Uint64:
		v.SetUint(v.Uint() ^ 0x5a5a5a5a)
	case reflect.Float32, reflect.Float64:
		v.SetFloat(v.Float() + 12345.5)
	case reflect.Bool:
		v.SetBool(!v.Bool())
	case reflect.String:
		v.SetString("MUTATED" + v.String())
	}
}
