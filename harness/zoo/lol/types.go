package lol

// Lol: a list inside a list below an optional struct. Used by the writer-side checks only: the
// generated READER mishandles this shape on the unchanged tree (a known C05 finding).
type Skill struct {
	Tags  []string `parquet:"tags"`
	Level *int32   `parquet:"level"`
}

type Hobby struct {
	Title  string  `parquet:"title"`
	Skills []Skill `parquet:"skills"`
}

type Lol struct {
	ID    int64  `parquet:"id"`
	Hobby *Hobby `parquet:"hobby"`
}
