package sameopt

// Sameopt: column paths that run through two optional fields with the same Go field name
// (x.Parent.Parent.Name), and same-named leaves of different physical types under different parents.
type Inner struct {
	Name *string `parquet:"name"`
	ID   int32   `parquet:"id"`
}

type Outer struct {
	Name   *string `parquet:"name"`
	Parent *Inner  `parquet:"parent"`
}

type Sameopt struct {
	ID     int64    `parquet:"id"`
	Parent *Outer   `parquet:"parent"`
	Weight *float32 `parquet:"weight"`
}
