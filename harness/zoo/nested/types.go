package nested

// Nested: groups nested to several levels, same-named groups under different parents.
type In struct {
	A int32   `parquet:"a"`
	B *string `parquet:"b"`
}

type M struct {
	In In    `parquet:"in"`
	C  int64 `parquet:"c"`
}

type N struct {
	In In     `parquet:"in"`
	D  *int32 `parquet:"d"`
}

type Deep struct {
	X  *In   `parquet:"x"`
	Ys []In  `parquet:"ys"`
}

type Nested struct {
	ID int64 `parquet:"id"`
	M  M     `parquet:"m"`
	N  *N    `parquet:"n"`
	P  *Deep `parquet:"p"`
	Z  bool  `parquet:"z"`
}
