package flat

// Flat: all 8 primitive types x {required, optional, repeated}.
type Flat struct {
	I32  int32    `parquet:"i32"`
	I64  int64    `parquet:"i64"`
	U32  uint32   `parquet:"u32"`
	U64  uint64   `parquet:"u64"`
	F32  float32  `parquet:"f32"`
	F64  float64  `parquet:"f64"`
	B    bool     `parquet:"b"`
	S    string   `parquet:"s"`
	OI32 *int32   `parquet:"oi32"`
	OI64 *int64   `parquet:"oi64"`
	OU32 *uint32  `parquet:"ou32"`
	OU64 *uint64  `parquet:"ou64"`
	OF32 *float32 `parquet:"of32"`
	OF64 *float64 `parquet:"of64"`
	OB   *bool    `parquet:"ob"`
	OS   *string  `parquet:"os"`
	RI32 []int32  `parquet:"ri32"`
	RI64 []int64  `parquet:"ri64"`
	RU32 []uint32 `parquet:"ru32"`
	RU64 []uint64 `parquet:"ru64"`
	RF32 []float32 `parquet:"rf32"`
	RF64 []float64 `parquet:"rf64"`
	RB   []bool   `parquet:"rb"`
	RS   []string `parquet:"rs"`
}
