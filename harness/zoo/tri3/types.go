package tri3

// Tri3: three nested repeated groups whose innermost group has two columns (repetition levels up to
// 3). Used by the writer-side checks only: the generated READER mishandles this shape on the
// unchanged tree (a known C05 finding).
type Leaf struct {
	V int32  `parquet:"v"`
	W *int64 `parquet:"w"`
}

type Mid struct {
	Name   string `parquet:"name"`
	Leaves []Leaf `parquet:"leaves"`
}

type Top struct {
	Key  int64 `parquet:"key"`
	Mids []Mid `parquet:"mids"`
}

type Tri3 struct {
	ID   int64 `parquet:"id"`
	Tops []Top `parquet:"tops"`
}
