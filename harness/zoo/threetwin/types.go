package threetwin

// Threetwin: the same column paths and repetition types as three.Three, other physical types.
// Two generated packages whose schemas differ only in the physical types share every key a
// path-keyed cache could use (C13: an instance's output depends on its own history only).
type Threetwin struct {
	ID   int32     `parquet:"id"`
	Name *string   `parquet:"name"`
	Tags []float64 `parquet:"tags"`
}
