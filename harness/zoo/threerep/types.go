package threerep

// Threerep: the column paths of Three with another optional/list structure on every path (used only for
// process-history runs: anything cached per column path rather than per schema is exposed).
type Threerep struct {
	ID   *int64   `parquet:"id"`
	Name []string `parquet:"name"`
	Tags *int32   `parquet:"tags"`
}
