package doc

// Document: the Dremel paper's example as in the repository's tests.
type Link struct {
	Backward []int64
	Forward  []int64
}

type Language struct {
	Code    string
	Country *string
}

type Name struct {
	Languages []Language
	URL       *string
}

type Document struct {
	DocID int64
	Links []Link
	Names []Name
}
