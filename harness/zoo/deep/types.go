package deep

// Deep: columns with maximum definition levels 4..9 (level widths 3 and 4) and repetition inside.
type L3 struct {
	Val  *int64  `parquet:"val"`
	Tags []int32 `parquet:"tags"`
}

type L2 struct {
	X  int32 `parquet:"x"`
	L3 *L3   `parquet:"l3"`
}

type L1 struct {
	Y  *string `parquet:"y"`
	L2 *L2     `parquet:"l2"`
}

type H struct {
	V *int32 `parquet:"v"`
	W bool   `parquet:"w"`
}
type G struct {
	H *H `parquet:"h"`
}
type F struct {
	G *G `parquet:"g"`
}
type E struct {
	F *F `parquet:"f"`
}
type D struct {
	E *E `parquet:"e"`
}
type C struct {
	D *D `parquet:"d"`
}
type B struct {
	C *C `parquet:"c"`
}
type A struct {
	B *B `parquet:"b"`
}

type Deep struct {
	ID   int64 `parquet:"id"`
	Deep *L1   `parquet:"deep"`
	A    *A    `parquet:"a"`
}
