package person

// Person: the struct family of the repository's own parquet_test.go.
type Being struct {
	ID   int32  `parquet:"id"`
	Name string `parquet:"name"`
	Age  *int32 `parquet:"age"`
}

type Skill struct {
	Name       string `parquet:"name"`
	Difficulty string `parquet:"difficulty"`
}

type Hobby struct {
	Name       string  `parquet:"name"`
	Difficulty *int32  `parquet:"difficulty"`
	Skills     []Skill `parquet:"skills"`
}

type Person struct {
	Being
	Happiness   int64    `parquet:"happiness"`
	Sadness     *int64   `parquet:"sadness"`
	Code        *string  `parquet:"code"`
	Funkiness   float32  `parquet:"funkiness"`
	Boldness    float64  `parquet:"boldness"`
	Lameness    *float32 `parquet:"lameness"`
	Keen        *bool    `parquet:"keen"`
	Birthday    uint32   `parquet:"birthday"`
	Anniversary *uint64  `parquet:"anniversary"`
	BFF         string   `parquet:"bff"`
	Hungry      bool     `parquet:"hungry"`
	Secret      string   `parquet:"-"`
	Hobby       *Hobby   `parquet:"hobby"`
	Friends     []Being  `parquet:"friends"`
	Sleepy      bool
}
