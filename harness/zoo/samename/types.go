package samename

// Samename: same-named groups under different parents, adjacent in column order, at equal depth.
type Name struct {
	First string  `parquet:"first"`
	Last  *string `parquet:"last"`
}

type Owner struct {
	Age  int32 `parquet:"age"`
	Name Name  `parquet:"name"`
}

type Agent struct {
	Name  Name    `parquet:"name"`
	Phone *string `parquet:"phone"`
}

type Samename struct {
	Owner Owner   `parquet:"owner"`
	Agent Agent   `parquet:"agent"`
	Tags  []int32 `parquet:"tags"`
	Name  Name    `parquet:"name"`
}
