package solo

// Solo: a schema with exactly one column, so that the last page of one row group and the first page of
// the next belong to the same column path.
type Solo struct {
	ID int64 `parquet:"id"`
}
