package three

// Three: required, optional and repeated column for history enumeration.
type Three struct {
	ID   int64   `parquet:"id"`
	Name *string `parquet:"name"`
	Tags []int32 `parquet:"tags"`
}
