package t0202

type G1 struct {
	F0x0 *int32
	F0x1 int64
	F0x2 float32
}

type T struct {
	F0 G1
}
