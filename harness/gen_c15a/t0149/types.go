package t0149


type T struct {
	F0 *int32
	F1 *int64
	F2 float32
	F3 *float64
}
