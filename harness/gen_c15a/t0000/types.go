package t0000


type T struct {
	F0 int32
}
