package t9000

type G1 struct {
	Âge float64 `parquet:"âge"`
	Über *bool `parquet:"über"`
}

type T struct {
	Été int32 `parquet:"été"`
	Équipe *G1 `parquet:"équipe"`
	Ñandú string `parquet:"ñandú"`
}
