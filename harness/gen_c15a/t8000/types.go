package t8000

type Data struct {
	Size int64 `parquet:"size"`
}

type Meta struct {
	Data Data `parquet:"data"`
	Kind *string `parquet:"kind"`
}

type Metadata struct {
	Size int32 `parquet:"size"`
	Ratio *float64 `parquet:"ratio"`
}

type T struct {
	Meta Meta `parquet:"meta"`
	Metadata *Metadata `parquet:"metadata"`
}
