package t0001


type T struct {
	F0 *int32
}
