package t9001

type T struct {
	Ωmega int64 `parquet:"ωmega"`
	Жук *string `parquet:"жук"`
	Plain bool `parquet:"plain"`
}
