package t0005


type T struct {
	F0 *int32
	F1 *int64
}
