package t8001

type Bc struct {
	X int32 `parquet:"x"`
}

type A struct {
	Bc *Bc `parquet:"bc"`
}

type C struct {
	Y string `parquet:"y"`
}

type Ab struct {
	C C `parquet:"c"`
}

type T struct {
	A A `parquet:"a"`
	Ab *Ab `parquet:"ab"`
}
