package t0064

type G2 struct {
	F1x0x0 int64
}

type G1 struct {
	F1x0 *G2
}

type T struct {
	F0 *int32
	F1 *G1
}
