package t0122

type G2 struct {
	F0x1x0 int64
}

type G1 struct {
	F0x0 int32
	F0x1 G2
}

type T struct {
	F0 *G1
}
