package t8002

type Session_stats struct {
	Hits int64 `parquet:"hits"`
}

type Session struct {
	Start int64 `parquet:"start"`
	Agent *string `parquet:"agent"`
}

type Ev struct {
	Kind string `parquet:"kind"`
}

type T struct {
	Session_stats Session_stats `parquet:"session_stats"`
	Session *Session `parquet:"session"`
	Events Ev `parquet:"events"`
	Ev *Ev `parquet:"ev"`
}
