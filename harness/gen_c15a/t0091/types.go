package t0091

type G2 struct {
	F0x0x0 int32
}

type G1 struct {
	F0x0 G2
}

type T struct {
	F0 *G1
	F1 *int64
}
