import PQ.Model.Schema
/-!
# Page statistics accumulators, exactly as the templates

Values are PLAIN byte strings (little-endian bit patterns for numerics, raw bytes for strings).
Orders: signed / unsigned / IEEE-754 `<` on bit patterns / bytewise lexicographic.
-/
namespace PQ

/-- two's complement value of an `n`-byte little-endian pattern -/
def toSigned (bytes : Nat) (x : Nat) : Int :=
  if x < 2 ^ (8 * bytes - 1) then (x : Int) else (x : Int) - (2 ^ (8 * bytes) : Nat)

/-- IEEE-754 classification on bit patterns: `e` exponent bits, `m` mantissa bits -/
def fIsNaN (e m : Nat) (x : Nat) : Bool := (x / 2^m % 2^e == 2^e - 1) && (x % 2^m != 0)

/-- order key of a non-NaN float: sign-magnitude to integer, so that −0 and +0 coincide -/
def fKey (e m : Nat) (x : Nat) : Int :=
  let mag : Int := ((x % 2^(e+m) : Nat) : Int)
  if x / 2^(e+m) % 2 = 1 then -mag else mag

/-- Go's `a < b` on floats given as bit patterns -/
def fLt (e m : Nat) (a b : Nat) : Bool :=
  !fIsNaN e m a && !fIsNaN e m b && decide (fKey e m a < fKey e m b)

/-- `a < b` in the column type's order, on PLAIN values (numerics: LE bit patterns) -/
def vLt (ty : PType) (a b : Bytes) : Bool :=
  match ty with
  | .i32 => decide (toSigned 4 (fromLE a) < toSigned 4 (fromLE b))
  | .i64 => decide (toSigned 8 (fromLE a) < toSigned 8 (fromLE b))
  | .u32 | .u64 => decide (fromLE a < fromLE b)
  | .f32 => fLt 8 23 (fromLE a) (fromLE b)
  | .f64 => fLt 11 52 (fromLE a) (fromLE b)
  | .str => decide (a < b)       -- List Nat lexicographic = Go string comparison (bytewise)
  | .bool => false

/-- `math.Max<T>` as a PLAIN value: the initial `min` of the numeric accumulators -/
def maxOfType : PType → Bytes
  | .i32 => leBytes 4 (2^31 - 1)
  | .u32 => leBytes 4 (2^32 - 1)
  | .i64 => leBytes 8 (2^63 - 1)
  | .u64 => leBytes 8 (2^64 - 1)
  | .f32 => leBytes 4 0x7f7fffff
  | .f64 => leBytes 8 0x7fefffffffffffff
  | _ => []

def zeroOfType (ty : PType) : Bytes := leBytes ty.width 0

structure Stats where
  min : Bytes
  max : Bytes
  nils : Nat := 0
  nonNils : Nat := 0
deriving Repr, BEq, DecidableEq

def Stats.init (ty : PType) : Stats :=
  match ty with
  | .str => { min := [], max := [] }
  | .bool => { min := [], max := [] }
  | _ => { min := maxOfType ty, max := zeroOfType ty }

/-- one non-null value -/
def Stats.addVal (ty : PType) (s : Stats) (v : Bytes) : Stats :=
  match ty with
  | .bool => { s with nonNils := s.nonNils + 1 }
  | .str =>
    -- `seen` of the templates is `nonNils > 0`
    let mn := if s.nonNils = 0 then v else if vLt .str v s.min then v else s.min
    let mx := if s.nonNils = 0 then v else if vLt .str s.max v then v else s.max
    { s with min := mn, max := mx, nonNils := s.nonNils + 1 }
  | _ =>
    let mn := if vLt ty v s.min then v else s.min
    let mx := if vLt ty s.max v then v else s.max
    { s with min := mn, max := mx, nonNils := s.nonNils + 1 }

def Stats.addNull (s : Stats) : Stats := { s with nils := s.nils + 1 }

/-- `add(vals, defs)` of the optional accumulators / `add(val)` of the required ones, entry by entry -/
def Stats.addEntry (ty : PType) (maxDef : Nat) (s : Stats) (e : Entry Bytes) : Stats :=
  if e.dl < maxDef then s.addNull
  else match e.val with
    | some v => s.addVal ty v
    | none => s      -- Go would index past `vals`: cannot happen for striped input

/-- what `NullCount()`, `Min()`, `Max()` return for a page: `(null_count?, min?, max?)` -/
def Stats.result (ty : PType) (required : Bool) (s : Stats) : Option Nat × Option Bytes × Option Bytes :=
  match ty, required with
  | .bool, true => (none, none, none)
  | .bool, false => (some s.nils, none, none)
  | .str, req =>
    ((if req then none else some s.nils),
     (if s.nonNils = 0 then none else some s.min),
     (if s.nonNils = 0 then none else some s.max))
  | _, true => (none, some s.min, some s.max)
  | _, false => (some s.nils, (if s.nonNils = 0 then none else some s.min), (if s.nonNils = 0 then none else some s.max))

end PQ
