import PQ.Model.Dremel
/-!
# The generator's level arithmetic (`cmd/parquetgen/fields/fields.go`)

`parquetgen` decides which code to emit for a column from a handful of integer functions over the
chain of fields from the root struct to the leaf: `MaxDef`, `MaxRep`, `MaxRepForDef`, `DefIndex`,
`NilField`, `IsRep`.  They are mirrored here loop for loop (early returns included) over the list of
repetition types of the chain; the Go functions walk `Reverse(f.Chain())`, which starts with the root
(repetition type `Required`), so the mirrors walk `.req :: rts`.
-/
namespace PQ.GenLevels
open PQ

/-- `Reverse(f.Chain())` as repetition types: the root first -/
def chain (rts : List Rep) : List Rep := .req :: rts

/-- `fld.RepetitionType == Optional || fld.RepetitionType == Repeated` -/
def counts (r : Rep) : Bool := r == .opt || r == .rpt

/-- `Field.MaxDef` -/
def gMaxDef (rts : List Rep) : Nat := (chain rts).foldl (fun out r => if counts r then out + 1 else out) 0

/-- `Field.MaxRep` -/
def gMaxRep (rts : List Rep) : Nat := (chain rts).foldl (fun out r => if r == .rpt then out + 1 else out) 0

/-- the loop of `Field.MaxRepForDef(def)` -/
def maxRepForDefGo (d : Nat) : List Rep → Nat → Nat → Nat
  | [], out, _ => out
  | r :: rs, out, defs =>
    let defs := if counts r then defs + 1 else defs
    if defs = d then out else maxRepForDefGo d rs (if r == .rpt then out + 1 else out) defs

/-- `Field.MaxRepForDef(def)` -/
def gMaxRepForDef (rts : List Rep) (d : Nat) : Nat := maxRepForDefGo d (chain rts) 0 0

/-- the loop of `Field.DefIndex(def)` -/
def defIndexGo (d : Nat) : List Rep → Nat → Nat → Nat
  | [], _, _ => d
  | r :: rs, count, i =>
    let count := if counts r then count + 1 else count
    if count = d then i else defIndexGo d rs count (i + 1)

/-- `Field.DefIndex(def)` -/
def gDefIndex (rts : List Rep) (d : Nat) : Nat := defIndexGo d (chain rts) 0 0

/-- the loop of `Field.NilField(n)` over `f.RepetitionTypes()` (no root): `(j, o, reps)` -/
def nilFieldGo (n : Nat) : List Rep → Nat → Nat → Nat → Rep → Nat × Rep × Nat
  | [], _, reps, j, o => (j, o, reps)
  | r :: rs, count, reps, j, _ =>
    let count' := if counts r then count + 1 else count
    let reps' := if r == .rpt then reps + 1 else reps
    if count' > n then (j, r, reps') else
    match rs with
    | [] => (j, r, reps')
    | _ => nilFieldGo n rs count' reps' (j + 1) r

/-- `Field.NilField(n)`: index of the field, its repetition type, repeated fields up to it -/
def gNilField (rts : List Rep) (n : Nat) : Nat × Rep × Nat := nilFieldGo n rts 0 0 0 .req

/-- `Field.IsRep(rep)` -/
def gIsRep (rts : List Rep) (rep : Nat) : Bool := gMaxRep rts == rep

/-- the fields strictly above the one that carries definition level `d` (`d ≥ 1`): everything before the
`d`-th field that is not required -/
def beforeDef : Nat → List Rep → List Rep
  | 0, _ => []
  | _, [] => []
  | d+1, r :: ts => if counts r then (if d = 0 then [] else r :: beforeDef d ts) else r :: beforeDef (d+1) ts

def repCode : Rep → Nat | .req => 0 | .opt => 1 | .rpt => 2

/-- the line the harness prints for a chain: everything the functions return on all their meaningful
arguments -/
def showLevels (rts : List Rep) : String :=
  let md := gMaxDef rts
  let ds := List.range (md + 2)
  s!"{md} {gMaxRep rts} " ++ ",".intercalate (ds.map fun d => toString (gMaxRepForDef rts d)) ++ " " ++
    ",".intercalate (ds.map fun d => toString (gDefIndex rts d)) ++ " " ++
    ",".intercalate (ds.map fun n => let (j, o, r) := gNilField rts n; s!"{j}:{repCode o}:{r}") ++
    " isrep=" ++ "".intercalate (((List.range (gMaxRep rts + 2)).filter (gIsRep rts)).map toString)

end PQ.GenLevels
