import PQ.Model.ParseStruct
/-!
# `structs.Struct`: a Go struct definition regenerated from a footer schema
(cmd/parquetgen/structs/structs.go)
-/
namespace PQ.Structs
open PQ.Parse

structure SE where
  name : String
  ty : Option Nat := none
  rep : Option Nat := none
  nc : Option Nat := none
deriving Repr

/-- `parquetTypes[Type.String()]` -/
def goType : Nat → String
  | 0 => "bool" | 1 => "int32" | 2 => "int64" | 4 => "float32" | 5 => "float64" | 6 => "string" | _ => ""

/-- `strings.Title` on a name without separators: first character upper-cased -/
def title (s : String) : String := match s.toList with
  | c :: cs => String.ofList (c.toUpper :: cs)
  | [] => ""

/-- `field(elem)` -/
def fieldOf (e : SE) : FieldDecl :=
  let n := title e.name
  let t := match e.ty with | some k => goType k | none => n
  { names := [n], ty := if e.rep = some 1 then .star (.ident t) else .ident t, tag := some ("parquet:\"" ++ e.name ++ "\"") }

/-- `getStruct(parent, children)`: number of elements consumed and the type declarations (own
first, nested ones after it in order); `none` = index out of range in Go -/
def getStruct : Nat → SE → List SE → Option (Nat × List TypeDecl)
  | 0, _, _ => none
  | fuel+1, parent, children =>
    let rec loop : Nat → Nat → Nat → List FieldDecl → List TypeDecl → Option (Nat × List FieldDecl × List TypeDecl)
      | 0, _, j, fs, nested => some (j, fs, nested)
      | k+1, i, j, fs, nested =>
        match children[i + j]? with
        | none => none
        | some ch =>
          if (ch.nc.getD 0) > 0 then
            match getStruct fuel ch (children.drop (i + j + 1)) with
            | none => none
            | some (n, ds) => loop k (i + 1) (j + n) (fs ++ [fieldOf ch]) (nested ++ ds)
          else loop k (i + 1) j (fs ++ [fieldOf ch]) nested
    match loop (parent.nc.getD 0) 0 0 [] [] with
    | none => none
    | some (j, fs, nested) => some (parent.nc.getD 0 + j, { name := title parent.name, fields := fs } :: nested)

/-- `Struct(structName, schema)` as declarations -/
def structOf (structName : String) (schema : List SE) : Option (List TypeDecl) :=
  match schema with
  | [] => some []
  | root :: rest => (getStruct (schema.length + 1) { root with name := structName } rest).map (·.2)

/-- the Go text `Struct` returns -/
def renderField (f : FieldDecl) : String :=
  let rec rt : TExpr → String
    | .ident n => n
    | .star t => "*" ++ rt t
    | _ => "?"
  s!"{f.names.headD ""} {rt f.ty} `{f.tag.getD ""}`"

def render (ds : List TypeDecl) : String :=
  "\n\n".intercalate (ds.map fun d => "type " ++ d.name ++ " struct {\n\t" ++ String.join (d.fields.map fun f => "\n" ++ renderField f) ++ "\n}")

end PQ.Structs
