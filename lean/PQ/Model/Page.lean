import PQ.Model.Rle
import PQ.Model.Stats
/-!
# Data pages: PLAIN values, payload layout, page header
-/
namespace PQ
open PQ.Thrift

/-- one byte from up to 8 booleans, LSB first -/
def packByte : List Bool → Nat
  | [] => 0
  | b :: bs => (if b then 1 else 0) + 2 * packByte bs

def packBoolsAux : Nat → List Bool → Bytes
  | 0, _ => []
  | fuel+1, bs => if bs.isEmpty then [] else packByte (bs.take 8) :: packBoolsAux fuel (bs.drop 8)

/-- booleans bit-packed LSB first, `(n+7)/8` bytes (templates `BoolField.Write`) -/
def packBools (bs : List Bool) : Bytes := packBoolsAux bs.length bs

/-- PLAIN encoding of a page's non-null values -/
def plainValues (ty : PType) (vals : List Bytes) : Bytes :=
  match ty with
  | .str => vals.flatMap fun v => le32 v.length ++ v
  | .bool => packBools (vals.map fun v => v.head?.getD 0 != 0)
  | _ => vals.flatten

/-- everything a column holds for one page: the striped entries of the records added to it -/
abbrev PageEntries := List (Entry Bytes)

def nonNull (es : PageEntries) : List Bytes := es.filterMap (·.val)

/-- uncompressed page payload: rep levels ‖ def levels ‖ values (`OptionalField.DoWrite`), or just
the values for a `RequiredField` -/
def pagePayload (c : Col) (es : PageEntries) : Bytes :=
  if c.isRequired then plainValues c.ty (nonNull es)
  else
    (if c.maxRep > 0 then encode (bitsLen c.maxRep) (es.map (·.rep)) else []) ++
    encode (bitsLen c.maxDef) (es.map (·.dl)) ++
    plainValues c.ty (nonNull es)

def pageStats (c : Col) (es : PageEntries) : Stats :=
  es.foldl (Stats.addEntry c.ty (if c.isRequired then 0 else c.maxDef)) (Stats.init c.ty)

def statsT (r : Option Nat × Option Bytes × Option Bytes) : TVal :=
  .struct ((match r.1 with | some n => [(3, TVal.int 6 n)] | none => []) ++
           (match r.2.2 with | some b => [(5, TVal.bin b)] | none => []) ++
           (match r.2.1 with | some b => [(6, TVal.bin b)] | none => []))

/-- `WritePageHeader`'s thrift struct -/
def pageHeaderT (uncompressed compressed numValues : Nat) (stats : TVal) : TVal :=
  .struct [(1, .int 5 0), (2, .int 5 uncompressed), (3, .int 5 compressed),
           (5, .struct [(1, .int 5 numValues), (2, .int 5 0), (3, .int 5 3), (4, .int 5 3), (5, stats)])]

/-- a codec as the model sees it: a compression function (its graph is supplied by the external
library through the harness; `0` = uncompressed) -/
structure Codec where
  id : Nat
  compress : Bytes → Bytes

def Codec.apply (k : Codec) (b : Bytes) : Bytes := if k.id = 0 then b else k.compress b

/-- header bytes and payload bytes of one page as they reach the sink (two `Write` calls) -/
def pageBytes (k : Codec) (c : Col) (es : PageEntries) : Bytes × Bytes :=
  let raw := pagePayload c es
  let comp := k.apply raw
  let st := statsT ((pageStats c es).result c.ty c.isRequired)
  ((pageHeaderT raw.length comp.length es.length st).enc, comp)

end PQ
