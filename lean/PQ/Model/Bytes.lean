/-!
# Bytes, little-endian integers, LEB128

Bytes are modelled as `Nat` (< 256 is a well-formedness fact proved where it
matters); byte strings are `List Nat`.  This keeps `omega` usable everywhere.
-/
namespace PQ

abbrev Byte := Nat
abbrev Bytes := List Nat

/-- `n` little-endian bytes of `x` (low bytes first; truncating, like `binary.LittleEndian.PutUintN`). -/
def leBytes : Nat → Nat → Bytes
  | 0, _ => []
  | n+1, x => x % 256 :: leBytes n (x / 256)

/-- little-endian value of a byte string -/
def fromLE : Bytes → Nat
  | [] => 0
  | b :: bs => b + 256 * fromLE bs

def le32 (n : Nat) : Bytes := leBytes 4 n
def le64 (n : Nat) : Bytes := leBytes 8 n

/-- Go's `leb128` of `internal/rle` (the loop test is `value & 0xFFFFFF80 != 0`, i.e. it only
looks at the low 32 bits). -/
def leb128 (value : Nat) : Bytes :=
  if h : (value % 2^32) / 128 ≠ 0 then (value % 128 + 128) :: leb128 (value / 128)
  else [value % 128]
termination_by value
decreasing_by
  have : value % 2^32 ≤ value := Nat.mod_le _ _
  omega

/-- unsigned LEB128 (ULEB128, as the Parquet / thrift specifications define it) -/
def uleb (value : Nat) : Bytes :=
  if h : value / 128 ≠ 0 then (value % 128 + 128) :: uleb (value / 128)
  else [value % 128]
termination_by value
decreasing_by omega

/-- specification reader for ULEB128: value and rest; `none` on truncation -/
def readLeb : Nat → Bytes → Option (Nat × Bytes)
  | 0, _ => none
  | _, [] => none
  | fuel+1, b :: bs =>
    if b < 128 then some (b, bs)
    else match readLeb fuel bs with
      | none => none
      | some (x, rest) => some (b % 128 + 128 * x, rest)

def hexDigit (n : Nat) : Char :=
  if n < 10 then Char.ofNat (48 + n) else Char.ofNat (87 + n)

/-- hex text of a byte string; the empty string is written `-` (line protocol) -/
def toHex (bs : Bytes) : String :=
  if bs.isEmpty then "-" else
  String.ofList (bs.flatMap fun b => [hexDigit (b / 16 % 16), hexDigit (b % 16)])

def hexVal (c : Char) : Nat :=
  if c.isDigit then c.toNat - 48 else if c.toNat ≥ 97 then c.toNat - 87 else c.toNat - 55

def unhexList : List Char → Bytes
  | a :: b :: rest => (hexVal a * 16 + hexVal b) :: unhexList rest
  | _ => []

def unhex (s : String) : Bytes := unhexList s.toList

end PQ
