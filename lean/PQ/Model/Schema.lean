import PQ.Model.Bytes
import PQ.Model.Dremel
import PQ.Model.Thrift
/-!
# Columns, physical types and the footer schema (`schema.schema()` of parquet.go)
-/
namespace PQ
open PQ.Thrift

inductive PType | i32 | i64 | u32 | u64 | f32 | f64 | bool | str
deriving DecidableEq, Repr, BEq

/-- thrift `Type` enum -/
def PType.phys : PType → Nat
  | .bool => 0 | .i32 => 1 | .u32 => 1 | .i64 => 2 | .u64 => 2 | .f32 => 4 | .f64 => 5 | .str => 6

/-- thrift `ConvertedType` (only UINT_32 = 13 and UINT_64 = 14 are set by the templates) -/
def PType.converted : PType → Option Nat
  | .u32 => some 13 | .u64 => some 14 | _ => none

/-- PLAIN width in bytes of fixed-width types -/
def PType.width : PType → Nat
  | .i32 => 4 | .u32 => 4 | .f32 => 4 | .i64 => 8 | .u64 => 8 | .f64 => 8 | .bool => 1 | .str => 0

def Rep.code : Rep → Nat | .req => 0 | .opt => 1 | .rpt => 2

/-- one leaf column: `path` as in `Field.Path`, `reps` as in `Field.Types`
(`[req]` for a `RequiredField`, one entry per path element for an `OptionalField`) -/
structure Col where
  path : List String
  reps : List Rep
  ty : PType
deriving Repr

/-- `RequiredField` (no levels) vs `OptionalField` -/
def Col.isRequired (c : Col) : Bool := c.reps.all (· == .req)

def Col.name (c : Col) : String := ".".intercalate c.path

def Col.maxDef (c : Col) : Nat := PQ.maxDef c.reps
def Col.maxRep (c : Col) : Nat := PQ.maxRep c.reps

/-- repetition type recorded for the leaf: `RepetitionRequired` for a `RequiredField`, otherwise
`fieldFuncs[types[len(types)-1]]` -/
def Col.leafRep (c : Col) : Rep := if c.isRequired then .req else c.reps.getLast?.getD .req

structure SElem where
  name : String
  ty : Option Nat := none
  rep : Option Nat := none
  numChildren : Option Nat := none
  converted : Option Nat := none
deriving Repr, BEq, DecidableEq

def strBytes (s : String) : Bytes := s.toUTF8.toList.map (·.toNat)

def SElem.toT (e : SElem) : TVal :=
  .struct ((match e.ty with | some t => [(1, TVal.int 5 t)] | none => []) ++
           (match e.rep with | some r => [(3, TVal.int 5 r)] | none => []) ++
           [(4, TVal.bin (strBytes e.name))] ++
           (match e.numChildren with | some n => [(5, TVal.int 5 n)] | none => []) ++
           (match e.converted with | some c => [(6, TVal.int 5 c)] | none => []))

def lastPart (name : String) : String := (name.splitOn ".").getLast?.getD name

/-- the loop body of `schema()` over the group names of one path: `m` maps a *bare name* to the
index of its element in `out`; returns `none` where the Go code indexes `f.Types[i]` out of range. -/
def schemaGroups (types : List Rep) : Nat → List String → (List SElem × List (String × Nat) × Nat) →
    Option (List SElem × List (String × Nat) × Nat)
  | _, [], st => some st
  | i, name :: names, (out, m, children) =>
    match m.lookup name with
    | some idx =>
      let out := out.modify idx (fun e => { e with numChildren := some (e.numChildren.getD 0 + 1) })
      schemaGroups types (i+1) names (out, m, children)
    | none =>
      match types[i]? with
      | none => none
      | some rt =>
        let e : SElem := { name := lastPart name, rep := some rt.code, numChildren := some 1 }
        schemaGroups types (i+1) names (out ++ [e], (name, out.length) :: m, children + 1)

def schemaLoop : List Col → (List SElem × List (String × Nat) × Nat) → Option (List SElem × Nat)
  | [], (out, _, children) => some (out, children)
  | c :: cs, (out, m, children) =>
    let leaf : SElem := { name := c.path.getLast?.getD "", ty := some c.ty.phys, rep := some c.leafRep.code, converted := c.ty.converted }
    if c.path.length > 1 then
      match schemaGroups c.reps 0 c.path.dropLast (out, m, children) with
      | none => none
      | some (out, m, children) => schemaLoop cs (out ++ [leaf], m, children)
    else if c.path.length = 1 then schemaLoop cs (out ++ [leaf], m, children + 1)
    else none   -- f.Path[len-1] on an empty path panics

/-- mirror of `schema.schema()`: the flattened footer schema (root first); `none` = Go panics -/
def schemaElems (cols : List Col) : Option (List SElem) :=
  match schemaLoop cols ([{ name := "root" }], [], 0) with
  | none => none
  | some (out, children) => some (out.modify 0 (fun e => { e with numChildren := some children }))

end PQ
