import PQ.Model.Bytes
import PQ.Model.Dremel
import PQ.Model.Thrift
/-!
# Columns, physical types and the footer schema (`schema.schema()` of parquet.go)
-/
namespace PQ
open PQ.Thrift

inductive PType | i32 | i64 | u32 | u64 | f32 | f64 | bool | str
deriving DecidableEq, Repr, BEq

/-- thrift `Type` enum -/
def PType.phys : PType → Nat
  | .bool => 0 | .i32 => 1 | .u32 => 1 | .i64 => 2 | .u64 => 2 | .f32 => 4 | .f64 => 5 | .str => 6

/-- thrift `ConvertedType` (only UINT_32 = 13 and UINT_64 = 14 are set by the templates) -/
def PType.converted : PType → Option Nat
  | .u32 => some 13 | .u64 => some 14 | _ => none

/-- PLAIN width in bytes of fixed-width types -/
def PType.width : PType → Nat
  | .i32 => 4 | .u32 => 4 | .f32 => 4 | .i64 => 8 | .u64 => 8 | .f64 => 8 | .bool => 1 | .str => 0

def Rep.code : Rep → Nat | .req => 0 | .opt => 1 | .rpt => 2

/-- one leaf column: `path` as in `Field.Path`, `reps` as in `Field.Types`
(`[req]` for a `RequiredField`, one entry per path element for an `OptionalField`) -/
structure Col where
  path : List String
  reps : List Rep
  ty : PType
deriving Repr

/-- `RequiredField` (no levels) vs `OptionalField` -/
def Col.isRequired (c : Col) : Bool := c.reps.all (· == .req)

def Col.name (c : Col) : String := ".".intercalate c.path

def Col.maxDef (c : Col) : Nat := PQ.maxDef c.reps
def Col.maxRep (c : Col) : Nat := PQ.maxRep c.reps

/-- repetition type recorded for the leaf: `RepetitionRequired` for a `RequiredField`, otherwise
`fieldFuncs[types[len(types)-1]]` -/
def Col.leafRep (c : Col) : Rep := if c.isRequired then .req else c.reps.getLast?.getD .req

structure SElem where
  name : String
  ty : Option Nat := none
  rep : Option Nat := none
  numChildren : Option Nat := none
  converted : Option Nat := none
deriving Repr, BEq, DecidableEq

def strBytes (s : String) : Bytes := s.toUTF8.toList.map (·.toNat)

def SElem.toT (e : SElem) : TVal :=
  .struct ((match e.ty with | some t => [(1, TVal.int 5 t)] | none => []) ++
           (match e.rep with | some r => [(3, TVal.int 5 r)] | none => []) ++
           [(4, TVal.bin (strBytes e.name))] ++
           (match e.numChildren with | some n => [(5, TVal.int 5 n)] | none => []) ++
           (match e.converted with | some c => [(6, TVal.int 5 c)] | none => []))

def lastPart (name : String) : String := (name.splitOn ".").getLast?.getD name

/-- `addChild(parent)`: one more direct child of the group at path `parent` (the root when the
path names no group) -/
def addChild (parent : List String) (st : List SElem × List (List String × Nat) × Nat) : List SElem × List (List String × Nat) × Nat :=
  let (out, groups, children) := st
  match groups.lookup parent with
  | none => (out, groups, children + 1)
  | some idx => (out.modify idx (fun e => { e with numChildren := some (e.numChildren.getD 0 + 1) }), groups, children)

/-- the inner loop of `schema()` over the group prefixes of one path: groups are keyed by their
full path; a missing `Types[i]` means required. Returns the state and the last group's key. -/
def schemaGroups (types : List Rep) (path : List String) : Nat → List String → List String →
    (List SElem × List (List String × Nat) × Nat) → (List SElem × List (List String × Nat) × Nat) × List String
  | _, [], parent, st => (st, parent)
  | i, name :: names, parent, st =>
    let key := path.take (i + 1)
    let (out, groups, children) := st
    match groups.lookup key with
    | some _ => schemaGroups types path (i+1) names key st
    | none =>
      let rt := (types[i]?).getD .req
      let e : SElem := { name := lastPart name, rep := some rt.code, numChildren := some 0 }
      let st' := addChild parent (out ++ [e], (key, out.length) :: groups, children)
      schemaGroups types path (i+1) names key st'

def schemaLoop : List Col → (List SElem × List (List String × Nat) × Nat) → Option (List SElem × Nat)
  | [], (out, _, children) => some (out, children)
  | c :: cs, st =>
    if c.path.length = 0 then none else   -- f.Path[len-1] on an empty path panics
    let leaf : SElem := { name := c.path.getLast?.getD "", ty := some c.ty.phys, rep := some c.leafRep.code, converted := c.ty.converted }
    let (st, parent) := schemaGroups c.reps c.path 0 c.path.dropLast [] st
    let (out, groups, children) := st
    schemaLoop cs (addChild parent (out ++ [leaf], groups, children))

/-- mirror of `schema.schema()`: the flattened footer schema (root first); `none` = Go panics -/
def schemaElems (cols : List Col) : Option (List SElem) :=
  match schemaLoop cols ([{ name := "root" }], [], 0) with
  | none => none
  | some (out, children) => some (out.modify 0 (fun e => { e with numChildren := some children }))

end PQ
