import PQ.Model.Writer
import PQ.Model.Reader
import PQ.Model.Fault
import PQ.Model.SinkFault
import PQ.Model.Spec
import PQ.Model.SpecWriter
import PQ.Model.Snappy
import PQ.Model.Introspect
import PQ.Model.ParseStruct
import PQ.Model.Structs
/-!
# Line-protocol text ↔ model values (driver glue; not part of any theorem)
-/
namespace PQ

def isHexChar (c : Char) : Bool := c.isDigit || (c.toNat ≥ 97 && c.toNat ≤ 102)

def parseHexPairs : Nat → List Char → Bytes × List Char
  | 0, cs => ([], cs)
  | fuel+1, a :: b :: rest =>
    if isHexChar a && isHexChar b then
      let (bs, r) := parseHexPairs fuel rest
      ((hexVal a * 16 + hexVal b) :: bs, r)
    else ([], a :: b :: rest)
  | _, cs => ([], cs)

/-- elements separated by `,` up to the closing `]` (already past the opening `[`) -/
def parseElems {β : Type} (p : List Char → Option (β × List Char)) : Nat → List Char → Option (List β × List Char)
  | 0, _ => none
  | _, ']' :: rest => some ([], rest)
  | fuel+1, cs =>
    match p cs with
    | none => none
    | some (x, ',' :: rest) =>
      (match parseElems p fuel rest with
       | some (xs, r) => some (x :: xs, r)
       | none => none)
    | some (x, ']' :: rest) => some ([x], rest)
    | some _ => none

def parseProj : (ts : List Rep) → List Char → Option (Proj Bytes ts × List Char)
  | [], 'x' :: cs => let (bs, r) := parseHexPairs cs.length cs; some (bs, r)
  | [], _ => none
  | .req :: ts, cs => parseProj ts cs
  | .opt :: _, 'n' :: cs => some ((none : Option _), cs)
  | .opt :: ts, 's' :: cs =>
    (match parseProj ts cs with
     | some (v, r) => some ((some v : Option _), r)
     | none => none)
  | .opt :: _, _ => none
  | .rpt :: ts, '[' :: cs =>
    (match parseElems (parseProj ts) (cs.length + 1) cs with
     | some (vs, r) => some ((vs : List _), r)
     | none => none)
  | .rpt :: _, _ => none

def hexBody (bs : Bytes) : String := String.ofList (bs.flatMap fun b => [hexDigit (b / 16 % 16), hexDigit (b % 16)])

def showProj : (ts : List Rep) → Proj Bytes ts → String
  | [], v => "x" ++ hexBody v
  | .req :: ts, v => showProj ts v
  | .opt :: ts, v => match (v : Option (Proj Bytes ts)) with
    | none => "n"
    | some x => "s" ++ showProj ts x
  | .rpt :: ts, v => "[" ++ ",".intercalate ((v : List (Proj Bytes ts)).map (showProj ts)) ++ "]"

def parseRep : Char → Option Rep
  | 'r' => some .req | 'o' => some .opt | 'm' => some .rpt | _ => none

def parsePType : String → Option PType
  | "i32" => some .i32 | "i64" => some .i64 | "u32" => some .u32 | "u64" => some .u64
  | "f32" => some .f32 | "f64" => some .f64 | "bool" => some .bool | "str" => some .str | _ => none

/-- `path:reps:type`, path elements joined by `.` -/
def parseCol (s : String) : Option Col :=
  match s.splitOn ":" with
  | [p, r, t] =>
    match r.toList.mapM parseRep, parsePType t with
    | some reps, some ty => some { path := p.splitOn ".", reps := reps, ty := ty }
    | _, _ => none
  | _ => none

def parseCols (s : String) : Option (List Col) := (s.splitOn ";").mapM parseCol

/-- a record: one projection per column, separated by `|`; striped on the spot -/
def parseRec (cols : List Col) (s : String) : Option Rec :=
  let parts := s.splitOn "|"
  if parts.length ≠ cols.length then none else
  (cols.zip parts).mapM fun (c, p) =>
    match parseProj c.reps p.toList with
    | some (v, []) => some (stripeTop c.reps v)
    | _ => none

/-- ops separated by `;` : `a<rec>` | `w` | `c` -/
def parseOps (cols : List Col) (s : String) : Option (List Op) :=
  if s = "-" then some [] else
  (s.splitOn ";").mapM fun t =>
    match t.toList with
    | ['w'] => some Op.write
    | ['c'] => some Op.close
    | 'a' :: rest => (parseRec cols (String.ofList rest)).map Op.add
    | _ => none

/-- the codec's graph as supplied by the harness: `payload=compressed` pairs separated by `,` -/
def parseCodec (id : Nat) (tab : String) : Codec :=
  let pairs : List (Bytes × Bytes) :=
    if tab = "-" then [] else
    (tab.splitOn ",").filterMap fun kv =>
      match kv.splitOn "=" with
      | [k, v] => some (unhex k, unhex v)
      | _ => none
  { id := id, compress := fun b => (pairs.lookup b).getD [0xde, 0xad] }

def showCalls (calls : List (Option (List Bytes))) : String :=
  ";".intercalate (calls.map fun c => match c with
    | none => "panic"
    | some ws => if ws.isEmpty then "-" else ",".intercalate (ws.map fun w => toString w.length))

/-- for every `k` from 1 to the number of sink writes of the run: the line of the run over a sink failing at
write `k` (`PQ/Model/SinkFault.lean`), separated by blanks -/
def showFaultRuns (calls : List (Option (List Bytes))) : String :=
  let total := ((calls.map fun c => (c.getD []).length).sum)
  " ".intercalate ((List.range total).map fun k => showFaultRun (faultRun calls (k + 1)))

/-- decompression graph: `compressed=raw` pairs -/
def parseDecomp (tab : String) : Decomp :=
  let pairs : List (Bytes × Bytes) :=
    if tab = "-" then [] else
    (tab.splitOn ",").filterMap fun kv =>
      match kv.splitOn "=" with
      | [k, v] => some (unhex k, unhex v)
      | _ => none
  { snappy := fun b => pairs.lookup b, gzip := fun b => pairs.lookup b }

/-- `Scan` over all columns: the record as `|`-joined projections -/
def scanAll (cols : List Col) (bufs : List ColBuf) : Option (String × List ColBuf) :=
  let rec go : List Col → List ColBuf → Option (List String × List ColBuf)
    | [], _ => some ([], [])
    | c :: cs, bufs =>
      match scanCol c showProj (bufs.head?.getD {}) with
      | none => none
      | some (t, b) =>
        match go cs bufs.tail with
        | none => none
        | some (ts, bs) => some (t :: ts, b :: bs)
  match go cols bufs with
  | none => none
  | some (ts, bs) => some ("|".intercalate ts, bs)

/-- open, then `Next`/`Scan` until `Next` is false (at most rows+3 times): the line `zoo-read` prints -/
def readAll (cols : List Col) (dc : Decomp) (file : Bytes) : String :=
  match openReader cols dc file with
  | .error .err => "open=err rows=0 nexts=0 err=- recs=-"
  | .error .panic => "open=panic rows=0 nexts=0 err=- recs=-"
  | .ok st =>
    let limit := (st.rows + 3).toNat
    let rec loop : Nat → RState → Nat → List String → (String × Nat × List String)
      | 0, st, k, recs => (if st.err then "err" else "ok", k, recs)
      | fuel+1, st, k, recs =>
        match st.next with
        | .error _ => ("panic", k, recs)
        | .ok (false, st) => (if st.err then "err" else "ok", k, recs)
        | .ok (true, st) =>
          if st.err then loop fuel st (k+1) (recs ++ ["-"]) else
          -- `Scan` calls a method on a nil `Field` when no row group was ever loaded
          if !st.fieldsSet ∧ !st.cols.isEmpty then ("panic", k + 1, recs) else
          match scanAll st.cols st.bufs with
          | none => ("panic", k + 1, recs)
          | some (t, bufs) => loop fuel { st with bufs := bufs } (k+1) (recs ++ [t])
    let (status, k, recs) := loop limit st 0 []
    s!"open=ok rows={st.rows} nexts={k} err={status} recs={if recs.isEmpty then "-" else ";".intercalate recs}"

/-- `readAll` over a source that fails during the source-touching API call number `k` (0 = the constructor,
`j` = the `j`-th `Next` that loads a row group; `PQ/Model/Fault.lean`): the line `zoo-read … fail=` prints -/
def readAllF (cols : List Col) (dc : Decomp) (file : Bytes) (k : Nat) : String :=
  match openReaderF cols dc file k with
  | (.error .err, _) => "open=err rows=0 nexts=0 err=- recs=-"
  | (.error .panic, _) => "open=panic rows=0 nexts=0 err=- recs=-"
  | (.ok st, k) =>
    let limit := (st.rows + 3).toNat
    let rec loop : Nat → RState → Nat → Nat → List String → (String × Nat × List String)
      | 0, st, _, n, recs => (if st.err then "err" else "ok", n, recs)
      | fuel+1, st, k, n, recs =>
        match st.nextF k with
        | (.error _, _) => ("panic", n, recs)
        | (.ok (false, st), _) => (if st.err then "err" else "ok", n, recs)
        | (.ok (true, st), k) =>
          if st.err then loop fuel st k (n+1) (recs ++ ["-"]) else
          if !st.fieldsSet ∧ !st.cols.isEmpty then ("panic", n + 1, recs) else
          match scanAll st.cols st.bufs with
          | none => ("panic", n + 1, recs)
          | some (t, bufs) => loop fuel { st with bufs := bufs } k (n+1) (recs ++ [t])
    let (status, n, recs) := loop limit st k 0 []
    s!"open=ok rows={st.rows} nexts={n} err={status} recs={if recs.isEmpty then "-" else ";".intercalate recs}"

def showEntry (e : Entry Bytes) : String :=
  s!"{e.rep}.{e.dl}." ++ (match e.val with | some v => "x" ++ hexBody v | none => "-")

def showEntries (es : List (Entry Bytes)) : String :=
  if es.isEmpty then "-" else ",".intercalate (es.map showEntry)

/-- the (rep, def, value) triples of every column chunk as the independent parser decodes them:
row groups separated by `/`, columns by `|` -/
def showFileEntries (r : V SpecFile) : String :=
  match r with
  | .error e => "invalid " ++ e.replace " " "_"
  | .ok f => if f.rowGroups.isEmpty then "ok -" else
    "ok " ++ "/".intercalate (f.rowGroups.map fun rg => "|".intercalate (rg.chunks.map fun sc => showEntries sc.entries))

/-- reference striping of a list of records (`;`-separated), per column -/
def showStripes (cols : List Col) (recs : String) : Option String :=
  let rs := if recs = "-" then some [] else (recs.splitOn ";").mapM (parseRec cols)
  match rs with
  | none => none
  | some rs => some ("|".intercalate ((List.range cols.length).map fun i => showEntries (rs.flatMap fun r => r.getD i [])))

/-- outcome class of reading `file`: `A` accepted, `E` constructor error, `e` error after iterating, `P` panic -/
def classifyRead (cols : List Col) (dc : Decomp) (file : Bytes) : Char :=
  let r := readAll cols dc file
  if r.startsWith "open=err" then 'E'
  else if r.startsWith "open=panic" then 'P'
  else if (r.splitOn " err=panic").length > 1 then 'P'
  else if (r.splitOn " err=err").length > 1 then 'e'
  else 'A'

def rleClasses (cs : List Char) : String :=
  let rec go : Nat → List Char → List (Char × Nat) → List (Char × Nat)
    | 0, _, acc => acc.reverse
    | _, [], acc => acc.reverse
    | fuel+1, c :: rest, acc =>
      match acc with
      | (d, n) :: tl => if c = d then go fuel rest ((d, n+1) :: tl) else go fuel rest ((c, 1) :: acc)
      | [] => go fuel rest [(c, 1)]
  ",".intercalate ((go (cs.length + 1) cs []).map fun (c, n) => s!"{c}{n}")

def classifyPrefixes (cols : List Col) (dc : Decomp) (file : Bytes) : String :=
  rleClasses ((List.range file.length).map fun n => classifyRead cols dc (file.take n))

/-- a stream of pseudo-random choices from a seed (64-bit LCG, high bits) -/
def lcgChoices (seed : Nat) (n : Nat) : Choices :=
  let rec go : Nat → Nat → List Nat → List Nat
    | 0, _, acc => acc.reverse
    | k+1, s, acc => let s' := (s * 6364136223846793005 + 1442695040888963407) % 2^64; go k s' ((s' / 2^33) :: acc)
  go n (seed + 1) []

def parseMutation (s : String) : Option (Option MutAt) :=
  if s = "-" then some none else
  match s.splitOn "," with
  | [rg, col, page, kind] =>
    match rg.toNat?, col.toNat?, page.toNat? with
    | some rg, some col, some page =>
      let m : Option Mutation := match kind.splitOn ":" with
        | ["dict"] => some .dictPage
        | ["index"] => some .indexPage
        | ["v2"] => some .v2Page
        | ["valenc", e] => e.toNat?.map .valueEncoding
        | ["defenc", e] => e.toNat?.map .defEncoding
        | ["repenc", e] => e.toNat?.map .repEncoding
        | ["codec", e] => e.toNat?.map .codec
        | _ => none
      m.map fun m => some { rg := rg, col := col, page := page, m := m }
    | _, _, _ => none
  | _ => none

/-- flags: `s` statistics, `e` extras, `p<n>` padding value -/
def parseSWCfg (cols : List Col) (codecs flags : String) : Option SWCfg :=
  match (codecs.splitOn ",").mapM String.toNat? with
  | none => none
  | some cds =>
    let padv := match (flags.splitOn "p") with
      | [_, n] => n.toNat?.getD 0
      | _ => 0
    some { cols := cols, codecs := cds, withStats := flags.contains 's', withExtras := flags.contains 'e', padv := padv, noNullCount := flags.contains 'n', mrLabels := flags.contains 'L', fileOffMode := if flags.contains 'o' then 1 else if flags.contains 'O' then 2 else 0 }

def parseRowGroups (cols : List Col) (s : String) : Option (List (List Rec)) :=
  if s = "-" then some [] else
  (s.splitOn "/").mapM fun g => if g = "" then some [] else (g.splitOn ";").mapM (parseRec cols)

/-- codec graph keyed by codec and payload: `<codec>:<payload>=<compressed>` -/
def parseCompress (tab : String) : Nat → Bytes → Bytes :=
  let entries : List ((Nat × Bytes) × Bytes) :=
    if tab = "-" then [] else
    (tab.splitOn ",").filterMap fun kv =>
      match kv.splitOn "=" with
      | [k, v] => (match k.splitOn ":" with
        | [c, p] => c.toNat?.map fun c => ((c, unhex p), unhex v)
        | _ => none)
      | _ => none
  fun c b => (entries.lookup (c, b)).getD [0xde, 0xad]

def showOptInt (o : Option Int) : String := match o with | some n => toString n | none => "-"

def showFMD (f : FMD) : String :=
  let se := f.schema.map fun (ints, name) =>
    s!"{hexBody name}:{showOptInt (ints.lookup 1)}:{showOptInt (ints.lookup 3)}:{showOptInt (ints.lookup 5)}:{showOptInt (ints.lookup 6)}"
  let rgs := f.rowGroups.map fun rg =>
    let cs := rg.columns.map fun ch => match ch.md with
      | none => s!"{ch.fileOffset};nometa"
      | some m => s!"{ch.fileOffset};{".".intercalate (m.path.map hexBody)};{m.ty};{m.codec};{m.numValues};{m.totalUncompressed};{m.totalCompressed};{m.dataPageOffset}"
    s!"{rg.numRows}:{rg.totalByteSize}:{",".intercalate cs}"
  s!"v={f.version} rows={f.numRows} schema={",".intercalate se} rgs={if rgs.isEmpty then "-" else "/".intercalate rgs}"

def showOptBin (o : Option Bytes) : String := match o with | some b => "x" ++ hexBody b | none => "-"

def showStatsFields (st : Option (List (Nat × Thrift.TVal))) : String :=
  match st with
  | none => "nostats"
  | some fs => s!"{showOptInt (getI64 fs 3)};{showOptBin (getBin fs 6)};{showOptBin (getBin fs 5)}"

def showPHdr (h : PHdr) : String :=
  let d := match h.dph with
    | none => "nodph"
    | some (nv, e, de, re, st) => s!"{nv};{e};{de};{re};{showStatsFields st}"
  s!"{h.ty}:{h.uncompressed}:{h.compressed}:{d}"

def showPHdrs (r : R (List PHdr)) : String :=
  match r with
  | .error .err => "err"
  | .error .panic => "panic"
  | .ok hs => "ok " ++ (if hs.isEmpty then "-" else ",".intercalate (hs.map showPHdr))

/-- what an independent walk finds: one header per data page in file order, and for each page its
start offset and `num_values` (for the `PageHeadersAtOffset` expectations) -/
def showWalk (f : SpecFile) : String :=
  let rec chunkPages (pos : Nat) : List SpecPage → List String
    | [] => []
    | p :: ps => s!"{pos}:{p.numValues}" :: chunkPages (pos + p.headerLen + p.compressedLen) ps
  let rec chunks (pos : Nat) : List SpecChunk → List String
    | [] => []
    | c :: cs => ("+".intercalate (chunkPages pos c.pages)) ::
        chunks (pos + (c.pages.map fun p => p.headerLen + p.compressedLen).sum) cs
  let rec rgs (pos : Nat) : List SpecRG → List String
    | [] => []
    | g :: gs => chunks pos g.chunks ++
        rgs (pos + ((g.chunks.flatMap (·.pages)).map fun p => p.headerLen + p.compressedLen).sum) gs
  let l := rgs 4 f.rowGroups
  if l.isEmpty then "-" else ",".intercalate l

/-! declarations text: types `;`-separated `Name{f,f}`; field `names:type:taghex`; names joined by `+` -/
partial def parseTExpr (s : String) : Parse.TExpr :=
  if s.startsWith "*" then .star (parseTExpr (s.drop 1).toString)
  else if s.startsWith "[]" then .arr (parseTExpr (s.drop 2).toString)
  else if s.startsWith "#" then .arr (parseTExpr (s.drop 1).toString)
  else if s.startsWith "chan>" then .chanT (parseTExpr (s.drop 5).toString)
  else if s.startsWith "map<" then
    match ((s.drop 4).toString.dropEnd 1).toString.splitOn "|" with
    | [k, v] => .mapT (parseTExpr k) (parseTExpr v)
    | _ => .other
  else if s.startsWith "func(" then
    let inner := ((s.drop 5).toString.dropEnd 1).toString
    .funcT (if inner = "" then [] else (inner.splitOn "|").map parseTExpr)
  else if s = "?" then .other
  else match s.splitOn "." with
    | [a, b] => .sel a b
    | _ => .ident s

def parseDecls (s : String) : List Parse.TypeDecl :=
  (s.splitOn ";").filterMap fun t =>
    match t.splitOn "{" with
    | [name, rest] =>
      let body := (rest.dropEnd 1).toString
      let fs := if body = "" then [] else (body.splitOn ",").filterMap fun f =>
        match f.splitOn ":" with
        | [names, ty, tag] =>
          some ({ names := if names = "" then [] else names.splitOn "+", ty := parseTExpr ty,
                  tag := if tag = "-" then none else some (String.ofList ((unhex tag).map fun b => Char.ofNat b)) } : Parse.FieldDecl)
        | _ => none
      some { name := name, fields := fs }
    | _ => none

/-- schema elements text: `name:type:rep:numchildren` separated by `;` (`-` = absent) -/
def parseSEs (s : String) : List Structs.SE :=
  (s.splitOn ";").filterMap fun t =>
    match t.splitOn ":" with
    | [n, ty, rep, nc] => some { name := n, ty := ty.toNat?, rep := rep.toNat?, nc := nc.toNat? }
    | _ => none

def transpose (n : Nat) (colsRecs : List (List String)) : List String :=
  (List.range n).map fun i => "|".intercalate (colsRecs.map fun rs => rs.getD i "?")

/-- the records of one parsed row group, as `|`-joined projections -/
def showSpecRG (cols : List Col) (rg : SpecRG) : String :=
  let perCol : List (List String) := (cols.zip rg.chunks).map fun (c, sc) =>
    (splitRecords (sc.entries.length + 1) sc.entries).map fun es =>
      match assembleTop c.reps es with
      | some (v, []) => showProj c.reps v
      | _ => "?"
  let recs := transpose rg.numRows perCol
  if recs.isEmpty then "-" else ";".intercalate recs

def showParse (cols : List Col) (r : V SpecFile) : String :=
  match r with
  | .error e => "invalid " ++ e.replace " " "_"
  | .ok f => s!"ok rows={f.numRows} rgs={if f.rowGroups.isEmpty then "-" else "/".intercalate (f.rowGroups.map (showSpecRG cols))}"

end PQ
