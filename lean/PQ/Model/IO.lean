import PQ.Model.Bytes
import PQ.Gen.Facts
/-!
# I/O discipline: fragmenting sources, failing sinks, error propagation

* A source under a fragmentation schedule: each `Read` grants between 1 and the requested number
  of bytes (possibly together with `io.EOF`); `readFull` is Go's `io.ReadFull` loop.
* A program is a sequence of I/O steps, each either *checked* (its error is returned to the
  caller) or *dropped*; `runFault` executes it with the `k`-th step failing.
* The call-site inventories extracted from the working tree (`PQ.Gen.Facts`) are classified here.
-/
namespace PQ.IO
open PQ.Gen

/-- a fragmentation schedule: proposed grant for the `i`-th call given the requested size, and
whether the call returning the last byte also reports `io.EOF` -/
structure Sched where
  grant : Nat → Nat → Nat
  eofWithData : Nat → Bool

/-- bytes actually granted: at least one, at most what is requested and what is available -/
def granted (σ : Sched) (i req avail : Nat) : Nat := max 1 (min (σ.grant i req) (min req avail))

/-- `io.ReadFull(r, buf)` with `len(buf) = n` over a source holding `src`, the `i`-th call onwards:
`some (bytes, rest, calls)` or `none` (io.EOF / io.ErrUnexpectedEOF). `fuel` bounds the loop. -/
def readFull (σ : Sched) : Nat → Nat → Nat → Bytes → Bytes → Option (Bytes × Bytes × Nat)
  | _, i, 0, src, acc => some (acc, src, i)
  | 0, _, _+1, _, _ => none
  | fuel+1, i, n+1, src, acc =>
    if src = [] then none      -- Read returns (0, io.EOF): ReadFull fails
    else
      let g := granted σ i (n+1) src.length
      readFull σ fuel (i+1) (n + 1 - g) (src.drop g) (acc ++ src.take g)

/-- what every schedule must compute: exactly `n` bytes or an error -/
def readExactly (n : Nat) (src : Bytes) : Option (Bytes × Bytes) :=
  if src.length < n then none else some (src.take n, src.drop n)

/-! ## error propagation -/

inductive Outcome | ok | err | swallowed
deriving DecidableEq, Repr

/-- run a sequence of I/O steps (`true` = the step's error is checked/returned) with the `k`-th
step (1-based) failing; steps after a reported failure are not executed -/
def runFault : List Bool → Nat → Outcome
  | [], _ => .ok
  | checked :: rest, k =>
    if k = 1 then (if checked then .err else .swallowed)
    else runFault rest (k - 1)

def Site.propagates (s : Facts.Site) : Bool := s.h = .checked || s.h = .returned

end PQ.IO
