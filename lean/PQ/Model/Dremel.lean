/-!
# Dremel striping and assembly of one column (reference, from the Dremel paper / Parquet spec)

`Proj α ts` is the projection of a record on one column whose path has repetition
types `ts` (outermost first): an iterated `Option`/`List` around the leaf type.
`stripe` is the canonical striping, `parse` the reference assembly.
-/
namespace PQ

inductive Rep | req | opt | rpt deriving DecidableEq, Repr, BEq

def Proj (α : Type) : List Rep → Type
  | [] => α
  | .req :: ts => Proj α ts
  | .opt :: ts => Option (Proj α ts)
  | .rpt :: ts => List (Proj α ts)

structure Entry (α : Type) where
  rep : Nat
  dl : Nat
  val : Option α
deriving Repr, DecidableEq, BEq

variable {α : Type}

/-- reference striping. `r` = repetition level of the first entry emitted, `d` = definition level
reached so far, `k` = number of repeated ancestors so far -/
def stripe : (ts : List Rep) → (r d k : Nat) → Proj α ts → List (Entry α)
  | [], r, d, _, v => [⟨r, d, some v⟩]
  | .req :: ts, r, d, k, v => stripe ts r d k (v : Proj α ts)
  | .opt :: ts, r, d, k, v =>
      match (v : Option (Proj α ts)) with
      | none => [⟨r, d, none⟩]
      | some x => stripe ts r (d+1) k x
  | .rpt :: ts, r, d, k, v =>
      match (v : List (Proj α ts)) with
      | [] => [⟨r, d, none⟩]
      | x :: xs => stripe ts r (d+1) (k+1) x ++ xs.flatMap (stripe ts (k+1) (d+1) (k+1))

/-- striping of a whole record's column value -/
def stripeTop (ts : List Rep) (v : Proj α ts) : List (Entry α) := stripe ts 0 0 0 v

def maxDef : List Rep → Nat
  | [] => 0
  | .req :: ts => maxDef ts
  | _ :: ts => maxDef ts + 1

def maxRep : List Rep → Nat
  | [] => 0
  | .rpt :: ts => maxRep ts + 1
  | _ :: ts => maxRep ts

/-- `bits.Len(n)`: number of bits needed to represent `n` -/
def bitsLen (n : Nat) : Nat := if n = 0 then 0 else Nat.log2 n + 1

/-- parse elements while the next entry continues the list at level `lvl` -/
def many {β : Type} (p : List (Entry α) → Option (β × List (Entry α))) (lvl : Nat) :
    Nat → List (Entry α) → Option (List β × List (Entry α))
  | 0, es => some ([], es)
  | fuel+1, es =>
    match es with
    | [] => some ([], [])
    | e :: rest =>
      if e.rep = lvl then
        match p (e :: rest) with
        | none => none
        | some (x, es') =>
          match many p lvl fuel es' with
          | none => none
          | some (xs, es'') => some (x :: xs, es'')
      else some ([], e :: rest)

/-- reference assembly of one column value from the front of an entry list -/
def parse : (ts : List Rep) → (d k : Nat) → List (Entry α) → Option (Proj α ts × List (Entry α))
  | [], d, _, es =>
    match es with
    | ⟨_, d', some v⟩ :: rest => if d' = d then some (v, rest) else none
    | _ => none
  | .req :: ts, d, k, es => parse ts d k es
  | .opt :: ts, d, k, es =>
    match es with
    | [] => none
    | e :: rest =>
      if e.dl = d then some ((none : Option (Proj α ts)), rest)
      else match parse ts (d+1) k (e :: rest) with
        | none => none
        | some (x, es') => some ((some x : Option (Proj α ts)), es')
  | .rpt :: ts, d, k, es =>
    match es with
    | [] => none
    | e :: rest =>
      if e.dl = d then some (([] : List (Proj α ts)), rest)
      else match parse ts (d+1) (k+1) (e :: rest) with
        | none => none
        | some (x, es') =>
          match many (parse ts (d+1) (k+1)) (k+1) es'.length es' with
          | none => none
          | some (xs, es'') => some ((x :: xs : List (Proj α ts)), es'')

def assembleTop (ts : List Rep) (es : List (Entry α)) : Option (Proj α ts × List (Entry α)) := parse ts 0 0 es

/-- one record's worth of a column's entry stream: the first entry and every following entry with a
non-zero repetition level (record boundaries are exactly the entries with `rep = 0`) -/
def takeRecord : List (Entry α) → List (Entry α) × List (Entry α)
  | [] => ([], [])
  | e :: rest => (e :: rest.takeWhile (fun x => x.rep != 0), rest.dropWhile (fun x => x.rep != 0))

/-- split an entry stream into records -/
def splitRecords : Nat → List (Entry α) → List (List (Entry α))
  | 0, _ => []
  | _, [] => []
  | fuel+1, es => let (r, rest) := takeRecord es; r :: splitRecords fuel rest

/-- the zero value of a projection (what a fresh Go struct holds) -/
def zeroProj (z : α) : (ts : List Rep) → Proj α ts
  | [] => z
  | .req :: ts => zeroProj z ts
  | .opt :: _ => none
  | .rpt :: _ => []

end PQ
