import PQ.Model.Bytes
import PQ.Model.Bitpack
import PQ.Gen.Facts
/-!
# RLE / bit-packed hybrid: mirror of `internal/rle`

* `Enc` mirrors the Go encoder field for field (`out`, `prev`, `valBuf[0..bufCount)` as
  `pending`, `repeatCount`, `groupCount`, `headerPointer`); thresholds come from
  `PQ.Gen.Facts` (extracted from the working tree on every run).
* `implDecode` mirrors `RLE.Read` call for call, including Go's silent short `Read`
  from an in-memory reader and the `uint64` shift of `readLEB128`.
* `Run`, `serRuns`, `specDecode` are written from the Parquet specification.
-/
namespace PQ
open PQ.Gen

structure Enc where
  w : Nat
  out : Bytes := []
  prev : Nat := 0
  pending : List Nat := []      -- valBuf[0..bufCount)
  repeatCount : Nat := 0
  groupCount : Nat := 0
  headerPointer : Option Nat := none
deriving Repr

/-- `endPreviousBitPackedRun`: back-patch the header byte `byte((groupCount << 1) | 1)` -/
def Enc.endPrev (e : Enc) : Enc :=
  match e.headerPointer with
  | none => e
  | some p => { e with out := e.out.set p ((e.groupCount * 2 + 1) % 256), headerPointer := none, groupCount := 0 }

/-- `writeOrAppendBitPackedRun` with `valBuf = g` -/
def Enc.flushGroup (e : Enc) (g : List Nat) : Enc :=
  let e := if e.groupCount ≥ Facts.rleMaxGroups then e.endPrev else e
  let e := match e.headerPointer with
    | none => { e with out := e.out ++ [0], headerPointer := some e.out.length }
    | some _ => e
  { e with out := e.out ++ pack e.w g, pending := [], repeatCount := 0, groupCount := e.groupCount + 1 }

/-- `writeIntLittleEndianPaddedOnBitWidth(v uint8, w)`; for more than two bytes the Go code
returns an error that `writeRLERun` turns into "write nothing". -/
def valBytes (w : Nat) (v : Nat) : Bytes :=
  match (w + 7) / 8 with
  | 0 => []
  | 1 => [v % 256]
  | 2 => [v % 256, 0]      -- uint8 >> 8 = 0
  | _ => []

def Enc.writeRLERun (e : Enc) : Enc :=
  let e := e.endPrev
  { e with out := e.out ++ leb128 (e.repeatCount * 2) ++ valBytes e.w e.prev, repeatCount := 0, pending := [] }

def Enc.push (e : Enc) (v : Nat) : Enc :=
  let e := { e with pending := e.pending ++ [v] }
  if e.pending.length = Facts.rleGroupSize then e.flushGroup e.pending else e

/-- `RLE.Write` -/
def Enc.write (e : Enc) (v : Nat) : Enc :=
  if v = e.prev then
    let e := { e with repeatCount := e.repeatCount + 1 }
    if e.repeatCount ≥ Facts.rleRepeatThreshold then e
    else e.push v
  else
    let e := if e.repeatCount ≥ Facts.rleRepeatThreshold then e.writeRLERun else e
    let e := { e with repeatCount := 1, prev := v }
    e.push v

/-- `RLE.Bytes` -/
def Enc.bytes (e : Enc) : Bytes :=
  let e :=
    if e.repeatCount ≥ Facts.rleRepeatThreshold then e.writeRLERun
    else if e.pending.length > 0 then
      (e.flushGroup (e.pending ++ List.replicate (8 - e.pending.length) 0)).endPrev
    else e.endPrev
  le32 e.out.length ++ e.out

/-- `writeLevels` : `rle.New(w, len)`, `Write` each level, `Bytes()` -/
def encode (w : Nat) (xs : List Nat) : Bytes := (xs.foldl Enc.write { w := w }).bytes

/-! ## implementation decoder (`RLE.Read`) -/

inductive DecErr | eof | panic
deriving Repr, DecidableEq, BEq

/-- `readLEB128` on a `bytes.Reader`: `out |= (x & 0x7F) << shift` in `uint64` -/
def implReadLeb : Nat → Bytes → Nat → Nat → Except DecErr (Nat × Bytes)
  | 0, _, _, _ => .error .eof
  | _, [], _, _ => .error .eof
  | fuel+1, b :: bs, shift, acc =>
    let acc := acc ||| (((b % 128) <<< shift) % 2^64)
    if b / 128 % 2 = 0 then .ok (acc, bs)
    else implReadLeb fuel bs (shift + 7) acc

/-- a Go `Read` of `n` bytes from an in-memory reader holding `bs`: error only if `n > 0 ∨ atEndIsEOF`
and nothing is left; otherwise whatever is there, the rest of the destination stays zero. -/
def shortRead (n : Nat) (bs : Bytes) : Bytes × Bytes :=
  let got := bs.take n
  (got ++ List.replicate (n - got.length) 0, bs.drop n)

def chunks (w : Nat) : Nat → Bytes → List Bytes
  | 0, _ => []
  | n+1, bs => bs.take w :: chunks w n (bs.drop w)

/-- the run loop of `Read` over the length-delimited buffer -/
def implRuns (w : Nat) : Nat → Bytes → Except DecErr (List Nat)
  | 0, bs => if bs = [] then .ok [] else .error .eof
  | fuel+1, bs =>
    if bs = [] then .ok [] else
    match implReadLeb bs.length bs 0 0 with
    | .error e => .error e
    | .ok (h, rest) =>
      if h % 2 = 0 then
        -- readRLE
        let count := h / 2
        let nb := (w + 7) / 8
        if nb > 2 then .error .eof else
        if nb > 0 ∧ rest = [] then .error .eof else
        let (vb, rest') := shortRead nb rest
        let v := match vb with
          | [] => 0
          | [a] => a
          | a :: b :: _ => (b * 256 + a) % 256
        match implRuns w fuel rest' with
        | .error e => .error e
        | .ok tl => .ok (List.replicate count v ++ tl)
      else
        -- readRLEBitPacked
        let groups := h / 2 % 2^63   -- int(header) >> 1, non-negative for headers < 2^63
        let count := groups * 8
        if w = 0 then
          match implRuns w fuel rest with
          | .error e => .error e
          | .ok tl => .ok (List.replicate count 0 ++ tl)
        else
        let byteCount := w * count / 8
        -- bytes.Reader.Read returns io.EOF at end of input even for an empty destination
        if rest = [] then .error .eof else
        let (raw, rest') := shortRead byteCount rest
        let vals := (chunks w groups raw).flatMap (unpack w)
        match implRuns w fuel rest' with
        | .error e => .error e
        | .ok tl => .ok (vals ++ tl)

/-- `RLE.Read(in)` where `in` is a `bytes.Buffer` holding `bs`: levels (padded) and bytes consumed
as reported (`length + 4`, even when fewer bytes were available). -/
def implDecode (w : Nat) (bs : Bytes) : Except DecErr (List Nat × Nat) :=
  if bs.length < 4 then .error .eof else
  let n := fromLE (bs.take 4)
  if n ≥ 2^31 then .error .panic else   -- make([]byte, negative int32) panics
  let avail := bs.drop 4
  if n > 0 ∧ avail = [] then .error .eof else
  let (buf, _) := shortRead n avail
  match implRuns w (n + 1) buf with
  | .error e => .error e
  | .ok vs => .ok (vs, n + 4)

/-! ## specification side -/

inductive Run
  | rle (count value : Nat)
  | packed (groups : List (List Nat))
deriving Repr, DecidableEq

def Run.vals : Run → List Nat
  | .rle c v => List.replicate c v
  | .packed gs => gs.flatten

def runsVals (rs : List Run) : List Nat := rs.flatMap Run.vals

/-- serialisation of one run per the specification: ULEB128 header, then payload -/
def Run.ser (w : Nat) : Run → Bytes
  | .rle c v => uleb (c * 2) ++ leBytes ((w + 7) / 8) v
  | .packed gs => uleb (gs.length * 2 + 1) ++ gs.flatMap (packSpec w)

def serRuns (w : Nat) (rs : List Run) : Bytes := rs.flatMap (Run.ser w)

/-- well-formed run for width `w` -/
def Run.WF (w : Nat) : Run → Prop
  | .rle c v => 1 ≤ c ∧ v < 2^w
  | .packed gs => 1 ≤ gs.length ∧ ∀ g ∈ gs, g.length = 8 ∧ ∀ x ∈ g, x < 2^w

/-- what this encoder additionally guarantees -/
def Run.WFenc (w : Nat) : Run → Prop
  | .rle c v => Facts.rleRepeatThreshold ≤ c ∧ v < 2^w
  | .packed gs => 1 ≤ gs.length ∧ gs.length ≤ Facts.rleMaxGroups ∧ ∀ g ∈ gs, g.length = 8

/-- specification decoder of a run list occupying exactly `bs` -/
def specRuns (w : Nat) : Nat → Bytes → Option (List Nat)
  | 0, bs => if bs = [] then some [] else none
  | fuel+1, bs =>
    if bs = [] then some [] else
    match readLeb bs.length bs with
    | none => none
    | some (h, rest) =>
      if h % 2 = 0 then
        let nb := (w + 7) / 8
        if rest.length < nb then none else
        let v := fromLE (rest.take nb)
        match specRuns w fuel (rest.drop nb) with
        | none => none
        | some tl => some (List.replicate (h / 2) v ++ tl)
      else
        let groups := h / 2
        let nb := groups * w
        if rest.length < nb then none else
        let body := rest.take nb
        let vals := (List.range groups).flatMap fun i => unpackSpec w ((body.drop (i * w)).take w)
        match specRuns w fuel (rest.drop nb) with
        | none => none
        | some tl => some (vals ++ tl)

/-- specification decoder of a length-prefixed level section: values and bytes consumed -/
def specDecode (w : Nat) (bs : Bytes) : Option (List Nat × Nat) :=
  if bs.length < 4 then none else
  let n := fromLE (bs.take 4)
  let body := (bs.drop 4).take n
  if body.length < n then none else
  match specRuns w (n + 1) body with
  | none => none
  | some vs => some (vs, 4 + n)

end PQ
