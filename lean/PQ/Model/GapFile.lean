import PQ.Model.Thrift
import PQ.Model.Bytes
/-!
# Files whose row groups are not adjacent (protocol glue for C16; not part of any theorem)

`gapFile pad file` rewrites a valid file so that `pad` filler bytes precede every row group: the data
of each row group is moved, and every `file_offset` / `data_page_offset` of the footer is shifted
accordingly (the footer is decoded into the generic thrift value tree, edited, and re-encoded).
Padding between row groups is legal Parquet (parquet-mr aligns row groups); readers that locate column
chunks by their offsets are unaffected by it.
-/
namespace PQ
open PQ.Thrift

private def mapField (id : Nat) (f : TVal → TVal) : List (Nat × TVal) → List (Nat × TVal)
  | [] => []
  | (k, v) :: rest => (k, if k = id then f v else v) :: mapField id f rest

private def shiftInt (d : Nat) : TVal → TVal
  | .int ty n => .int ty (n + d)
  | v => v

/-- shift the offsets of one column chunk by `d` -/
private def shiftChunk (d : Nat) : TVal → TVal
  | .struct fs =>
    .struct (mapField 3 (fun md => match md with
      | .struct ms => .struct (mapField 11 (shiftInt d) (mapField 10 (shiftInt d) (mapField 9 (shiftInt d) ms)))
      | v => v) (mapField 2 (shiftInt d) fs))
  | v => v

private def rgSize : TVal → Nat
  | .struct fs => match fs.lookup 2 with
    | some (.int _ n) => n.toNat
    | _ => 0
  | _ => 0

private def shiftRG (d : Nat) : TVal → TVal
  | .struct fs => .struct (mapField 1 (fun cs => match cs with
      | .list e xs => .list e (xs.map (shiftChunk d))
      | v => v) fs)
  | v => v

/-- `pad` filler bytes (0xEE) before every row group; `none` if the file does not parse -/
def gapFile (pad : Nat) (file : Bytes) : Option Bytes :=
  if file.length < 12 then none else
  let size := fromLE ((file.drop (file.length - 8)).take 4)
  if size + 12 > file.length then none else
  let fstart := file.length - (size + 8)
  match decVal tStruct (size + 8) (file.drop fstart) with
  | some (.struct fs, _) =>
    match fs.lookup 4 with
    | some (.list e rgs) =>
      let rec go : List TVal → Nat → Nat → List TVal × Bytes
        | [], _, _ => ([], [])
        | rg :: rest, k, pos =>
          let n := rgSize rg
          let (ts, bs) := go rest (k + 1) (pos + n)
          (shiftRG ((k + 1) * pad) rg :: ts, List.replicate pad 0xEE ++ (file.drop pos).take n ++ bs)
      let (rgs', data) := go rgs 0 4
      let footer := (TVal.struct (mapField 4 (fun _ => .list e rgs') fs)).enc
      some (file.take 4 ++ data ++ footer ++ le32 footer.length ++ [80, 65, 82, 49])
    | _ => none
  | _ => none

end PQ
