import PQ.Model.Thrift
import PQ.Model.Bytes
/-!
# Files whose row groups are not adjacent (protocol glue for C16; not part of any theorem)

`gapFile pad file` rewrites a valid file so that `pad` filler bytes precede every row group: the data
of each row group is moved, and every `file_offset` / `data_page_offset` of the footer is shifted
accordingly (the footer is decoded into the generic thrift value tree, edited, and re-encoded).
Padding between row groups is legal Parquet (parquet-mr aligns row groups); readers that locate column
chunks by their offsets are unaffected by it.
-/
namespace PQ
open PQ.Thrift

private def mapField (id : Nat) (f : TVal → TVal) : List (Nat × TVal) → List (Nat × TVal)
  | [] => []
  | (k, v) :: rest => (k, if k = id then f v else v) :: mapField id f rest

private def shiftInt (d : Nat) : TVal → TVal
  | .int ty n => .int ty (n + d)
  | v => v

/-- shift the offsets of one column chunk by `d` -/
private def shiftChunk (d : Nat) : TVal → TVal
  | .struct fs =>
    .struct (mapField 3 (fun md => match md with
      | .struct ms => .struct (mapField 11 (shiftInt d) (mapField 10 (shiftInt d) (mapField 9 (shiftInt d) ms)))
      | v => v) (mapField 2 (shiftInt d) fs))
  | v => v

private def rgSize : TVal → Nat
  | .struct fs => match fs.lookup 2 with
    | some (.int _ n) => n.toNat
    | _ => 0
  | _ => 0

private def shiftRG (d : Nat) : TVal → TVal
  | .struct fs => .struct (mapField 1 (fun cs => match cs with
      | .list e xs => .list e (xs.map (shiftChunk d))
      | v => v) fs)
  | v => v

/-- `pad` filler bytes (0xEE) before every row group; `none` if the file does not parse -/
def gapFile (pad : Nat) (file : Bytes) : Option Bytes :=
  if file.length < 12 then none else
  let size := fromLE ((file.drop (file.length - 8)).take 4)
  if size + 12 > file.length then none else
  let fstart := file.length - (size + 8)
  match decVal tStruct (size + 8) (file.drop fstart) with
  | some (.struct fs, _) =>
    match fs.lookup 4 with
    | some (.list e rgs) =>
      let rec go : List TVal → Nat → Nat → List TVal × Bytes
        | [], _, _ => ([], [])
        | rg :: rest, k, pos =>
          let n := rgSize rg
          let (ts, bs) := go rest (k + 1) (pos + n)
          (shiftRG ((k + 1) * pad) rg :: ts, List.replicate pad 0xEE ++ (file.drop pos).take n ++ bs)
      let (rgs', data) := go rgs 0 4
      let footer := (TVal.struct (mapField 4 (fun _ => .list e rgs') fs)).enc
      some (file.take 4 ++ data ++ footer ++ le32 footer.length ++ [80, 65, 82, 49])
    | _ => none
  | _ => none

end PQ

namespace PQ
open PQ.Thrift

private def footerOf (file : Bytes) : Option (List (Nat × TVal) × Nat) :=
  if file.length < 12 then none else
  let size := fromLE ((file.drop (file.length - 8)).take 4)
  if size + 12 > file.length then none else
  let fstart := file.length - (size + 8)
  match decVal tStruct (size + 8) (file.drop fstart) with
  | some (.struct fs, _) => some (fs, fstart)
  | _ => none

private def shiftChunkM (d : Nat) : TVal → TVal
  | .struct fs =>
    .struct (fs.map fun (k, v) =>
      if k = 2 then (k, match v with | .int ty n => .int ty (n + d) | v => v)
      else if k = 3 then (k, match v with
        | .struct ms => .struct (ms.map fun (j, w) => if j = 9 ∨ j = 10 ∨ j = 11 then (j, match w with | .int ty n => .int ty (n + d) | w => w) else (j, w))
        | v => v)
      else (k, v))
  | v => v

/-- `mergeFiles a b`: the row groups of `b` appended to those of `a` under ONE footer (schema and the other
footer members of `a`; `num_rows` added; the offsets of `b`'s chunks shifted) — what `parquet-tools merge`
does. The two files may use different codecs: the codec is a property of each column chunk. Protocol glue,
not part of any theorem. -/
def mergeFiles (a b : Bytes) : Option Bytes :=
  match footerOf a, footerOf b with
  | some (fa, sa), some (fb, sb) =>
    match fa.lookup 4, fb.lookup 4, fa.lookup 3, fb.lookup 3 with
    | some (.list e ra), some (.list _ rb), some (.int ty na), some (.int _ nb) =>
      let d := sa - 4
      let rb' := rb.map fun rg => match rg with
        | .struct fs => .struct (fs.map fun (k, v) => if k = 1 then (k, match v with | .list e2 cs => .list e2 (cs.map (shiftChunkM d)) | v => v) else (k, v))
        | v => v
      let footer := (TVal.struct (fa.map fun (k, v) => if k = 4 then (k, .list e (ra ++ rb')) else if k = 3 then (k, .int ty (na + nb)) else (k, v))).enc
      some (a.take sa ++ (b.drop 4).take (sb - 4) ++ footer ++ le32 footer.length ++ [80, 65, 82, 49])
    | _, _, _, _ => none
  | _, _ => none

end PQ

namespace PQ
open PQ.Thrift

private def addI (d : Nat) : TVal → TVal
  | .int ty n => .int ty (n + d)
  | v => v

private def mapKeys (ks : List Nat) (f : TVal → TVal) (fs : List (Nat × TVal)) : List (Nat × TVal) :=
  fs.map fun (k, v) => if ks.contains k then (k, f v) else (k, v)

/-- insert field `id` (ascending field order), replacing an existing one -/
private def putField (id : Nat) (v : TVal) : List (Nat × TVal) → List (Nat × TVal)
  | [] => [(id, v)]
  | (k, w) :: rest => if k = id then (id, v) :: rest else if k > id then (id, v) :: (k, w) :: rest else (k, w) :: putField id v rest

private def mdOf (ch : TVal) : Option (List (Nat × TVal) × List (Nat × TVal)) :=
  match ch with
  | .struct cfs => match cfs.lookup 3 with
    | some (.struct ms) => some (cfs, ms)
    | _ => none
  | _ => none

/-- `dictFile kind rg col file`: a dictionary page (`kind = 0`: one PLAIN entry of 4 bytes) or an index page
(`kind = 1`, empty) is inserted at the head of column chunk `col` of row group `rg` of an UNCOMPRESSED file, the way
parquet-mr lays out a chunk whose writer fell back from dictionary to PLAIN encoding before the first data page:
`dictionary_page_offset` / `index_page_offset` = the chunk's start, `data_page_offset` after the page, the chunk's and the
row group's sizes include it, every later offset is shifted.  The data pages stay PLAIN v1 pages.  Protocol glue for
C18 (a file that *has* a dictionary or index page uses a feature the reader does not implement); not part of any theorem. -/
def dictFile (kind rg col : Nat) (file : Bytes) : Option Bytes :=
  match footerOf file with
  | none => none
  | some (fs, fstart) =>
    match fs.lookup 4 with
    | some (.list e rgs) =>
      let target : Option Nat := do
        let r ← rgs[rg]?
        let chs ← (match r with | .struct rfs => (match rfs.lookup 1 with | some (.list _ chs) => some chs | _ => none) | _ => none)
        let ch ← chs[col]?
        let (_, ms) ← mdOf ch
        match ms.lookup 9 with
        | some (.int _ n) => some n.toNat
        | _ => none
      match target with
      | none => none
      | some start =>
        let hdr : TVal := if kind = 0
          then .struct [(1, .int 5 2), (2, .int 5 4), (3, .int 5 4), (7, .struct [(1, .int 5 1), (2, .int 5 0)])]
          else .struct [(1, .int 5 1), (2, .int 5 0), (3, .int 5 0), (6, .struct [])]
        let page : Bytes := hdr.enc ++ (if kind = 0 then [7, 0, 0, 0] else [])
        let L := page.length
        let editChunk (i j : Nat) (ch : TVal) : TVal :=
          match mdOf ch with
          | none => ch
          | some (cfs, ms) =>
            if i = rg ∧ j = col then
              let ms := mapKeys [6, 7, 9] (addI L) ms
              let ms := putField (if kind = 0 then 11 else 10) (.int 6 start) ms
              .struct (cfs.map fun (k, v) => if k = 3 then (k, .struct ms) else (k, v))
            else if i > rg ∨ (i = rg ∧ j > col) then
              let ms := mapKeys [9, 10, 11] (addI L) ms
              .struct ((mapKeys [2] (addI L) cfs).map fun (k, v) => if k = 3 then (k, .struct ms) else (k, v))
            else ch
        let rgs' := rgs.zipIdx.map fun (r, i) => match r with
          | .struct rfs => .struct (rfs.map fun (k, v) =>
              if k = 1 then (k, match v with | .list e2 chs => .list e2 (chs.zipIdx.map fun (ch, j) => editChunk i j ch) | v => v)
              else if k = 2 ∧ i = rg then (k, addI L v) else (k, v))
          | v => v
        let footer := (TVal.struct (fs.map fun (k, v) => if k = 4 then (k, .list e rgs') else (k, v))).enc
        some (file.take start ++ page ++ (file.drop start).take (fstart - start) ++ footer ++ le32 footer.length ++ [80, 65, 82, 49])
    | _ => none

end PQ
