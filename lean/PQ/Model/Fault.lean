import PQ.Model.Reader
/-!
# The generated reader over a source that starts failing (C10)

The property speaks about API calls: a failed `Read`/`Seek` must surface from the constructor or from
`Error()` after `Next` returned false.  The fault is therefore placed at the granularity of *API calls
that touch the source*: call 0 is `NewParquetReader` (it always seeks and reads the footer), calls 1, 2, …
are the `Next` calls that load a row group (`Next`/`Scan` inside a loaded row group never touch the source:
`PQ.C10.next_within_rowgroup_src_indep`).  `k` counts the source-touching calls that still succeed; when it
is 0 some `Read`/`Seek` of the call fails.

What the failing call then does is the code's error handling: every source operation's error and every
error of a function that touches the source is returned to its caller (the inventory lemmas
`source_sites_propagate`/`source_calls_propagate`, regenerated from the working tree), so `readRowGroup`
returns it; `Next` stores it in the sticky `p.err` and returns false (`RState.next`, the `.error .err`
branch; `PQ.C10.next_reports`); the constructor returns it.  The differential run of C10 compares exactly
this prediction with the generated reader for every failing call index.
-/
namespace PQ

/-- does this `Next` call touch the source?  It does when it gets past the end-of-file test, the loaded row
group is used up and a row group is left to load (`readRowGroup` on an empty list performs no I/O). -/
def RState.touches (st : RState) : Bool :=
  !(!st.err && decide (st.cursor ≥ st.rows)) && decide (st.rgCursor ≥ st.rgCount) && !st.rowGroups.isEmpty

/-- `Next()` with `k` source-touching calls left before the source fails -/
def RState.nextF (st : RState) (k : Nat) : R (Bool × RState) × Nat :=
  if st.touches then
    match k with
    | 0 => (.ok (false, { st with err := true }), 0)
    | k+1 => (st.next, k)
  else (st.next, k)

/-- `NewParquetReader` with `k` source-touching calls left: the constructor is the first of them -/
def openReaderF (cols : List Col) (dc : Decomp) (file : Bytes) : Nat → R RState × Nat
  | 0 => (.error .err, 0)
  | k+1 => (openReader cols dc file, k)

end PQ
