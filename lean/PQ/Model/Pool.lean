import PQ.Model.Bytes
import PQ.Gen.Facts
/-!
# Shared buffer pools, instances and interleavings (C13)

Buffers live in a heap addressed by ids; the pool is a list of free ids whose contents are
*arbitrary stale bytes*.  Every writer/reader instance runs a program of small steps
(`get · fill · emit · put`) — the shape of `RequiredField.DoWrite`, `OptionalField.DoWrite` and the
typed `Write` methods, where `defer buffpool.Put(buf)` directly follows `buffpool.Get()` and so runs
after the sink write.  A schedule is any interleaving of the instances' steps.
-/
namespace PQ.Pool

abbrev BufId := Nat

/-- one small step of an instance; `slot` names one of the instance's local buffer variables -/
inductive Step
  | get (slot : Nat)                       -- buf := buffpool.Get()   (length reset to 0, stale capacity)
  | fill (slot : Nat) (data : Bytes)       -- buf.Write(data) / compress into buf: contents := data
  | emit (slot : Nat)                      -- w.Write(buf.Bytes())
  | put (slot : Nat)                       -- buffpool.Put(buf)
deriving Repr

structure Inst where
  prog : List Step                         -- remaining steps
  slots : List (Nat × BufId) := []         -- held buffers
  out : Bytes := []                        -- bytes given to this instance's sink
deriving Repr

structure World where
  heap : List (BufId × Bytes)              -- contents of every buffer ever allocated
  free : List BufId                        -- the pool
  next : BufId                             -- fresh id supply
  insts : List Inst
deriving Repr

def heapGet (h : List (BufId × Bytes)) (b : BufId) : Bytes := (h.lookup b).getD []
def heapSet (h : List (BufId × Bytes)) (b : BufId) (v : Bytes) : List (BufId × Bytes) := (b, v) :: h.filter (·.1 != b)

/-- instance `i` takes its next step; `pickFree` chooses which free buffer a `get` receives
(any index; a fresh buffer when the pool is empty) -/
def World.step (w : World) (i : Nat) (pickFree : Nat) : World :=
  match w.insts[i]? with
  | none => w
  | some inst =>
    match inst.prog with
    | [] => w
    | s :: rest =>
      let upd (inst' : Inst) (w' : World) : World := { w' with insts := w'.insts.set i inst' }
      match s with
      | .get slot =>
        if w.free.isEmpty then
          upd { inst with prog := rest, slots := (slot, w.next) :: inst.slots } { w with heap := heapSet w.heap w.next [], next := w.next + 1 }
        else
          let k := pickFree % w.free.length
          let b := w.free.getD k 0
          -- Get returns the buffer reset to length 0: its stale bytes are no longer its contents
          upd { inst with prog := rest, slots := (slot, b) :: inst.slots } { w with free := w.free.eraseIdx k, heap := heapSet w.heap b [] }
      | .fill slot data =>
        match inst.slots.lookup slot with
        | none => upd { inst with prog := rest } w
        | some b => upd { inst with prog := rest } { w with heap := heapSet w.heap b data }
      | .emit slot =>
        match inst.slots.lookup slot with
        | none => upd { inst with prog := rest } w
        | some b => upd { inst with prog := rest, out := inst.out ++ heapGet w.heap b } w
      | .put slot =>
        match inst.slots.lookup slot with
        | none => upd { inst with prog := rest } w
        -- the local variable still points at the buffer after Put (that is the hazard): keep the binding
        | some b => upd { inst with prog := rest } { w with free := b :: w.free }

/-- run a schedule: a list of (instance index, free-buffer choice) -/
def World.run (w : World) : List (Nat × Nat) → World
  | [] => w
  | (i, k) :: rest => (w.step i k).run rest

/-- what an instance emits when it runs alone on a private, empty pool -/
def seqOut (prog : List Step) : Bytes :=
  let w : World := { heap := [], free := [], next := 0, insts := [{ prog := prog }] }
  ((w.run (List.replicate prog.length (0, 0))).insts.headD { prog := [] }).out

/-- the discipline of the code: within a program, every `fill`/`emit`/`put` of a slot happens
between that slot's `get` and `put`, and a slot is not re-`get` while held -/
def WellBracketed : List Step → List Nat → Bool
  | [], _ => true
  | .get s :: rest, held => !held.contains s && WellBracketed rest (s :: held)
  | .fill s _ :: rest, held => held.contains s && WellBracketed rest held
  | .emit s :: rest, held => held.contains s && WellBracketed rest held
  | .put s :: rest, held => held.contains s && WellBracketed rest (held.filter (· != s))

/-- the program of one page write by a typed field: values buffer, then `DoWrite`'s buffers -/
def pageProgram (vals levelsAndVals compressed header : Bytes) (optional : Bool) : List Step :=
  [.get 0, .fill 0 vals] ++
  (if optional then [.get 1, .fill 1 levelsAndVals, .get 2, .fill 2 compressed] else [.get 1, .fill 1 compressed]) ++
  -- header goes to the sink directly (thrift serializer owned by the instance), then the payload buffer
  [.emit (if optional then 2 else 1)] ++
  (if optional then [.put 2, .put 1] else [.put 1]) ++ [.put 0]

/-! pooled-buffer reuse with stale contents: `compress` reslices the pooled buffer to the maximum
encoded length (exposing stale bytes) and the encoder overwrites a prefix -/

/-- write `enc` over the beginning of a stale buffer resliced to `cap` bytes, return the first `|enc|` -/
def encodeInto (stale : Bytes) (cap : Nat) (enc : Bytes) : Bytes :=
  let dst := (stale ++ List.replicate (cap - stale.length) 0).take cap
  (enc ++ dst.drop enc.length).take enc.length

end PQ.Pool
