import PQ.Model.Spec
/-!
# An independent, nondeterministic conformant writer (from the Parquet specification)

`specWrite` produces files of the documented supported subset (v1 data pages, PLAIN values,
RLE/bit-packed hybrid levels, uncompressed/snappy/gzip, chunks contiguous in schema order) while
making *arbitrary legal* encoding choices, driven by a stream of natural numbers:

* how each level stream is cut into RLE and bit-packed runs (any run length ≥ 1, bit-packed runs of
  any group count incl. > 63, multi-byte headers, the padding values of the last group);
* where page boundaries fall in each column (any record boundary, independently per column);
* the codec of each column; whether statistics / created_by / key-value metadata / unknown extra
  thrift fields are present.

`Mutation` turns one page of one chunk into a use of an unsupported feature (C18).
-/
namespace PQ
open PQ.Thrift

/-- a stream of choices; `pick` never fails (an exhausted stream yields 0) -/
abbrev Choices := List Nat

def pick (cs : Choices) : Nat × Choices :=
  match cs with
  | [] => (0, [])
  | c :: rest => (c, rest)

/-- length of the maximal prefix of values equal to the head -/
def runLen : List Nat → Nat
  | [] => 0
  | x :: xs => 1 + (xs.takeWhile (· == x)).length

/-- cut a level list into runs according to the choices. Every RLE run has count ≥ 1 and covers equal
values; every bit-packed run has ≥ 1 groups of 8, the last group of the stream padded with `padv`. -/
def segment (padv : Nat) : Nat → Choices → List Nat → List Run × Choices
  | 0, cs, _ => ([], cs)
  | _, cs, [] => ([], cs)
  | fuel+1, cs, xs =>
    let (c, cs) := pick cs
    let (k, cs) := pick cs
    if c % 2 = 0 then
      -- RLE run over 1..runLen equal values
      let n := k % runLen xs + 1
      let (rs, cs) := segment padv fuel cs (xs.drop n)
      (Run.rle n (xs.headD 0) :: rs, cs)
    else
      -- bit-packed run of g groups (g ≥ 1); must end at the end of the stream if it needs padding
      let maxG := (xs.length + 7) / 8
      let g := k % (min maxG 80) + 1
      let g := if c % 7 = 1 then maxG else g          -- sometimes one big run (> 63 groups possible)
      let take := min (g * 8) xs.length
      let vals := xs.take take
      let padded := vals ++ List.replicate (g * 8 - take) padv
      let groups := (List.range g).map fun i => (padded.drop (i * 8)).take 8
      if take < g * 8 then ([Run.packed groups], cs)   -- padded: this is the last run
      else
        let (rs, cs) := segment padv fuel cs (xs.drop take)
        (Run.packed groups :: rs, cs)

/-- a level section: length prefix and the serialised runs -/
def levelSection (w : Nat) (runs : List Run) : Bytes :=
  let b := serRuns w runs
  le32 b.length ++ b

structure SWCfg where
  cols : List Col
  codecs : List Nat            -- per column
  withStats : Bool
  withExtras : Bool            -- created_by, key/value metadata, unknown thrift fields
  padv : Nat                   -- value used to pad the last bit-packed group (must fit the width)
  noNullCount : Bool := false  -- statistics carry min/max only (`null_count` is an optional member)
  mrLabels : Bool := false     -- label the level encodings of levels a column does NOT have as BIT_PACKED (4), as parquet-mr does
  fileOffMode : Nat := 0       -- ColumnChunk.file_offset (deprecated, readers must not rely on it): 0 = start of the chunk, 1 = zero, 2 = just past the chunk

/-- the statistics the spec writer puts into a page header (when it writes any): those of the page,
with the optional `null_count` member left out when `noNullCount` -/
def SWCfg.pageStatsResult (cfg : SWCfg) (c : Col) (es : List (Entry Bytes)) : Option Nat × Option Bytes × Option Bytes :=
  let r := (pageStats c es).result c.ty c.isRequired
  if cfg.noNullCount then (none, r.2) else r

/-- the value stored in the deprecated `ColumnChunk.file_offset` -/
def SWCfg.fileOff (cfg : SWCfg) (pos len : Nat) : Nat :=
  if cfg.fileOffMode = 1 then 0 else if cfg.fileOffMode = 2 then pos + len else pos

inductive Mutation
  | none
  | dictPage        -- a dictionary page first
  | indexPage       -- an index page
  | v2Page          -- data page v2
  | valueEncoding (e : Nat)
  | defEncoding (e : Nat)
  | repEncoding (e : Nat)
  | codec (c : Nat)
deriving Repr, BEq

/-- where a mutation applies: row group, column, page index -/
structure MutAt where
  rg : Nat
  col : Nat
  page : Nat
  m : Mutation

def splitPages : Nat → Choices → List (List (Entry Bytes)) → List (List (Entry Bytes)) × Choices
  | 0, cs, _ => ([], cs)
  | _, cs, [] => ([], cs)
  | fuel+1, cs, recs =>
    let (k, cs) := pick cs
    let n := k % recs.length + 1
    let (ps, cs) := splitPages fuel cs (recs.drop n)
    ((recs.take n).flatten :: ps, cs)

def extraField : List (Nat × TVal) := [(100, .int 5 7)]

/-- one page of the spec writer: header bytes, payload; `compress` is the column's codec -/
def specPageBytes (cfg : SWCfg) (c : Col) (codec : Nat) (compress : Bytes → Bytes) (mu0 : Mutation)
    (cs : Choices) (es : List (Entry Bytes)) : Bytes × Bytes × Nat × Choices :=
  let (repRuns, cs) := if c.maxRep > 0 then segment (cfg.padv % 2^(bitsLen c.maxRep)) (es.length + 1) cs (es.map (·.rep)) else ([], cs)
  let (defRuns, cs) := if c.isRequired then ([], cs) else segment (cfg.padv % 2^(bitsLen c.maxDef)) (es.length + 1) cs (es.map (·.dl))
  let raw :=
    (if c.maxRep > 0 then levelSection (bitsLen c.maxRep) repRuns else []) ++
    (if c.isRequired then [] else levelSection (bitsLen c.maxDef) defRuns) ++
    plainValues c.ty (nonNull es)
  let comp := if codec = 0 then raw else compress raw
  let st : List (Nat × TVal) :=
    if cfg.withStats then [(5, statsT (cfg.pageStatsResult c es))] else []
  let (valEnc, defEnc, repEnc) : Nat × Nat × Nat := match mu0 with
    | .valueEncoding e => (e, 3, 3)
    | .defEncoding e => (0, e, 3)
    | .repEncoding e => (0, 3, e)
    | _ => (0, if cfg.mrLabels ∧ c.isRequired then 4 else 3, if cfg.mrLabels ∧ c.maxRep = 0 then 4 else 3)
  let dph : TVal := .struct ([(1, .int 5 es.length), (2, .int 5 valEnc), (3, .int 5 defEnc), (4, .int 5 repEnc)] ++ st ++
                            (if cfg.withExtras then extraField else []))
  let hdr : TVal := match mu0 with
    | .v2Page => .struct [(1, .int 5 3), (2, .int 5 raw.length), (3, .int 5 comp.length),
                          (8, .struct [(1, .int 5 es.length), (2, .int 5 0), (3, .int 5 es.length), (4, .int 5 0), (5, .int 5 0), (6, .int 5 0)])]
    | _ => .struct ([(1, .int 5 0), (2, .int 5 raw.length), (3, .int 5 comp.length), (5, dph)] ++ (if cfg.withExtras then extraField else []))
  let pre : Bytes := match mu0 with
    | .dictPage => (TVal.struct [(1, .int 5 2), (2, .int 5 4), (3, .int 5 4), (7, .struct [(1, .int 5 1), (2, .int 5 0)])]).enc ++ [1, 0, 0, 0]
    | .indexPage => (TVal.struct [(1, .int 5 1), (2, .int 5 0), (3, .int 5 0), (6, .struct [])]).enc
    | _ => []
  (pre ++ hdr.enc ++ comp, raw, comp.length, cs)

/-- simple pre-order schema from the column paths (consecutive columns sharing a prefix share the group) -/
def specSchema (cols : List Col) : List TVal :=
  let fullReps (c : Col) : List Rep := if c.isRequired then List.replicate c.path.length .req else c.reps
  -- number of direct children of the group at path prefix `p`: distinct next names among columns below it
  let childrenOf (p : List String) : Nat :=
    ((cols.filter fun c => c.path.take p.length == p ∧ c.path.length > p.length).map fun c => c.path.take (p.length + 1)).eraseDups.length
  let rec go : Nat → List Col → List (List String) → List TVal
    | 0, _, _ => []
    | _, [], _ => []
    | fuel+1, c :: rest, seen =>
      let prefixes := (List.range (c.path.length - 1)).map fun i => c.path.take (i + 1)
      let newGroups := prefixes.filter fun p => !seen.contains p
      let groupElems := newGroups.map fun p =>
        TVal.struct [(3, .int 5 ((fullReps c).getD (p.length - 1) .req).code), (4, .bin (strBytes (p.getLast?.getD ""))), (5, .int 5 (childrenOf p))]
      let leaf := TVal.struct ([(1, .int 5 c.ty.phys), (3, .int 5 ((fullReps c).getLast?.getD .req).code), (4, .bin (strBytes (c.path.getLast?.getD "")))] ++
                              (match c.ty.converted with | some k => [(6, .int 5 k)] | none => []))
      groupElems ++ [leaf] ++ go fuel rest (seen ++ newGroups)
  TVal.struct [(4, .bin (strBytes "schema")), (5, .int 5 (childrenOf []))] :: go (cols.length + 1) cols []

/-- the file: magic, row groups (chunks in column order, pages split by the choices), footer, magic -/
def specWriteLog (cfg : SWCfg) (compress : Nat → Bytes → Bytes) (mu0 : Option MutAt) (cs : Choices)
    (rowGroups : List (List Rec)) : Bytes × List (Nat × Bytes) :=
  let rec chunks (rgi : Nat) (recs : List Rec) : List (Col × Nat) → Nat → Choices → Nat → List TVal × Bytes × List (Nat × Bytes) × Choices
    | [], _, cs, _ => ([], [], [], cs)
    | (c, codec) :: rest, ci, cs, pos =>
      let perRec : List (List (Entry Bytes)) := recs.map fun r => r.getD ci []
      let (pages, cs) := splitPages (perRec.length + 1) cs perRec
      let codec' := match mu0 with
        | some m => if m.rg = rgi ∧ m.col = ci then (match m.m with | .codec k => k | _ => codec) else codec
        | none => codec
      let rec emit : List (List (Entry Bytes)) → Nat → Choices → Bytes × List (Nat × Bytes) × Int × Choices
        | [], _, cs => ([], [], 0, cs)
        | p :: ps, pi, cs =>
          let mu := match mu0 with
            | some m => if m.rg = rgi ∧ m.col = ci ∧ m.page = pi then m.m else .none
            | none => .none
          let (b, raw, clen, cs) := specPageBytes cfg c codec (compress codec) mu cs p
          let (bs, lg, d, cs) := emit ps (pi + 1) cs
          (b ++ bs, (codec, raw) :: lg, d + (raw.length : Int) - (clen : Int), cs)
      let (bytes, lg, delta, cs) := emit pages 0 cs
      let nv := (perRec.map List.length).sum
      let md : TVal := .struct ([(1, .int 5 c.ty.phys), (2, .list 5 [.int 5 0, .int 5 3]), (3, .list 8 (c.path.map fun n => .bin (strBytes n))),
                               (4, .int 5 codec'), (5, .int 6 nv), (6, .int 6 ((bytes.length : Int) + delta)), (7, .int 6 bytes.length), (9, .int 6 pos)] ++
                              (if cfg.withExtras then [(100, .int 6 5)] else []))
      let (ts, tl, lg2, cs) := chunks rgi recs rest (ci + 1) cs (pos + bytes.length)
      (TVal.struct [(2, .int 6 (cfg.fileOff pos bytes.length)), (3, md)] :: ts, bytes ++ tl, lg ++ lg2, cs)
  let rec groups : List (List Rec) → Nat → Choices → Nat → List TVal × Bytes × List (Nat × Bytes)
    | [], _, _, _ => ([], [], [])
    | recs :: rest, rgi, cs, pos =>
      let (chs, bytes, lg, cs) := chunks rgi recs (cfg.cols.zip cfg.codecs) 0 cs pos
      let (ts, tl, lg2) := groups rest (rgi + 1) cs (pos + bytes.length)
      (TVal.struct [(1, .list 12 chs), (2, .int 6 bytes.length), (3, .int 6 recs.length)] :: ts, bytes ++ tl, lg ++ lg2)
  let (rgs, data, lg) := groups rowGroups 0 cs 4
  let rows := (rowGroups.map List.length).sum
  let footer : TVal := .struct ([(1, .int 5 1), (2, .list 12 (specSchema cfg.cols)), (3, .int 6 rows), (4, .list 12 rgs)] ++
    (if cfg.withExtras then [(5, .list 12 [.struct [(1, .bin (strBytes "k")), (2, .bin (strBytes "v"))]]), (6, .bin (strBytes "specWrite (Lean)"))] else []))
  (par1 ++ data ++ footer.enc ++ le32 footer.enc.length ++ par1, lg)

def specWrite (cfg : SWCfg) (compress : Nat → Bytes → Bytes) (mu0 : Option MutAt) (cs : Choices)
    (rowGroups : List (List Rec)) : Bytes := (specWriteLog cfg compress mu0 cs rowGroups).1

end PQ
