import PQ.Model.Reader
import PQ.Model.Writer
/-!
# Independent file parser and validator (written from the Parquet specification)

`parseFile` does not share code with the reader model: it walks the file by the offsets and sizes
recorded in the footer, decodes levels with the *specification* decoder `specDecode`, and checks
every clause of C02.  It is the oracle used when a correspondence breaks, and the right-hand side
of the file-level theorems.
-/
namespace PQ
open PQ.Thrift

abbrev V := Except String

structure SNode where
  name : Bytes
  rep : Option Int
  ty : Option Int
  conv : Option Int
  children : List SNode

/-- one leaf of the footer's schema tree: path, repetition of every path element, physical and converted type -/
structure Leaf where
  path : List Bytes
  reps : List Int
  ty : Int
  conv : Option Int
deriving Repr, BEq

/-- pre-order walk: consumes `n` subtrees from the element list, returns their leaves -/
def walkSchema : Nat → Nat → List SElemD → List Bytes → List Int → V (List Leaf × List SElemD)
  | 0, _, _, _, _ => .error "schema: out of fuel"
  | _, 0, es, _, _ => .ok ([], es)
  | fuel+1, n+1, es, pre, reps =>
    match es with
    | [] => .error "schema: num_children exceeds the number of elements"
    | (ints, name) :: rest =>
      let rep := ints.lookup 3
      let nc := ints.lookup 5
      let ty := ints.lookup 1
      match rep with
      | none => .error "schema: non-root element without repetition_type"
      | some r =>
        (match nc, ty with
         | some k, none =>
           if k ≤ 0 then .error "schema: group with no children" else do
           let (ls, rest') ← walkSchema fuel k.toNat rest (pre ++ [name]) (reps ++ [r])
           let (ls2, rest'') ← walkSchema fuel n rest' pre reps
           pure (ls ++ ls2, rest'')
         | none, some t => do
           let (ls2, rest') ← walkSchema fuel n rest pre reps
           pure ({ path := pre ++ [name], reps := reps ++ [r], ty := t, conv := ints.lookup 6 } :: ls2, rest')
         | some _, some _ => .error "schema: element with both type and num_children"
         | none, none => .error "schema: element with neither type nor num_children")

/-- the footer schema is a well-formed pre-order tree, consumed exactly -/
def schemaLeaves (es : List SElemD) : V (List Leaf) :=
  match es with
  | [] => .error "schema: empty"
  | (ints, _) :: rest =>
    match ints.lookup 5 with
    | none => .error "schema: root without num_children"
    | some k =>
      if k < 0 then .error "schema: negative num_children" else do
      let (ls, rest') ← walkSchema (es.length + 1) k.toNat rest [] []
      if rest' ≠ [] then .error "schema: elements left over after the root's children (num_children inconsistent)"
      else pure ls

/-- what the struct says the leaves should be -/
def expectedLeaf (c : Col) : Leaf :=
  { path := c.path.map strBytes,
    reps := if c.isRequired then List.replicate c.path.length 0 else c.reps.map fun r => (r.code : Int),
    ty := c.ty.phys, conv := c.ty.converted.map fun n => (n : Int) }

structure SpecPage where
  numValues : Nat
  entries : List (Entry Bytes)
  headerLen : Nat
  compressedLen : Nat
  uncompressedLen : Nat
  stats : Option (List (Nat × TVal))

def takeStrings : Nat → Bytes → V (List Bytes × Bytes)
  | 0, bs => .ok ([], bs)
  | k+1, bs =>
    if bs.length < 4 then .error "values: truncated string length" else
    let n := fromLE (bs.take 4)
    let rest := bs.drop 4
    if rest.length < n then .error "values: truncated string" else do
    let (tl, r) ← takeStrings k (rest.drop n)
    pure (rest.take n :: tl, r)

/-- PLAIN values: exactly `k` of them, occupying exactly `bs` -/
def specValues (ty : PType) (k : Nat) (bs : Bytes) : V (List Bytes) :=
  match ty with
  | .str => do
    let (vs, rest) ← takeStrings k bs
    if rest ≠ [] then .error "values: bytes left over after the last string" else pure vs
  | .bool =>
    if bs.length ≠ (k + 7) / 8 then .error "values: boolean section has the wrong length" else
    .ok ((List.range k).map fun i => [bs.getD (i / 8) 0 / 2^(i % 8) % 2])
  | _ =>
    if bs.length ≠ k * ty.width then .error "values: fixed-width section has the wrong length" else
    .ok (readFixed ty.width k bs)

/-- a level section decoded by the specification decoder: exactly `n` levels plus < 8 zero padding -/
def specLevels (w n maxLevel : Nat) (bs : Bytes) : V (List Nat × Nat) :=
  match specDecode w bs with
  | none => .error "levels: not a well-formed RLE/bit-packed hybrid stream"
  | some (vs, used) =>
    if vs.length < n then .error "levels: fewer levels than num_values" else
    if vs.length - n ≥ 8 then .error "levels: 8 or more padding values" else
    if (vs.drop n).any (· != 0) then .error "levels: non-zero padding" else
    if (vs.take n).any (· > maxLevel) then .error "levels: level exceeds the column's maximum" else
    .ok (vs.take n, used)

def zipEntries (maxDef : Nat) : List Nat → List Nat → List Bytes → V (List (Entry Bytes))
  | [], _, [] => .ok []
  | [], _, _ => .error "values: more values than entries at the maximum definition level"
  | d :: ds, rs, vs =>
    let r := rs.head?.getD 0
    if d = maxDef then
      match vs with
      | [] => .error "values: fewer values than entries at the maximum definition level"
      | v :: vs' => (zipEntries maxDef ds rs.tail vs').map (⟨r, d, some v⟩ :: ·)
    else (zipEntries maxDef ds rs.tail vs).map (⟨r, d, none⟩ :: ·)

/-- one data page starting at `pos` -/
def specPage (dc : Decomp) (c : Col) (codec : Int) (file : Bytes) (pos : Nat) : V SpecPage := do
  let rest := file.drop pos
  let (t, rest') ← match decVal tStruct (rest.length + 2) rest with
    | some r => pure r
    | none => .error "page: header is not a thrift struct"
  let hlen := rest.length - rest'.length
  let ph ← match decPHdr t with | some p => pure p | none => .error "page: header lacks a required field"
  if ph.ty ≠ 0 then .error "page: not a v1 data page" else
  let (nv, enc, denc, renc, st) ← match ph.dph with | some d => pure d | none => .error "page: no data_page_header"
  if enc ≠ 0 then .error "page: value encoding is not PLAIN" else
  if nv < 0 ∨ ph.compressed < 0 ∨ ph.uncompressed < 0 then .error "page: negative count or size" else
  if ¬ c.isRequired ∧ denc ≠ 3 then .error "page: definition levels are not RLE" else
  if c.maxRep > 0 ∧ renc ≠ 3 then .error "page: repetition levels are not RLE" else
  let comp := rest'.take ph.compressed.toNat
  if comp.length < ph.compressed.toNat then .error "page: compressed_page_size exceeds the file" else
  let raw ← (if codec = 0 then pure comp
             else if codec = 1 then (match dc.snappy comp with | some d => pure d | none => .error "page: snappy payload does not decode")
             else if codec = 2 then (match dc.gzip comp with | some d => pure d | none => .error "page: gzip payload does not decode")
             else .error "chunk: unsupported codec")
  if raw.length ≠ ph.uncompressed.toNat then .error "page: uncompressed_page_size disagrees with the payload" else
  let n := nv.toNat
  let entries ← (if c.isRequired then do
      let vs ← specValues c.ty n raw
      pure (vs.map fun v => (⟨0, 0, some v⟩ : Entry Bytes))
    else do
      let (reps, l1) ← (if c.maxRep > 0 then specLevels (bitsLen c.maxRep) n c.maxRep raw else pure ([], 0))
      let (defs, l2) ← specLevels (bitsLen c.maxDef) n c.maxDef (raw.drop l1)
      let k := (defs.filter (· = c.maxDef)).length
      let vs ← specValues c.ty k (raw.drop (l1 + l2))
      zipEntries c.maxDef defs reps vs)
  pure { numValues := n, entries := entries, headerLen := hlen, compressedLen := ph.compressed.toNat,
         uncompressedLen := ph.uncompressed.toNat, stats := st }

def recordsIn (es : List (Entry Bytes)) : Nat := (es.filter (·.rep = 0)).length

/-- the pages of a chunk occupying exactly `size` bytes from `pos` -/
def specChunkPages (dc : Decomp) (c : Col) (codec : Int) (file : Bytes) (maxRecs : Nat) : Nat → Nat → Nat → V (List SpecPage)
  | 0, _, _ => .error "chunk: out of fuel"
  | fuel+1, pos, size =>
    if size = 0 then .ok [] else do
    let pg ← specPage dc c codec file pos
    let used := pg.headerLen + pg.compressedLen
    if used > size then .error "chunk: total_compressed_size ends inside a page" else
    if recordsIn pg.entries > maxRecs then .error "page: holds more records than the configured page size" else
    (match pg.entries with
     | e :: _ => if e.rep ≠ 0 then .error "page: does not start at a record boundary" else pure ()
     | [] => pure ())
    let tl ← specChunkPages dc c codec file maxRecs fuel (pos + used) (size - used)
    pure (pg :: tl)

structure SpecChunk where
  pages : List SpecPage
  entries : List (Entry Bytes)

def specChunk (dc : Decomp) (c : Col) (maxRecs : Nat) (file : Bytes) (pos : Nat) (ch : ChunkMeta) : V (SpecChunk × Nat) := do
  let m ← match ch.md with | some m => pure m | none => .error "chunk: no meta_data"
  if m.path ≠ c.path.map strBytes then .error "chunk: path_in_schema differs from the schema leaf at this position" else
  if m.ty ≠ c.ty.phys then .error "chunk: type differs from the schema leaf" else
  if ch.fileOffset ≠ pos then .error "chunk: file_offset is not where the chunk starts" else
  if m.dataPageOffset ≠ pos then .error "chunk: data_page_offset is not where the first page starts" else
  if m.totalCompressed < 0 then .error "chunk: negative size" else
  if ¬ (m.encodings.contains 0) then .error "chunk: encodings does not list PLAIN" else
  let pages ← specChunkPages dc c m.codec file maxRecs (file.length + 2) pos m.totalCompressed.toNat
  let nv : Nat := (pages.map (·.numValues)).sum
  if m.numValues ≠ (nv : Int) then .error "chunk: num_values differs from the sum over its pages" else
  let tu : Nat := (pages.map fun p => p.headerLen + p.uncompressedLen).sum
  if m.totalUncompressed ≠ (tu : Int) then .error "chunk: total_uncompressed_size differs from the bytes" else
  pure ({ pages := pages, entries := pages.flatMap (·.entries) }, pos + m.totalCompressed.toNat)

structure SpecRG where
  numRows : Nat
  chunks : List SpecChunk

def specRowGroup (dc : Decomp) (cols : List Col) (maxRecs : Nat) (file : Bytes) (pos : Nat) (rg : RGMeta) : V (SpecRG × Nat) := do
  if rg.columns.length ≠ cols.length then .error "row group: number of column chunks differs from the number of schema leaves" else
  let rec go : List (Col × ChunkMeta) → Nat → V (List SpecChunk × Nat)
    | [], pos => pure ([], pos)
    | (c, ch) :: rest, pos => do
      let (sc, pos') ← specChunk dc c maxRecs file pos ch
      let (tl, pos'') ← go rest pos'
      pure (sc :: tl, pos'')
  let (chunks, pos') ← go (cols.zip rg.columns) pos
  if rg.numRows < 0 then .error "row group: negative num_rows" else
  if chunks.any (fun sc => recordsIn sc.entries ≠ rg.numRows.toNat) then .error "row group: num_rows differs from the records stored in a column" else
  let tot : Int := ((rg.columns.filterMap (·.md)).map (·.totalCompressed)).sum
  let totU : Int := ((rg.columns.filterMap (·.md)).map (·.totalUncompressed)).sum
  if rg.totalByteSize ≠ tot ∧ rg.totalByteSize ≠ totU then .error "row group: total_byte_size is neither the compressed nor the uncompressed sum" else
  pure ({ numRows := rg.numRows.toNat, chunks := chunks }, pos')

structure SpecFile where
  numRows : Nat
  rowGroups : List SpecRG
  fmd : FMD

/-- parse and validate a whole file against the struct's columns and the configured page size -/
def parseFile (dc : Decomp) (cols : List Col) (maxRecs : Nat) (file : Bytes) : V SpecFile := do
  let len := file.length
  if len < 12 then .error "file: shorter than magic + footer length + magic" else
  if file.take 4 ≠ par1 then .error "file: leading magic missing" else
  if file.drop (len - 4) ≠ par1 then .error "file: trailing magic missing" else
  let n := fromLE ((file.drop (len - 8)).take 4)
  if n + 12 > len then .error "file: footer length exceeds the file" else
  let fstart := len - 8 - n
  let fbytes := (file.drop fstart).take n
  let t ← match decVal tStruct (n + 2) fbytes with
    | some (t, []) => pure t
    | some _ => .error "footer: bytes left over after the FileMetaData struct"
    | none => .error "footer: not a thrift struct"
  let f ← match decFMD t with | some f => pure f | none => .error "footer: FileMetaData lacks a required field"
  let leaves ← schemaLeaves f.schema
  if !(leaves == cols.map expectedLeaf) then .error "schema: leaves differ from the struct's columns (path, type or repetition)" else
  let rec go : List RGMeta → Nat → V (List SpecRG × Nat)
    | [], pos => pure ([], pos)
    | rg :: rest, pos => do
      let (sr, pos') ← specRowGroup dc cols maxRecs file pos rg
      let (tl, pos'') ← go rest pos'
      pure (sr :: tl, pos'')
  let (rgs, pos) ← go f.rowGroups 4
  if pos ≠ fstart then .error "file: bytes between the last column chunk and the footer are not accounted for" else
  if f.numRows ≠ ((rgs.map (·.numRows)).sum : Nat) then .error "footer: num_rows differs from the rows stored in the row groups" else
  pure { numRows := f.numRows.toNat, rowGroups := rgs, fmd := f }

/-! ## statistics oracle (C12) -/

def isNaNVal (ty : PType) (v : Bytes) : Bool :=
  match ty with
  | .f32 => fIsNaN 8 23 (fromLE v)
  | .f64 => fIsNaN 11 52 (fromLE v)
  | _ => false

/-- the statement of C12 for one page, as an executable check: `none` = sound -/
def statsUnsound (c : Col) (pg : SpecPage) : Option String :=
  let st := pg.stats.getD []
  let nulls := (pg.entries.filter fun e => e.val.isNone).length
  let vals := (pg.entries.filterMap (·.val)).filter fun v => !isNaNVal c.ty v
  let nonNull := pg.entries.filterMap (·.val)
  let mn := getBin st 6
  let mx := getBin st 5
  (match getI64 st 3 with
   | some n => if n ≠ (nulls : Int) then some "null_count differs from the number of entries without a value" else none
   | none => none)
  <|> (if nonNull.isEmpty ∧ (mn.isSome ∨ mx.isSome) then some "min/max present on a page without non-null values" else none)
  <|> (match mn with
       | some m => if vals.any (fun v => vLt c.ty v m) then some "a value is below min"
                   else if isNaNVal c.ty m ∧ !vals.isEmpty then some "min is NaN: min <= v is false for every value" else none
       | none => none)
  <|> (match mx with
       | some m => if vals.any (fun v => vLt c.ty m v) then some "a value is above max"
                   else if isNaNVal c.ty m ∧ !vals.isEmpty then some "max is NaN: v <= max is false for every value" else none
       | none => none)

def statsCheckFile (cols : List Col) (f : SpecFile) : Option String :=
  let all : List (Col × SpecPage) := f.rowGroups.flatMap fun rg => (cols.zip rg.chunks).flatMap fun (c, sc) => sc.pages.map fun p => (c, p)
  all.findSome? fun (c, p) => (statsUnsound c p).map fun msg => c.name ++ ": " ++ msg

end PQ
