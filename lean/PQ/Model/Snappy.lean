import PQ.Model.SpecWriter
/-!
# Snappy block format (from the format description): decoder and a nondeterministic encoder

`snappyEncode` chooses, from a stream of choices, how to cut the input into literals and
back-reference copies; every output is a legal stream.  `snappyDecode` is the specification decoder.
-/
namespace PQ

/-- element list → bytes; `lit bs` (1 ≤ |bs| ≤ 65536), `copy off len` (1 ≤ off, 1 ≤ len ≤ 64) -/
inductive SnEl
  | lit (bs : Bytes)
  | copy (off len : Nat)
deriving Repr

def SnEl.enc : SnEl → Bytes
  | .lit bs =>
    let n := bs.length - 1
    if n < 60 then (n * 4) :: bs
    else if n < 256 then (60 * 4) :: n :: bs
    else (61 * 4) :: (n % 256) :: (n / 256 % 256) :: bs
  | .copy off len =>
    if 4 ≤ len ∧ len ≤ 11 ∧ off < 2048 then [1 + (len - 4) * 4 + (off / 256) * 32, off % 256]
    else [2 + (len - 1) * 4, off % 256, off / 256 % 256]

/-- longest match length (≤ cap) between the data at back-offset `off` and the upcoming bytes;
a copy may overlap its own output -/
def matchLen (hist rest : Bytes) (off cap : Nat) : Nat :=
  let rec go : Nat → Bytes → Bytes → Nat → Nat
    | 0, _, _, n => n
    | fuel+1, h, r, n =>
      match r with
      | [] => n
      | x :: r' =>
        -- byte at distance `off` behind the current end of `h`
        if off ≤ h.length ∧ h.getD (h.length - off) 256 = x then go fuel (h ++ [x]) r' (n + 1) else n
  go cap hist rest 0

def snappyElems : Nat → Choices → Bytes → Bytes → List SnEl
  | 0, _, _, _ => []
  | _, _, _, [] => []
  | fuel+1, cs, hist, rest =>
    let (c, cs) := pick cs
    let (k, cs) := pick cs
    -- try a copy at a chosen small offset
    let off := k % 40 + 1
    let ml := matchLen hist rest off 64
    if c % 3 ≠ 0 ∧ ml ≥ 1 ∧ off ≤ hist.length then
      let len := if c % 2 = 0 then ml else min ml (k % 11 + 1)
      .copy off len :: snappyElems fuel cs (hist ++ rest.take len) (rest.drop len)
    else
      let n := min rest.length (if c % 5 = 0 then k % 300 + 1 else k % 7 + 1)
      .lit (rest.take n) :: snappyElems fuel cs (hist ++ rest.take n) (rest.drop n)

def snappyEncode (cs : Choices) (raw : Bytes) : Bytes :=
  uleb raw.length ++ (snappyElems (raw.length + 1) cs [] raw).flatMap SnEl.enc

/-- specification decoder -/
def snappyBody : Nat → Bytes → Bytes → Option Bytes
  | 0, _, out => some out
  | _, [], out => some out
  | fuel+1, tag :: rest, out =>
    match tag % 4 with
    | 0 =>
      let n := tag / 4
      let (len, rest) : Nat × Bytes :=
        if n < 60 then (n + 1, rest)
        else if n = 60 then (rest.headD 0 + 1, rest.drop 1)
        else if n = 61 then (rest.headD 0 + 256 * (rest.getD 1 0) + 1, rest.drop 2)
        else if n = 62 then (fromLE (rest.take 3) + 1, rest.drop 3)
        else (fromLE (rest.take 4) + 1, rest.drop 4)
      if rest.length < len then none else snappyBody fuel (rest.drop len) (out ++ rest.take len)
    | 1 =>
      match rest with
      | [] => none
      | b :: rest =>
        let len := tag / 4 % 8 + 4
        let off := (tag / 32) * 256 + b
        if off = 0 ∨ off > out.length then none else
        snappyBody fuel rest ((List.range len).foldl (fun o _ => o ++ [o.getD (o.length - off) 0]) out)
    | 2 =>
      if rest.length < 2 then none else
      let len := tag / 4 + 1
      let off := fromLE (rest.take 2)
      if off = 0 ∨ off > out.length then none else
      snappyBody fuel (rest.drop 2) ((List.range len).foldl (fun o _ => o ++ [o.getD (o.length - off) 0]) out)
    | _ =>
      if rest.length < 4 then none else
      let len := tag / 4 + 1
      let off := fromLE (rest.take 4)
      if off = 0 ∨ off > out.length then none else
      snappyBody fuel (rest.drop 4) ((List.range len).foldl (fun o _ => o ++ [o.getD (o.length - off) 0]) out)

def snappyDecode (bs : Bytes) : Option Bytes :=
  match readLeb bs.length bs with
  | none => none
  | some (n, rest) =>
    match snappyBody (rest.length + 1) rest [] with
    | some out => if out.length = n then some out else none
    | none => none

/-! ## gzip container with stored (uncompressed) deflate blocks: a legal foreign gzip stream -/

def crc32Byte (crc b : Nat) : Nat :=
  (List.range 8).foldl (fun c _ => if c % 2 = 1 then (c / 2) ^^^ 0xEDB88320 else c / 2) (crc ^^^ b)

def crc32 (bs : Bytes) : Nat := (bs.foldl crc32Byte 0xFFFFFFFF) ^^^ 0xFFFFFFFF

def storedBlocks : Nat → Choices → Bytes → Bytes
  | 0, _, _ => [1, 0, 0, 255, 255]
  | fuel+1, cs, rest =>
    let (k, cs) := pick cs
    let n := min rest.length (k % 700 + 1)
    let final := n = rest.length
    let blk := (if final then 1 else 0) :: (leBytes 2 n ++ leBytes 2 (65535 - n) ++ rest.take n)
    if final then blk else blk ++ storedBlocks fuel cs (rest.drop n)

def gzipStored (cs : Choices) (raw : Bytes) : Bytes :=
  [0x1f, 0x8b, 8, 0, 0, 0, 0, 0, 0, 255] ++ storedBlocks (raw.length + 1) cs raw ++ leBytes 4 (crc32 raw) ++ leBytes 4 (raw.length % 2^32)

end PQ
