import PQ.Model.Footer
import PQ.Model.Page
/-!
# The generated `ParquetReader` and the runtime's read path as a state machine

Mirrors `NewParquetReader`, `readRowGroup`, `Next`, `Scan`, `RequiredField.DoRead`,
`OptionalField.DoRead`, `pageData`, `GetBools` and the typed `Read` methods of the templates.
The source is an in-memory byte string with a position (`bytes.Reader` semantics: a `Read` at the
end returns `io.EOF` even for an empty destination; a `Read` near the end is silently short).
-/
namespace PQ
open PQ.Thrift

inductive RErr | err | panic
deriving Repr, DecidableEq, BEq

abbrev R := Except RErr

structure PageMeta where
  n : Int
  size : Int
  codec : Int
deriving Repr, BEq

structure ColBuf where
  vals : List Bytes := []
  defs : List Nat := []
  reps : List Nat := []
deriving Repr, BEq

/-- decompressors, as supplied for the run (graph of the external libraries' decoders) -/
structure Decomp where
  snappy : Bytes → Option Bytes
  gzip : Bytes → Option Bytes

structure Src where
  data : Bytes
  pos : Nat

/-- one `Read(p)` with `len(p) = n` on the source: error at the end of input, otherwise whatever is
there (the rest of `p` stays zero) -/
def Src.readSome (s : Src) (n : Nat) : R (Bytes × Src) :=
  if s.pos ≥ s.data.length then .error .err else
  let got := (s.data.drop s.pos).take n
  .ok (got ++ List.replicate (n - got.length) 0, { s with pos := s.pos + got.length })

/-- `io.CopyN` : exactly `n` bytes or an error -/
def Src.readExactly (s : Src) (n : Nat) : R (Bytes × Src) :=
  let got := (s.data.drop s.pos).take n
  if got.length < n then .error .err else .ok (got, { s with pos := s.pos + n })

/-- a thrift struct read from the current position -/
def Src.readStruct (s : Src) : R (TVal × Src) :=
  let rest := s.data.drop s.pos
  match decVal tStruct (rest.length + 2) rest with
  | some (t, rest') => .ok (t, { s with pos := s.data.length - rest'.length })
  | none => .error .err

def natOfInt (i : Int) : R Nat := if i < 0 then .error .panic else .ok i.toNat

/-- `pageData` -/
def pageData (dc : Decomp) (s : Src) (ph : PHdr) (codec : Int) : R (Bytes × Src) :=
  if codec = 1 then do
    let n ← natOfInt ph.compressed
    let (b, s) ← s.readExactly n        -- io.ReadFull
    match dc.snappy b with
    | some d => .ok (d, s)
    | none => .error .err
  else if codec = 2 then
    if ph.compressed < 0 then .error .err else do
    let (b, s) ← s.readExactly ph.compressed.toNat
    match dc.gzip b with
    | some d => .ok (d, s)
    | none => .error .err
  else if codec = 0 then do
    let n ← natOfInt ph.uncompressed
    s.readExactly n                      -- io.ReadFull
  else .error .err

def numValuesOf (ph : PHdr) : R Int :=
  match ph.dph with
  | some (nv, _, _, _, _) => .ok nv
  | none => .error .panic          -- nil DataPageHeader dereferenced

/-- `checkPage`: a v1 data page with PLAIN values and (where the column has them) RLE levels -/
def checkPage (ph : PHdr) (defs reps : Bool) : Bool :=
  ph.ty = 0 &&
  match ph.dph with
  | none => false
  | some (_, enc, denc, renc, _) => enc = 0 && (!defs || denc = 3) && (!reps || renc = 3)

/-- `RequiredField.DoRead`: concatenated page data and per-page value counts -/
def requiredDoRead (dc : Decomp) (pg : PageMeta) : Nat → Src → Int → Bytes → List Int → R (Bytes × List Int × Src)
  | 0, _, _, _, _ => .error .err
  | fuel+1, s, nRead, out, sizes =>
    if nRead < pg.n then do
      let (t, s) ← s.readStruct
      let ph ← match decPHdr t with | some p => pure p | none => .error .err
      if !checkPage ph false false then .error .err else
      let nv ← numValuesOf ph
      let (d, s) ← pageData dc s ph pg.codec
      requiredDoRead dc pg fuel s (nRead + nv) (out ++ d) (sizes ++ [nv])
    else .ok (out, sizes, s)

/-- the result of `readLevels` on `data[l:]` -/
def readLevelsAt (w : Nat) (data : Bytes) (l : Nat) : R (List Nat × Nat) :=
  if l > data.length then .error .panic else
  match implDecode w (data.drop l) with
  | .ok r => .ok r
  | .error .eof => .error .err
  | .error .panic => .error .panic

/-- `OptionalField.DoRead` -/
def optionalDoRead (dc : Decomp) (c : Col) (pg : PageMeta) : Nat → Src → Int → ColBuf → Bytes → List Int → R (ColBuf × Bytes × List Int × Src)
  | 0, _, _, _, _, _ => .error .err
  | fuel+1, s, nRead, buf, out, sizes =>
    if nRead < pg.size then do
      let p0 := s.pos
      let (t, s) ← s.readStruct
      let ph ← match decPHdr t with | some p => pure p | none => .error .err
      if !checkPage ph true (c.maxRep > 0) then .error .err else
      let (data, s) ← pageData dc s ph pg.codec
      let nv ← numValuesOf ph
      let (buf, l) ← (if c.maxRep > 0 then do
          let (reps, l2) ← readLevelsAt (bitsLen c.maxRep) data 0
          if nv < 0 ∨ nv.toNat > reps.length then .error .panic else
          pure ({ buf with reps := buf.reps ++ reps.take nv.toNat }, l2)
        else pure (buf, 0))
      let (defs, l2) ← readLevelsAt (bitsLen c.maxDef) data l
      if nv < 0 ∨ nv.toNat > defs.length then .error .panic else
      let buf := { buf with defs := buf.defs ++ defs.take nv.toNat }
      let l := l + l2
      if l > data.length then .error .panic else
      let n := ((defs.take nv.toNat).filter (· = c.maxDef)).length     -- only the first NumValues levels belong to the page
      optionalDoRead dc c pg fuel s (nRead + ((s.pos - p0 : Nat) : Int)) buf (out ++ data.drop l) (sizes ++ [(n : Int)])
    else .ok (buf, out, sizes, s)

/-- `binary.Read` of `k` fixed-width values -/
def readFixed (w : Nat) : Nat → Bytes → List Bytes
  | 0, _ => []
  | k+1, bs => bs.take w :: readFixed w k (bs.drop w)

/-- the string loop of `StringField.Read` / `StringOptionalField.Read` -/
def readStrings : Nat → Bytes → R (List Bytes)
  | 0, _ => .ok []
  | k+1, bs =>
    if bs.length < 4 then .error .err else
    let x := fromLE (bs.take 4)
    if x ≥ 2^31 then .error .panic else
    let rest := bs.drop 4
    if x > 0 ∧ rest = [] then .error .err else
    let got := rest.take x
    let sv := got ++ List.replicate (x - got.length) 0
    match readStrings k (rest.drop x) with
    | .ok tl => .ok (sv :: tl)
    | .error e => .error e

def unpackBoolByte (b : Nat) (m : Nat) : List Bytes :=
  (List.range m).map fun j => [b / 2^j % 2]

/-- the inner `for _, b := range chunk` of `GetBools` -/
def boolsOfChunk : Bytes → Nat → List Bytes
  | [], _ => []
  | b :: bs, nVals => let m := min nVals 8; unpackBoolByte b m ++ boolsOfChunk bs (nVals - m)

/-- `GetBools(r, n, pageSizes)` -/
def getBools : Bytes → List Int → R (List Bytes)
  | _, [] => .ok []
  | data, nVals :: rest =>
    if nVals = 0 then getBools data rest else
    if nVals < 0 then .error .panic else
    let l := (nVals.toNat + 7) / 8
    if l > data.length then .error .panic else
    match getBools (data.drop l) rest with
    | .ok tl => .ok (boolsOfChunk (data.take l) nVals.toNat ++ tl)
    | .error e => .error e

/-- decode `k` PLAIN values of type `ty` from the concatenated value sections -/
def readValues (ty : PType) (k : Nat) (out : Bytes) (sizes : List Int) : R (List Bytes) :=
  match ty with
  | .str => readStrings k out
  | .bool => getBools out sizes
  | _ => if out.length < k * ty.width then .error .err else .ok (readFixed ty.width k out)

/-- `<T>Field.Read(r, pg)` for one column chunk: new buffers and source -/
def readChunk (dc : Decomp) (c : Col) (pg : PageMeta) (buf : ColBuf) (s : Src) : R (ColBuf × Src) :=
  if c.isRequired then do
    let (out, sizes, s) ← requiredDoRead dc pg (s.data.length + 2) s 0 [] []
    let k ← natOfInt pg.n
    let vs ← readValues c.ty k out sizes
    .ok ({ buf with vals := if c.ty == .bool then vs else buf.vals ++ vs }, s)
  else do
    let (buf, out, sizes, s) ← optionalDoRead dc c pg (s.data.length + 2) s 0 buf [] []
    let total := (buf.defs.filter (· = c.maxDef)).length
    let k := total - buf.vals.length
    let vs ← readValues c.ty (if c.ty == .str then total else k) out sizes
    .ok ({ buf with vals := buf.vals ++ vs }, s)

structure RState where
  cols : List Col
  dc : Decomp
  src : Src
  rows : Int
  cursor : Int := 0
  rgCursor : Int := 0
  rgCount : Int := 0
  pages : List (List PageMeta)      -- per column, remaining chunks
  rowGroups : List RGMeta           -- remaining
  bufs : List ColBuf
  err : Bool := false
  fieldsSet : Bool := false         -- `p.fields` is only assigned when a row group is loaded

def pathName (p : List Bytes) : Bytes := ([46] : Bytes).intercalate p    -- strings.Join(path, ".")

def colIndex (cols : List Col) (name : Bytes) : Option Nat :=
  cols.findIdx? fun c => strBytes c.name == name

/-- `Metadata.Pages()` -/
def pagesOf (cols : List Col) (f : FMD) : R (List (List PageMeta)) :=
  f.rowGroups.foldlM (fun acc rg =>
    rg.columns.foldlM (fun acc ch =>
      match ch.md with
      | none => .error .panic
      | some m =>
        match colIndex cols (pathName m.path) with
        | none => .error .err
        | some i => .ok (acc.modify i (· ++ [{ n := m.numValues, size := m.totalCompressed, codec := m.codec }]))) acc)
    (List.replicate cols.length [])

/-- `readRowGroup` -/
def RState.readRowGroup (st : RState) : R RState :=
  match st.rowGroups with
  | [] => .ok { st with rgCursor := 0, rgCount := 0 }
  | rg :: rest =>
    let st := { st with bufs := List.replicate st.cols.length {}, rgCount := rg.numRows, rgCursor := 0, fieldsSet := true }
    let rec go (chs : List ChunkMeta) (st : RState) : R RState :=
      match chs with
      | [] => .ok st
      | ch :: chs =>
        match ch.md with
        | none => .error .panic
        | some m =>
          match colIndex st.cols (pathName m.path) with
          | none => .error .err
          | some i =>
            match st.pages.getD i [] with
            | [] => .ok st                      -- `break`
            | pg :: more =>
              match st.cols[i]? with
              | none => .error .err
              | some c =>
                match readChunk st.dc c pg (st.bufs.getD i {}) st.src with
                | .error e => .error e
                | .ok (buf, src) => go chs { st with bufs := st.bufs.set i buf, src := src, pages := st.pages.set i more }
    match go rg.columns st with
    | .error e => .error e
    | .ok st => .ok { st with rowGroups := rest }

/-- `NewParquetReader` -/
def openReader (cols : List Col) (dc : Decomp) (file : Bytes) : R RState :=
  -- getMetaDataSize: Seek(-8, End) fails before the start; binary.Read needs 4 bytes
  if file.length < 8 then .error .err else
  -- the trailing magic is checked before the footer length is trusted
  if file.drop (file.length - 4) ≠ [80, 65, 82, 49] then .error .err else
  let size := fromLE ((file.drop (file.length - 8)).take 4)
  if size + 8 > file.length then .error .err else   -- Seek to a negative position
  match ({ data := file, pos := file.length - (size + 8) } : Src).readStruct with
  | .error e => .error e
  | .ok (t, _) =>
    match decFMD t with
    | none => .error .err
    | some f =>
      match (if f.rowGroups.isEmpty then .ok (List.replicate cols.length []) else pagesOf cols f) with
      | .error e => .error e
      | .ok pages =>
        ({ cols := cols, dc := dc, src := { data := file, pos := 4 }, rows := f.numRows, pages := pages,
           rowGroups := f.rowGroups, bufs := List.replicate cols.length {} } : RState).readRowGroup

/-- the loop of `Next()` that moves past row groups without rows: `for p.rowGroupCount == 0 &&
len(p.rowGroups) > 0 { readRowGroup }`; every iteration consumes one row group, so `fuel =` the number of
row groups left suffices -/
def RState.skipEmpty : Nat → RState → R RState
  | 0, st => .ok st
  | fuel+1, st =>
    if st.rgCount = 0 ∧ st.rowGroups ≠ [] then
      match st.readRowGroup with
      | .ok st' => skipEmpty fuel st'
      | .error e => .error e
    else .ok st

/-- `Next()` -/
def RState.next (st : RState) : R (Bool × RState) :=
  if !st.err ∧ st.cursor ≥ st.rows then .ok (false, st) else
  let r := if st.rgCursor ≥ st.rgCount then
      (match st.readRowGroup with
       | .ok st' => st'.skipEmpty st'.rowGroups.length
       | .error e => .error e)
    else .ok st
  match r with
  | .error .panic => .error .panic
  | .error .err => .ok (false, { st with err := true })
  | .ok st => .ok (true, { st with cursor := st.cursor + 1, rgCursor := st.rgCursor + 1 })

/-- rebuild the first record's entries of an optional column from (defs, reps, vals) -/
def entriesOf (maxDef : Nat) : List Nat → List Nat → List Bytes → Option (List (Entry Bytes))
  | [], _, _ => some []
  | d :: ds, rs, vs =>
    let r := rs.head?.getD 0
    if d = maxDef then
      match vs with
      | [] => none
      | v :: vs' => (entriesOf maxDef ds rs.tail vs').map (⟨r, d, some v⟩ :: ·)
    else (entriesOf maxDef ds rs.tail vs).map (⟨r, d, none⟩ :: ·)

/-- one column's `Scan`: the text of the projection it writes into a fresh record, and the new buffer;
`none` = the generated code indexes past its value buffer (panic) -/
def scanCol (c : Col) (showP : (ts : List Rep) → Proj Bytes ts → String) (buf : ColBuf) : Option (String × ColBuf) :=
  if c.isRequired then
    match buf.vals with
    | [] => some (showP c.reps (zeroProj (zeroOfType c.ty) c.reps), buf)
    | v :: vs => some (showP c.reps (zeroProj v c.reps), { buf with vals := vs })
  else
    match buf.defs with
    | [] => some (showP c.reps (zeroProj (zeroOfType c.ty) c.reps), buf)
    | d :: ds =>
      -- levels of the first record: the first entry and the following ones with rep ≠ 0
      let n := if c.maxRep = 0 then 1 else 1 + (buf.reps.tail.takeWhile (· != 0)).length
      let n := min n (d :: ds).length
      let defs := (d :: ds).take n
      let reps := buf.reps.take n
      let k := (defs.filter (· = c.maxDef)).length
      match entriesOf c.maxDef defs reps buf.vals with
      | none => none
      | some es =>
        let txt := match assembleTop c.reps es with
          | some (v, []) => showP c.reps v
          | _ => "?"
        some (txt, { vals := buf.vals.drop k, defs := (d :: ds).drop n, reps := buf.reps.drop n })

end PQ
