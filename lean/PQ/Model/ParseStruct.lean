/-!
# `parse.Fields`: from struct declarations to the field tree (cmd/parquetgen/parse/parse.go)

Declarations are abstract Go syntax: type expressions, field declarations with names / embedding /
tag.  `getField` mirrors the `ast.Inspect` traversal (the *last* matching node decides `typ`),
`getFields` one struct's direct fields, `getChildren` the recursive resolution with hoisting of
embedded structs.
-/
namespace PQ.Parse

inductive TExpr
  | ident (n : String)
  | star (t : TExpr)
  | arr (t : TExpr)                 -- `[]T` and `[N]T` are both *ast.ArrayType
  | mapT (k v : TExpr)
  | chanT (t : TExpr)
  | funcT (args : List TExpr)       -- parameter/result types (their names are separate ast.Field nodes)
  | sel (pkg n : String)
  | other                           -- anything else (interface{}, struct{}, …)
deriving Repr, Inhabited

structure FieldDecl where
  names : List String               -- [] = embedded, [n] = ordinary, more = `A, B T`
  ty : TExpr
  tag : Option String               -- raw tag text between back quotes
deriving Repr

structure TypeDecl where
  name : String
  fields : List FieldDecl
deriving Repr

inductive RT | req | opt | rpt deriving DecidableEq, Repr

structure Field where
  name : String
  col : String
  ty : String
  rt : RT
  embedded : Bool := false
  children : List Field := []
deriving Repr

def primitives : List String := ["int32", "uint32", "int64", "uint64", "float32", "float64", "bool", "string"]

/-- what `fmt.Sprintf("%s", expr)` yields: the name for an identifier, an unusable rendering otherwise -/
def printed : TExpr → String
  | .ident n => n
  | _ => "?"

structure GF where
  typ : String
  optional : Bool := false
  repeated : Bool := false

/-- the traversal of a field's type subtree: each node may overwrite `typ` -/
def visitT : TExpr → GF → GF
  | .ident n, s => if primitives.contains n then { s with typ := n } else s
  | .star t, s => visitT t { s with optional := true, typ := printed t }
  | .arr t, s => visitT t { s with repeated := true, typ := printed t }
  | .mapT k v, s => visitT v (visitT k s)
  | .chanT t, s => visitT t s
  | .funcT args, s => args.foldl (fun s a => visitT a s) s
  | .sel _ _, s => s
  | .other, s => s

/-- `parseTag` -/
def parseTag (t : String) : String :=
  match t.splitOn "parquet:\"" with
  | _ :: rest :: _ => (rest.splitOn "\"").headD ""
  | _ => ""

/-- `getField(name, x)`: the field and whether it is skipped (tag "-") -/
def getField (name : String) (d : FieldDecl) : Field × Bool :=
  let tag := match d.tag with | some t => parseTag t | none => ""
  -- the field's own names are identifiers too (visited before the type): a field *named* like a
  -- primitive type would set typ, but the type subtree is visited afterwards and wins
  let s0 : GF := { typ := printed d.ty }
  let s := visitT d.ty s0
  let tag := if tag = "" then name else tag
  let rt := if s.repeated then RT.rpt else if s.optional then RT.opt else RT.req
  ({ name := name, col := tag, ty := s.typ, rt := rt }, tag = "-")

/-- `isPrivate`: the exported-ness test of the working tree (see `exportedTest` fact) -/
def isPrivateAZ (s : String) : Bool := match s.toList with
  | c :: _ => c.toNat ≥ 97 ∧ c.toNat ≤ 122
  | [] => true

/-- the working tree's test: private iff the first rune is `_` or a letter that is not upper case.
Non-ASCII first characters are taken to be lower-case letters (the generators only use such). -/
def isPrivateUpper (s : String) : Bool := match s.toList with
  | c :: _ => c = '_' || c.isLower || c.toNat ≥ 128
  | [] => true

/-- the direct children of one struct type (`getFields`) -/
def getFields (priv : String → Bool) (d : TypeDecl) : List Field :=
  d.fields.flatMap fun f =>
    match f.names with
    | [] =>
      let n := printed f.ty
      if priv n then [] else let (fl, skip) := getField n f; if skip then [] else [{ fl with embedded := true }]
    | ns =>
      -- one field per name: `A, B int32` declares two fields with the same type and tag
      ns.filterMap fun n => if priv n then none else let (fl, skip) := getField n f; if skip then none else some fl

/-- `getChildren`: resolve struct-typed children recursively; embedded structs are hoisted -/
def getChildren (priv : String → Bool) (decls : List TypeDecl) : Nat → String → List Field
  | 0, _ => []
  | fuel+1, ty =>
    match decls.find? (·.name = ty) with
    | none => []
    | some d =>
      (getFields priv d).flatMap fun child =>
        if primitives.contains child.ty then [child]
        else match decls.find? (·.name = child.ty) with
          | none => []                                   -- "unsupported type": dropped (with -ignore)
          | some _ =>
            let kids := getChildren priv decls fuel child.ty
            if child.embedded then kids else [{ child with children := kids }]

def parseStruct (priv : String → Bool) (decls : List TypeDecl) (typ : String) : List Field :=
  getChildren priv decls (decls.length + 1) typ

partial def showField (f : Field) : String :=
  let rep := match f.rt with | .req => "r" | .opt => "o" | .rpt => "m"
  s!"{f.name}|{f.col}|{f.ty}|{rep}" ++
    (if f.children.isEmpty then "" else "{" ++ ",".intercalate (f.children.map showField) ++ "}")

end PQ.Parse
