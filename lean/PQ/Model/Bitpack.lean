import PQ.Model.Bytes
import PQ.Gen.Bitpack
/-!
# Bit packing as the RLE model uses it

`pack`/`unpack` wrap the *translated* tables of `internal/bitpack/bitpack.go`
(`PQ.Gen.Bitpack`, regenerated on every run) and the dispatch of `Pack`/`Unpack`.
`packSpec`/`unpackSpec` are the Parquet specification's layout, written
arithmetically: bit `k` of the little-endian stream is bit `k % w` of value `k / w`.
-/
namespace PQ
open PQ.Gen

def bv (n : Nat) : BitVec 8 := BitVec.ofNat 8 n

/-- `bitpack.Pack(nil, w, vals)` for an 8-value group (`valBuf` always has length 8).
The `default:` arm of the Go switch returns `b` unchanged, i.e. appends nothing. -/
def pack (w : Nat) (g : List Nat) : Bytes :=
  match w, g with
  | 1, [a, b, c, d, e, f, g, h] => (Bitpack.pack1 (bv a) (bv b) (bv c) (bv d) (bv e) (bv f) (bv g) (bv h)).map BitVec.toNat
  | 2, [a, b, c, d, e, f, g, h] => (Bitpack.pack2 (bv a) (bv b) (bv c) (bv d) (bv e) (bv f) (bv g) (bv h)).map BitVec.toNat
  | 3, [a, b, c, d, e, f, g, h] => (Bitpack.pack3 (bv a) (bv b) (bv c) (bv d) (bv e) (bv f) (bv g) (bv h)).map BitVec.toNat
  | 4, [a, b, c, d, e, f, g, h] => (Bitpack.pack4 (bv a) (bv b) (bv c) (bv d) (bv e) (bv f) (bv g) (bv h)).map BitVec.toNat
  | _, _ => []

/-- `bitpack.Unpack(w, bytes)` for a `w`-byte slice. The `default:` arm returns an empty slice. -/
def unpack (w : Nat) (bs : Bytes) : List Nat :=
  match w, bs with
  | 1, [a] => (Bitpack.unpack1 (bv a)).map BitVec.toNat
  | 2, [a, b] => (Bitpack.unpack2 (bv a) (bv b)).map BitVec.toNat
  | 3, [a, b, c] => (Bitpack.unpack3 (bv a) (bv b) (bv c)).map BitVec.toNat
  | 4, [a, b, c, d] => (Bitpack.unpack4 (bv a) (bv b) (bv c) (bv d)).map BitVec.toNat
  | _, _ => []

/-- the dispatch tables of `Pack`/`Unpack` are what `pack`/`unpack` above assume -/
def dispatchOK : Bool :=
  Bitpack.Pack_cases == [(1, "pack1"), (2, "pack2"), (3, "pack3"), (4, "pack4")] &&
  Bitpack.Unpack_cases == [(1, "unpack1"), (2, "unpack2"), (3, "unpack3"), (4, "unpack4")] &&
  Bitpack.Pack_default == "identity" && Bitpack.Unpack_default == "empty"

/-! specification layout -/

/-- Σ (vᵢ mod 2^w)·2^(w·i) -/
def packNum (w : Nat) : List Nat → Nat
  | [] => 0
  | v :: vs => v % 2^w + 2^w * packNum w vs

/-- spec: the `w` little-endian bytes of the concatenated `w`-bit values, LSB first -/
def packSpec (w : Nat) (g : List Nat) : Bytes := leBytes w (packNum w g)

def unpackNum (w : Nat) : Nat → Nat → List Nat
  | 0, _ => []
  | n+1, x => x % 2^w :: unpackNum w n (x / 2^w)

def unpackSpec (w : Nat) (bs : Bytes) : List Nat := unpackNum w 8 (fromLE bs)

end PQ
