import PQ.Model.Writer
/-!
# The generated writer over a sink that starts failing (C09)

`runWriter` lists, per API call (constructor, `Add`, `Write`, `Close`), the writes the call hands to the
sink.  Until a write fails the writer's state does not depend on the sink, so the run over a sink whose
`k`-th write fails is the fault-free run cut at that write: the calls before the one that contains write
`k` complete; that call performs its writes up to the failing one and — every sink write's error and
every error of a function that writes the sink being checked and returned (`sink_sites_propagate`,
`sink_calls_propagate`, regenerated from the working tree) — returns the error without writing again.
The caller sees the error, so the run ends there.  `k = 0`: the sink never fails.
-/
namespace PQ

inductive CallOut
  | done (writes : List Bytes)      -- the call returned nil after these sink writes
  | failed (writes : List Bytes)    -- the call returned an error; the sink had accepted these writes before
  | panicked
deriving Repr, DecidableEq

/-- the fault-free calls cut at the `k`-th sink write (1-based; 0 = never) -/
def faultRun : List (Option (List Bytes)) → Nat → List CallOut
  | [], _ => []
  | none :: _, _ => [.panicked]
  | some ws :: rest, k =>
    if k = 0 then .done ws :: faultRun rest 0
    else if ws.length < k then .done ws :: faultRun rest (k - ws.length)
    else [.failed (ws.take (k - 1))]

/-- the generated writer over a sink whose `k`-th write fails -/
def runWriterF (cols : List Col) (max : Nat) (codec : Codec) (ops : List Op) (k : Nat) : List CallOut :=
  faultRun (runWriter cols max codec ops) k

/-- what the sink has accepted -/
def CallOut.writes : CallOut → List Bytes
  | .done ws => ws
  | .failed ws => ws
  | .panicked => []

def CallOut.isFailed : CallOut → Bool
  | .failed _ => true
  | _ => false

/-- the line `zoo-write … <k>:<mode>` prints: write lengths of the completed calls, then `err` -/
def showFaultRun (outs : List CallOut) : String :=
  ";".intercalate (outs.map fun o => match o with
    | .done ws => if ws.isEmpty then "-" else ",".intercalate (ws.map fun w => toString w.length)
    | .failed _ => "err"
    | .panicked => "panic")

end PQ
