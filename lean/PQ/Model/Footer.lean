import PQ.Model.Schema
/-!
# Decoding thrift values into the structures the reader uses
(mirror of the generated `Read` methods of schema/parquet.go: fields are matched by id *and* wire
type, anything else is skipped, missing required fields are an error)
-/
namespace PQ
open PQ.Thrift

def _root_.PQ.Thrift.TVal.fieldsOf : TVal → List (Nat × TVal)
  | .struct fs => fs
  | _ => []

def getI32 (fs : List (Nat × TVal)) (id : Nat) : Option Int :=
  match fs.lookup id with
  | some (.int 5 n) => some n
  | _ => none

def getI64 (fs : List (Nat × TVal)) (id : Nat) : Option Int :=
  match fs.lookup id with
  | some (.int 6 n) => some n
  | _ => none

def getBin (fs : List (Nat × TVal)) (id : Nat) : Option Bytes :=
  match fs.lookup id with
  | some (.bin b) => some b
  | _ => none

def getList (fs : List (Nat × TVal)) (id : Nat) : Option (List TVal) :=
  match fs.lookup id with
  | some (.list _ xs) => some xs
  | _ => none

def getStruct (fs : List (Nat × TVal)) (id : Nat) : Option (List (Nat × TVal)) :=
  match fs.lookup id with
  | some (.struct s) => some s
  | _ => none

structure ColMeta where
  ty : Int
  encodings : List Int
  path : List Bytes
  codec : Int
  numValues : Int
  totalUncompressed : Int
  totalCompressed : Int
  dataPageOffset : Int
deriving Repr, BEq

structure ChunkMeta where
  fileOffset : Int
  md : Option ColMeta
deriving Repr, BEq

structure RGMeta where
  columns : List ChunkMeta
  totalByteSize : Int
  numRows : Int
deriving Repr, BEq

/-- a decoded schema element: its i32 fields by id, and its name -/
abbrev SElemD := List (Nat × Int) × Bytes

structure FMD where
  version : Int
  schema : List SElemD
  numRows : Int
  rowGroups : List RGMeta
deriving Repr, BEq

def intOf : TVal → Option Int
  | .int _ n => some n
  | _ => none

def binOf : TVal → Option Bytes
  | .bin b => some b
  | _ => none

def decColMeta (fs : List (Nat × TVal)) : Option ColMeta := do
  let ty ← getI32 fs 1
  let encs ← getList fs 2
  let path ← getList fs 3
  let codec ← getI32 fs 4
  let nv ← getI64 fs 5
  let tu ← getI64 fs 6
  let tc ← getI64 fs 7
  let dpo ← getI64 fs 9
  some { ty := ty, encodings := encs.filterMap intOf, path := path.filterMap binOf, codec := codec, numValues := nv,
         totalUncompressed := tu, totalCompressed := tc, dataPageOffset := dpo }

def decChunk (t : TVal) : Option ChunkMeta := do
  let fs := t.fieldsOf
  let fo ← getI64 fs 2
  match fs.lookup 3 with
  | some (.struct m) => (decColMeta m).map fun cm => { fileOffset := fo, md := some cm }
  | _ => some { fileOffset := fo, md := none }

def decRG (t : TVal) : Option RGMeta := do
  let fs := t.fieldsOf
  let cols ← getList fs 1
  let tbs ← getI64 fs 2
  let nr ← getI64 fs 3
  let cs ← cols.mapM decChunk
  some { columns := cs, totalByteSize := tbs, numRows := nr }

def decSElem (t : TVal) : Option SElemD := do
  let fs := t.fieldsOf
  let name ← getBin fs 4
  some ((fs.filterMap fun (id, v) => match v with | .int 5 n => some (id, n) | _ => none), name)

/-- `FileMetaData.Read`: `none` = the thrift reader reports an error -/
def decFMD (t : TVal) : Option FMD := do
  let fs := t.fieldsOf
  let v ← getI32 fs 1
  let sch ← getList fs 2
  let nr ← getI64 fs 3
  let rgs ← getList fs 4
  let se ← sch.mapM decSElem
  let rs ← rgs.mapM decRG
  some { version := v, schema := se, numRows := nr, rowGroups := rs }

structure PHdr where
  ty : Int
  uncompressed : Int
  compressed : Int
  dph : Option (Int × Int × Int × Int × Option (List (Nat × TVal)))   -- num_values, encoding, def enc, rep enc, statistics
  hasDict : Bool
  hasIndex : Bool
  hasV2 : Bool

/-- `PageHeader.Read` -/
def decPHdr (t : TVal) : Option PHdr := do
  let fs := t.fieldsOf
  let ty ← getI32 fs 1
  let u ← getI32 fs 2
  let c ← getI32 fs 3
  let dph ← match fs.lookup 5 with
    | some (.struct d) =>
      (do let nv ← getI32 d 1
          let e ← getI32 d 2
          let de ← getI32 d 3
          let re ← getI32 d 4
          some (some (nv, e, de, re, getStruct d 5)))
    | _ => some none
  some { ty := ty, uncompressed := u, compressed := c, dph := dph,
         hasDict := (getStruct fs 7).isSome, hasIndex := (getStruct fs 6).isSome, hasV2 := (getStruct fs 8).isSome }

end PQ
