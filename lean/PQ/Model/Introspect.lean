import PQ.Model.Spec
/-!
# Introspection calls: `ReadMetaData`, `PageHeaders`, `PageHeadersAtOffset`
(mirrors of parquet.go, and the independent expectation computed from `parseFile`'s walk)
-/
namespace PQ
open PQ.Thrift

/-- `ReadMetaData`: the decoded footer -/
def readMetaData (file : Bytes) : R FMD :=
  if file.length < 8 then .error .err else
  if file.drop (file.length - 4) ≠ [80, 65, 82, 49] then .error .err else
  let size := fromLE ((file.drop (file.length - 8)).take 4)
  if size + 8 > file.length then .error .err else
  match ({ data := file, pos := file.length - (size + 8) } : Src).readStruct with
  | .error e => .error e
  | .ok (t, _) => match decFMD t with
    | none => .error .err
    | some f => .ok f

/-- `PageHeadersAtOffset(r, o, n)`: headers from offset `o` until their `num_values` cover `n`
(exactly one when `n = 0`), seeking over `compressed_page_size` bytes between headers -/
def pageHeadersAt (file : Bytes) (o n : Int) : R (List PHdr) :=
  if o < 0 then .error .err else
  let rec go : Nat → Nat → Int → Bool → List PHdr → R (List PHdr)
    | 0, _, _, _, _ => .error .err
    | fuel+1, pos, nRead, readOne, acc =>
      if !readOne || nRead < n then
        match ({ data := file, pos := pos } : Src).readStruct with
        | .error e => .error e
        | .ok (t, s) =>
          match decPHdr t with
          | none => .error .err
          | some ph =>
            let np : Int := (s.pos : Int) + ph.compressed
            if np < 0 then .error .err else
            match ph.dph with
            | none => .error .panic
            | some (nv, _, _, _, _) => go fuel np.toNat (nRead + nv) true (acc ++ [ph])
      else .ok acc
  go (file.length + 2) o.toNat 0 (decide (n > 0)) []

/-- `PageHeaders(footer, r)` -/
def pageHeaders (file : Bytes) (f : FMD) : R (List PHdr) :=
  (f.rowGroups.flatMap (·.columns)).foldlM (fun acc ch =>
    match ch.md with
    | none => .error .panic
    | some m =>
      -- a column chunk without bytes (a row group without rows) has no pages
      if m.totalCompressed = 0 then .ok acc else
      match pageHeadersAt file m.dataPageOffset m.numValues with
      | .error e => .error e
      | .ok hs => .ok (acc ++ hs)) []

end PQ
