import PQ.Model.Page
/-!
# The generated `ParquetWriter` and `parquet.Metadata` as a state machine

`step : WState → Op → WState × sink writes`.  The page chain (`child` writers) is a list of
pages; `Metadata` is `docs`, `rowGroupDocs` and the list of row groups with their per-column
chunk totals; `footerT` mirrors `Metadata.Footer`.
-/
namespace PQ
open PQ.Thrift

structure Chunk where
  numValues : Nat := 0
  totalUncompressed : Nat := 0
  totalCompressed : Nat := 0
deriving Repr, BEq, DecidableEq

structure RG where
  numRows : Nat := 0
  chunks : List (Option Chunk)     -- by column index (`columns` map keyed by the joined path)
deriving Repr, BEq, DecidableEq

structure Page where
  len : Nat := 0
  cols : List PageEntries          -- per column: entries of the records added to this page
deriving Repr

structure WState where
  cols : List Col
  max : Nat
  codec : Codec
  pages : List Page                -- the chain: parent writer first, then children
  docs : Nat := 0
  rowGroupDocs : Nat := 0
  rgs : List RG                    -- the last one is open

/-- a record as the writer sees it: per column, the striped entries -/
abbrev Rec := List PageEntries

inductive Op
  | add (r : Rec)
  | write
  | close

def emptyPage (n : Nat) : Page := { len := 0, cols := List.replicate n [] }
def emptyRG (n : Nat) : RG := { numRows := 0, chunks := List.replicate n none }

def WState.init (cols : List Col) (max : Nat) (codec : Codec) : WState :=
  { cols := cols, max := max, codec := codec, pages := [emptyPage cols.length], rgs := [emptyRG cols.length] }

def Page.add (p : Page) (r : Rec) : Page :=
  { len := p.len + 1, cols := List.zipWith (· ++ ·) p.cols r }

/-- `Add`: the first page of the chain that is not full takes the record; a new child is created
when all are full. (`p.len == p.max` is the Go test.) -/
def addToChain (max n : Nat) : List Page → Rec → List Page
  | [], r => [(emptyPage n).add r]
  | p :: ps, r => if p.len = max then p :: addToChain max n ps r else p.add r :: ps

def WState.add (s : WState) (r : Rec) : WState :=
  { s with pages := addToChain s.max s.cols.length s.pages r, docs := s.docs + 1, rowGroupDocs := s.rowGroupDocs + 1 }

def Chunk.addPage (c : Chunk) (count dataLen compressedLen : Nat) : Chunk :=
  { numValues := c.numValues + count, totalUncompressed := c.totalUncompressed + dataLen, totalCompressed := c.totalCompressed + compressedLen }

/-- `updateRowGroup` for one page of column `i` -/
def RG.update (rg : RG) (rowGroupDocs i count dataLen compressedLen : Nat) : RG :=
  { numRows := rowGroupDocs,
    chunks := rg.chunks.modify i (fun c => some ((c.getD {}).addPage count dataLen compressedLen)) }

/-- the pages of one `Write()` in emission order: column by column, along the chain -/
def writeOrder (s : WState) : List (Nat × Col × PageEntries) :=
  (s.cols.zipIdx).flatMap fun (c, i) => s.pages.map fun p => (i, c, p.cols.getD i [])

/-- `Write()`: emits every page (header write, payload write), updates the open row group, resets the
chain and opens a new row group -/
def WState.write (s : WState) : WState × List Bytes :=
  -- `if p.len == 0 { return nil }`: nothing added since the last Write
  if (s.pages.head?.map (·.len)).getD 0 = 0 then (s, []) else
  let (rg, out) := (writeOrder s).foldl (fun (acc : RG × List Bytes) (i, c, es) =>
      let (hdr, body) := pageBytes s.codec c es
      let raw := (pagePayload c es).length
      (acc.1.update s.rowGroupDocs i es.length (raw + hdr.length) (body.length + hdr.length), acc.2 ++ [hdr, body]))
    (s.rgs.getLast?.getD (emptyRG s.cols.length), [])
  ({ s with pages := [emptyPage s.cols.length], rowGroupDocs := 0,
            rgs := s.rgs.dropLast ++ [rg, emptyRG s.cols.length] }, out)

def chunkT (c : Col) (codec : Nat) (ch : Chunk) (pos : Nat) : TVal :=
  .struct [(2, .int 6 pos),
           (3, .struct [(1, .int 5 c.ty.phys), (2, .list 5 [.int 5 0]), (3, .list 8 (c.path.map fun n => .bin (strBytes n))),
                        (4, .int 5 codec), (5, .int 6 ch.numValues), (6, .int 6 ch.totalUncompressed),
                        (7, .int 6 ch.totalCompressed), (9, .int 6 pos)])]

/-- the column chunks of one kept row group, with the running offset -/
def rgChunksT (cols : List Col) (codec : Nat) : List (Col × Option Chunk) → Nat → List TVal × Nat × Nat
  | [], pos => ([], pos, 0)
  | (_, none) :: rest, pos => rgChunksT cols codec rest pos
  | (c, some ch) :: rest, pos =>
    let (ts, pos', tot) := rgChunksT cols codec rest (pos + ch.totalCompressed)
    (chunkT c codec ch pos :: ts, pos', tot + ch.totalCompressed)

/-- `Footer`'s loop: row groups with `NumRows == 0` are skipped -/
def rowGroupsT (cols : List Col) (codec : Nat) : List RG → Nat → List TVal
  | [], _ => []
  | rg :: rest, pos =>
    if rg.numRows = 0 then rowGroupsT cols codec rest pos
    else
      let (chs, pos', tot) := rgChunksT cols codec (cols.zip rg.chunks) pos
      .struct [(1, .list 12 chs), (2, .int 6 tot), (3, .int 6 rg.numRows)] :: rowGroupsT cols codec rest pos'

/-- `FileMetaData` as `Footer` assembles it; `none` where `schema()` panics -/
def footerT (s : WState) : Option TVal :=
  match schemaElems s.cols with
  | none => none
  | some se =>
    some (.struct [(1, .int 5 1), (2, .list 12 (se.map SElem.toT)), (3, .int 6 (((s.rgs.filter (·.numRows ≠ 0)).map (·.numRows)).sum)),
                   (4, .list 12 (rowGroupsT s.cols s.codec.id s.rgs 4))])

def par1 : Bytes := [80, 65, 82, 49]

/-- `Close()`: footer bytes, its little-endian length, the magic — three sink writes -/
def WState.close (s : WState) : Option (List Bytes) :=
  match footerT s with
  | none => none
  | some t => let b := t.enc; some [b, le32 b.length, par1]

/-- one API call; `none` = the call panics -/
def WState.step (s : WState) : Op → Option (WState × List Bytes)
  | .add r => some (s.add r, [])
  | .write => some s.write
  | .close => match s.close with
    | none => none
    | some ws => some (s, ws)

/-- sink writes per API call, the constructor (`begin` writes the magic) first -/
def runOps : WState → List Op → List (Option (List Bytes))
  | _, [] => []
  | s, op :: ops => match s.step op with
    | none => [none]
    | some (s', ws) => some ws :: runOps s' ops

def runWriter (cols : List Col) (max : Nat) (codec : Codec) (ops : List Op) : List (Option (List Bytes)) :=
  some [par1] :: runOps (WState.init cols max codec) ops

/-- the byte stream given to the sink -/
def fileBytes (calls : List (Option (List Bytes))) : Bytes :=
  calls.flatMap fun c => (c.getD []).flatten

/-- all uncompressed page payloads in emission order (to ask the external codec for their images) -/
def payloadsOf : WState → List Op → List Bytes
  | _, [] => []
  | s, .write :: ops =>
    (if (s.pages.head?.map (·.len)).getD 0 = 0 then [] else (writeOrder s).map (fun (_, c, es) => pagePayload c es)) ++ payloadsOf s.write.1 ops
  | s, op :: ops => match s.step op with
    | none => []
    | some (s', _) => payloadsOf s' ops

end PQ
