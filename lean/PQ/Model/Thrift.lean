import PQ.Model.Bytes
/-!
# Thrift compact protocol: generic value tree, encoder, fuel decoder

Written from the thrift compact-protocol specification; the encoder's bytes are compared
with what the real apache/thrift library emits on every file the harness produces.
-/
namespace PQ.Thrift
open PQ

/-- unsigned varint (LEB128), arbitrary size -/
def uvar (n : Nat) : Bytes :=
  if h : n < 128 then [n] else (n % 128 + 128) :: uvar (n / 128)
termination_by n
decreasing_by omega

def zig (i : Int) : Nat := if i ≥ 0 then 2 * i.toNat else 2 * (-i - 1).toNat + 1
def unzig (n : Nat) : Int := if n % 2 = 0 then (n / 2 : Nat) else -((n / 2 : Nat) : Int) - 1

def readUvar : Nat → Bytes → Option (Nat × Bytes)
  | 0, _ => none
  | _, [] => none
  | fuel+1, b :: bs =>
    if b < 128 then some (b, bs)
    else match readUvar fuel bs with
      | none => none
      | some (x, rest) => some (b % 128 + 128 * x, rest)

/- compact type codes -/
def tTrue := 1
def tFalse := 2
def tI32 := 5
def tI64 := 6
def tBin := 8
def tList := 9
def tStruct := 12

inductive TVal where
  | bool (b : Bool)
  | int (ty : Nat) (n : Int)          -- ty = 5 (i32) or 6 (i64): same wire form
  | bin (bs : Bytes)
  | list (ety : Nat) (xs : List TVal)
  | struct (fs : List (Nat × TVal))   -- (field id, value), ids strictly increasing

/-- the 4-bit type code used for a value in a field header / as list element type -/
def TVal.code : TVal → Nat
  | .bool b => if b then tTrue else tFalse
  | .int ty _ => ty
  | .bin _ => tBin
  | .list _ _ => tList
  | .struct _ => tStruct

def fieldHeader (last id code : Nat) : Bytes :=
  if last < id ∧ id - last ≤ 15 then [(id - last) * 16 + code]
  else code :: uvar (zig id)

def listHeader (ety n : Nat) : Bytes :=
  if n < 15 then [n * 16 + ety] else (15 * 16 + ety) :: uvar n

mutual
/-- value bytes in element position (list element or after a field header) -/
def TVal.enc : TVal → Bytes
  | .bool b => [if b then 1 else 2]          -- only used for list elements
  | .int _ n => uvar (zig n)
  | .bin bs => uvar bs.length ++ bs
  | .list ety xs => listHeader (if ety = tTrue ∨ ety = tFalse then tTrue else ety) xs.length ++ encList xs
  | .struct fs => encFields 0 fs
def encList : List TVal → Bytes
  | [] => []
  | x :: xs => x.enc ++ encList xs
def encFields : Nat → List (Nat × TVal) → Bytes
  | _, [] => [0]
  | last, (id, v) :: fs =>
    (match v with
     | .bool _ => fieldHeader last id v.code       -- value lives in the header
     | _ => fieldHeader last id v.code ++ v.enc) ++ encFields id fs
end


def readFieldId (last h : Nat) (rest : Bytes) : Option (Nat × Bytes) :=
  if h / 16 = 0 then
    match readUvar rest.length rest with
    | some (z, r) => some ((unzig z).toNat, r)
    | none => none
  else some (last + h / 16, rest)

mutual
/-- decode one value whose compact type code is `code` (element position) -/
def decVal (code : Nat) : Nat → Bytes → Option (TVal × Bytes)
  | 0, _ => none
  | fuel+1, bs =>
    if code = tTrue ∨ code = tFalse then
      match bs with
      | b :: rest => some (.bool (b = 1), rest)
      | [] => none
    else if code = tI32 ∨ code = tI64 then
      match readUvar bs.length bs with
      | some (n, rest) => some (.int code (unzig n), rest)
      | none => none
    else if code = tBin then
      match readUvar bs.length bs with
      | some (n, rest) => if rest.length < n then none else some (.bin (rest.take n), rest.drop n)
      | none => none
    else if code = tList then
      match bs with
      | [] => none
      | h :: rest =>
        let ety := h % 16
        let szr := if h / 16 = 15 then readUvar rest.length rest else some (h / 16, rest)
        match szr with
        | none => none
        | some (n, r1) =>
          match decList ety n fuel r1 with
          | some (xs, r2) => some (.list ety xs, r2)
          | none => none
    else if code = tStruct then
      match decFields 0 fuel bs with
      | some (fs, rest) => some (.struct fs, rest)
      | none => none
    else none
def decList (ety : Nat) : Nat → Nat → Bytes → Option (List TVal × Bytes)
  | 0, _, bs => some ([], bs)
  | _+1, 0, _ => none
  | n+1, fuel+1, bs =>
    match decVal ety fuel bs with
    | none => none
    | some (x, rest) =>
      match decList ety n fuel rest with
      | none => none
      | some (xs, r1) => some (x :: xs, r1)
def decFields (last : Nat) : Nat → Bytes → Option (List (Nat × TVal) × Bytes)
  | 0, _ => none
  | _+1, [] => none
  | fuel+1, h :: rest =>
    if h = 0 then some ([], rest) else
    let code := h % 16
    match readFieldId last h rest with
    | none => none
    | some (id, r1) =>
      if code = tTrue ∨ code = tFalse then
        match decFields id fuel r1 with
        | none => none
        | some (fs, r2) => some ((id, .bool (code = tTrue)) :: fs, r2)
      else
        match decVal code fuel r1 with
        | none => none
        | some (v, r2) =>
          match decFields id fuel r2 with
          | none => none
          | some (fs, r3) => some ((id, v) :: fs, r3)
end

end PQ.Thrift
