import PQ.Lemmas.ForeignPage
import PQ.Lemmas.ReaderRT
/-!
# The library's reader on whole files of the independent spec writer (C04)

Part 1 restates the row-group / `Pages()` / `Next`-`Scan` reasoning of `Lemmas/ReaderRT.lean` for an
*arbitrary* layout of column chunks (`GChunk`): all that is used of a chunk is that the typed `Read`
started at its first byte fills the column's buffer with the chunk's entries and stops right after it
(`ChunkReads`), and that the footer's `ColumnChunk` names the column and carries the chunk's
`num_values`, `total_compressed_size` and codec (`MetaFor`).

Part 2 instantiates it with the files `specWrite` emits, for every choice stream:
`chunks_spec` / `groups_spec` (what `specWriteLog` lays out and what its footer decodes to),
`spFooter_need` / `decVal_spFooter` / `decFMD_spFooter` (the footer, with or without key/value metadata and
`created_by`, through the thrift decoder with the reader's fuel and through `FileMetaData.Read`),
`grgOK_spec` (every row group — also one without records — is one the reader handles) and the whole-file
theorem `readAll_specWrite`.
-/
namespace PQ
open PQ.Thrift

/-! ## Part 1: any layout -/

/-- one column chunk in a file: its column, what `Metadata.Pages()` lists for it, its bytes, its entries -/
structure GChunk where
  col : Col
  pg : PageMeta
  bytes : Bytes
  es : PageEntries

/-- the typed `Read` started at the chunk's first byte, on an empty buffer, returns the chunk's entries
and leaves the source right after the chunk — wherever the chunk lies in the file -/
def ChunkReads (dc : Decomp) (g : GChunk) : Prop :=
  ∀ pre post : Bytes, readChunk dc g.col g.pg {} (Src.mk (pre ++ g.bytes ++ post) pre.length) =
    .ok (colBufOf g.col g.es, Src.mk (pre ++ g.bytes ++ post) (pre.length + g.bytes.length))

/-- the footer's `ColumnChunk` for the chunk -/
def MetaFor (g : GChunk) (ch : ChunkMeta) : Prop :=
  ∃ m, ch.md = some m ∧ m.path = g.col.path.map strBytes ∧ m.numValues = g.pg.n ∧ m.totalCompressed = g.pg.size ∧
    m.codec = g.pg.codec

/-- the footer's `ColumnChunk`s of a row group, chunk by chunk -/
def MetasFor : List GChunk → List ChunkMeta → Prop
  | [], [] => True
  | g :: gs, m :: ms => MetaFor g m ∧ MetasFor gs ms
  | _, _ => False

def gBytes (gs : List GChunk) : Bytes := gs.flatMap (·.bytes)

theorem gBytes_nil : gBytes [] = [] := rfl
theorem gBytes_cons (g : GChunk) (gs : List GChunk) : gBytes (g :: gs) = g.bytes ++ gBytes gs := by
  simp [gBytes]

/-- the chunk walk of `readRowGroup` over the not yet loaded chunks `todo` of a row group, laid out
back to back from `pre.length` -/
theorem readRowGroup_go_gen (dc : Decomp) :
    ∀ (todo : List GChunk) (metas : List ChunkMeta) (doneC : List Col) (doneB : List ColBuf)
      (doneP tailP : List (List PageMeta)) (pre post : Bytes) (N cu rc rn : Int) (rgs : List RGMeta) (e fs : Bool),
      MetasFor todo metas →
      ColsResolve (doneC ++ todo.map (·.col)) →
      doneB.length = doneC.length → doneP.length = doneC.length → tailP.length = todo.length →
      (∀ g ∈ todo, ChunkReads dc g) →
      RState.readRowGroup.go metas
        { cols := doneC ++ todo.map (·.col), dc := dc, src := Src.mk (pre ++ gBytes todo ++ post) pre.length,
          rows := N, cursor := cu, rgCursor := rc, rgCount := rn,
          pages := doneP ++ List.zipWith (· :: ·) (todo.map (·.pg)) tailP,
          rowGroups := rgs, bufs := doneB ++ List.replicate todo.length {}, err := e, fieldsSet := fs } =
      .ok { cols := doneC ++ todo.map (·.col), dc := dc,
            src := Src.mk (pre ++ gBytes todo ++ post) (pre.length + (gBytes todo).length),
            rows := N, cursor := cu, rgCursor := rc, rgCount := rn, pages := doneP ++ tailP, rowGroups := rgs,
            bufs := doneB ++ todo.map (fun g => colBufOf g.col g.es), err := e, fieldsSet := fs }
  | [], metas, doneC, doneB, doneP, tailP, pre, post, N, cu, rc, rn, rgs, e, fs, hm, _, _, _, htl, _ => by
    have : tailP = [] := List.eq_nil_of_length_eq_zero (by simpa using htl)
    subst this
    cases metas with
    | cons _ _ => simp [MetasFor] at hm
    | nil => simp [RState.readRowGroup.go, gBytes_nil]
  | p :: rest, metas, doneC, doneB, doneP, tailP, pre, post, N, cu, rc, rn, rgs, e, fs, hm, hres, hB, hP, htl, hg => by
    cases tailP with
    | nil => simp at htl
    | cons t tailP =>
      cases metas with
      | nil => simp [MetasFor] at hm
      | cons ch metas' =>
        obtain ⟨hm1, hm2⟩ := hm
        obtain ⟨m, hmd, hpath, _, _, _⟩ := hm1
        have hidx : colIndex (doneC ++ (p :: rest).map (·.col)) (pathName (p.col.path.map strBytes)) = some doneC.length :=
          hres doneC.length p.col (by simp)
        have hfile : pre ++ gBytes (p :: rest) ++ post = pre ++ p.bytes ++ (gBytes rest ++ post) := by
          rw [gBytes_cons]; simp only [List.append_assoc]
        have hfile2 : pre ++ gBytes (p :: rest) ++ post = (pre ++ p.bytes) ++ gBytes rest ++ post := by
          rw [gBytes_cons]; simp only [List.append_assoc]
        have hrc := hg p List.mem_cons_self pre (gBytes rest ++ post)
        rw [← hfile] at hrc
        have ih := readRowGroup_go_gen dc rest metas' (doneC ++ [p.col]) (doneB ++ [colBufOf p.col p.es]) (doneP ++ [t]) tailP
          (pre ++ p.bytes) post N cu rc rn rgs e fs hm2
          (by simpa [List.append_assoc] using hres) (by simp [hB]) (by simp [hP]) (by simpa using htl)
          (fun q hq => hg q (List.mem_cons_of_mem _ hq))
        rw [← hfile2] at ih
        simp only [List.append_assoc doneC, List.append_assoc doneP, List.append_assoc doneB, List.singleton_append,
          List.length_append] at ih
        simp only [RState.readRowGroup.go, hmd, hpath]
        simp only [List.map_cons, List.zipWith_cons_cons, List.length_cons, List.replicate_succ] at hidx ⊢
        simp only [hidx]
        rw [← hP, getD_append_length, hP, ← hB, getD_append_length, hB, getElem?_append_length]
        simp only [hrc]
        rw [← hP, set_append_length, hP, ← hB, set_append_length]
        rw [ih]
        simp only [gBytes_cons, List.length_append, Nat.add_assoc]

/-- **`readRowGroup` on one row group, any chunk layout** -/
theorem readRowGroup_gen (dc : Decomp) (cols : List Col) (hres : ColsResolve cols) (chunks : List GChunk)
    (rgm : RGMeta) (hcols : chunks.map (·.col) = cols) (hm : MetasFor chunks rgm.columns)
    (hg : ∀ g ∈ chunks, ChunkReads dc g)
    (pre post : Bytes) (tailP : List (List PageMeta)) (htl : tailP.length = cols.length) (restRG : List RGMeta)
    (N cu rc rn : Int) (bufs0 : List ColBuf) (e fs : Bool) :
    RState.readRowGroup
        { cols := cols, dc := dc, src := Src.mk (pre ++ gBytes chunks ++ post) pre.length, rows := N, cursor := cu,
          rgCursor := rc, rgCount := rn,
          pages := List.zipWith (· :: ·) (chunks.map (·.pg)) tailP,
          rowGroups := rgm :: restRG, bufs := bufs0, err := e, fieldsSet := fs } =
      .ok { cols := cols, dc := dc,
            src := Src.mk (pre ++ gBytes chunks ++ post) (pre.length + (gBytes chunks).length), rows := N,
            cursor := cu, rgCursor := 0, rgCount := rgm.numRows, pages := tailP, rowGroups := restRG,
            bufs := chunks.map (fun g => colBufOf g.col g.es), err := e, fieldsSet := true } := by
  have hlen : cols.length = chunks.length := by rw [← hcols, List.length_map]
  have hgo := readRowGroup_go_gen dc chunks rgm.columns [] [] [] tailP pre post N cu 0 rgm.numRows
    (rgm :: restRG) e true hm (by simpa [hcols] using hres) rfl rfl (by omega) hg
  simp only [List.nil_append, hcols] at hgo
  unfold RState.readRowGroup
  simp only [hlen]
  rw [hgo]

/-! ### `Metadata.Pages()` -/

/-- per column, the `PageMeta`s of its chunks in the remaining row groups -/
def pagesForG (n : Nat) : List (List GChunk) → List (List PageMeta)
  | [] => List.replicate n []
  | g :: rest => List.zipWith (· :: ·) (g.map (·.pg)) (pagesForG n rest)

theorem pagesForG_length (n : Nat) : ∀ (gs : List (List GChunk)), (∀ g ∈ gs, g.length = n) →
    (pagesForG n gs).length = n
  | [], _ => by simp [pagesForG]
  | g :: rest, h => by
    have ih := pagesForG_length n rest (fun q hq => h q (List.mem_cons_of_mem _ hq))
    simp [pagesForG, ih, h g List.mem_cons_self]

theorem pagesStep_gen :
    ∀ (todo : List GChunk) (metas : List ChunkMeta) (doneC : List Col) (doneA todoA : List (List PageMeta)),
      MetasFor todo metas →
      ColsResolve (doneC ++ todo.map (·.col)) → doneA.length = doneC.length → todoA.length = todo.length →
      metas.foldlM (pagesStep (doneC ++ todo.map (·.col))) (doneA ++ todoA) =
        .ok (doneA ++ List.zipWith (fun a p => a ++ [p]) todoA (todo.map (·.pg)))
  | [], metas, doneC, doneA, todoA, hm, _, _, htl => by
    have : todoA = [] := List.eq_nil_of_length_eq_zero (by simpa using htl)
    subst this
    cases metas with
    | cons _ _ => simp [MetasFor] at hm
    | nil => simp [pure, Except.pure]
  | p :: rest, metas, doneC, doneA, todoA, hm, hres, hA, htl => by
    cases todoA with
    | nil => simp at htl
    | cons a todoA =>
      cases metas with
      | nil => simp [MetasFor] at hm
      | cons ch metas' =>
        obtain ⟨⟨m, hmd, hpath, hnv, htc, hcodec⟩, hm2⟩ := hm
        have hidx : colIndex (doneC ++ (p :: rest).map (·.col)) (pathName (p.col.path.map strBytes)) = some doneC.length :=
          hres doneC.length p.col (by simp)
        have ih := pagesStep_gen rest metas' (doneC ++ [p.col]) (doneA ++ [a ++ [p.pg]]) todoA hm2
          (by simpa [List.append_assoc] using hres) (by simp [hA]) (by simpa using htl)
        simp only [List.append_assoc doneC, List.append_assoc doneA, List.singleton_append] at ih
        simp only [List.map_cons] at hidx ⊢
        simp only [List.foldlM_cons, pagesStep, hmd, hpath, hidx, bind, Except.bind, hnv, htc, hcodec]
        rw [← hA, modify_append_length, List.zipWith_cons_cons]
        exact ih

/-- the footer's row groups, row group by row group -/
def RGsFor : List (List GChunk) → List RGMeta → Prop
  | [], [] => True
  | g :: gs, m :: ms => MetasFor g m.columns ∧ RGsFor gs ms
  | _, _ => False

/-- the row-group walk of `Pages()` -/
theorem pagesOf_fold_gen (cols : List Col) (hres : ColsResolve cols) :
    ∀ (gs : List (List GChunk)) (rgms : List RGMeta) (acc : List (List PageMeta)), RGsFor gs rgms →
      acc.length = cols.length → (∀ g ∈ gs, g.map (·.col) = cols) →
      rgms.foldlM (fun acc rg => rg.columns.foldlM (pagesStep cols) acc) acc =
        .ok (List.zipWith (· ++ ·) acc (pagesForG cols.length gs))
  | [], rgms, acc, hm, hacc, _ => by
    cases rgms with
    | cons _ _ => simp [RGsFor] at hm
    | nil => simp [pagesForG, pure, Except.pure, zipWith_append_replicate_nil acc _ hacc]
  | g :: rest, rgms, acc, hm, hacc, h => by
    cases rgms with
    | nil => simp [RGsFor] at hm
    | cons rgm rgms' =>
      obtain ⟨hm1, hm2⟩ := hm
      have hc := h g List.mem_cons_self
      have hlen : g.length = cols.length := by rw [← hc, List.length_map]
      have h1 := pagesStep_gen g rgm.columns [] [] acc hm1 (by simpa [hc] using hres) rfl (by omega)
      simp only [List.nil_append, hc] at h1
      have ih := pagesOf_fold_gen cols hres rest rgms'
        (List.zipWith (fun a p => a ++ [p]) acc (g.map (·.pg))) hm2
        (by simp [hacc, hlen]) (fun q hq => h q (List.mem_cons_of_mem _ hq))
      simp only [List.foldlM_cons, h1, bind, Except.bind, ih, pagesForG, zipWith_snoc_append]

/-- **`Metadata.Pages()` on any footer describing the chunks** -/
theorem pagesOf_gen (cols : List Col) (hres : ColsResolve cols) (gs : List (List GChunk)) (f : FMD)
    (hm : RGsFor gs f.rowGroups) (h : ∀ g ∈ gs, g.map (·.col) = cols) :
    pagesOf cols f = .ok (pagesForG cols.length gs) := by
  rw [pagesOf_eq]
  rw [pagesOf_fold_gen cols hres gs f.rowGroups _ hm (by simp) h, zipWith_nil_append]
  apply pagesForG_length
  intro g hg
  rw [← h g hg, List.length_map]

/-! ### `NewParquetReader` -/

/-- **`NewParquetReader` on `PAR1 ‖ data ‖ footer ‖ length ‖ PAR1`, any footer**: if the thrift decoder
returns `t` from the footer bytes (with the fuel the reader gives it) and `FileMetaData.Read` makes `f` of
it, whose row groups describe the chunks `gs`, the constructor goes on to load the first row group. -/
theorem openReader_gen (dc : Decomp) (cols : List Col) (hres : ColsResolve cols)
    (gs : List (List GChunk)) (hgs : ∀ g ∈ gs, g.map (·.col) = cols)
    (t : TVal) (f : FMD) (hf : decFMD t = some f) (hm : RGsFor gs f.rowGroups)
    (file data fenc : Bytes) (hfile : file = par1 ++ data ++ (fenc ++ le32 fenc.length ++ par1))
    (hn : fenc.length < 2 ^ 32)
    (hdec : decVal tStruct ((fenc ++ (le32 fenc.length ++ par1)).length + 2) (fenc ++ (le32 fenc.length ++ par1)) =
      some (t, le32 fenc.length ++ par1)) :
    openReader cols dc file =
      RState.readRowGroup
        { cols := cols, dc := dc, src := Src.mk file 4, rows := f.numRows, pages := pagesForG cols.length gs,
          rowGroups := f.rowGroups, bufs := List.replicate cols.length {} } := by
  have hp : par1.length = 4 := rfl
  have hlen : file.length = 4 + data.length + fenc.length + 8 := by
    rw [hfile]; simp only [List.length_append, le32_length, hp]; omega
  have h2 : file.drop (file.length - 4) = par1 := by
    have e : file = (par1 ++ data ++ (fenc ++ le32 fenc.length)) ++ par1 := by rw [hfile]; simp only [List.append_assoc]
    have l : (par1 ++ data ++ (fenc ++ le32 fenc.length)).length = file.length - 4 := by
      rw [hlen]; simp only [List.length_append, le32_length, hp]; omega
    rw [← l]
    conv => lhs; arg 2; rw [e]
    exact List.drop_left
  have h3 : (file.drop (file.length - 8)).take 4 = le32 fenc.length := by
    have e : file = (par1 ++ data ++ fenc) ++ (le32 fenc.length ++ par1) := by rw [hfile]; simp only [List.append_assoc]
    have l : (par1 ++ data ++ fenc).length = file.length - 8 := by
      rw [hlen]; simp only [List.length_append, hp]; omega
    rw [← l]
    conv => lhs; arg 2; arg 2; rw [e]
    rw [List.drop_left, List.take_left' (le32_length _)]
  have h3' : fromLE ((file.drop (file.length - 8)).take 4) = fenc.length := by
    rw [h3]
    exact fromLE_leBytes 4 _ (by have : (256 : Nat) ^ 4 = 2 ^ 32 := by decide
                                 omega)
  have h4 : file.drop (file.length - (fenc.length + 8)) = fenc ++ (le32 fenc.length ++ par1) := by
    have e : file = (par1 ++ data) ++ (fenc ++ (le32 fenc.length ++ par1)) := by rw [hfile]; simp only [List.append_assoc]
    have l : (par1 ++ data).length = file.length - (fenc.length + 8) := by
      rw [hlen]; simp only [List.length_append, hp]; omega
    rw [← l]
    conv => lhs; arg 2; rw [e]
    exact List.drop_left
  unfold openReader
  rw [if_neg (by omega), if_neg (by rw [h2]; simp [par1]), h3', if_neg (by omega)]
  simp only [Src.readStruct, h4, hdec, hf]
  cases hrg : f.rowGroups with
  | nil =>
    cases gs with
    | nil => simp [pagesForG]
    | cons g rest => rw [hrg] at hm; simp [RGsFor] at hm
  | cons g rest =>
    have hne : (g :: rest).isEmpty = false := rfl
    rw [← hrg]
    have hne' : f.rowGroups.isEmpty = false := by rw [hrg]; rfl
    simp only [hne', Bool.false_eq_true, if_false, pagesOf_gen cols hres gs f hm hgs]

/-! ### the `Next` / `Scan` loop -/

/-- one row group: its records, its chunks, its footer entry -/
structure GRG where
  recs : List Rec
  chunks : List GChunk
  rgm : RGMeta

/-- what the reader needs of a row group -/
structure GRG.OK (dc : Decomp) (cols : List Col) (g : GRG) : Prop where
  hcols : g.chunks.map (·.col) = cols
  hmetas : MetasFor g.chunks g.rgm.columns
  hrows : g.rgm.numRows = ((g.recs.length : Nat) : Int)
  hreads : ∀ ch ∈ g.chunks, ChunkReads dc ch
  hbufs : g.chunks.map (fun ch => colBufOf ch.col ch.es) = bufsOf cols g.recs
  hrecs : ∀ r ∈ g.recs, ∀ x ∈ cols.zipIdx, RecRd x.1 (r.getD x.2 [])

def dataOf (gs : List GRG) : Bytes := gs.flatMap fun g => gBytes g.chunks

theorem dataOf_cons (g : GRG) (gs : List GRG) : dataOf (g :: gs) = gBytes g.chunks ++ dataOf gs := by
  simp [dataOf]

theorem rgsFor_of_ok (dc : Decomp) (cols : List Col) : ∀ (gs : List GRG), (∀ g ∈ gs, g.OK dc cols) →
    RGsFor (gs.map (·.chunks)) (gs.map (·.rgm))
  | [], _ => by simp [RGsFor]
  | g :: gs, h => by
    simp only [List.map_cons, RGsFor]
    exact ⟨(h g List.mem_cons_self).hmetas, rgsFor_of_ok dc cols gs (fun q hq => h q (List.mem_cons_of_mem _ hq))⟩

/-- loading the first of the remaining row groups, laid out from `pre.length` -/
theorem readRowGroup_first (dc : Decomp) (cols : List Col) (hres : ColsResolve cols) (g : GRG) (gs : List GRG)
    (hok : ∀ g' ∈ g :: gs, g'.OK dc cols) (pre post : Bytes) (N cu rc rn : Int) (bufs0 : List ColBuf) (fs : Bool) :
    RState.readRowGroup
        { cols := cols, dc := dc, src := Src.mk (pre ++ dataOf (g :: gs) ++ post) pre.length,
          rows := N, cursor := cu, rgCursor := rc, rgCount := rn,
          pages := pagesForG cols.length ((g :: gs).map (·.chunks)),
          rowGroups := (g :: gs).map (·.rgm), bufs := bufs0, err := false, fieldsSet := fs } =
      .ok { cols := cols, dc := dc,
            src := Src.mk (pre ++ dataOf (g :: gs) ++ post) (pre ++ gBytes g.chunks).length,
            rows := N, cursor := cu, rgCursor := 0, rgCount := ((g.recs.length : Nat) : Int),
            pages := pagesForG cols.length (gs.map (·.chunks)),
            rowGroups := gs.map (·.rgm), bufs := bufsOf cols g.recs, err := false, fieldsSet := true } := by
  have hg := hok g List.mem_cons_self
  have hfile : pre ++ dataOf (g :: gs) ++ post = pre ++ gBytes g.chunks ++ (dataOf gs ++ post) := by
    rw [dataOf_cons]; simp only [List.append_assoc]
  have htl : (pagesForG cols.length (gs.map (·.chunks))).length = cols.length := by
    apply pagesForG_length
    intro q hq
    obtain ⟨g', hg', rfl⟩ := List.mem_map.mp hq
    rw [← (hok g' (List.mem_cons_of_mem _ hg')).hcols, List.length_map]
  have := readRowGroup_gen dc cols hres g.chunks g.rgm hg.hcols hg.hmetas hg.hreads pre (dataOf gs ++ post)
    (pagesForG cols.length (gs.map (·.chunks))) htl (gs.map (·.rgm)) N cu rc rn bufs0 false fs
  rw [← hfile, hg.hbufs, hg.hrows] at this
  simp only [List.map_cons, pagesForG, List.length_append] at this ⊢
  exact this

theorem sum_recs_zero : ∀ (gs : List GRG), (gs.map (·.recs.length)).sum = 0 → gs.flatMap (·.recs) = []
  | [], _ => rfl
  | g :: gs, h => by
    simp only [List.map_cons, List.sum_cons] at h
    have h1 : g.recs = [] := List.eq_nil_of_length_eq_zero (by omega)
    rw [List.flatMap_cons, h1, sum_recs_zero gs (by omega)]
    rfl

/-- **Loading the next row group that holds rows.**  With rows left in the row groups `gs` still to be
loaded (laid out from `pre.length`), `readRowGroup` followed by the skipping loop of `Next` (with fuel for
the row groups left) ends with the first row group of `gs` that holds records loaded — `r :: rs` — and
positioned after it, at the start of the row groups `gs'` that follow it; the row groups in between hold no
records. -/
theorem loadSkip_gen (dc : Decomp) (cols : List Col) (hres : ColsResolve cols) (N : Int) (post : Bytes) :
    ∀ (gs : List GRG), (∀ g ∈ gs, g.OK dc cols) → 0 < (gs.map (·.recs.length)).sum →
    ∀ (pre : Bytes) (cu rc rn : Int) (bufs0 : List ColBuf) (fs : Bool),
    ∃ st', RState.readRowGroup
        { cols := cols, dc := dc, src := Src.mk (pre ++ dataOf gs ++ post) pre.length,
          rows := N, cursor := cu, rgCursor := rc, rgCount := rn,
          pages := pagesForG cols.length (gs.map (·.chunks)),
          rowGroups := gs.map (·.rgm), bufs := bufs0, err := false, fieldsSet := fs } = .ok st' ∧
      st'.rowGroups.length + 1 = gs.length ∧
      ∃ (pre' : Bytes) (gs' : List GRG) (r : Rec) (rs : List Rec),
        pre ++ dataOf gs ++ post = pre' ++ dataOf gs' ++ post ∧
        gs.flatMap (·.recs) = (r :: rs) ++ gs'.flatMap (·.recs) ∧
        (gs.map (·.recs.length)).sum = (r :: rs).length + (gs'.map (·.recs.length)).sum ∧
        (∀ g ∈ gs', g.OK dc cols) ∧
        (∀ r' ∈ r :: rs, ∀ x ∈ cols.zipIdx, RecRd x.1 (r'.getD x.2 [])) ∧
        ∀ fuel : Nat, gs.length ≤ fuel + 1 →
          st'.skipEmpty fuel =
            .ok { cols := cols, dc := dc, src := Src.mk (pre ++ dataOf gs ++ post) pre'.length,
                  rows := N, cursor := cu, rgCursor := 0, rgCount := (((r :: rs).length : Nat) : Int),
                  pages := pagesForG cols.length (gs'.map (·.chunks)),
                  rowGroups := gs'.map (·.rgm), bufs := bufsOf cols (r :: rs), err := false, fieldsSet := true } := by
  intro gs
  induction gs with
  | nil => intro _ h; simp at h
  | cons b bs ih =>
    intro hbs hsum pre cu rc rn bufs0 fs
    have hbs' : ∀ b' ∈ bs, b'.OK dc cols := fun b' hb' => hbs b' (List.mem_cons_of_mem _ hb')
    have hok := hbs b List.mem_cons_self
    have hrecs := hok.hrecs
    have hload := readRowGroup_first dc cols hres b bs hbs pre post N cu rc rn bufs0 fs
    have hfile2 : pre ++ dataOf (b :: bs) ++ post = (pre ++ gBytes b.chunks) ++ dataOf bs ++ post := by
      rw [dataOf_cons]; simp only [List.append_assoc]
    simp only [List.map_cons, List.sum_cons] at hsum
    refine ⟨_, hload, by simp, ?_⟩
    cases hbr : b.recs with
    | cons r b' =>
      rw [hbr] at hrecs
      refine ⟨pre ++ gBytes b.chunks, bs, r, b', hfile2, by simp [hbr], by simp [hbr], hbs', hrecs, ?_⟩
      intro fuel _
      exact skipEmpty_nonempty _ _ (by simp only [List.length_cons]; omega)
    | nil =>
      rw [hbr] at hsum
      simp only [List.length_nil, Nat.zero_add] at hsum
      obtain ⟨st'', hl2, _, pre', gs', r, rs, hf', hflat, hsm, hok', hrs, hskip⟩ :=
        ih hbs' hsum (pre ++ gBytes b.chunks) cu 0 ((([] : List Rec).length : Nat) : Int) (bufsOf cols []) true
      rw [← hfile2] at hl2 hf' hskip
      refine ⟨pre', gs', r, rs, hf', by simp [hbr, hflat], by simp [hbr, hsm], hok', hrs, ?_⟩
      intro fuel hfuel
      cases bs with
      | nil => simp at hsum
      | cons b2 bs2 =>
        cases fuel with
        | zero => simp at hfuel
        | succ f =>
          rw [RState.skipEmpty, if_pos ⟨by simp, by simp⟩, hl2]
          exact hskip f (by simp only [List.length_cons] at hfuel ⊢; omega)

/-- **The `Next`/`Scan` loop, any chunk layout.**  `rs`: the records of the loaded row group not yet
delivered; `gs`: the row groups still to be loaded, laid out from `pre.length` — any of them may hold no
records: `Next` moves past those. -/
theorem readLoop_gen (dc : Decomp) (cols : List Col) (hres : ColsResolve cols) (N : Int) (post : Bytes) :
    ∀ (fuel : Nat) (gs : List GRG), (∀ g ∈ gs, g.OK dc cols) →
    ∀ (rs : List Rec), (∀ r ∈ rs, ∀ x ∈ cols.zipIdx, RecRd x.1 (r.getD x.2 [])) →
    ∀ (pre : Bytes) (cu rc rn : Int) (acc : List (List (List (Entry Bytes)))),
      N = cu + (rs.length : Nat) + ((((gs.map (·.recs.length)).sum : Nat)) : Int) →
      rn = rc + (rs.length : Nat) →
      rs.length + (gs.map (·.recs.length)).sum < fuel →
      readLoop fuel
          { cols := cols, dc := dc, src := Src.mk (pre ++ dataOf gs ++ post) pre.length,
            rows := N, cursor := cu, rgCursor := rc, rgCount := rn,
            pages := pagesForG cols.length (gs.map (·.chunks)),
            rowGroups := gs.map (·.rgm), bufs := bufsOf cols rs, err := false,
            fieldsSet := true } acc =
        some (acc ++ (rs ++ gs.flatMap (·.recs)).map (rowOf cols.length)) := by
  intro fuel
  induction fuel with
  | zero => intro _ _ _ _ _ _ _ _ _ _ _ hf; omega
  | succ f ih =>
    intro gs hgs rs hrs pre cu rc rn acc hN hrn hf
    cases rs with
    | cons r rs =>
      simp only [List.length_cons, Int.natCast_add, Int.natCast_one] at hN hrn hf
      have hnext := next_within { cols := cols, dc := dc, src := Src.mk (pre ++ dataOf gs ++ post) pre.length, rows := N, cursor := cu, rgCursor := rc, rgCount := rn, pages := pagesForG cols.length (gs.map (·.chunks)), rowGroups := gs.map (·.rgm), bufs := bufsOf cols (r :: rs), err := false, fieldsSet := true }
        rfl (by simp only; omega) (by simp only; omega)
      rw [readLoop_step f _ _ acc _ _ hnext rfl rfl (scanAll_bufsOf cols r rs hrs)]
      simp only
      rw [ih gs hgs rs (fun r' hr' => hrs r' (List.mem_cons_of_mem _ hr')) pre (cu + 1) (rc + 1) rn (acc ++ [rowOf cols.length r])
        (by omega) (by omega) (by omega)]
      simp
    | nil =>
      simp only [List.length_nil, Int.natCast_zero, Int.add_zero, Nat.zero_add] at hN hrn hf
      by_cases hz : (gs.map (·.recs.length)).sum = 0
      · -- only row groups without records are left: `cursor = Rows()` already
        rw [readLoop_done f _ acc rfl (by simp only [hz] at hN ⊢; omega), sum_recs_zero gs hz]
        simp
      · obtain ⟨st', hl, hlen, pre', gs', r, rs', hf', hflat, hsm, hok', hrs', hskip⟩ :=
          loadSkip_gen dc cols hres N post gs hgs (by omega) pre cu rc rn (bufsOf cols []) true
        have hnext := next_load_skip _ st' _ rfl (by simp only; omega) (by simp only; omega) hl
          (hskip st'.rowGroups.length (by omega))
        rw [readLoop_step f _ _ acc _ _ hnext rfl rfl (scanAll_bufsOf cols r rs' hrs')]
        simp only
        rw [hf']
        rw [ih gs' hok' rs' (fun r' hr' => hrs' r' (List.mem_cons_of_mem _ hr')) pre' (cu + 1) (0 + 1)
          (((r :: rs').length : Nat) : Int) (acc ++ [rowOf cols.length r])
          (by simp only [List.length_cons] at hsm; omega)
          (by simp only [List.length_cons, Int.natCast_add, Int.natCast_one]; omega)
          (by simp only [List.length_cons] at hsm; omega)]
        rw [hflat]
        simp

/-- **The whole read, any chunk layout**: a file `PAR1 ‖ chunks of the row groups ‖ footer ‖ length ‖ PAR1`
whose footer decodes to metadata describing the row groups `gs` is read back as exactly their records. -/
theorem readAll_gen (dc : Decomp) (cols : List Col) (hres : ColsResolve cols) (gs : List GRG)
    (hok : ∀ g ∈ gs, g.OK dc cols) (t : TVal) (f : FMD) (hf : decFMD t = some f)
    (hrg : f.rowGroups = gs.map (·.rgm)) (hN : f.numRows = (((gs.map (·.recs.length)).sum : Nat) : Int))
    (file fenc : Bytes) (hfile : file = par1 ++ dataOf gs ++ (fenc ++ le32 fenc.length ++ par1))
    (hn : fenc.length < 2 ^ 32)
    (hdec : decVal tStruct ((fenc ++ (le32 fenc.length ++ par1)).length + 2) (fenc ++ (le32 fenc.length ++ par1)) =
      some (t, le32 fenc.length ++ par1)) :
    readAllEntries cols dc file =
      some ((((gs.map (·.recs.length)).sum : Nat) : Int), (gs.flatMap (·.recs)).map (rowOf cols.length)) := by
  have hopen := openReader_gen dc cols hres (gs.map (·.chunks))
    (by intro g hg; obtain ⟨g', hg', rfl⟩ := List.mem_map.mp hg; exact (hok g' hg').hcols)
    t f hf (by rw [hrg]; exact rgsFor_of_ok dc cols gs hok) file (dataOf gs) fenc hfile hn hdec
  rw [hrg, hN] at hopen
  generalize hpost : fenc ++ le32 fenc.length ++ par1 = post at hfile
  subst hfile
  unfold readAllEntries
  rw [hopen]
  have hp4 : par1.length = 4 := rfl
  generalize hNN : (gs.map (·.recs.length)).sum = NN at hopen ⊢
  cases gs with
  | nil =>
    simp only [List.map_nil, List.sum_nil] at hNN
    subst hNN
    simp only [List.map_nil, RState.readRowGroup]
    rw [show ((((0 : Nat) : Int) + 3).toNat) = 2 + 1 by rfl, readLoop_done 2 _ [] rfl (by simp)]
    simp
  | cons b bs' =>
    have hload := readRowGroup_first dc cols hres b bs' hok par1 post (NN : Int) 0 0 0
      (List.replicate cols.length {}) false
    rw [hp4] at hload
    rw [hload]
    simp only
    have hfile2 : par1 ++ dataOf (b :: bs') ++ post = (par1 ++ gBytes b.chunks) ++ dataOf bs' ++ post := by
      rw [dataOf_cons]; simp only [List.append_assoc]
    simp only [List.map_cons, List.sum_cons] at hNN
    have := readLoop_gen dc cols hres (NN : Int) post (((NN : Int) + 3).toNat) bs'
      (fun b' hb' => hok b' (List.mem_cons_of_mem _ hb')) b.recs (hok b List.mem_cons_self).hrecs
      (par1 ++ gBytes b.chunks) 0 0 ((b.recs.length : Nat) : Int) []
      (by rw [← hNN]; simp) (by simp) (by omega)
    rw [← hfile2] at this
    rw [this]
    simp

/-! ## Part 2: the files of the spec writer -/

/-- the `ColumnMetaData` / `ColumnChunk` thrift structs the spec writer puts in the footer -/
def spMdT (cfg : SWCfg) (c : Col) (codec nv : Nat) (tu : Int) (tc pos : Nat) : TVal :=
  .struct ([(1, .int 5 c.ty.phys), (2, .list 5 [.int 5 0, .int 5 3]), (3, .list 8 (c.path.map fun n => .bin (strBytes n))),
            (4, .int 5 codec), (5, .int 6 nv), (6, .int 6 tu), (7, .int 6 tc), (9, .int 6 pos)] ++
           (if cfg.withExtras then [(100, .int 6 5)] else []))

def spChunkT (cfg : SWCfg) (c : Col) (codec nv : Nat) (tu : Int) (tc pos : Nat) : TVal :=
  .struct [(2, .int 6 (cfg.fileOff pos tc)), (3, spMdT cfg c codec nv tu tc pos)]

theorem chunks_nil (cfg : SWCfg) (compress : Nat → Bytes → Bytes) (rgi : Nat) (recs : List Rec) (ci : Nat) (cs : Choices)
    (pos : Nat) : specWriteLog.chunks cfg compress none rgi recs [] ci cs pos = ([], [], [], cs) := by
  rw [specWriteLog.chunks]

theorem chunks_cons (cfg : SWCfg) (compress : Nat → Bytes → Bytes) (rgi : Nat) (recs : List Rec) (c : Col) (codec : Nat)
    (rest : List (Col × Nat)) (ci : Nat) (cs : Choices) (pos : Nat) :
    specWriteLog.chunks cfg compress none rgi recs ((c, codec) :: rest) ci cs pos =
      (let perRec := recs.map fun r => r.getD ci []
       let sp := splitPages (perRec.length + 1) cs perRec
       let em := specWriteLog.chunks.emit cfg compress none rgi c codec ci sp.1 0 sp.2
       let r := specWriteLog.chunks cfg compress none rgi recs rest (ci + 1) em.2.2.2 (pos + em.1.length)
       (spChunkT cfg c codec (perRec.map List.length).sum ((em.1.length : Int) + em.2.2.1) em.1.length pos :: r.1,
        em.1 ++ r.2.1, em.2.1 ++ r.2.2.1, r.2.2.2)) := by
  rw [specWriteLog.chunks]
  rfl

/-- what `ColumnChunk.Read` makes of it -/
def spChunkMeta (cfg : SWCfg) (c : Col) (codec nv : Nat) (tu : Int) (tc pos : Nat) : ChunkMeta :=
  { fileOffset := cfg.fileOff pos tc,
    md := some { ty := c.ty.phys, encodings := [0, 3], path := c.path.map strBytes, codec := codec,
                 numValues := nv, totalUncompressed := tu, totalCompressed := tc, dataPageOffset := pos } }

theorem decChunk_spChunkT (cfg : SWCfg) (c : Col) (codec nv : Nat) (tu : Int) (tc pos : Nat) :
    decChunk (spChunkT cfg c codec nv tu tc pos) = some (spChunkMeta cfg c codec nv tu tc pos) := by
  cases he : cfg.withExtras <;>
    simp [decChunk, spChunkT, spMdT, he, spChunkMeta, TVal.fieldsOf, getI64, getI32, getList, decColMeta, List.lookup,
      filterMap_binOf, intOf]

theorem spChunkT_wf (cfg : SWCfg) (c : Col) (codec nv : Nat) (tu : Int) (tc pos : Nat) :
    (spChunkT cfg c codec nv tu tc pos).ecode = tStruct ∧ (spChunkT cfg c codec nv tu tc pos).WF ∧
      (spChunkT cfg c codec nv tu tc pos).dep ≤ 3 := by
  obtain ⟨h1, h2⟩ := pathT_wf c.path
  refine ⟨rfl, ?_, ?_⟩
  · cases he : cfg.withExtras <;>
      simp [spChunkT, spMdT, he, TVal.WF, WFFields, WFList, okCode, TVal.ecode, TVal.code, tI32, tI64, tBin, tTrue, tList,
        tStruct] at h1 ⊢ <;> exact h1
  · cases he : cfg.withExtras <;>
      simp only [spChunkT, spMdT, he, TVal.dep, depFields, depList, List.cons_append, List.nil_append, if_true, if_false,
        Bool.false_eq_true] <;> omega

/-- the chunk of column `c` (index `ci`, codec `codec`) of the row group `recs`, written with the choices `cs` -/
def spGChunk (cfg : SWCfg) (compress : Nat → Bytes → Bytes) (recs : List Rec) (c : Col) (codec ci : Nat) (cs : Choices) :
    GChunk :=
  let perRec := recs.map fun r => r.getD ci []
  let sp := splitPages (perRec.length + 1) cs perRec
  { col := c, pg := spPageMeta cfg c codec (compress codec) sp.1 sp.2,
    bytes := (spEmit cfg c codec (compress codec) sp.1 sp.2).1, es := perRec.flatten }

/-- the choices left after that chunk -/
def spChunkCs (cfg : SWCfg) (compress : Nat → Bytes → Bytes) (recs : List Rec) (c : Col) (codec ci : Nat) (cs : Choices) :
    Choices :=
  let perRec := recs.map fun r => r.getD ci []
  let sp := splitPages (perRec.length + 1) cs perRec
  (spEmit cfg c codec (compress codec) sp.1 sp.2).2

/-- the chunks of a row group, column by column, threading the choices -/
def spChunks (cfg : SWCfg) (compress : Nat → Bytes → Bytes) (recs : List Rec) : List (Col × Nat) → Nat → Choices → List GChunk × Choices
  | [], _, cs => ([], cs)
  | (c, codec) :: rest, ci, cs =>
    (spGChunk cfg compress recs c codec ci cs ::
        (spChunks cfg compress recs rest (ci + 1) (spChunkCs cfg compress recs c codec ci cs)).1,
      (spChunks cfg compress recs rest (ci + 1) (spChunkCs cfg compress recs c codec ci cs)).2)

/-- **The chunks of one row group as `specWriteLog` emits them**: their bytes are the chunks' bytes back to
back, and the footer's `ColumnChunk`s decode to metadata naming each column with its `num_values`,
`total_compressed_size` and codec. -/
theorem chunks_spec (cfg : SWCfg) (compress : Nat → Bytes → Bytes) (rgi : Nat) (recs : List Rec) :
    ∀ (ccs : List (Col × Nat)) (ci : Nat) (cs : Choices) (pos : Nat),
      (specWriteLog.chunks cfg compress none rgi recs ccs ci cs pos).2.1 = gBytes (spChunks cfg compress recs ccs ci cs).1 ∧
      (specWriteLog.chunks cfg compress none rgi recs ccs ci cs pos).2.2.2 = (spChunks cfg compress recs ccs ci cs).2 ∧
      (∃ metas, (specWriteLog.chunks cfg compress none rgi recs ccs ci cs pos).1.mapM decChunk = some metas ∧
        MetasFor (spChunks cfg compress recs ccs ci cs).1 metas) ∧
      (∀ t ∈ (specWriteLog.chunks cfg compress none rgi recs ccs ci cs pos).1, t.ecode = tStruct ∧ t.WF ∧ t.dep ≤ 3)
  | [], ci, cs, pos => by
    rw [chunks_nil]
    exact ⟨rfl, rfl, ⟨[], rfl, by simp [spChunks, MetasFor]⟩, by simp⟩
  | (c, codec) :: rest, ci, cs, pos => by
    rw [chunks_cons]
    simp only
    generalize hsp : splitPages ((recs.map fun r => r.getD ci []).length + 1) cs (recs.map fun r => r.getD ci []) = sp
    obtain ⟨e1, e2⟩ := emit_none cfg compress rgi c codec ci sp.1 0 sp.2
    have hcs : spChunkCs cfg compress recs c codec ci cs = (spEmit cfg c codec (compress codec) sp.1 sp.2).2 := by
      simp only [spChunkCs, hsp]
    have hgb : (spGChunk cfg compress recs c codec ci cs).bytes = (spEmit cfg c codec (compress codec) sp.1 sp.2).1 := by
      simp only [spGChunk, hsp]
    have hfl : sp.1.flatten = (recs.map fun r => r.getD ci []).flatten := by
      rw [← hsp]; exact (splitPages_spec _ cs _ (by omega)).1
    have hnv : (sp.1.map List.length).sum = ((recs.map fun r => r.getD ci []).map List.length).sum := by
      rw [← List.length_flatten, ← List.length_flatten, hfl]
    generalize hem : specWriteLog.chunks.emit cfg compress none rgi c codec ci sp.1 0 sp.2 = em at e1 e2
    obtain ⟨i1, i2, ⟨metas, i3, i4⟩, i5⟩ := chunks_spec cfg compress rgi recs rest (ci + 1) em.2.2.2 (pos + em.1.length)
    rw [e2, ← hcs] at i1 i2 i3 i4 i5
    rw [e2, ← hcs]
    refine ⟨?_, ?_, ⟨spChunkMeta cfg c codec ((recs.map fun r => r.getD ci []).map List.length).sum
      ((em.1.length : Int) + em.2.2.1) em.1.length pos :: metas, ?_, ?_⟩, ?_⟩
    · simp only [spChunks, gBytes_cons, hgb, i1]
      rw [e1]
    · simp only [spChunks, i2]
    · simp only [List.mapM_cons, decChunk_spChunkT, i3, bind, Option.bind, pure]
    · simp only [spChunks, MetasFor]
      refine ⟨⟨_, rfl, rfl, ?_, ?_, rfl⟩, i4⟩
      · simp only [spGChunk, spPageMeta, hsp, hnv]
      · simp only [spGChunk, spPageMeta, hsp, e1]
    · intro t ht
      rcases List.mem_cons.mp ht with rfl | ht
      · exact spChunkT_wf _ _ _ _ _ _ _
      · exact i5 t ht

/-- what the codec assignment and the decompressors must satisfy for one column -/
theorem spCodecOK_of (dc : Decomp) (compress : Nat → Bytes → Bytes) (codec : Nat) (hc : codec ≤ 2)
    (hdc : ∀ raw, dc.snappy (compress 1 raw) = some raw ∧ dc.gzip (compress 2 raw) = some raw) :
    ∀ raw, SpCodecOK dc codec (compress codec) raw := by
  intro raw
  have h : codec = 0 ∨ codec = 1 ∨ codec = 2 := by omega
  rcases h with rfl | rfl | rfl
  · exact Or.inl rfl
  · exact Or.inr (Or.inl ⟨rfl, (hdc raw).1⟩)
  · exact Or.inr (Or.inr ⟨rfl, (hdc raw).2⟩)

/-- **One chunk of the spec writer is read back, whatever the choices** -/
theorem chunkReads_spGChunk (dc : Decomp) (cfg : SWCfg) (compress : Nat → Bytes → Bytes) (recs : List Rec) (c : Col)
    (codec ci : Nat) (cs : Choices) (hk : ∀ raw, SpCodecOK dc codec (compress codec) raw)
    (hrec : ∀ r ∈ recs, RecColOK c (r.getD ci [])) (hmd : c.maxDef ≤ 15)
    (hlen : (recs.flatMap (·.getD ci [])).length + 8 ≤ 2 ^ 28) :
    ChunkReads dc (spGChunk cfg compress recs c codec ci cs) := by
  intro pre post
  have hfm : (recs.map fun r => r.getD ci []).flatten = recs.flatMap (·.getD ci []) := by
    rw [List.flatMap_def]
  have := readChunk_spSplit dc cfg c codec (compress codec) hk (recs.map fun r => r.getD ci []) cs
    ((recs.map fun r => r.getD ci []).length + 1) (by omega)
    (by intro r hr; obtain ⟨r', hr', rfl⟩ := List.mem_map.mp hr; exact hrec r' hr') hmd (by rw [hfm]; exact hlen) pre post
  simp only [spGChunk]
  exact this

theorem spGChunk_col (cfg : SWCfg) (compress : Nat → Bytes → Bytes) (recs : List Rec) (c : Col) (codec ci : Nat)
    (cs : Choices) : (spGChunk cfg compress recs c codec ci cs).col = c := rfl

theorem spGChunk_es (cfg : SWCfg) (compress : Nat → Bytes → Bytes) (recs : List Rec) (c : Col) (codec ci : Nat)
    (cs : Choices) : (spGChunk cfg compress recs c codec ci cs).es = recs.flatMap (·.getD ci []) := by
  simp only [spGChunk, List.flatMap_def]

/-- the chunks of a row group: columns, readability, buffer contents -/
theorem spChunks_props (dc : Decomp) (cfg : SWCfg) (compress : Nat → Bytes → Bytes)
    (hdc : ∀ raw, dc.snappy (compress 1 raw) = some raw ∧ dc.gzip (compress 2 raw) = some raw) (recs : List Rec) :
    ∀ (ccs : List (Col × Nat)) (ci : Nat) (cs : Choices),
      (∀ x ∈ ccs.zipIdx ci, x.1.2 ≤ 2 ∧ (∀ r ∈ recs, RecColOK x.1.1 (r.getD x.2 [])) ∧ x.1.1.maxDef ≤ 15 ∧
        (recs.flatMap (·.getD x.2 [])).length + 8 ≤ 2 ^ 28) →
      (spChunks cfg compress recs ccs ci cs).1.map (·.col) = ccs.map (·.1) ∧
      (∀ ch ∈ (spChunks cfg compress recs ccs ci cs).1, ChunkReads dc ch) ∧
      (spChunks cfg compress recs ccs ci cs).1.map (fun ch => colBufOf ch.col ch.es) =
        (ccs.zipIdx ci).map (fun x => colBufOf x.1.1 (recs.flatMap (·.getD x.2 [])))
  | [], ci, cs, _ => by simp [spChunks]
  | (c, codec) :: rest, ci, cs, h => by
    obtain ⟨hc, hr, hmd, hl⟩ := h ((c, codec), ci) (by simp [List.zipIdx_cons])
    obtain ⟨i1, i2, i3⟩ := spChunks_props dc cfg compress hdc recs rest (ci + 1) (spChunkCs cfg compress recs c codec ci cs)
      (fun x hx => h x (by simp [List.zipIdx_cons, hx]))
    simp only at hc hr hmd hl
    refine ⟨?_, ?_, ?_⟩
    · simp only [spChunks, List.map_cons, spGChunk_col, i1]
    · intro ch hch
      simp only [spChunks, List.mem_cons] at hch
      rcases hch with rfl | hch
      · exact chunkReads_spGChunk dc cfg compress recs c codec ci cs (spCodecOK_of dc compress codec hc hdc) hr hmd hl
      · exact i2 ch hch
    · simp only [spChunks, List.map_cons, List.zipIdx_cons, spGChunk_col, spGChunk_es, i3]

/-! ### row groups and the footer -/

/-- the thrift `RowGroup` of the spec writer -/
def spRgT (chs : List TVal) (blen rows : Nat) : TVal :=
  .struct [(1, .list 12 chs), (2, .int 6 blen), (3, .int 6 rows)]

theorem groups_nil (cfg : SWCfg) (compress : Nat → Bytes → Bytes) (rgi : Nat) (cs : Choices) (pos : Nat) :
    specWriteLog.groups cfg compress none [] rgi cs pos = ([], [], []) := by
  rw [specWriteLog.groups]

theorem groups_cons (cfg : SWCfg) (compress : Nat → Bytes → Bytes) (recs : List Rec) (rest : List (List Rec)) (rgi : Nat)
    (cs : Choices) (pos : Nat) :
    specWriteLog.groups cfg compress none (recs :: rest) rgi cs pos =
      (let ch := specWriteLog.chunks cfg compress none rgi recs (cfg.cols.zip cfg.codecs) 0 cs pos
       let r := specWriteLog.groups cfg compress none rest (rgi + 1) ch.2.2.2 (pos + ch.2.1.length)
       (spRgT ch.1 ch.2.1.length recs.length :: r.1, ch.2.1 ++ r.2.1, ch.2.2.1 ++ r.2.2)) := by
  rw [specWriteLog.groups]
  rfl

theorem decRG_spRgT (chs : List TVal) (blen rows : Nat) (metas : List ChunkMeta) (h : chs.mapM decChunk = some metas) :
    decRG (spRgT chs blen rows) = some { columns := metas, totalByteSize := blen, numRows := rows } := by
  simp only [decRG, spRgT, TVal.fieldsOf, getList, getI64, List.lookup, bind, Option.bind, beq_self_eq_true,
    Nat.reduceBEq, h]

theorem spRgT_wf (chs : List TVal) (blen rows : Nat) (h : ∀ t ∈ chs, t.ecode = tStruct ∧ t.WF ∧ t.dep ≤ 3) :
    (spRgT chs blen rows).ecode = tStruct ∧ (spRgT chs blen rows).WF ∧ (spRgT chs blen rows).dep ≤ 5 := by
  have hw : WFList tStruct chs := WFList_of _ _ (fun x hx => ⟨(h x hx).1, (h x hx).2.1⟩)
  have hd : depList chs ≤ 1 + 3 := depList_le _ _ (fun x hx => (h x hx).2.2)
  refine ⟨rfl, ?_, ?_⟩
  · simp [spRgT, TVal.WF, WFFields, okCode, tI32, tI64, tBin, tTrue, tList, tStruct] at hw ⊢
    exact hw
  · simp only [spRgT, TVal.dep, depFields]
    omega

/-- **The row groups as `specWriteLog` emits them**: there are row-group descriptions `gs` (records,
chunks, decoded footer entry) such that the data region is the chunks' bytes back to back, the footer's
`RowGroup`s decode to the `rgm`s, and every row group's chunks are `spChunks` of its records for some
choice stream. -/
theorem groups_spec (cfg : SWCfg) (compress : Nat → Bytes → Bytes) :
    ∀ (rowGroups : List (List Rec)) (rgi : Nat) (cs : Choices) (pos : Nat),
      ∃ gs : List GRG, gs.map (·.recs) = rowGroups ∧
        (specWriteLog.groups cfg compress none rowGroups rgi cs pos).2.1 = dataOf gs ∧
        (specWriteLog.groups cfg compress none rowGroups rgi cs pos).1.mapM decRG = some (gs.map (·.rgm)) ∧
        (∀ t ∈ (specWriteLog.groups cfg compress none rowGroups rgi cs pos).1, t.ecode = tStruct ∧ t.WF ∧ t.dep ≤ 5) ∧
        ∀ g ∈ gs, (∃ cs', g.chunks = (spChunks cfg compress g.recs (cfg.cols.zip cfg.codecs) 0 cs').1) ∧
          MetasFor g.chunks g.rgm.columns ∧ g.rgm.numRows = ((g.recs.length : Nat) : Int)
  | [], rgi, cs, pos => by
    rw [groups_nil]
    exact ⟨[], rfl, rfl, rfl, by simp, by simp⟩
  | recs :: rest, rgi, cs, pos => by
    rw [groups_cons]
    simp only
    obtain ⟨c1, c2, ⟨metas, c3, c4⟩, c5⟩ := chunks_spec cfg compress rgi recs (cfg.cols.zip cfg.codecs) 0 cs pos
    generalize specWriteLog.chunks cfg compress none rgi recs (cfg.cols.zip cfg.codecs) 0 cs pos = ch at c1 c2 c3 c5
    obtain ⟨gs, g1, g2, g3, g4, g5⟩ := groups_spec cfg compress rest (rgi + 1) ch.2.2.2 (pos + ch.2.1.length)
    refine ⟨{ recs := recs, chunks := (spChunks cfg compress recs (cfg.cols.zip cfg.codecs) 0 cs).1,
              rgm := { columns := metas, totalByteSize := (ch.2.1.length : Nat), numRows := (recs.length : Nat) } } :: gs,
      ?_, ?_, ?_, ?_, ?_⟩
    · simp only [List.map_cons, g1]
    · rw [dataOf_cons, g2, c1]
    · simp only [List.mapM_cons, decRG_spRgT _ _ _ metas c3, g3, bind, Option.bind, pure, List.map_cons]
    · intro t ht
      rcases List.mem_cons.mp ht with rfl | ht
      · exact spRgT_wf _ _ _ c5
      · exact g4 t ht
    · intro g hg
      rcases List.mem_cons.mp hg with rfl | hg
      · exact ⟨⟨cs, rfl⟩, c4, rfl⟩
      · exact g5 g hg

/-! ### the schema and the footer -/

/-- a schema element the footer decoder accepts -/
def SElemOK (t : TVal) : Prop := t.ecode = tStruct ∧ t.WF ∧ t.dep ≤ 1 ∧ (decSElem t).isSome

theorem specSchema_go_ok (fr : Col → List Rep) (co : List String → Nat) :
    ∀ (fuel : Nat) (cols : List Col) (seen : List (List String)), ∀ t ∈ specSchema.go fr co fuel cols seen, SElemOK t
  | 0, _, _, t, ht => by simp [specSchema.go] at ht
  | _+1, [], _, t, ht => by simp [specSchema.go] at ht
  | fuel+1, c :: rest, seen, t, ht => by
    rw [specSchema.go] at ht
    simp only [List.mem_append, List.mem_map, List.mem_singleton] at ht
    rcases ht with (⟨p, _, rfl⟩ | rfl) | ht
    · simp [SElemOK, TVal.ecode, TVal.code, TVal.WF, WFFields, TVal.dep, depFields, tI32, tI64, tStruct, decSElem,
        TVal.fieldsOf, getBin, List.lookup]
    · cases c.ty.converted <;>
        simp [SElemOK, TVal.ecode, TVal.code, TVal.WF, WFFields, TVal.dep, depFields, tI32, tI64, tStruct, decSElem,
          TVal.fieldsOf, getBin, List.lookup]
    · exact specSchema_go_ok fr co fuel rest _ t ht

theorem specSchema_ok (cols : List Col) : (∀ t ∈ specSchema cols, SElemOK t) ∧ specSchema cols ≠ [] := by
  unfold specSchema
  refine ⟨?_, by simp⟩
  intro t ht
  rcases List.mem_cons.mp ht with rfl | ht
  · simp [SElemOK, TVal.ecode, TVal.code, TVal.WF, WFFields, TVal.dep, depFields, tI32, tI64, tStruct, decSElem,
      TVal.fieldsOf, getBin]
  · exact specSchema_go_ok _ _ _ _ _ t ht

theorem mapM_some_of_isSome {α β : Type} (f : α → Option β) : ∀ (l : List α), (∀ x ∈ l, (f x).isSome) →
    ∃ r, l.mapM f = some r
  | [], _ => ⟨[], rfl⟩
  | x :: l, h => by
    obtain ⟨r, hr⟩ := mapM_some_of_isSome f l (fun y hy => h y (List.mem_cons_of_mem _ hy))
    obtain ⟨y, hy⟩ := Option.isSome_iff_exists.mp (h x List.mem_cons_self)
    exact ⟨y :: r, by simp only [List.mapM_cons, hy, hr, bind, Option.bind, pure]⟩

/-- the optional footer fields (key/value metadata, `created_by`) -/
def spFooterExtra (cfg : SWCfg) : List (Nat × TVal) :=
  if cfg.withExtras then
    [(5, .list 12 [.struct [(1, .bin (strBytes "k")), (2, .bin (strBytes "v"))]]), (6, .bin (strBytes "specWrite (Lean)"))]
  else []

/-- the `FileMetaData` of the spec writer -/
def spFooter (cfg : SWCfg) (rows : Nat) (rgs : List TVal) : TVal :=
  .struct ([(1, .int 5 1), (2, .list 12 (specSchema cfg.cols)), (3, .int 6 rows), (4, .list 12 rgs)] ++ spFooterExtra cfg)

theorem specWriteLog_eq (cfg : SWCfg) (compress : Nat → Bytes → Bytes) (cs : Choices) (rowGroups : List (List Rec)) :
    (specWriteLog cfg compress none cs rowGroups).1 =
      par1 ++ (specWriteLog.groups cfg compress none rowGroups 0 cs 4).2.1 ++
        ((spFooter cfg (rowGroups.map List.length).sum (specWriteLog.groups cfg compress none rowGroups 0 cs 4).1).enc ++
          le32 (spFooter cfg (rowGroups.map List.length).sum (specWriteLog.groups cfg compress none rowGroups 0 cs 4).1).enc.length ++
          par1) := by
  simp only [specWriteLog, spFooter, spFooterExtra, List.append_assoc]

theorem spFooterExtra_wf (cfg : SWCfg) : WFFields 4 (spFooterExtra cfg) ∧ depFields (spFooterExtra cfg) ≤ 2 := by
  cases he : cfg.withExtras <;>
    simp [spFooterExtra, he, WFFields, TVal.WF, WFList, okCode, TVal.ecode, TVal.code, tStruct, tBin, tList, tTrue, tI32, tI64,
      depFields, TVal.dep, depList]

theorem spFooter_wf (cfg : SWCfg) (rows : Nat) (rgs : List TVal) (hr : ∀ t ∈ rgs, t.ecode = tStruct ∧ t.WF) :
    (spFooter cfg rows rgs).WF := by
  have h1 : WFList tStruct (specSchema cfg.cols) :=
    WFList_of _ _ (fun x hx => ⟨((specSchema_ok cfg.cols).1 x hx).1, ((specSchema_ok cfg.cols).1 x hx).2.1⟩)
  have h2 : WFList tStruct rgs := WFList_of _ _ hr
  have h3 := (spFooterExtra_wf cfg).1
  unfold spFooter
  generalize spFooterExtra cfg = ex at h3 ⊢
  simp [TVal.WF, WFFields, okCode, tI32, tI64, tBin, tTrue, tList, tStruct] at h1 h2 ⊢
  exact ⟨h1, h2, h3⟩

/-- the footer needs no more fuel than its length + 2 -/
theorem spFooter_need (cfg : SWCfg) (rows : Nat) (rgs : List TVal) (hr : ∀ t ∈ rgs, t.dep ≤ 5) :
    (spFooter cfg rows rgs).need ≤ (spFooter cfg rows rgs).enc.length + 2 := by
  have hs : depList (specSchema cfg.cols) ≤ 1 + 1 :=
    depList_le _ _ (fun x hx => ((specSchema_ok cfg.cols).1 x hx).2.2.1)
  have hg : depList rgs ≤ 1 + 5 := depList_le _ _ hr
  have n2 := need_le (.list 12 (specSchema cfg.cols))
  have n4 := need_le (.list 12 rgs)
  have nx := needFields_le 4 (spFooterExtra cfg)
  have hx := (spFooterExtra_wf cfg).2
  have l2 : 2 ≤ (TVal.list 12 (specSchema cfg.cols)).enc.length := by
    have hne := (specSchema_ok cfg.cols).2
    cases hS : specSchema cfg.cols with
    | nil => exact absurd hS hne
    | cons e se =>
      have a := listHeader_length_pos (if 12 = tTrue ∨ 12 = tFalse then tTrue else 12) (e :: se).length
      have b := enc_length_pos e
      simp only [TVal.enc, encList, List.length_append] at a ⊢
      omega
  have b4 := enc_length_pos (.list 12 rgs)
  have bx := encFields_length_pos' 4 (spFooterExtra cfg)
  unfold spFooter
  generalize spFooterExtra cfg = ex at nx hx bx ⊢
  generalize specSchema cfg.cols = S at hs n2 l2 ⊢
  simp only [TVal.dep] at n2 n4
  simp only [TVal.need, needFields, TVal.enc, encFields, List.length_append,
    List.cons_append, List.nil_append, fieldHeader_length_eq, uvar_length_eq] at *
  omega

theorem decFMD_spFooter (cfg : SWCfg) (rows : Nat) (rgs : List TVal) (sd : List SElemD) (rms : List RGMeta)
    (hsd : (specSchema cfg.cols).mapM decSElem = some sd) (hrg : rgs.mapM decRG = some rms) :
    decFMD (spFooter cfg rows rgs) = some { version := 1, schema := sd, numRows := rows, rowGroups := rms } := by
  unfold spFooter
  generalize spFooterExtra cfg = ex
  simp only [decFMD, TVal.fieldsOf, getI32, getList, getI64, List.cons_append, List.nil_append, List.lookup, bind,
    Option.bind, beq_self_eq_true, Nat.reduceBEq, hsd, hrg]

theorem decVal_spFooter (cfg : SWCfg) (rows : Nat) (rgs : List TVal) (hr : ∀ t ∈ rgs, t.ecode = tStruct ∧ t.WF ∧ t.dep ≤ 5)
    (rest : Bytes) (F : Nat) (hF : (spFooter cfg rows rgs).enc.length + 2 ≤ F) :
    decVal tStruct F ((spFooter cfg rows rgs).enc ++ rest) = some (spFooter cfg rows rgs, rest) := by
  have := decVal_enc_need (spFooter cfg rows rgs) (spFooter_wf cfg rows rgs fun t ht => ⟨(hr t ht).1, (hr t ht).2.1⟩) F rest
    (by have := spFooter_need cfg rows rgs fun t ht => (hr t ht).2.2; omega)
  simpa [spFooter, TVal.ecode, TVal.code] using this

/-! ### columns and codecs zipped -/

theorem mem_zip_zipIdx : ∀ (cols : List Col) (codecs : List Nat) (j : Nat) (x : (Col × Nat) × Nat),
    x ∈ (cols.zip codecs).zipIdx j → (x.1.1, x.2) ∈ cols.zipIdx j ∧ x.1.2 ∈ codecs
  | [], _, _, x, h => by simp at h
  | _ :: _, [], _, x, h => by simp at h
  | c :: cols, k :: codecs, j, x, h => by
    simp only [List.zip_cons_cons, List.zipIdx_cons, List.mem_cons] at h ⊢
    rcases h with rfl | h
    · exact ⟨Or.inl rfl, Or.inl rfl⟩
    · obtain ⟨a, b⟩ := mem_zip_zipIdx cols codecs (j + 1) x h
      exact ⟨Or.inr a, Or.inr b⟩

theorem map_zip_zipIdx {β : Type} (F : Col → Nat → β) : ∀ (cols : List Col) (codecs : List Nat) (j : Nat),
    cols.length ≤ codecs.length →
    ((cols.zip codecs).zipIdx j).map (fun x => F x.1.1 x.2) = (cols.zipIdx j).map (fun x => F x.1 x.2)
  | [], _, _, _ => by simp
  | _ :: _, [], _, h => by simp at h
  | c :: cols, k :: codecs, j, h => by
    simp only [List.zip_cons_cons, List.zipIdx_cons, List.map_cons]
    rw [map_zip_zipIdx F cols codecs (j + 1) (by simpa using h)]

theorem map_fst_zip_le (cols : List Col) (codecs : List Nat) (h : cols.length ≤ codecs.length) :
    (cols.zip codecs).map (·.1) = cols := List.map_fst_zip h

/-- **A row group of the spec writer is a row group the reader handles**, whatever the choices -/
theorem grgOK_spec (dc : Decomp) (cfg : SWCfg) (compress : Nat → Bytes → Bytes)
    (hcodecs : cfg.codecs.length = cfg.cols.length ∧ ∀ c ∈ cfg.codecs, c ≤ 2)
    (hdc : ∀ raw, dc.snappy (compress 1 raw) = some raw ∧ dc.gzip (compress 2 raw) = some raw)
    (hdef : ∀ c ∈ cfg.cols, c.maxDef ≤ 15) (g : GRG)
    (hch : ∃ cs', g.chunks = (spChunks cfg compress g.recs (cfg.cols.zip cfg.codecs) 0 cs').1)
    (hmeta : MetasFor g.chunks g.rgm.columns) (hrows : g.rgm.numRows = ((g.recs.length : Nat) : Int))
    (hrecs : ∀ r ∈ g.recs, ∀ x ∈ cfg.cols.zipIdx, RecColOK x.1 (r.getD x.2 []))
    (hlen : ∀ x ∈ cfg.cols.zipIdx, (g.recs.flatMap (·.getD x.2 [])).length + 8 ≤ 2 ^ 28) :
    g.OK dc cfg.cols := by
  obtain ⟨cs', hcs'⟩ := hch
  have hle : cfg.cols.length ≤ cfg.codecs.length := by omega
  obtain ⟨p1, p2, p3⟩ := spChunks_props dc cfg compress hdc g.recs (cfg.cols.zip cfg.codecs) 0 cs' (by
    intro x hx
    obtain ⟨a, b⟩ := mem_zip_zipIdx cfg.cols cfg.codecs 0 x hx
    refine ⟨hcodecs.2 _ b, fun r hr => hrecs r hr _ a, hdef _ ?_, hlen _ a⟩
    have := List.zipIdx_map_fst 0 cfg.cols
    rw [← this]
    exact List.mem_map.mpr ⟨_, a, rfl⟩)
  rw [← hcs'] at p1 p2 p3
  refine ⟨?_, hmeta, hrows, p2, ?_, ?_⟩
  · rw [p1, map_fst_zip_le _ _ hle]
  · rw [p3, map_zip_zipIdx (fun c i => colBufOf c (g.recs.flatMap (·.getD i []))) _ _ 0 hle]
    rfl
  · intro r hr x hx
    exact ⟨(hrecs r hr x hx).start, (hrecs r hr x hx).entries⟩

/-! ### the whole file -/

/-- **C04, whole file: the reader decodes every file of the spec writer, whatever legal encoding choices
it made.**  For every choice stream `cs` (every run segmentation of every level stream of every page,
every page split of every column at record boundaries, independently per column), every padding value
`cfg.padv`, every per-column codec assignment out of uncompressed / snappy / gzip, with or without
statistics and unknown / optional thrift fields (`cfg.withStats`, `cfg.withExtras`): `Rows()` is the
number of written records, `Next()` is true exactly that many times, the `k`-th `Scan` consumes, for every
column, exactly the entries the `k`-th record holds for it, and `Error()` is nil at the end.

* `hres`: the joined column names are pairwise distinct;
* `hcodecs`: one codec id ≤ 2 per column;  `hdc`: the supplied decompressors invert the compressors;
* `hrecs`: every record holds, per column, entries that start the record, have levels within the column's
  maxima, a value exactly at the maximum definition level, well-typed values (`RecColOK`, which the Dremel
  striping of a well-typed value satisfies: `recColOK_stripe`);
* `hdef`: level widths ≤ 4 bits;
* `hlen`: fewer than `2^28 - 8` entries per column chunk;  `hsize`: the file is smaller than 4 GiB.

Row groups may be empty (`num_rows = 0`, every column chunk without pages), anywhere in the file — first,
last, in between, several in a row: after loading a row group `Next` moves on past row groups that hold no
rows (`RState.skipEmpty`, `loadSkip_gen`), and once only such row groups are left the cursor has reached
`Rows()`, so `Next` is false without loading them. -/
theorem readAll_specWrite (cfg : SWCfg) (compress : Nat → Bytes → Bytes) (dc : Decomp) (cs : Choices)
    (rowGroups : List (List Rec))
    (hres : ColsResolve cfg.cols)
    (hcodecs : cfg.codecs.length = cfg.cols.length ∧ ∀ c ∈ cfg.codecs, c ≤ 2)
    (hdc : ∀ raw, dc.snappy (compress 1 raw) = some raw ∧ dc.gzip (compress 2 raw) = some raw)
    (hrecs : ∀ rg ∈ rowGroups, ∀ r ∈ rg, ∀ x ∈ cfg.cols.zipIdx, RecColOK x.1 (r.getD x.2 []))
    (hdef : ∀ c ∈ cfg.cols, c.maxDef ≤ 15)
    (hlen : ∀ rg ∈ rowGroups, ∀ x ∈ cfg.cols.zipIdx, (rg.flatMap (·.getD x.2 [])).length + 8 ≤ 2 ^ 28)
    (hsize : (specWrite cfg compress none cs rowGroups).length < 2 ^ 32) :
    readAllEntries cfg.cols dc (specWrite cfg compress none cs rowGroups) =
      some ((((rowGroups.map List.length).sum : Nat) : Int),
            rowGroups.flatten.map (fun r => (List.range cfg.cols.length).map fun i => r.getD i [])) := by
  obtain ⟨gs, g1, g2, g3, g4, g5⟩ := groups_spec cfg compress rowGroups 0 cs 4
  have hmem : ∀ g ∈ gs, g.recs ∈ rowGroups := by
    intro g hg; rw [← g1]; exact List.mem_map.mpr ⟨g, hg, rfl⟩
  have hok : ∀ g ∈ gs, g.OK dc cfg.cols := by
    intro g hg
    obtain ⟨a, b, c⟩ := g5 g hg
    exact grgOK_spec dc cfg compress hcodecs hdc hdef g a b c (hrecs _ (hmem g hg)) (hlen _ (hmem g hg))
  obtain ⟨sd, hsd⟩ := mapM_some_of_isSome decSElem (specSchema cfg.cols)
    (fun t ht => ((specSchema_ok cfg.cols).1 t ht).2.2.2)
  have hfile := specWriteLog_eq cfg compress cs rowGroups
  have hrows : (rowGroups.map List.length).sum = (gs.map (·.recs.length)).sum := by
    rw [← g1, List.map_map]; rfl
  rw [g2] at hfile
  generalize hR : (specWriteLog.groups cfg compress none rowGroups 0 cs 4).1 = rgs at hfile g3 g4
  generalize hfe : (spFooter cfg (rowGroups.map List.length).sum rgs).enc = fenc at hfile
  have hn : fenc.length < 2 ^ 32 := by
    unfold specWrite at hsize
    rw [hfile] at hsize
    simp only [List.length_append] at hsize
    omega
  have hdec := decVal_spFooter cfg (rowGroups.map List.length).sum rgs g4 (le32 fenc.length ++ par1)
    ((fenc ++ (le32 fenc.length ++ par1)).length + 2) (by rw [hfe]; simp only [List.length_append]; omega)
  rw [hfe] at hdec
  have hfmd := decFMD_spFooter cfg (rowGroups.map List.length).sum rgs sd _ hsd g3
  have := readAll_gen dc cfg.cols hres gs hok _ _ hfmd rfl (by simp only [hrows]) _ fenc hfile hn hdec
  unfold specWrite
  rw [this, hrows]
  have hfl : gs.flatMap (·.recs) = rowGroups.flatten := by
    rw [← g1, List.flatMap_def]
  rw [hfl]
  rfl

/-! ## Non-vacuity: two columns (snappy / gzip), statistics and unknown fields on, padding value 3, two row groups -/
section NonVacuity

private def fwCols : List Col :=
  [{ path := ["a"], reps := [.req], ty := .i32 }, { path := ["b"], reps := [.rpt], ty := .i32 }]
private def fwCfg : SWCfg := { cols := fwCols, codecs := [1, 2], withStats := true, withExtras := true, padv := 3 }
/-- identity "compressors" with identity decompressors: `hdc` holds, and codecs 1 and 2 take the compressed paths -/
private def fwDc : Decomp := { snappy := some, gzip := some }
/-- record `k`: `a = k`, `b = [k, k + 256]` for even `k` and `[]` for odd `k` -/
private def fwRec (k : Nat) : Rec :=
  [[{ rep := 0, dl := 0, val := some [k, 0, 0, 0] }],
   if k % 2 = 0 then [{ rep := 0, dl := 1, val := some [k, 0, 0, 0] }, { rep := 1, dl := 1, val := some [k, 1, 0, 0] }]
   else [{ rep := 0, dl := 0, val := none }]]
private def fwGroups : List (List Rec) := [[fwRec 1, fwRec 2, fwRec 3], [fwRec 4]]
/-- a choice stream: page splits, RLE and bit-packed runs -/
private def fwCs : Choices := [1, 0, 1, 1, 0, 2, 1, 5, 3, 0, 0, 1, 7, 2, 8, 1]

/-- the theorem applied — all hypotheses discharged: the reader reports 4 rows and delivers the four written
records, in order.  With this choice stream both columns of the first row group are cut into two pages
(column `a`: 2 + 1 records, column `b`: 3 + 1 entries — a different split per column), the definition
levels are bit-packed runs padded with the *non-zero* value `3 % 2 = 1`, column `a` goes through the snappy
path and column `b` through the gzip path, statistics and unknown fields (id 100) are present. -/
example : readAllEntries fwCols fwDc (specWrite fwCfg (fun _ b => b) none fwCs fwGroups) =
    some (4, [fwRec 1, fwRec 2, fwRec 3, fwRec 4]) := by
  have hx' : ∀ x ∈ fwCols.zipIdx, x = (⟨["a"], [.req], .i32⟩, 0) ∨ x = (⟨["b"], [.rpt], .i32⟩, 1) := by
    intro x hx; simpa [fwCols] using hx
  have := readAll_specWrite fwCfg (fun _ b => b) fwDc fwCs fwGroups
    (colsResolve_of_check _ (by decide +kernel)) (by decide) (fun raw => ⟨rfl, rfl⟩)
    (by
      intro rg hrg r hr x hx
      have hrg' : rg = [fwRec 1, fwRec 2, fwRec 3] ∨ rg = [fwRec 4] := by simpa [fwGroups] using hrg
      rcases hrg' with rfl | rfl
      · have hr' : r = fwRec 1 ∨ r = fwRec 2 ∨ r = fwRec 3 := by simpa using hr
        rcases hx' x hx with rfl | rfl <;> rcases hr' with rfl | rfl | rfl <;>
          exact ⟨⟨_, _, rfl, rfl, by simp⟩, by decide, by decide⟩
      · have hr' : r = fwRec 4 := by simpa using hr
        subst hr'
        rcases hx' x hx with rfl | rfl <;> exact ⟨⟨_, _, rfl, rfl, by simp⟩, by decide, by decide⟩)
    (by decide)
    (by
      intro rg hrg x hx
      have hrg' : rg = [fwRec 1, fwRec 2, fwRec 3] ∨ rg = [fwRec 4] := by simpa [fwGroups] using hrg
      rcases hrg' with rfl | rfl <;> rcases hx' x hx with rfl | rfl <;> decide)
    (by decide +kernel)
  exact this

/-- row groups without records — in the middle and at the end; at the very start -/
private def fwGroupsE : List (List Rec) := [[fwRec 1], [], [fwRec 2, fwRec 3], []]
private def fwGroupsE' : List (List Rec) := [[], [fwRec 4]]

private theorem fw_hx : ∀ x ∈ fwCols.zipIdx, x = (⟨["a"], [.req], .i32⟩, 0) ∨ x = (⟨["b"], [.rpt], .i32⟩, 1) := by
  intro x hx; simpa [fwCols] using hx

private theorem fw_recOK (k : Nat) (hk : k < 10) : ∀ x ∈ fwCols.zipIdx, RecColOK x.1 ((fwRec k).getD x.2 []) := by
  intro x hx
  have hk' : k = 0 ∨ k = 1 ∨ k = 2 ∨ k = 3 ∨ k = 4 ∨ k = 5 ∨ k = 6 ∨ k = 7 ∨ k = 8 ∨ k = 9 := by omega
  rcases fw_hx x hx with rfl | rfl <;> rcases hk' with rfl | rfl | rfl | rfl | rfl | rfl | rfl | rfl | rfl | rfl <;>
    exact ⟨⟨_, _, rfl, rfl, by simp⟩, by decide, by decide⟩

/-- the theorem applied to a file with empty row groups in the middle and at the end: 3 rows, the three
written records, nothing else (no zero-valued row for the empty row groups) -/
example : readAllEntries fwCols fwDc (specWrite fwCfg (fun _ b => b) none fwCs fwGroupsE) =
    some (3, [fwRec 1, fwRec 2, fwRec 3]) := by
  have := readAll_specWrite fwCfg (fun _ b => b) fwDc fwCs fwGroupsE
    (colsResolve_of_check _ (by decide +kernel)) (by decide) (fun raw => ⟨rfl, rfl⟩)
    (by
      intro rg hrg r hr
      have hrg' : rg = [fwRec 1] ∨ rg = [] ∨ rg = [fwRec 2, fwRec 3] := by
        have := hrg; simp only [fwGroupsE, List.mem_cons, List.mem_nil_iff, or_false] at this
        rcases this with h | h | h | h <;> simp [h]
      rcases hrg' with rfl | rfl | rfl
      · have hr' : r = fwRec 1 := by simpa using hr
        subst hr'; exact fw_recOK 1 (by decide)
      · simp at hr
      · have hr' : r = fwRec 2 ∨ r = fwRec 3 := by simpa using hr
        rcases hr' with rfl | rfl
        · exact fw_recOK 2 (by decide)
        · exact fw_recOK 3 (by decide))
    (by decide)
    (by
      intro rg hrg x hx
      have hrg' : rg = [fwRec 1] ∨ rg = [] ∨ rg = [fwRec 2, fwRec 3] := by
        have := hrg; simp only [fwGroupsE, List.mem_cons, List.mem_nil_iff, or_false] at this
        rcases this with h | h | h | h <;> simp [h]
      rcases hrg' with rfl | rfl | rfl <;> rcases fw_hx x hx with rfl | rfl <;> decide)
    (by decide +kernel)
  exact this

/-- ... and to a file whose first row group is empty: the constructor loads it, the first `Next` moves on -/
example : readAllEntries fwCols fwDc (specWrite fwCfg (fun _ b => b) none fwCs fwGroupsE') =
    some (1, [fwRec 4]) := by
  have := readAll_specWrite fwCfg (fun _ b => b) fwDc fwCs fwGroupsE'
    (colsResolve_of_check _ (by decide +kernel)) (by decide) (fun raw => ⟨rfl, rfl⟩)
    (by
      intro rg hrg r hr
      have hrg' : rg = [] ∨ rg = [fwRec 4] := by simpa [fwGroupsE'] using hrg
      rcases hrg' with rfl | rfl
      · simp at hr
      · have hr' : r = fwRec 4 := by simpa using hr
        subst hr'; exact fw_recOK 4 (by decide))
    (by decide)
    (by
      intro rg hrg x hx
      have hrg' : rg = [] ∨ rg = [fwRec 4] := by simpa [fwGroupsE'] using hrg
      rcases hrg' with rfl | rfl <;> rcases fw_hx x hx with rfl | rfl <;> decide)
    (by decide +kernel)
  exact this

/-- the same by kernel evaluation of the writer and reader models alone (not through the theorem; `==` is
the derived structural `BEq`), and a file with nothing but empty row groups -/
example : (readAllEntries fwCols fwDc (specWrite fwCfg (fun _ b => b) none fwCs fwGroupsE) ==
    some (3, [fwRec 1, fwRec 2, fwRec 3])) = true := by decide +kernel
example : (readAllEntries fwCols fwDc (specWrite fwCfg (fun _ b => b) none fwCs fwGroupsE') ==
    some (1, [fwRec 4])) = true := by decide +kernel
example : (readAllEntries fwCols fwDc (specWrite fwCfg (fun _ b => b) none fwCs [[], [], []]) ==
    some (0, [])) = true := by decide +kernel

/-! ### parquet-mr style labels: a required, an optional and a repeated column, `mrLabels := true` -/

private def mrCols : List Col :=
  [{ path := ["a"], reps := [.req], ty := .i32 }, { path := ["b"], reps := [.opt], ty := .i32 },
   { path := ["c"], reps := [.rpt], ty := .i32 }]
private def mrCfg : SWCfg :=
  { cols := mrCols, codecs := [0, 1, 2], withStats := true, withExtras := true, padv := 3, mrLabels := true }
/-- record `k`: `a = k`; `b = k` for even `k`, null for odd `k`; `c = [k, k + 256]` for even `k`, `[]` for odd `k` -/
private def mrRec (k : Nat) : Rec :=
  [[{ rep := 0, dl := 0, val := some [k, 0, 0, 0] }],
   if k % 2 = 0 then [{ rep := 0, dl := 1, val := some [k, 0, 0, 0] }] else [{ rep := 0, dl := 0, val := none }],
   if k % 2 = 0 then [{ rep := 0, dl := 1, val := some [k, 0, 0, 0] }, { rep := 1, dl := 1, val := some [k, 1, 0, 0] }]
   else [{ rep := 0, dl := 0, val := none }]]
private def mrGroups : List (List Rec) := [[mrRec 1, mrRec 2, mrRec 3], [mrRec 4]]

private theorem mr_hx : ∀ x ∈ mrCols.zipIdx,
    x = (⟨["a"], [.req], .i32⟩, 0) ∨ x = (⟨["b"], [.opt], .i32⟩, 1) ∨ x = (⟨["c"], [.rpt], .i32⟩, 2) := by
  intro x hx; simpa [mrCols] using hx

/-- the labels this configuration writes: the required column `a` has both level encodings labelled
BIT_PACKED (4), the optional column `b` its repetition-level encoding, the repeated column `c` neither -/
example : (mrCols.map fun c => (mrCfg.defLabel c, mrCfg.repLabel c)) = [(4, 4), (3, 4), (3, 3)] := by decide

/-- ... and they are in the file: it differs from the one written with RLE labels throughout -/
example : specWrite mrCfg (fun _ b => b) none fwCs mrGroups ≠
    specWrite { mrCfg with mrLabels := false } (fun _ b => b) none fwCs mrGroups := by decide +kernel

/-- **the theorem applied to a file with parquet-mr style labels** — all hypotheses discharged: 4 rows and the
four written records, in order, for the required, the optional and the repeated column alike -/
example : readAllEntries mrCols fwDc (specWrite mrCfg (fun _ b => b) none fwCs mrGroups) =
    some (4, [mrRec 1, mrRec 2, mrRec 3, mrRec 4]) := by
  have := readAll_specWrite mrCfg (fun _ b => b) fwDc fwCs mrGroups
    (colsResolve_of_check _ (by decide +kernel)) (by decide) (fun raw => ⟨rfl, rfl⟩)
    (by
      intro rg hrg r hr x hx
      have hrg' : rg = [mrRec 1, mrRec 2, mrRec 3] ∨ rg = [mrRec 4] := by simpa [mrGroups] using hrg
      rcases hrg' with rfl | rfl
      · have hr' : r = mrRec 1 ∨ r = mrRec 2 ∨ r = mrRec 3 := by simpa using hr
        rcases mr_hx x hx with rfl | rfl | rfl <;> rcases hr' with rfl | rfl | rfl <;>
          exact ⟨⟨_, _, rfl, rfl, by simp⟩, by decide, by decide⟩
      · have hr' : r = mrRec 4 := by simpa using hr
        subst hr'
        rcases mr_hx x hx with rfl | rfl | rfl <;> exact ⟨⟨_, _, rfl, rfl, by simp⟩, by decide, by decide⟩)
    (by decide)
    (by
      intro rg hrg x hx
      have hrg' : rg = [mrRec 1, mrRec 2, mrRec 3] ∨ rg = [mrRec 4] := by simpa [mrGroups] using hrg
      rcases hrg' with rfl | rfl <;> rcases mr_hx x hx with rfl | rfl | rfl <;> decide)
    (by decide +kernel)
  exact this

/-- the same by kernel evaluation of the writer and reader models alone -/
example : (readAllEntries mrCols fwDc (specWrite mrCfg (fun _ b => b) none fwCs mrGroups) ==
    some (4, [mrRec 1, mrRec 2, mrRec 3, mrRec 4])) = true := by decide +kernel

end NonVacuity

end PQ
