import PQ.Lemmas.ChunkRT
import PQ.Props.C06
import PQ.Props.C03
/-!
# The whole file: what the writer emits is a valid Parquet file holding exactly the written batches
-/
namespace PQ.Thrift
open PQ

/-! ## Tight fuel for the thrift decoder

`TVal.size` (Lemmas/Thrift.lean) adds up over siblings and over nesting; the decoder only needs
fuel along one root-to-leaf path, one unit per preceding sibling.  `TVal.need` is that quantity. -/

mutual
def TVal.need : TVal → Nat
  | .bool _ => 1
  | .int _ _ => 1
  | .bin _ => 1
  | .list _ xs => 1 + needList xs
  | .struct fs => 1 + needFields fs
def needList : List TVal → Nat
  | [] => 0
  | x :: xs => 1 + max x.need (needList xs)
def needFields : List (Nat × TVal) → Nat
  | [] => 1
  | (_, v) :: fs => 1 + max v.need (needFields fs)
end

mutual
theorem decVal_enc_need : (v : TVal) → v.WF → ∀ (fuel : Nat) (rest : Bytes), v.need ≤ fuel →
    decVal v.ecode fuel (v.enc ++ rest) = some (v, rest)
  | .bool b, _, fuel, rest, hf => by
    cases fuel with
    | zero => simp [TVal.need] at hf
    | succ f => cases b <;> simp [TVal.ecode, TVal.enc, decVal, tTrue]
  | .int ty n, hv, fuel, rest, hf => by
    cases fuel with
    | zero => simp [TVal.need] at hf
    | succ f =>
      have hty : ty = tI32 ∨ ty = tI64 := by simpa [TVal.WF] using hv
      have h1 : ¬ (ty = tTrue ∨ ty = tFalse) := by unfold tI32 tI64 at hty; unfold tTrue tFalse; omega
      simp only [TVal.ecode, TVal.code, TVal.enc]
      unfold decVal
      rw [if_neg h1, if_pos hty, readUvar_uvar']
      simp [unzig_zig]
  | .bin bs, _, fuel, rest, hf => by
    cases fuel with
    | zero => simp [TVal.need] at hf
    | succ f =>
      simp only [TVal.ecode, TVal.code, TVal.enc, List.append_assoc]
      unfold decVal
      rw [if_neg (by unfold tBin tTrue tFalse; omega), if_neg (by unfold tBin tI32 tI64; omega), if_pos rfl,
        readUvar_uvar']
      simp
  | .list ety xs, hv, fuel, rest, hf => by
    cases fuel with
    | zero => simp [TVal.need] at hf
    | succ f =>
      have hv' : okCode ety ∧ WFList ety xs := by simpa [TVal.WF] using hv
      obtain ⟨hok, hwl⟩ := hv'
      obtain ⟨h16, h0, hnf⟩ := okCode_lt ety hok
      have hf' : needList xs ≤ f := by simp only [TVal.need] at hf; omega
      have ih := decList_enc_need ety xs hwl f rest hf'
      have hety : (if ety = tTrue ∨ ety = tFalse then tTrue else ety) = ety := by
        by_cases h : ety = tTrue
        · simp [h]
        · simp [h, hnf]
      simp only [TVal.ecode, TVal.code, TVal.enc, hety, List.append_assoc]
      unfold decVal
      rw [if_neg (by unfold tList tTrue tFalse; omega), if_neg (by unfold tList tI32 tI64; omega),
        if_neg (by unfold tList tBin; omega), if_pos rfl]
      unfold listHeader
      by_cases hn : xs.length < 15
      · rw [if_pos hn]
        have e1 : (xs.length * 16 + ety) % 16 = ety := by omega
        have e2 : (xs.length * 16 + ety) / 16 = xs.length := by omega
        simp only [List.cons_append, List.nil_append, e1, e2]
        rw [if_neg (by omega)]
        simp only [ih]
      · rw [if_neg hn]
        have e1 : (15 * 16 + ety) % 16 = ety := by omega
        have e2 : (15 * 16 + ety) / 16 = 15 := by omega
        simp only [List.cons_append, e1, e2, if_true, readUvar_uvar', ih]
  | .struct fs, hv, fuel, rest, hf => by
    cases fuel with
    | zero => simp [TVal.need] at hf
    | succ f =>
      have hv' : WFFields 0 fs := by simpa [TVal.WF] using hv
      have hf' : needFields fs ≤ f := by simp only [TVal.need] at hf; omega
      have ih := decFields_enc_need 0 fs hv' f rest hf'
      simp only [TVal.ecode, TVal.code, TVal.enc]
      unfold decVal
      rw [if_neg (by unfold tStruct tTrue tFalse; omega), if_neg (by unfold tStruct tI32 tI64; omega),
        if_neg (by unfold tStruct tBin; omega), if_neg (by unfold tStruct tList; omega), if_pos rfl, ih]
theorem decList_enc_need : (ety : Nat) → (xs : List TVal) → WFList ety xs → ∀ (fuel : Nat) (rest : Bytes),
    needList xs ≤ fuel → decList ety xs.length fuel (encList xs ++ rest) = some (xs, rest)
  | _, [], _, fuel, rest, _ => by cases fuel <;> simp [decList, encList]
  | ety, x :: xs, hw, fuel, rest, hf => by
    cases fuel with
    | zero => simp [needList] at hf
    | succ f =>
      have hw' : x.ecode = ety ∧ x.WF ∧ WFList ety xs := by simpa [WFList] using hw
      obtain ⟨hc, hx, hxs⟩ := hw'
      simp only [needList] at hf
      have i1 := decVal_enc_need x hx f (encList xs ++ rest) (by omega)
      have i2 := decList_enc_need ety xs hxs f rest (by omega)
      simp only [encList, List.length_cons, decList, List.append_assoc]
      rw [← hc, i1]
      simp only [hc, i2]
theorem decFields_enc_need : (last : Nat) → (fs : List (Nat × TVal)) → WFFields last fs → ∀ (fuel : Nat) (rest : Bytes),
    needFields fs ≤ fuel → decFields last fuel (encFields last fs ++ rest) = some (fs, rest)
  | _, [], _, fuel, rest, hf => by
    cases fuel with
    | zero => simp [needFields] at hf
    | succ f => simp [encFields, decFields]
  | last, (id, v) :: fs, hw, fuel, rest, hf => by
    cases fuel with
    | zero => simp [needFields] at hf
    | succ f =>
      have hw' : last < id ∧ v.WF ∧ WFFields id fs := by simpa [WFFields] using hw
      obtain ⟨hlt, hv, hfs⟩ := hw'
      simp only [needFields] at hf
      obtain ⟨hc16, hc0⟩ := code_ok v hv
      have i2 := decFields_enc_need id fs hfs f rest (by omega)
      cases v with
      | bool b =>
        obtain ⟨h, r, he, hne, hmod, hid⟩ := header_dec last id (TVal.bool b).code hlt hc16 hc0 (encFields id fs ++ rest)
        simp only [encFields, List.append_assoc]
        rw [he]
        unfold decFields
        simp only [if_neg hne, hmod, hid]
        have hb : (TVal.bool b).code = tTrue ∨ (TVal.bool b).code = tFalse := by
          cases b <;> simp [TVal.code]
        simp only [if_pos hb, i2]
        cases b <;> simp [TVal.code, tTrue, tFalse]
      | int ty n =>
        have i1 := decVal_enc_need (.int ty n) hv f (encFields id fs ++ rest) (by omega)
        obtain ⟨h, r, he, hne, hmod, hid⟩ := header_dec last id (TVal.int ty n).code hlt hc16 hc0
          ((TVal.int ty n).enc ++ (encFields id fs ++ rest))
        have hty : ty = tI32 ∨ ty = tI64 := by simpa [TVal.WF] using hv
        have hnb : ¬ ((TVal.int ty n).code = tTrue ∨ (TVal.int ty n).code = tFalse) := by
          simp only [TVal.code]; unfold tI32 tI64 at hty; unfold tTrue tFalse; omega
        simp only [encFields, List.append_assoc]
        rw [he]
        unfold decFields
        simp only [if_neg hne, hmod, hid, if_neg hnb]
        simp only [TVal.ecode] at i1
        simp only [i1, i2]
      | bin bs =>
        have i1 := decVal_enc_need (.bin bs) hv f (encFields id fs ++ rest) (by omega)
        obtain ⟨h, r, he, hne, hmod, hid⟩ := header_dec last id (TVal.bin bs).code hlt hc16 hc0
          ((TVal.bin bs).enc ++ (encFields id fs ++ rest))
        have hnb : ¬ ((TVal.bin bs).code = tTrue ∨ (TVal.bin bs).code = tFalse) := by
          simp only [TVal.code]; unfold tBin tTrue tFalse; omega
        simp only [encFields, List.append_assoc]
        rw [he]
        unfold decFields
        simp only [if_neg hne, hmod, hid, if_neg hnb]
        simp only [TVal.ecode] at i1
        simp only [i1, i2]
      | list e xs =>
        have i1 := decVal_enc_need (.list e xs) hv f (encFields id fs ++ rest) (by omega)
        obtain ⟨h, r, he, hne, hmod, hid⟩ := header_dec last id (TVal.list e xs).code hlt hc16 hc0
          ((TVal.list e xs).enc ++ (encFields id fs ++ rest))
        have hnb : ¬ ((TVal.list e xs).code = tTrue ∨ (TVal.list e xs).code = tFalse) := by
          simp only [TVal.code]; unfold tList tTrue tFalse; omega
        simp only [encFields, List.append_assoc]
        rw [he]
        unfold decFields
        simp only [if_neg hne, hmod, hid, if_neg hnb]
        simp only [TVal.ecode] at i1
        simp only [i1, i2]
      | struct gs =>
        have i1 := decVal_enc_need (.struct gs) hv f (encFields id fs ++ rest) (by omega)
        obtain ⟨h, r, he, hne, hmod, hid⟩ := header_dec last id (TVal.struct gs).code hlt hc16 hc0
          ((TVal.struct gs).enc ++ (encFields id fs ++ rest))
        have hnb : ¬ ((TVal.struct gs).code = tTrue ∨ (TVal.struct gs).code = tFalse) := by
          simp only [TVal.code]; unfold tStruct tTrue tFalse; omega
        simp only [encFields, List.append_assoc]
        rw [he]
        unfold decFields
        simp only [if_neg hne, hmod, hid, if_neg hnb]
        simp only [TVal.ecode] at i1
        simp only [i1, i2]
end

/-! ## `need` against the encoded length

Every value occupies at least one byte, so siblings pay for themselves; only nesting costs extra:
`dep` counts one per struct level and one per non-empty list level along the deepest path. -/

mutual
def TVal.dep : TVal → Nat
  | .bool _ => 0
  | .int _ _ => 0
  | .bin _ => 0
  | .list _ xs => depList xs
  | .struct fs => 1 + depFields fs
def depList : List TVal → Nat
  | [] => 0
  | x :: xs => max (1 + x.dep) (depList xs)
def depFields : List (Nat × TVal) → Nat
  | [] => 0
  | (_, v) :: fs => max v.dep (depFields fs)
end

theorem listHeader_length_pos (ety n : Nat) : 1 ≤ (listHeader ety n).length := by
  unfold listHeader; split <;> simp

theorem encFields_length_pos' (last : Nat) (fs : List (Nat × TVal)) : 1 ≤ (encFields last fs).length :=
  PQ.encFields_length_pos last fs

theorem enc_length_pos (v : TVal) : 1 ≤ v.enc.length := by
  cases v with
  | bool b => simp [TVal.enc]
  | int ty n => simp only [TVal.enc]; exact uvar_length_pos _
  | bin bs => simp only [TVal.enc, List.length_append]; have := uvar_length_pos bs.length; omega
  | list ety xs => simp only [TVal.enc, List.length_append]; have := listHeader_length_pos (if ety = tTrue ∨ ety = tFalse then tTrue else ety) xs.length; omega
  | struct fs => simp only [TVal.enc]; exact encFields_length_pos' 0 fs

mutual
theorem need_le : (v : TVal) → v.need ≤ v.enc.length + v.dep
  | .bool b => by simp [TVal.need, TVal.enc]
  | .int ty n => by have := enc_length_pos (.int ty n); simp only [TVal.need, TVal.dep]; omega
  | .bin bs => by have := enc_length_pos (.bin bs); simp only [TVal.need, TVal.dep]; omega
  | .list ety xs => by
    have ih := needList_le xs
    have := listHeader_length_pos (if ety = tTrue ∨ ety = tFalse then tTrue else ety) xs.length
    simp only [TVal.need, TVal.dep, TVal.enc, List.length_append]
    omega
  | .struct fs => by
    have ih := needFields_le 0 fs
    simp only [TVal.need, TVal.dep, TVal.enc]
    omega
theorem needList_le : (xs : List TVal) → needList xs ≤ (encList xs).length + depList xs
  | [] => by simp [needList]
  | x :: xs => by
    have i1 := need_le x
    have i2 := needList_le xs
    have := enc_length_pos x
    simp only [needList, depList, encList, List.length_append]
    omega
theorem needFields_le : (last : Nat) → (fs : List (Nat × TVal)) → needFields fs ≤ (encFields last fs).length + depFields fs
  | _, [] => by simp [needFields, encFields]
  | last, (id, v) :: fs => by
    have i1 := need_le v
    have i2 := needFields_le id fs
    have h1 := enc_length_pos v
    have h2 := PQ.fieldHeader_length_pos last id v.code
    have h3 := encFields_length_pos' id fs
    cases v with
    | bool b =>
      simp only [needFields, depFields, encFields, List.length_append, TVal.need, TVal.dep] at *
      omega
    | int ty n =>
      simp only [needFields, depFields, encFields, List.length_append] at *
      omega
    | bin bs =>
      simp only [needFields, depFields, encFields, List.length_append] at *
      omega
    | list e xs =>
      simp only [needFields, depFields, encFields, List.length_append] at *
      omega
    | struct gs =>
      simp only [needFields, depFields, encFields, List.length_append] at *
      omega
end

theorem depList_le (xs : List TVal) (d : Nat) (h : ∀ x ∈ xs, x.dep ≤ d) : depList xs ≤ 1 + d := by
  induction xs with
  | nil => simp [depList]
  | cons x xs ih =>
    have h1 := h x List.mem_cons_self
    have h2 := ih (fun y hy => h y (List.mem_cons_of_mem _ hy))
    simp only [depList]
    omega

theorem WFList_of (ety : Nat) (xs : List TVal) (h : ∀ x ∈ xs, x.ecode = ety ∧ x.WF) : WFList ety xs := by
  induction xs with
  | nil => simp [WFList]
  | cons x xs ih =>
    have h1 := h x List.mem_cons_self
    have h2 := ih (fun y hy => h y (List.mem_cons_of_mem _ hy))
    simp only [WFList]
    exact ⟨h1.1, h1.2, h2⟩

end PQ.Thrift

namespace PQ
open PQ.Thrift

/-! ## The footer is a well-formed thrift value that decodes with the fuel `parseFile` gives it -/

theorem selem_wf (e : SElem) : e.toT.ecode = tStruct ∧ e.toT.WF ∧ e.toT.dep ≤ 1 := by
  obtain ⟨name, ty, rep, nc, conv⟩ := e
  cases ty <;> cases rep <;> cases nc <;> cases conv <;>
    simp [SElem.toT, TVal.ecode, TVal.code, TVal.WF, WFFields, TVal.dep, depFields, tI32, tI64]

theorem pathT_wf (l : List String) :
    WFList tBin (l.map fun n => TVal.bin (strBytes n)) ∧ depList (l.map fun n => TVal.bin (strBytes n)) ≤ 1 := by
  constructor
  · apply WFList_of
    intro x hx
    obtain ⟨n, _, rfl⟩ := List.mem_map.mp hx
    simp [TVal.ecode, TVal.code, TVal.WF]
  · apply depList_le _ 0
    intro x hx
    obtain ⟨n, _, rfl⟩ := List.mem_map.mp hx
    simp [TVal.dep]

theorem chunkT_wf (c : Col) (cid : Nat) (ch : Chunk) (pos : Nat) :
    (chunkT c cid ch pos).ecode = tStruct ∧ (chunkT c cid ch pos).WF ∧ (chunkT c cid ch pos).dep ≤ 3 := by
  obtain ⟨h1, h2⟩ := pathT_wf c.path
  refine ⟨rfl, ?_, ?_⟩
  · simp [chunkT, TVal.WF, WFFields, WFList, okCode, TVal.ecode, TVal.code, tI32, tI64, tBin, tTrue, tList, tStruct] at h1 ⊢
    exact h1
  · simp only [chunkT, TVal.dep, depFields, depList]
    omega

/-- the thrift `RowGroup` of `rgTs` -/
def rgT (cid rows : Nat) (its : List (Col × Chunk × Bytes)) (pos : Nat) : TVal :=
  .struct [(1, .list 12 ((locsFrom its pos).map fun x => chunkT x.col cid x.chunk x.offset)),
           (2, .int 6 ((itemsBytes its).length : Nat)), (3, .int 6 rows)]

theorem rgT_wf (cid rows : Nat) (its : List (Col × Chunk × Bytes)) (pos : Nat) :
    (rgT cid rows its pos).ecode = tStruct ∧ (rgT cid rows its pos).WF ∧ (rgT cid rows its pos).dep ≤ 5 := by
  have hw : WFList tStruct ((locsFrom its pos).map fun x => chunkT x.col cid x.chunk x.offset) := by
    apply WFList_of
    intro x hx
    obtain ⟨y, _, rfl⟩ := List.mem_map.mp hx
    exact ⟨(chunkT_wf _ _ _ _).1, (chunkT_wf _ _ _ _).2.1⟩
  have hd : depList ((locsFrom its pos).map fun x => chunkT x.col cid x.chunk x.offset) ≤ 1 + 3 := by
    apply depList_le
    intro x hx
    obtain ⟨y, _, rfl⟩ := List.mem_map.mp hx
    exact (chunkT_wf _ _ _ _).2.2
  refine ⟨rfl, ?_, ?_⟩
  · simp [rgT, TVal.WF, WFFields, okCode, tI32, tI64, tBin, tTrue, tList, tStruct] at hw ⊢
    exact hw
  · simp only [rgT, TVal.dep, depFields]
    omega

theorem mem_rgTs (cid : Nat) : ∀ (L : List (Nat × List (Col × Chunk × Bytes))) (pos : Nat),
    ∀ t ∈ rgTs cid L pos, ∃ rows its pos', t = rgT cid rows its pos'
  | [], _, t, ht => by simp [rgTs] at ht
  | (rows, its) :: rest, pos, t, ht => by
    simp only [rgTs, List.mem_cons] at ht
    cases ht with
    | inl e => exact ⟨rows, its, pos, e⟩
    | inr e => exact mem_rgTs cid rest _ t e

/-- the `FileMetaData` the writer emits -/
def footerOf (se : List SElem) (numRows : Nat) (rgs : List TVal) : TVal :=
  .struct [(1, .int 5 1), (2, .list 12 (se.map SElem.toT)), (3, .int 6 (numRows : Nat)), (4, .list 12 rgs)]

theorem footerOf_wf (se : List SElem) (numRows : Nat) (rgs : List TVal)
    (hr : ∀ t ∈ rgs, t.ecode = tStruct ∧ t.WF) : (footerOf se numRows rgs).WF := by
  have h1 : WFList tStruct (se.map SElem.toT) := by
    apply WFList_of
    intro x hx
    obtain ⟨e, _, rfl⟩ := List.mem_map.mp hx
    exact ⟨(selem_wf e).1, (selem_wf e).2.1⟩
  have h2 : WFList tStruct rgs := WFList_of _ _ hr
  simp [footerOf, TVal.WF, WFFields, okCode, tI32, tI64, tBin, tTrue, tList, tStruct] at h1 h2 ⊢
  exact ⟨h1, h2⟩

/-- the footer needs no more fuel than its length + 2 -/
theorem footerOf_need (se : List SElem) (hse : se ≠ []) (numRows : Nat) (rgs : List TVal)
    (hr : ∀ t ∈ rgs, t.dep ≤ 5) : (footerOf se numRows rgs).need ≤ (footerOf se numRows rgs).enc.length + 2 := by
  have hs : depList (se.map SElem.toT) ≤ 1 + 1 := by
    apply depList_le
    intro x hx
    obtain ⟨e, _, rfl⟩ := List.mem_map.mp hx
    exact (selem_wf e).2.2
  have hg : depList rgs ≤ 1 + 5 := depList_le _ _ hr
  have n2 := need_le (.list 12 (se.map SElem.toT))
  have n4 := need_le (.list 12 rgs)
  have l2 : 2 ≤ (TVal.list 12 (se.map SElem.toT)).enc.length := by
    cases se with
    | nil => exact absurd rfl hse
    | cons e se =>
      have a := listHeader_length_pos (if 12 = tTrue ∨ 12 = tFalse then tTrue else 12) (List.map SElem.toT (e :: se)).length
      have b := enc_length_pos e.toT
      simp only [TVal.enc, List.map_cons, encList, List.length_append] at a ⊢
      omega
  have a1 := PQ.fieldHeader_length_pos 0 1 (TVal.int 5 1).code
  have a2 := PQ.fieldHeader_length_pos 1 2 (TVal.list 12 (se.map SElem.toT)).code
  have a3 := PQ.fieldHeader_length_pos 2 3 (TVal.int 6 (numRows : Nat)).code
  have a4 := PQ.fieldHeader_length_pos 3 4 (TVal.list 12 rgs).code
  have b1 := enc_length_pos (.int 5 1)
  have b3 := enc_length_pos (.int 6 (numRows : Nat))
  simp only [TVal.dep] at n2 n4
  simp only [footerOf, TVal.need, needFields, TVal.enc, encFields, List.length_append, List.length_cons,
    List.length_nil] at *
  omega

theorem decVal_footerOf (se : List SElem) (hse : se ≠ []) (numRows : Nat) (rgs : List TVal)
    (hr : ∀ t ∈ rgs, t.ecode = tStruct ∧ t.WF ∧ t.dep ≤ 5) :
    decVal tStruct ((footerOf se numRows rgs).enc.length + 2) (footerOf se numRows rgs).enc =
      some (footerOf se numRows rgs, []) := by
  have := decVal_enc_need (footerOf se numRows rgs) (footerOf_wf se numRows rgs fun t ht => ⟨(hr t ht).1, (hr t ht).2.1⟩)
    _ [] (footerOf_need se hse numRows rgs fun t ht => (hr t ht).2.2)
  simpa [footerOf, TVal.ecode, TVal.code] using this

/-! ## `FileMetaData.Read` on the footer -/

theorem mapM_decSElem_of (f : SElem → SElemD) (h : ∀ e, decSElem e.toT = some (f e)) (se : List SElem) :
    (se.map SElem.toT).mapM decSElem = some (se.map f) := by
  induction se with
  | nil => rfl
  | cons e se ih => simp only [List.map_cons, List.mapM_cons, h, ih, bind, Option.bind, pure]

theorem decFMD_footerOf (se : List SElem) (numRows : Nat) (rgs : List TVal) (sd : List SElemD) (rms : List RGMeta)
    (hsd : (se.map SElem.toT).mapM decSElem = some sd) (hrg : rgs.mapM decRG = some rms) :
    decFMD (footerOf se numRows rgs) = some { version := 1, schema := sd, numRows := numRows, rowGroups := rms } := by
  simp only [decFMD, footerOf, TVal.fieldsOf, getI32, getList, getI64, List.lookup, bind, Option.bind, beq_self_eq_true,
    Nat.reduceBEq, hsd, hrg]

/-- the decoded schema is never empty when its leaves can be listed -/
theorem se_ne_nil_of_leaves (se : List SElem) (sd : List SElemD) (leaves : List Leaf)
    (hsd : (se.map SElem.toT).mapM decSElem = some sd) (hl : schemaLeaves sd = .ok leaves) : se ≠ [] := by
  intro h
  subst h
  simp only [List.map_nil, List.mapM_nil, pure, Option.some.injEq] at hsd
  subst hsd
  simp [schemaLeaves] at hl

/-! ## `parseFile` on a file laid out as magic ‖ data ‖ footer ‖ length ‖ magic -/

deriving instance ReflBEq for Leaf

theorem parseFile_layout (dc : Decomp) (cols : List Col) (maxRecs : Nat) (file data fenc : Bytes)
    (hfile : file = par1 ++ data ++ (fenc ++ le32 fenc.length ++ par1)) (hn : fenc.length < 2 ^ 32)
    (t : TVal) (hdec : decVal tStruct (fenc.length + 2) fenc = some (t, []))
    (f : FMD) (hf : decFMD t = some f) (hl : schemaLeaves f.schema = .ok (cols.map expectedLeaf))
    (rgs : List SpecRG) (hgo : parseFile.go dc cols maxRecs file f.rowGroups 4 = .ok (rgs, 4 + data.length))
    (hrows : f.numRows = (((rgs.map (·.numRows)).sum : Nat) : Int)) :
    parseFile dc cols maxRecs file = .ok { numRows := f.numRows.toNat, rowGroups := rgs, fmd := f } := by
  have hp : par1.length = 4 := rfl
  have hlen : file.length = 4 + data.length + fenc.length + 8 := by
    rw [hfile]; simp only [List.length_append, le32_length, hp]; omega
  have h1 : file.take 4 = par1 := by
    rw [hfile, List.append_assoc, List.take_left' hp]
  have h2 : file.drop (file.length - 4) = par1 := by
    have e : file = (par1 ++ data ++ (fenc ++ le32 fenc.length)) ++ par1 := by rw [hfile]; simp only [List.append_assoc]
    have l : (par1 ++ data ++ (fenc ++ le32 fenc.length)).length = file.length - 4 := by
      rw [hlen]; simp only [List.length_append, le32_length, hp]; omega
    rw [← l]
    conv => lhs; arg 2; rw [e]
    exact List.drop_left
  have h3 : (file.drop (file.length - 8)).take 4 = le32 fenc.length := by
    have e : file = (par1 ++ data ++ fenc) ++ (le32 fenc.length ++ par1) := by rw [hfile]; simp only [List.append_assoc]
    have l : (par1 ++ data ++ fenc).length = file.length - 8 := by
      rw [hlen]; simp only [List.length_append, hp]; omega
    rw [← l]
    conv => lhs; arg 2; arg 2; rw [e]
    rw [List.drop_left, List.take_left' (le32_length _)]
  have h3' : fromLE ((file.drop (file.length - 8)).take 4) = fenc.length := by
    rw [h3]
    exact fromLE_leBytes 4 _ (by have : (256 : Nat) ^ 4 = 2 ^ 32 := by decide
                                 omega)
  have h4 : (file.drop (file.length - 8 - fenc.length)).take fenc.length = fenc := by
    have e : file = (par1 ++ data) ++ (fenc ++ (le32 fenc.length ++ par1)) := by rw [hfile]; simp only [List.append_assoc]
    have l : (par1 ++ data).length = file.length - 8 - fenc.length := by
      rw [hlen]; simp only [List.length_append, hp]; omega
    rw [← l]
    conv => lhs; arg 2; arg 2; rw [e]
    rw [List.drop_left, List.take_left]
  have h5 : file.length - 8 - fenc.length = 4 + data.length := by omega
  unfold parseFile
  simp only [bind, Except.bind, pure, Except.pure, h3']
  rw [if_neg (by omega), if_neg (by simp [h1]), if_neg (by simp [h2]), if_neg (by omega)]
  rw [h5] at h4
  simp only [h4, hdec, hf, hl, BEq.rfl, Bool.not_true, Bool.false_eq_true, if_false, hgo, h5, ne_eq, not_true_eq_false]
  rw [if_neg (fun h => h hrows)]

theorem sum_numRows_prgs (k : Codec) (prgs : List (Nat × List PItem)) :
    ((prgs.map (rgSpec k)).map (·.numRows)).sum = (prgs.map (·.1)).sum := by
  rw [List.map_map]; rfl

/-! ## Batches as row groups -/

/-- the entries one record holds for one column: they start a record, and only once -/
def RecEntries (es : PageEntries) : Prop := ∃ e tl, es = e :: tl ∧ e.rep = 0 ∧ ∀ x ∈ tl, x.rep ≠ 0

theorem recordsIn_append (a b : List (Entry Bytes)) : recordsIn (a ++ b) = recordsIn a + recordsIn b := by
  simp [recordsIn, List.filter_append]

theorem recordsIn_recEntries (es : PageEntries) (h : RecEntries es) : recordsIn es = 1 := by
  obtain ⟨e, tl, rfl, h0, htl⟩ := h
  have : tl.filter (fun x => decide (x.rep = 0)) = [] := by
    rw [List.filter_eq_nil_iff]
    intro x hx
    simpa using htl x hx
  simp [recordsIn, h0, this]

/-- column `i` of a run of records holds exactly one record start per record -/
theorem recordsIn_flatMap (i : Nat) (rs : List Rec) (h : ∀ r ∈ rs, RecEntries (r.getD i [])) :
    recordsIn (rs.flatMap (·.getD i [])) = rs.length := by
  induction rs with
  | nil => rfl
  | cons r rs ih =>
    rw [List.flatMap_cons, recordsIn_append, recordsIn_recEntries _ (h r List.mem_cons_self),
      ih (fun r' hr' => h r' (List.mem_cons_of_mem _ hr')), List.length_cons]
    omega

theorem head_flatMap (i : Nat) (rs : List Rec) (h : ∀ r ∈ rs, RecEntries (r.getD i [])) :
    ∀ e ∈ (rs.flatMap (·.getD i [])).head?, e.rep = 0 := by
  cases rs with
  | nil => intro e he; simp at he
  | cons r rs =>
    obtain ⟨e0, tl, he0, h0, _⟩ := h r List.mem_cons_self
    intro e he
    rw [List.flatMap_cons, he0] at he
    simp only [List.cons_append, List.head?_cons, Option.mem_def, Option.some.injEq] at he
    rw [← he]; exact h0

/-- per column, the entries of each page of the chain holding batch `b` -/
def batchPItems (cols : List Col) (max : Nat) (b : List Rec) : List PItem :=
  cols.zipIdx.map fun x => (x.1, colEntries (chainOf max cols.length b) x.2)

theorem batchItems_eq (cols : List Col) (max : Nat) (k : Codec) (b : List Rec) :
    batchItems cols max k b = (batchPItems cols max b).map (mkItem k) := by
  unfold batchItems batchPItems
  rw [List.map_map]
  rfl

theorem batchPItems_cols (cols : List Col) (max : Nat) (b : List Rec) :
    (batchPItems cols max b).map (·.1) = cols := by
  unfold batchPItems
  rw [List.map_map]
  exact List.zipIdx_map_fst 0 cols

/-- the pages of column `i` of the chain holding a non-empty batch of well-formed records -/
theorem colEntries_chain {max : Nat} (hmax : 1 ≤ max) (n i : Nat) (hi : i < n) (b : List Rec) (hb : b ≠ [])
    (hw : ∀ r ∈ b, r.length = n) :
    colEntries (chainOf max n b) i = (chunksOf max b).map fun ck => ck.flatMap (·.getD i []) := by
  unfold chainOf colEntries
  rw [if_neg (by simpa using hb), List.map_map]
  apply List.map_congr_left
  intro ck hck
  simp only [Function.comp]
  apply pageOf_col n i hi
  intro r hr
  apply hw
  rw [← chunksOf_flatten hmax b]
  exact List.mem_flatten.mpr ⟨ck, hck, hr⟩

/-- what the file theorem asks of one batch -/
structure BatchOK (dc : Decomp) (k : Codec) (cols : List Col) (max : Nat) (b : List Rec) : Prop where
  /-- every record has one entry list per column -/
  width : ∀ r ∈ b, r.length = cols.length
  /-- … which starts the record and does not start another one (what striping produces) -/
  recs : ∀ r ∈ b, ∀ x ∈ cols.zipIdx, RecEntries (r.getD x.2 [])
  /-- every page (≤ `max` consecutive records) of every column is well formed and survives the codec -/
  pages : ∀ ck ∈ chunksOf max b, ∀ x ∈ cols.zipIdx,
    WFPage x.1 (ck.flatMap (·.getD x.2 [])) ∧ CodecOK dc k (k.id : Int) (pagePayload x.1 (ck.flatMap (·.getD x.2 [])))

theorem chunk_mem {max : Nat} (hmax : 1 ≤ max) (b : List Rec) (ck : List Rec) (hck : ck ∈ chunksOf max b) :
    ∀ r ∈ ck, r ∈ b := by
  intro r hr
  rw [← chunksOf_flatten hmax b]
  exact List.mem_flatten.mpr ⟨ck, hck, hr⟩

/-- the three facts `parseFile_go_rgs` needs of the row group of a batch -/
theorem batch_rg_ok (dc : Decomp) (k : Codec) (cols : List Col) {max : Nat} (hmax : 1 ≤ max) (b : List Rec)
    (hb : b ≠ []) (hok : BatchOK dc k cols max b) :
    (batchPItems cols max b).map (·.1) = cols ∧
    (∀ p ∈ batchPItems cols max b, ∀ es ∈ p.2, PageGood dc k max p.1 es) ∧
    (∀ p ∈ batchPItems cols max b, recordsIn p.2.flatten = b.length) ∧
    (batchPItems cols max b).map (fun p => p.2.flatten) = (List.range cols.length).map fun i => b.flatMap (·.getD i []) := by
  have hnf := chunksOf_NF hmax b hb
  have hbound : ∀ ck ∈ chunksOf max b, 1 ≤ ck.length ∧ ck.length ≤ max := by
    cases NF_bounds _ hnf with
    | inl h => exact h
    | inr h => omega
  have hcol : ∀ x ∈ cols.zipIdx, colEntries (chainOf max cols.length b) x.2 =
      (chunksOf max b).map fun ck => ck.flatMap (·.getD x.2 []) := by
    intro x hx
    obtain ⟨c, i⟩ := x
    exact colEntries_chain hmax cols.length i (List.mem_zipIdx' hx).1 b hb hok.width
  have hflat : ∀ x ∈ cols.zipIdx, (colEntries (chainOf max cols.length b) x.2).flatten = b.flatMap (·.getD x.2 []) := by
    intro x hx
    rw [hcol x hx]
    have : ∀ cs : List (List Rec), (cs.map fun ck => ck.flatMap (·.getD x.2 [])).flatten = cs.flatten.flatMap (·.getD x.2 []) := by
      intro cs
      induction cs with
      | nil => rfl
      | cons c cs ih => simp only [List.map_cons, List.flatten_cons, List.flatMap_append, ih]
    rw [this, chunksOf_flatten hmax]
  refine ⟨batchPItems_cols cols max b, ?_, ?_, ?_⟩
  · intro p hp es hes
    obtain ⟨x, hx, rfl⟩ := List.mem_map.mp hp
    simp only at hes ⊢
    rw [hcol x hx] at hes
    obtain ⟨ck, hck, rfl⟩ := List.mem_map.mp hes
    have hi : x.2 < cols.length := by
      obtain ⟨c, i⟩ := x
      exact (List.mem_zipIdx' hx).1
    have hr : ∀ r ∈ ck, RecEntries (r.getD x.2 []) := fun r hr => hok.recs r (chunk_mem hmax b ck hck r hr) x hx
    refine ⟨(hok.pages ck hck x hx).1, (hok.pages ck hck x hx).2, ?_, head_flatMap x.2 ck hr⟩
    rw [recordsIn_flatMap x.2 ck hr]
    exact (hbound ck hck).2
  · intro p hp
    obtain ⟨x, hx, rfl⟩ := List.mem_map.mp hp
    simp only
    have hi : x.2 < cols.length := by
      obtain ⟨c, i⟩ := x
      exact (List.mem_zipIdx' hx).1
    rw [hflat x hx]
    exact recordsIn_flatMap x.2 b (fun r hr => hok.recs r hr x hx)
  · unfold batchPItems
    rw [List.map_map]
    have e1 : cols.zipIdx.map ((fun p : PItem => p.2.flatten) ∘ fun x => (x.1, colEntries (chainOf max cols.length b) x.2)) =
        cols.zipIdx.map fun x => b.flatMap (·.getD x.2 []) := by
      apply List.map_congr_left
      intro x hx
      exact hflat x hx
    rw [e1]
    have e2 : ∀ (l : List Col) (j : Nat) (g : Nat → List (Entry Bytes)),
        (l.zipIdx j).map (fun x => g x.2) = (List.range' j l.length).map g := by
      intro l
      induction l with
      | nil => intro j g; rfl
      | cons a l ih => intro j g; simp [List.range'_succ, ih]
    rw [e2 cols 0 (fun i => b.flatMap (·.getD i [])), List.range_eq_range']

/-! ## The whole file -/

/-- the row groups of a history: per non-empty batch, its length and its columns' pages -/
def histPrgs (cols : List Col) (max : Nat) (body : List Op) : List (Nat × List PItem) :=
  (batches body).map fun b => (b.length, batchPItems cols max b)

theorem rgTs_wf (cid : Nat) (L : List (Nat × List (Col × Chunk × Bytes))) (pos : Nat) :
    ∀ t ∈ rgTs cid L pos, t.ecode = tStruct ∧ t.WF ∧ t.dep ≤ 5 := by
  intro t ht
  obtain ⟨rows, its, pos', rfl⟩ := mem_rgTs cid L pos t ht
  exact rgT_wf cid rows its pos'

/-- **C02 / C01 / C06, whole file.**  Every `Close`d history of `Add`s and `Write`s whose batches are
`BatchOK` yields a file that the independent specification parser accepts, and the parse result is
completely determined by `batches body`: one row group per non-empty batch, holding exactly the
batch's records' entries, column by column; the footer's row-group metadata is `fileMetas` (truthful
offsets and sizes, see `PQ.C06.offsets_truthful`).

`hsize`: the file is smaller than 4 GiB (the footer length is a 4-byte field).
`hschema`/`hdec`/`hleaves`: the struct's schema is emitted (`schema()` does not panic), decodes, and
lists exactly the struct's columns (proved for field trees in `Lemmas/SchemaTree.lean`). -/
theorem parseFile_runWriter_explicit (dc : Decomp) (k : Codec) (cols : List Col) (max : Nat) (body : List Op)
    (hmax : 1 ≤ max) (hcols : cols ≠ []) (hbody : ∀ op ∈ body, op.isClose = false)
    (hok : ∀ b ∈ batches body, BatchOK dc k cols max b)
    (hsize : (fileBytes (runWriter cols max k (body ++ [Op.close]))).length < 2 ^ 32)
    (se : List SElem) (sd : List SElemD) (hschema : schemaElems cols = some se)
    (hdec : (se.map SElem.toT).mapM decSElem = some sd)
    (hleaves : schemaLeaves sd = .ok (cols.map expectedLeaf)) :
    parseFile dc cols max (fileBytes (runWriter cols max k (body ++ [Op.close]))) =
      .ok { numRows := ((batches body).map List.length).sum,
            rowGroups := (histPrgs cols max body).map (rgSpec k),
            fmd := { version := 1, schema := sd, numRows := (((batches body).map List.length).sum : Nat),
                     rowGroups := fileMetas k (histPrgs cols max body) 4 } } := by
  have ot := PQ.C06.offsets_truthful hmax cols hcols k body hbody se hschema
  simp only at ot
  obtain ⟨_, _, hfile, _, _, _⟩ := ot
  have hne : ∀ b ∈ batches body, b ≠ [] := batchesAux_ne_nil body []
  have hdata : ((batches body).map (batchItems cols max k)).flatMap itemsBytes = prgsBytes k (histPrgs cols max body) := by
    unfold prgsBytes histPrgs pitemsBytes
    rw [List.flatMap_map, List.flatMap_map]
    simp only [batchItems_eq]
  have hrgs : rgTs k.id ((batches body).map fun b => (b.length, batchItems cols max k b)) 4 =
      rgTs k.id ((histPrgs cols max body).map fun g => (g.1, g.2.map (mkItem k))) 4 := by
    unfold histPrgs
    rw [List.map_map]
    simp only [batchItems_eq]
    rfl
  rw [hdata, hrgs] at hfile
  have hse : se ≠ [] := se_ne_nil_of_leaves se sd _ hdec hleaves
  generalize hN : ((batches body).map List.length).sum = N at hfile ⊢
  generalize hR : rgTs k.id ((histPrgs cols max body).map fun g => (g.1, g.2.map (mkItem k))) 4 = rgs at hfile
  have hrwf : ∀ t ∈ rgs, t.ecode = tStruct ∧ t.WF ∧ t.dep ≤ 5 := by rw [← hR]; exact rgTs_wf _ _ _
  have hrdec : rgs.mapM decRG = some (fileMetas k (histPrgs cols max body) 4) := by
    rw [← hR]; exact mapM_decRG_rgTs k _ 4
  change fileBytes (runWriter cols max k (body ++ [Op.close])) =
    par1 ++ prgsBytes k (histPrgs cols max body) ++ ((footerOf se N rgs).enc ++ le32 (footerOf se N rgs).enc.length ++ par1) at hfile
  have hn : (footerOf se N rgs).enc.length < 2 ^ 32 := by
    rw [hfile] at hsize
    simp only [List.length_append] at hsize
    omega
  have hgo := parseFile_go_rgs dc k max cols (histPrgs cols max body) par1
    ((footerOf se N rgs).enc ++ le32 (footerOf se N rgs).enc.length ++ par1)
    (by
      intro g hg
      unfold histPrgs at hg
      obtain ⟨b, hb, rfl⟩ := List.mem_map.mp hg
      have := batch_rg_ok dc k cols hmax b (hne b hb) (hok b hb)
      exact ⟨this.1, this.2.1, this.2.2.1⟩)
  rw [← hfile] at hgo
  have := parseFile_layout dc cols max _ _ _ hfile hn (footerOf se N rgs) (decVal_footerOf se hse N rgs hrwf)
    _ (decFMD_footerOf se N rgs sd _ hdec hrdec) hleaves _ hgo
    (by
      simp only [sum_numRows_prgs]
      unfold histPrgs
      rw [List.map_map, ← hN]
      rfl)
  rw [this]
  simp

/-- the statement in the form asked for: there is a parse result with the batches' shape and contents -/
theorem parseFile_runWriter (dc : Decomp) (k : Codec) (cols : List Col) (max : Nat) (body : List Op)
    (hmax : 1 ≤ max) (hcols : cols ≠ []) (hbody : ∀ op ∈ body, op.isClose = false)
    (hok : ∀ b ∈ batches body, BatchOK dc k cols max b)
    (hsize : (fileBytes (runWriter cols max k (body ++ [Op.close]))).length < 2 ^ 32)
    (se : List SElem) (sd : List SElemD) (hschema : schemaElems cols = some se)
    (hdec : (se.map SElem.toT).mapM decSElem = some sd)
    (hleaves : schemaLeaves sd = .ok (cols.map expectedLeaf)) :
    ∃ f, parseFile dc cols max (fileBytes (runWriter cols max k (body ++ [Op.close]))) = .ok f ∧
      f.numRows = ((batches body).map List.length).sum ∧
      f.fmd.numRows = (((batches body).map List.length).sum : Nat) ∧
      f.rowGroups.map (·.numRows) = (batches body).map List.length ∧
      f.rowGroups.map (fun rg => rg.chunks.map (·.entries)) =
        (batches body).map (fun b => (List.range cols.length).map fun i => b.flatMap (·.getD i [])) := by
  refine ⟨_, parseFile_runWriter_explicit dc k cols max body hmax hcols hbody hok hsize se sd hschema hdec hleaves,
    rfl, rfl, ?_, ?_⟩
  · simp only [histPrgs, List.map_map]
    rfl
  · simp only [histPrgs, List.map_map]
    apply List.map_congr_left
    intro b hb
    have := (batch_rg_ok dc k cols hmax b (batchesAux_ne_nil body [] b hb) (hok b hb)).2.2.2
    simp only [Function.comp, rgSpec, List.map_map, chunkSpec]
    exact this

/-! ## `BatchOK` from conditions on the individual records -/

/-- what one record must hold for column `c`: it starts the record and no other, levels within the
column's maxima, a value exactly at the maximum definition level, values well-typed -/
structure RecColOK (c : Col) (es : PageEntries) : Prop where
  start : RecEntries es
  entries : ∀ e ∈ es, if c.isRequired then e.rep = 0 ∧ e.dl = 0 ∧ e.val.isSome
    else e.dl ≤ c.maxDef ∧ e.rep ≤ c.maxRep ∧ (e.val.isSome ↔ e.dl = c.maxDef)
  vals : ∀ v ∈ nonNull es, WTVal c.ty v

theorem mem_nonNull_flatMap (i : Nat) (rs : List Rec) (v : Bytes) (hv : v ∈ nonNull (rs.flatMap (·.getD i []))) :
    ∃ r ∈ rs, v ∈ nonNull (r.getD i []) := by
  unfold nonNull at hv ⊢
  rw [List.mem_filterMap] at hv
  obtain ⟨e, he, hev⟩ := hv
  obtain ⟨r, hr, her⟩ := List.mem_flatMap.mp he
  exact ⟨r, hr, List.mem_filterMap.mpr ⟨e, her, hev⟩⟩

theorem length_flatMap_le_of_mem {β : Type} (f : Rec → List β) :
    ∀ (cs : List (List Rec)) (ck : List Rec), ck ∈ cs → (ck.flatMap f).length ≤ (cs.flatten.flatMap f).length
  | [], _, h => by simp at h
  | c :: cs, ck, h => by
    rw [List.flatten_cons, List.flatMap_append, List.length_append]
    cases List.mem_cons.mp h with
    | inl e => subst e; omega
    | inr e => have := length_flatMap_le_of_mem f cs ck e; omega

/-- **Record-level sufficient condition.**  If every record of the batch has one entry list per column
satisfying `RecColOK`, definition levels fit in 4 bits, no column of the batch holds `2^30 - 8` entries
or more, and the codec round-trips, the batch is `BatchOK`. -/
theorem batchOK_of_records (dc : Decomp) (k : Codec) (cols : List Col) {max : Nat} (hmax : 1 ≤ max) (b : List Rec)
    (hw : ∀ r ∈ b, r.length = cols.length)
    (hr : ∀ r ∈ b, ∀ x ∈ cols.zipIdx, RecColOK x.1 (r.getD x.2 []))
    (hdef : ∀ c ∈ cols, c.maxDef ≤ 15)
    (hlen : ∀ x ∈ cols.zipIdx, (b.flatMap (·.getD x.2 [])).length + 8 ≤ 2 ^ 30)
    (hcodec : ∀ raw, CodecOK dc k (k.id : Int) raw) : BatchOK dc k cols max b := by
  refine ⟨hw, fun r hrb x hx => (hr r hrb x hx).start, ?_⟩
  intro ck hck x hx
  refine ⟨⟨?_, ?_, ?_, ?_⟩, hcodec _⟩
  · intro e he
    obtain ⟨r, hrc, her⟩ := List.mem_flatMap.mp he
    exact (hr r (chunk_mem hmax b ck hck r hrc) x hx).entries e her
  · intro v hv
    obtain ⟨r, hrc, hvr⟩ := mem_nonNull_flatMap x.2 ck v hv
    exact (hr r (chunk_mem hmax b ck hck r hrc) x hx).vals v hvr
  · have h1 := length_flatMap_le_of_mem (fun r : Rec => r.getD x.2 []) (chunksOf max b) ck hck
    rw [chunksOf_flatten hmax] at h1
    have h2 := hlen x hx
    omega
  · apply hdef
    have := List.zipIdx_map_fst 0 cols
    rw [← this]
    exact List.mem_map.mpr ⟨x, hx, rfl⟩

/-- **Striping produces `RecColOK` entries** (C03): the entries a record holds for column `c` are the
Dremel striping of its value for that column. -/
theorem recColOK_stripe (c : Col) (v : Proj Bytes c.reps)
    (hv : ∀ x ∈ nonNull (stripeTop c.reps v), WTVal c.ty x) : RecColOK c (stripeTop c.reps v) := by
  refine ⟨?_, ?_, hv⟩
  · obtain ⟨e, tl, h1, h2, h3⟩ := PQ.C03.first_rep_zero c.reps v
    exact ⟨e, tl, h1, h2, fun x hx => by have := h3 x hx; omega⟩
  · intro e he
    by_cases hreq : c.isRequired = true
    · rw [if_pos hreq]
      have hall : ∀ t ∈ c.reps, t = Rep.req := by
        intro t ht
        have := List.all_eq_true.mp hreq t ht
        cases t <;> first | rfl | exact absurd this (by decide)
      obtain ⟨x, hx⟩ := PQ.C03.required_only c.reps hall v
      rw [hx, List.mem_singleton] at he
      subst he
      exact ⟨rfl, rfl, rfl⟩
    · rw [if_neg hreq]
      exact PQ.C03.levels_bounded c.reps v e he

/-- the records of the batches are records that were `Add`ed -/
theorem mem_batchesAux_added : ∀ (ops : List Op) (pend : List Rec), ∀ b ∈ batchesAux pend ops, ∀ r ∈ b,
    r ∈ pend ∨ Op.add r ∈ ops
  | [], _, b, hb, _, _ => by simp [batchesAux] at hb
  | .add r' :: ops, pend, b, hb, r, hr => by
    have := mem_batchesAux_added ops (pend ++ [r']) b hb r hr
    rcases this with h | h
    · rcases List.mem_append.mp h with h | h
      · exact Or.inl h
      · rw [List.mem_singleton] at h; subst h; exact Or.inr List.mem_cons_self
    · exact Or.inr (List.mem_cons_of_mem _ h)
  | .close :: ops, pend, b, hb, r, hr => by
    have := mem_batchesAux_added ops pend b hb r hr
    rcases this with h | h
    · exact Or.inl h
    · exact Or.inr (List.mem_cons_of_mem _ h)
  | .write :: ops, pend, b, hb, r, hr => by
    unfold batchesAux at hb
    have tail : ∀ b ∈ batchesAux [] ops, r ∈ b → r ∈ pend ∨ Op.add r ∈ Op.write :: ops := by
      intro b hb hr
      have := mem_batchesAux_added ops [] b hb r hr
      rcases this with h | h
      · simp at h
      · exact Or.inr (List.mem_cons_of_mem _ h)
    split at hb
    · exact tail b hb hr
    · cases List.mem_cons.mp hb with
      | inl e => subst e; exact Or.inl hr
      | inr e => exact tail b e hr

theorem mem_batches_added (body : List Op) (b : List Rec) (hb : b ∈ batches body) (r : Rec) (hr : r ∈ b) :
    Op.add r ∈ body := by
  have := mem_batchesAux_added body [] b hb r hr
  simpa using this

/-- **The whole-file theorem with hypotheses on the added records.**  `hrec`: every `Add`ed record has
one entry list per column satisfying `RecColOK` (which the Dremel striping of a well-typed value does:
`recColOK_stripe`); `hdef`: definition levels fit in 4 bits; `hlen`: no column of a batch holds
`2^30 - 8` entries or more; `hcodec`: the decompressor inverts the codec; `hsize`: the file is smaller
than 4 GiB; `hschema`/`hdec`/`hleaves`: the schema hypotheses (see `parseFile_runWriter_explicit`). -/
theorem parseFile_runWriter_records (dc : Decomp) (k : Codec) (cols : List Col) (max : Nat) (body : List Op)
    (hmax : 1 ≤ max) (hcols : cols ≠ []) (hbody : ∀ op ∈ body, op.isClose = false)
    (hrec : ∀ r, Op.add r ∈ body → r.length = cols.length ∧ ∀ x ∈ cols.zipIdx, RecColOK x.1 (r.getD x.2 []))
    (hdef : ∀ c ∈ cols, c.maxDef ≤ 15)
    (hlen : ∀ b ∈ batches body, ∀ x ∈ cols.zipIdx, (b.flatMap (·.getD x.2 [])).length + 8 ≤ 2 ^ 30)
    (hcodec : ∀ raw, CodecOK dc k (k.id : Int) raw)
    (hsize : (fileBytes (runWriter cols max k (body ++ [Op.close]))).length < 2 ^ 32)
    (se : List SElem) (sd : List SElemD) (hschema : schemaElems cols = some se)
    (hdec : (se.map SElem.toT).mapM decSElem = some sd)
    (hleaves : schemaLeaves sd = .ok (cols.map expectedLeaf)) :
    ∃ f, parseFile dc cols max (fileBytes (runWriter cols max k (body ++ [Op.close]))) = .ok f ∧
      f.numRows = ((batches body).map List.length).sum ∧
      f.fmd.numRows = (((batches body).map List.length).sum : Nat) ∧
      f.rowGroups.map (·.numRows) = (batches body).map List.length ∧
      f.rowGroups.map (fun rg => rg.chunks.map (·.entries)) =
        (batches body).map (fun b => (List.range cols.length).map fun i => b.flatMap (·.getD i [])) := by
  apply parseFile_runWriter dc k cols max body hmax hcols hbody _ hsize se sd hschema hdec hleaves
  intro b hb
  exact batchOK_of_records dc k cols hmax b
    (fun r hr => (hrec r (mem_batches_added body b hb r hr)).1)
    (fun r hr => (hrec r (mem_batches_added body b hb r hr)).2)
    hdef (hlen b hb) hcodec

/-! ## Non-vacuity: two columns, `max = 2`, history add, add, add, write, write, add, close

All hypotheses of `parseFile_runWriter` are discharged for a concrete history (three records in one
batch cut into two pages per column, an empty `Write`, a record pending at `Close`), so the theorem's
conclusion holds outright for it. -/
section NonVacuity

private def fxCols : List Col :=
  [{ path := ["a"], reps := [.req], ty := .i32 }, { path := ["b"], reps := [.opt], ty := .i32 }]
private def fxCodec : Codec := { id := 0, compress := id }
private def fxDc : Decomp := { snappy := fun _ => none, gzip := fun _ => none }
private def fxRec (k : Nat) : Rec :=
  [[{ rep := 0, dl := 0, val := some [k, 0, 0, 0] }], [{ rep := 0, dl := 0, val := none }]]
private def fxBody : List Op :=
  [.add (fxRec 1), .add (fxRec 2), .add (fxRec 3), .write, .write, .add (fxRec 4)]
private def fxSe : List SElem :=
  [{ name := "root", numChildren := some 2 }, { name := "a", ty := some 1, rep := some 0 },
   { name := "b", ty := some 1, rep := some 1 }]
private def fxSd : List SElemD :=
  [([(5, 2)], strBytes "root"), ([(1, 1), (3, 0)], strBytes "a"), ([(1, 1), (3, 1)], strBytes "b")]

private theorem fx_batches : batches fxBody = [[fxRec 1, fxRec 2, fxRec 3]] := by decide

private theorem fx_ok : ∀ b ∈ batches fxBody, BatchOK fxDc fxCodec fxCols 2 b := by
  rw [fx_batches]
  intro b hb
  rw [List.mem_singleton] at hb
  subst hb
  apply batchOK_of_records fxDc fxCodec fxCols (by decide)
  · decide
  · intro r hr x hx
    have hx' : x = (⟨["a"], [.req], .i32⟩, 0) ∨ x = (⟨["b"], [.opt], .i32⟩, 1) := by simpa [fxCols] using hx
    have hr' : r = fxRec 1 ∨ r = fxRec 2 ∨ r = fxRec 3 := by simpa using hr
    rcases hx' with rfl | rfl <;> rcases hr' with rfl | rfl | rfl <;>
      exact ⟨⟨_, _, rfl, rfl, by simp⟩, by decide, by decide⟩
  · decide
  · intro x hx
    have hx' : x = (⟨["a"], [.req], .i32⟩, 0) ∨ x = (⟨["b"], [.opt], .i32⟩, 1) := by simpa [fxCols] using hx
    rcases hx' with rfl | rfl <;> decide
  · intro raw; exact Or.inl ⟨rfl, rfl⟩

/-- the theorem applied: the file of this history parses, has one row group of three rows, and column
`a` holds the three values, column `b` three nulls -/
example : ∃ f, parseFile fxDc fxCols 2 (fileBytes (runWriter fxCols 2 fxCodec (fxBody ++ [Op.close]))) = .ok f ∧
    f.numRows = 3 ∧ f.rowGroups.map (·.numRows) = [3] ∧
    f.rowGroups.map (fun rg => rg.chunks.map (·.entries)) =
      [[[⟨0, 0, some [1, 0, 0, 0]⟩, ⟨0, 0, some [2, 0, 0, 0]⟩, ⟨0, 0, some [3, 0, 0, 0]⟩],
        [⟨0, 0, none⟩, ⟨0, 0, none⟩, ⟨0, 0, none⟩]]] := by
  obtain ⟨f, h1, h2, _, h4, h5⟩ := parseFile_runWriter fxDc fxCodec fxCols 2 fxBody (by decide) (by decide) (by decide)
    fx_ok (by decide +kernel) fxSe fxSd (by decide +kernel) (by decide +kernel) (by rfl)
  rw [fx_batches] at h2 h4 h5
  exact ⟨f, h1, h2, h4, h5⟩

end NonVacuity

end PQ
