import PQ.Props.C04
import PQ.Lemmas.ReaderChunk
import PQ.Lemmas.FileRT
/-!
# The library's reader on the pages and column chunks of the independent spec writer (C04)

`specPageBytes` (PQ/Model/SpecWriter.lean) writes one page making arbitrary legal choices (run
segmentation of both level streams, padding value, codec, statistics or not, unknown extra thrift fields
or not).  This file shows that the reader's per-page work (`Src.readStruct`, `decPHdr`, `checkPage`,
`pageData`, `readLevelsAt`) and its page loops (`requiredDoRead`, `optionalDoRead`) and typed chunk
read (`readChunk`) recover exactly the entries, for every choice stream and every page split.
-/
namespace PQ
open PQ.Thrift

/-! ## the parts of a page of the spec writer (no mutation) -/

/-- repetition-level runs of the page and the choices left after them -/
def spRepSeg (cfg : SWCfg) (c : Col) (cs : Choices) (es : PageEntries) : List Run × Choices :=
  if c.maxRep > 0 then segment (cfg.padv % 2^(bitsLen c.maxRep)) (es.length + 1) cs (es.map (·.rep)) else ([], cs)

/-- definition-level runs of the page and the choices left after them -/
def spDefSeg (cfg : SWCfg) (c : Col) (cs : Choices) (es : PageEntries) : List Run × Choices :=
  if c.isRequired then ([], (spRepSeg cfg c cs es).2)
  else segment (cfg.padv % 2^(bitsLen c.maxDef)) (es.length + 1) (spRepSeg cfg c cs es).2 (es.map (·.dl))

/-- the uncompressed payload -/
def spRaw (cfg : SWCfg) (c : Col) (cs : Choices) (es : PageEntries) : Bytes :=
  (if c.maxRep > 0 then levelSection (bitsLen c.maxRep) (spRepSeg cfg c cs es).1 else []) ++
  (if c.isRequired then [] else levelSection (bitsLen c.maxDef) (spDefSeg cfg c cs es).1) ++
  plainValues c.ty (nonNull es)

/-- the stored payload -/
def spComp (codec : Nat) (compress : Bytes → Bytes) (raw : Bytes) : Bytes := if codec = 0 then raw else compress raw

def spStats (cfg : SWCfg) (c : Col) (es : PageEntries) : List (Nat × TVal) :=
  if cfg.withStats then [(5, statsT (cfg.pageStatsResult c es))] else []

def spExtra (cfg : SWCfg) : List (Nat × TVal) := if cfg.withExtras then extraField else []

/-- the label the (un-mutated) data page header gives the definition-level encoding: RLE (3), or — in the
parquet-mr style `mrLabels` — BIT_PACKED (4) when the column has no definition levels -/
def SWCfg.defLabel (cfg : SWCfg) (c : Col) : Nat := if cfg.mrLabels ∧ c.isRequired then 4 else 3

/-- the label the (un-mutated) data page header gives the repetition-level encoding: RLE (3), or — in the
parquet-mr style `mrLabels` — BIT_PACKED (4) when the column has no repetition levels -/
def SWCfg.repLabel (cfg : SWCfg) (c : Col) : Nat := if cfg.mrLabels ∧ c.maxRep = 0 then 4 else 3

theorem SWCfg.defLabel_of_not_required (cfg : SWCfg) (c : Col) (h : c.isRequired = false) : cfg.defLabel c = 3 := by
  unfold SWCfg.defLabel
  rw [if_neg (by rw [h]; exact fun h' => Bool.noConfusion h'.2)]

theorem SWCfg.repLabel_of_repeated (cfg : SWCfg) (c : Col) (h : c.maxRep > 0) : cfg.repLabel c = 3 := by
  unfold SWCfg.repLabel
  rw [if_neg (fun h' => by omega)]

theorem SWCfg.defLabel_of_plain (cfg : SWCfg) (c : Col) (h : cfg.mrLabels = false) : cfg.defLabel c = 3 := by
  unfold SWCfg.defLabel
  rw [if_neg (by rw [h]; exact fun h' => Bool.noConfusion h'.1)]

theorem SWCfg.repLabel_of_plain (cfg : SWCfg) (c : Col) (h : cfg.mrLabels = false) : cfg.repLabel c = 3 := by
  unfold SWCfg.repLabel
  rw [if_neg (by rw [h]; exact fun h' => Bool.noConfusion h'.1)]

/-- the data page header -/
def spDph (cfg : SWCfg) (c : Col) (es : PageEntries) : TVal :=
  .struct ([(1, .int 5 es.length), (2, .int 5 (0 : Nat)), (3, .int 5 (cfg.defLabel c)), (4, .int 5 (cfg.repLabel c))] ++ spStats cfg c es ++ spExtra cfg)

/-- the page header -/
def spHdr (cfg : SWCfg) (c : Col) (es : PageEntries) (rawLen compLen : Nat) : TVal :=
  .struct ([(1, .int 5 0), (2, .int 5 rawLen), (3, .int 5 compLen), (5, spDph cfg c es)] ++ spExtra cfg)

/-- **`specPageBytes` without mutation, in parts**: header bytes followed by the stored payload; the
uncompressed payload; the stored length; the choices left. -/
theorem specPageBytes_none (cfg : SWCfg) (c : Col) (codec : Nat) (compress : Bytes → Bytes) (cs : Choices)
    (es : PageEntries) :
    specPageBytes cfg c codec compress .none cs es =
      ((spHdr cfg c es (spRaw cfg c cs es).length (spComp codec compress (spRaw cfg c cs es)).length).enc ++
          spComp codec compress (spRaw cfg c cs es),
       spRaw cfg c cs es, (spComp codec compress (spRaw cfg c cs es)).length, (spDefSeg cfg c cs es).2) := rfl

/-! ## the header as a thrift value -/

theorem statsT_wf (r : Option Nat × Option Bytes × Option Bytes) : (statsT r).WF := by
  rw [statsT_eq]; simpa [TVal.WF] using statsFields_wf r

theorem statsT_dep (r : Option Nat × Option Bytes × Option Bytes) : (statsT r).dep ≤ 1 := by
  obtain ⟨a, b, c⟩ := r
  cases a <;> cases b <;> cases c <;> simp [statsT, TVal.dep, depFields]

theorem spHdr_wf (cfg : SWCfg) (c : Col) (es : PageEntries) (u z : Nat) : (spHdr cfg c es u z).WF := by
  have := statsT_wf (cfg.pageStatsResult c es)
  cases hs : cfg.withStats <;> cases he : cfg.withExtras <;>
    simp [spHdr, spDph, spStats, spExtra, extraField, hs, he, TVal.WF, WFFields, tI32, tI64, this]

/-- encoded lengths as `_ + 1`, so that `omega` can use their positivity -/
def fhl (a b c : Nat) : Nat := (fieldHeader a b c).length - 1
theorem fieldHeader_length_eq (a b c : Nat) : (fieldHeader a b c).length = fhl a b c + 1 := by
  unfold fhl; have := fieldHeader_length_pos a b c; omega
def uvl (n : Nat) : Nat := (uvar n).length - 1
theorem uvar_length_eq (n : Nat) : (uvar n).length = uvl n + 1 := by
  unfold uvl; have := uvar_length_pos n; omega

theorem spHdr_need (cfg : SWCfg) (c : Col) (es : PageEntries) (u z : Nat) :
    (spHdr cfg c es u z).need ≤ (spHdr cfg c es u z).enc.length + 2 := by
  have hs1 := need_le (statsT (cfg.pageStatsResult c es))
  have hs2 := statsT_dep (cfg.pageStatsResult c es)
  have hs3 := enc_length_pos (statsT (cfg.pageStatsResult c es))
  rw [statsT_eq] at hs1 hs2 hs3
  simp only [TVal.enc] at hs1 hs3
  cases hs : cfg.withStats <;> cases he : cfg.withExtras <;>
    simp only [spHdr, spDph, spStats, spExtra, extraField, hs, he, statsT_eq, TVal.need, needFields, TVal.enc, encFields,
      List.length_append, List.cons_append, List.nil_append, List.append_nil, if_true, if_false, Bool.false_eq_true,
      List.length_cons, List.length_nil, fieldHeader_length_eq, uvar_length_eq] at hs1 ⊢ <;> omega

/-- the thrift decoder, with any fuel of at least the header's length + 2, returns the header (statistics and
unknown fields included) and stops exactly at its end -/
theorem decVal_spHdr (cfg : SWCfg) (c : Col) (es : PageEntries) (u z : Nat) (t : Bytes) (F : Nat)
    (hF : (spHdr cfg c es u z).enc.length + 2 ≤ F) :
    decVal tStruct F ((spHdr cfg c es u z).enc ++ t) = some (spHdr cfg c es u z, t) := by
  have := decVal_enc_need (spHdr cfg c es u z) (spHdr_wf cfg c es u z) F t (by have := spHdr_need cfg c es u z; omega)
  simpa [spHdr, TVal.ecode, TVal.code] using this

/-- what `PageHeader.Read` makes of the header; `dl`, `rl`: the labels of the definition- and
repetition-level encodings; `so`: the statistics, if any -/
def spPH (u z n dl rl : Nat) (so : Option (List (Nat × TVal))) : PHdr :=
  { ty := 0, uncompressed := (u : Nat), compressed := (z : Nat), dph := some ((n : Nat), 0, (dl : Nat), (rl : Nat), so),
    hasDict := false, hasIndex := false, hasV2 := false }

/-- **`PageHeader.Read` on the spec writer's header**: type, sizes, `num_values` and encodings are found
whether or not statistics and unknown fields (id 100, in both the page header and the data page header)
are present. -/
theorem decPHdr_spHdr (cfg : SWCfg) (c : Col) (es : PageEntries) (u z : Nat) :
    ∃ so, decPHdr (spHdr cfg c es u z) = some (spPH u z es.length (cfg.defLabel c) (cfg.repLabel c) so) := by
  cases hs : cfg.withStats <;> cases he : cfg.withExtras
  · exact ⟨none, by simp [decPHdr, spHdr, spDph, spStats, spExtra, hs, he, spPH, TVal.fieldsOf, getI32, getStruct, List.lookup]⟩
  · exact ⟨none, by simp [decPHdr, spHdr, spDph, spStats, spExtra, extraField, hs, he, spPH, TVal.fieldsOf, getI32, getStruct, List.lookup]⟩
  · exact ⟨some (statsFields (cfg.pageStatsResult c es)), by
      simp [decPHdr, spHdr, spDph, spStats, spExtra, hs, he, spPH, TVal.fieldsOf, getI32, getStruct, List.lookup, statsT_eq]⟩
  · exact ⟨some (statsFields (cfg.pageStatsResult c es)), by
      simp [decPHdr, spHdr, spDph, spStats, spExtra, extraField, hs, he, spPH, TVal.fieldsOf, getI32, getStruct, List.lookup, statsT_eq]⟩

/-- `checkPage` on a header labelled RLE / RLE, whichever levels are asked for -/
theorem checkPage_spPH (u z n : Nat) (so : Option (List (Nat × TVal))) (d r : Bool) : checkPage (spPH u z n 3 3 so) d r = true := by
  cases d <;> cases r <;> simp [checkPage, spPH]

/-- **`RequiredField.DoRead`'s check ignores both level-encoding labels** -/
theorem checkPage_spPH_required (u z n dl rl : Nat) (so : Option (List (Nat × TVal))) :
    checkPage (spPH u z n dl rl so) false false = true := by
  simp [checkPage, spPH]

/-- **`OptionalField.DoRead`'s check on a non-required column**: the definition label is RLE; the repetition
label is RLE when the column is repeated and is not looked at otherwise -/
theorem checkPage_spPH_optional (cfg : SWCfg) (c : Col) (hreq : c.isRequired = false) (u z n : Nat)
    (so : Option (List (Nat × TVal))) :
    checkPage (spPH u z n (cfg.defLabel c) (cfg.repLabel c) so) true (decide (c.maxRep > 0)) = true := by
  rw [cfg.defLabel_of_not_required c hreq]
  by_cases hrep : c.maxRep > 0
  · rw [cfg.repLabel_of_repeated c hrep]
    exact checkPage_spPH u z n so _ _
  · rw [decide_eq_false hrep]
    simp [checkPage, spPH]

theorem numValuesOf_spPH (u z n dl rl : Nat) (so : Option (List (Nat × TVal))) : numValuesOf (spPH u z n dl rl so) = .ok (n : Int) := rfl

/-- `readStruct` at the start of a page returns its header and stops right after it -/
theorem readStruct_spHdr (cfg : SWCfg) (c : Col) (es : PageEntries) (u z : Nat) (pre t : Bytes) :
    (Src.mk (pre ++ (spHdr cfg c es u z).enc ++ t) pre.length).readStruct =
      .ok (spHdr cfg c es u z, Src.mk (pre ++ (spHdr cfg c es u z).enc ++ t) (pre.length + (spHdr cfg c es u z).enc.length)) := by
  have hdec := decVal_spHdr cfg c es u z t (((spHdr cfg c es u z).enc ++ t).length + 2)
    (by simp only [List.length_append]; omega)
  unfold Src.readStruct
  simp only [List.append_assoc, List.drop_left]
  rw [hdec]
  simp only [List.length_append]
  congr 3
  omega

/-! ## the payload -/

/-- what the reader's decompressors must do on one payload: codec 0 stores it as it is; 1 (snappy) and
2 (gzip) must be inverted by the supplied decoders -/
def SpCodecOK (dc : Decomp) (codec : Nat) (compress : Bytes → Bytes) (raw : Bytes) : Prop :=
  codec = 0 ∨ (codec = 1 ∧ dc.snappy (compress raw) = some raw) ∨ (codec = 2 ∧ dc.gzip (compress raw) = some raw)

/-- `pageData` on the stored payload of a page -/
theorem pageData_sp (dc : Decomp) (codec : Nat) (compress : Bytes → Bytes) (raw : Bytes)
    (hk : SpCodecOK dc codec compress raw) (n dl rl : Nat) (so : Option (List (Nat × TVal))) (pre post : Bytes) :
    pageData dc (Src.mk (pre ++ spComp codec compress raw ++ post) pre.length)
        (spPH raw.length (spComp codec compress raw).length n dl rl so) (codec : Int) =
      .ok (raw, Src.mk (pre ++ spComp codec compress raw ++ post) (pre.length + (spComp codec compress raw).length)) := by
  unfold pageData
  rcases hk with h0 | ⟨h1, hs⟩ | ⟨h2, hs⟩
  · subst h0
    have ha : spComp 0 compress raw = raw := by unfold spComp; rw [if_pos rfl]
    rw [if_neg (by omega), if_neg (by omega), if_pos (by rfl)]
    simp only [spPH, natOfInt_nat, bind, Except.bind, ha]
    exact readExactly_mid pre raw post _ rfl
  · subst h1
    have ha : spComp 1 compress raw = compress raw := by unfold spComp; rw [if_neg (by omega)]
    rw [if_pos (by rfl)]
    simp only [spPH, natOfInt_nat, bind, Except.bind, ha, readExactly_mid pre (compress raw) post _ rfl, hs]
  · subst h2
    have ha : spComp 2 compress raw = compress raw := by unfold spComp; rw [if_neg (by omega)]
    rw [if_neg (by omega), if_pos (by rfl)]
    simp only [spPH, ha]
    rw [if_neg (by omega)]
    simp only [Int.toNat_natCast, bind, Except.bind, readExactly_mid pre (compress raw) post _ rfl, hs]

/-! ## the level sections of the payload, for every segmentation -/

def spRepLen (cfg : SWCfg) (c : Col) (cs : Choices) (es : PageEntries) : Nat :=
  if c.maxRep > 0 then (levelSection (bitsLen c.maxRep) (spRepSeg cfg c cs es).1).length else 0

def spDefLen (cfg : SWCfg) (c : Col) (cs : Choices) (es : PageEntries) : Nat :=
  (levelSection (bitsLen c.maxDef) (spDefSeg cfg c cs es).1).length

/-- **The level sections of the spec writer's payload, as `OptionalField.DoRead` reads them** — for every
choice stream (any run segmentation of both level streams) and any padding value: `readLevels` returns the
entries' repetition / definition levels followed by fewer than 8 padding values, and the sizes of the
sections; what follows them is the PLAIN value section. -/
theorem spRaw_levels (cfg : SWCfg) (c : Col) (cs : Choices) (es : PageEntries) (hopt : c.isRequired = false)
    (hmd : c.maxDef ≤ 15) (hx : ∀ e ∈ es, e.rep ≤ c.maxRep ∧ e.dl ≤ c.maxDef) (hlen : es.length + 8 ≤ 2 ^ 28) :
    (∀ _ : c.maxRep > 0, ∃ p1, p1 < 8 ∧
      readLevelsAt (bitsLen c.maxRep) (spRaw cfg c cs es) 0 =
        .ok (es.map (·.rep) ++ List.replicate p1 (cfg.padv % 2 ^ bitsLen c.maxRep), spRepLen cfg c cs es)) ∧
    (∃ p2, p2 < 8 ∧
      readLevelsAt (bitsLen c.maxDef) (spRaw cfg c cs es) (spRepLen cfg c cs es) =
        .ok (es.map (·.dl) ++ List.replicate p2 (cfg.padv % 2 ^ bitsLen c.maxDef), spDefLen cfg c cs es)) ∧
    (spRaw cfg c cs es).drop (spRepLen cfg c cs es + spDefLen cfg c cs es) = plainValues c.ty (nonNull es) ∧
    spRepLen cfg c cs es + spDefLen cfg c cs es ≤ (spRaw cfg c cs es).length := by
  have hreq' : ¬ c.isRequired = true := by simp [hopt]
  have hmr := c.maxRep_le_maxDef
  have hwd : 1 ≤ bitsLen c.maxDef ∧ bitsLen c.maxDef ≤ 4 :=
    ⟨one_le_bitsLen _ (one_le_maxDef_of_not_required c hopt), bitsLen_le_four _ hmd⟩
  have hr : ∀ x ∈ es.map (·.rep), x < 2 ^ bitsLen c.maxRep := by
    intro x hx'
    obtain ⟨e, he, rfl⟩ := List.mem_map.mp hx'
    exact Nat.lt_of_le_of_lt (hx e he).1 (lt_two_pow_bitsLen _)
  have hd : ∀ x ∈ es.map (·.dl), x < 2 ^ bitsLen c.maxDef := by
    intro x hx'
    obtain ⟨e, he, rfl⟩ := List.mem_map.mp hx'
    exact Nat.lt_of_le_of_lt (hx e he).2 (lt_two_pow_bitsLen _)
  by_cases hrep : c.maxRep > 0
  · have hwr : 1 ≤ bitsLen c.maxRep ∧ bitsLen c.maxRep ≤ 4 := ⟨one_le_bitsLen _ hrep, bitsLen_le_four _ (by omega)⟩
    have hraw : spRaw cfg c cs es =
        levelSection (bitsLen c.maxRep) (segment (cfg.padv % 2 ^ bitsLen c.maxRep) (es.length + 1) cs (es.map (·.rep))).1 ++
        levelSection (bitsLen c.maxDef) (segment (cfg.padv % 2 ^ bitsLen c.maxDef) (es.length + 1)
          (segment (cfg.padv % 2 ^ bitsLen c.maxRep) (es.length + 1) cs (es.map (·.rep))).2 (es.map (·.dl))).1 ++
        plainValues c.ty (nonNull es) := by
      unfold spRaw spDefSeg spRepSeg
      rw [if_pos hrep, if_neg hreq', if_neg hreq', if_pos hrep]
    have hl1 : spRepLen cfg c cs es =
        (levelSection (bitsLen c.maxRep) (segment (cfg.padv % 2 ^ bitsLen c.maxRep) (es.length + 1) cs (es.map (·.rep))).1).length := by
      unfold spRepLen spRepSeg
      rw [if_pos hrep, if_pos hrep]
    have hl2 : spDefLen cfg c cs es =
        (levelSection (bitsLen c.maxDef) (segment (cfg.padv % 2 ^ bitsLen c.maxDef) (es.length + 1)
          (segment (cfg.padv % 2 ^ bitsLen c.maxRep) (es.length + 1) cs (es.map (·.rep))).2 (es.map (·.dl))).1).length := by
      unfold spDefLen spDefSeg spRepSeg
      rw [if_neg hreq', if_pos hrep]
    rw [hraw, hl1, hl2]
    generalize (segment (cfg.padv % 2 ^ bitsLen c.maxRep) (es.length + 1) cs (es.map (·.rep))).2 = cs'
    obtain ⟨p1, hp1, h1⟩ := PQ.C04.readLevels_any_segmentation (bitsLen c.maxRep) hwr (cfg.padv % 2 ^ bitsLen c.maxRep)
      (Nat.mod_lt _ (Nat.two_pow_pos _)) (es.length + 1) cs (es.map (·.rep)) hr (by simp) (by simpa using hlen) []
      (levelSection (bitsLen c.maxDef) (segment (cfg.padv % 2 ^ bitsLen c.maxDef) (es.length + 1) cs' (es.map (·.dl))).1
        ++ plainValues c.ty (nonNull es))
    obtain ⟨p2, hp2, h2⟩ := PQ.C04.readLevels_any_segmentation (bitsLen c.maxDef) hwd (cfg.padv % 2 ^ bitsLen c.maxDef)
      (Nat.mod_lt _ (Nat.two_pow_pos _)) (es.length + 1) cs' (es.map (·.dl)) hd (by simp) (by simpa using hlen)
      (levelSection (bitsLen c.maxRep) (segment (cfg.padv % 2 ^ bitsLen c.maxRep) (es.length + 1) cs (es.map (·.rep))).1)
      (plainValues c.ty (nonNull es))
    refine ⟨fun _ => ⟨p1, hp1, ?_⟩, ⟨p2, hp2, h2⟩, ?_, ?_⟩
    · simpa [List.append_assoc] using h1
    · rw [← List.length_append, List.drop_left]
    · simp only [List.length_append]; omega
  · have hraw : spRaw cfg c cs es =
        levelSection (bitsLen c.maxDef) (segment (cfg.padv % 2 ^ bitsLen c.maxDef) (es.length + 1) cs (es.map (·.dl))).1 ++
        plainValues c.ty (nonNull es) := by
      unfold spRaw spDefSeg spRepSeg
      rw [if_neg hrep, if_neg hreq', if_neg hreq', if_neg hrep, List.nil_append]
    have hl1 : spRepLen cfg c cs es = 0 := by
      unfold spRepLen
      rw [if_neg hrep]
    have hl2 : spDefLen cfg c cs es =
        (levelSection (bitsLen c.maxDef) (segment (cfg.padv % 2 ^ bitsLen c.maxDef) (es.length + 1) cs (es.map (·.dl))).1).length := by
      unfold spDefLen spDefSeg spRepSeg
      rw [if_neg hreq', if_neg hrep]
    rw [hraw, hl1, hl2]
    obtain ⟨p2, hp2, h2⟩ := PQ.C04.readLevels_any_segmentation (bitsLen c.maxDef) hwd (cfg.padv % 2 ^ bitsLen c.maxDef)
      (Nat.mod_lt _ (Nat.two_pow_pos _)) (es.length + 1) cs (es.map (·.dl)) hd (by simp) (by simpa using hlen) []
      (plainValues c.ty (nonNull es))
    refine ⟨fun h => absurd h hrep, ⟨p2, hp2, by simpa using h2⟩, ?_, ?_⟩
    · rw [Nat.zero_add, List.drop_left]
    · simp only [List.length_append]; omega

theorem maxRep_zero_of_required (c : Col) (h : c.isRequired = true) : c.maxRep = 0 := by
  have hall : ∀ t ∈ c.reps, t = Rep.req := by
    intro t ht
    have := List.all_eq_true.mp h t ht
    cases t <;> first | rfl | exact absurd this (by decide)
  unfold Col.maxRep
  generalize c.reps = ts at hall
  induction ts with
  | nil => rfl
  | cons t ts ih =>
    have := hall t List.mem_cons_self
    subst this
    simp only [maxRep]
    exact ih (fun x hx => hall x (List.mem_cons_of_mem _ hx))

/-- a `RequiredField`'s payload is just the PLAIN values -/
theorem spRaw_required (cfg : SWCfg) (c : Col) (cs : Choices) (es : PageEntries) (hreq : c.isRequired = true) :
    spRaw cfg c cs es = plainValues c.ty (nonNull es) := by
  unfold spRaw
  rw [if_neg (by rw [maxRep_zero_of_required c hreq]; omega), if_pos hreq]
  rfl

/-! ## one page in the file -/

/-- header bytes and stored payload of the page holding `es`, written with the choices `cs` -/
def spPage (cfg : SWCfg) (c : Col) (codec : Nat) (compress : Bytes → Bytes) (cs : Choices) (es : PageEntries) : Bytes × Bytes :=
  ((spHdr cfg c es (spRaw cfg c cs es).length (spComp codec compress (spRaw cfg c cs es)).length).enc,
   spComp codec compress (spRaw cfg c cs es))

theorem specPageBytes_spPage (cfg : SWCfg) (c : Col) (codec : Nat) (compress : Bytes → Bytes) (cs : Choices)
    (es : PageEntries) :
    specPageBytes cfg c codec compress .none cs es =
      ((spPage cfg c codec compress cs es).1 ++ (spPage cfg c codec compress cs es).2, spRaw cfg c cs es,
       (spPage cfg c codec compress cs es).2.length, (spDefSeg cfg c cs es).2) := rfl

theorem spPage_hdr_pos (cfg : SWCfg) (c : Col) (codec : Nat) (compress : Bytes → Bytes) (cs : Choices) (es : PageEntries) :
    1 ≤ (spPage cfg c codec compress cs es).1.length := enc_length_pos _

/-- **The reader's per-page work on a page of the spec writer** (any segmentation, codec 0/1/2, statistics
and unknown fields present or not): `readStruct` returns the header and stops after it, `PageHeader.Read`
extracts sizes / `num_values` / encodings, and `pageData` returns the uncompressed payload, leaving the
source right after the page. -/
theorem readSpPage (dc : Decomp) (cfg : SWCfg) (c : Col) (codec : Nat) (compress : Bytes → Bytes) (cs : Choices)
    (es : PageEntries) (hk : SpCodecOK dc codec compress (spRaw cfg c cs es)) (pre rest : Bytes) :
    ∃ t so,
      (Src.mk (pre ++ (spPage cfg c codec compress cs es).1 ++ (spPage cfg c codec compress cs es).2 ++ rest) pre.length).readStruct =
        .ok (t, Src.mk (pre ++ (spPage cfg c codec compress cs es).1 ++ (spPage cfg c codec compress cs es).2 ++ rest)
          (pre.length + (spPage cfg c codec compress cs es).1.length)) ∧
      decPHdr t = some (spPH (spRaw cfg c cs es).length (spPage cfg c codec compress cs es).2.length es.length (cfg.defLabel c) (cfg.repLabel c) so) ∧
      pageData dc (Src.mk (pre ++ (spPage cfg c codec compress cs es).1 ++ (spPage cfg c codec compress cs es).2 ++ rest)
          (pre.length + (spPage cfg c codec compress cs es).1.length))
          (spPH (spRaw cfg c cs es).length (spPage cfg c codec compress cs es).2.length es.length (cfg.defLabel c) (cfg.repLabel c) so) (codec : Int) =
        .ok (spRaw cfg c cs es,
          Src.mk (pre ++ (spPage cfg c codec compress cs es).1 ++ (spPage cfg c codec compress cs es).2 ++ rest)
            (pre.length + ((spPage cfg c codec compress cs es).1.length + (spPage cfg c codec compress cs es).2.length))) := by
  obtain ⟨so, hso⟩ := decPHdr_spHdr cfg c es (spRaw cfg c cs es).length (spComp codec compress (spRaw cfg c cs es)).length
  refine ⟨_, so, ?_, hso, ?_⟩
  · have := readStruct_spHdr cfg c es (spRaw cfg c cs es).length (spComp codec compress (spRaw cfg c cs es)).length pre
      ((spPage cfg c codec compress cs es).2 ++ rest)
    simp only [spPage, List.append_assoc] at this ⊢
    exact this
  · have := pageData_sp dc codec compress (spRaw cfg c cs es) hk es.length (cfg.defLabel c) (cfg.repLabel c) so (pre ++ (spPage cfg c codec compress cs es).1) rest
    simp only [spPage, List.length_append, Nat.add_assoc] at this ⊢
    exact this

/-! ## `RequiredField.DoRead` -/

theorem requiredDoRead_spStep (dc : Decomp) (cfg : SWCfg) (c : Col) (codec : Nat) (compress : Bytes → Bytes) (cs : Choices)
    (es : PageEntries) (hk : SpCodecOK dc codec compress (spRaw cfg c cs es)) (pg : PageMeta)
    (hcodec : pg.codec = (codec : Int)) (pre rest : Bytes) (fuel : Nat) (nRead : Int) (out : Bytes) (sizes : List Int)
    (hlt : nRead < pg.n) :
    requiredDoRead dc pg (fuel + 1)
        (Src.mk (pre ++ (spPage cfg c codec compress cs es).1 ++ (spPage cfg c codec compress cs es).2 ++ rest) pre.length)
        nRead out sizes =
      requiredDoRead dc pg fuel
        (Src.mk (pre ++ (spPage cfg c codec compress cs es).1 ++ (spPage cfg c codec compress cs es).2 ++ rest)
          (pre.length + ((spPage cfg c codec compress cs es).1.length + (spPage cfg c codec compress cs es).2.length)))
        (nRead + (es.length : Int)) (out ++ spRaw cfg c cs es) (sizes ++ [(es.length : Int)]) := by
  obtain ⟨t, so, h1, h2, h3⟩ := readSpPage dc cfg c codec compress cs es hk pre rest
  rw [requiredDoRead, if_pos hlt]
  simp only [bind, Except.bind, h1, h2, pure, Except.pure, checkPage_spPH_required, Bool.not_true,
    Bool.false_eq_true, if_false, numValuesOf_spPH, hcodec, h3]

/-! ## `OptionalField.DoRead` -/

theorem optionalDoRead_spStep (dc : Decomp) (cfg : SWCfg) (c : Col) (codec : Nat) (compress : Bytes → Bytes) (cs : Choices)
    (es : PageEntries) (hreq : c.isRequired = false) (hwf : WFPage c es) (hlen : es.length + 8 ≤ 2 ^ 28)
    (hk : SpCodecOK dc codec compress (spRaw cfg c cs es)) (pg : PageMeta)
    (hcodec : pg.codec = (codec : Int)) (pre rest : Bytes) (fuel : Nat) (nRead : Int) (buf : ColBuf) (out : Bytes)
    (sizes : List Int) (hlt : nRead < pg.size) :
    optionalDoRead dc c pg (fuel + 1)
        (Src.mk (pre ++ (spPage cfg c codec compress cs es).1 ++ (spPage cfg c codec compress cs es).2 ++ rest) pre.length)
        nRead buf out sizes =
      optionalDoRead dc c pg fuel
        (Src.mk (pre ++ (spPage cfg c codec compress cs es).1 ++ (spPage cfg c codec compress cs es).2 ++ rest)
          (pre.length + ((spPage cfg c codec compress cs es).1.length + (spPage cfg c codec compress cs es).2.length)))
        (nRead + ((((spPage cfg c codec compress cs es).1.length + (spPage cfg c codec compress cs es).2.length : Nat)) : Int))
        (addLevels c buf es) (out ++ plainValues c.ty (nonNull es)) (sizes ++ [((nonNull es).length : Int)]) := by
  obtain ⟨t, so, h1, h2, h3⟩ := readSpPage dc cfg c codec compress cs es hk pre rest
  have hreq' : ¬ c.isRequired = true := by simp [hreq]
  have hent : ∀ e ∈ es, e.rep ≤ c.maxRep ∧ e.dl ≤ c.maxDef := by
    intro e he; have := hwf.entries e he; rw [if_neg hreq'] at this; exact ⟨this.2.1, this.1⟩
  obtain ⟨hr, ⟨padd, hpd, hd⟩, e3, hle⟩ := spRaw_levels cfg c cs es hreq hwf.maxDef hent hlen
  have hcount := count_maxDef' c es hreq hwf
  rw [optionalDoRead, if_pos hlt]
  simp only [bind, Except.bind, h1, h2, pure, Except.pure, checkPage_spPH_optional cfg c hreq, Bool.not_true,
    Bool.false_eq_true, if_false, numValuesOf_spPH, hcodec, h3]
  have hsub : pre.length + ((spPage cfg c codec compress cs es).1.length + (spPage cfg c codec compress cs es).2.length) - pre.length =
      (spPage cfg c codec compress cs es).1.length + (spPage cfg c codec compress cs es).2.length := by omega
  have hnv : ¬ (((es.length : Nat) : Int) < 0 ∨ es.length >
      (List.map (fun e : Entry Bytes => e.dl) es ++ List.replicate padd (cfg.padv % 2 ^ bitsLen c.maxDef)).length) := by
    simp only [List.length_append, List.length_map]; omega
  have e2 : (List.map (fun e : Entry Bytes => e.dl) es ++ List.replicate padd (cfg.padv % 2 ^ bitsLen c.maxDef)).take es.length
      = es.map (·.dl) := by
    have : (es.map (·.dl)).length = es.length := List.length_map _
    rw [← this]; exact List.take_left
  by_cases hrep : c.maxRep > 0
  · obtain ⟨padr, hpr, hr'⟩ := hr hrep
    have hnv2 : ¬ (((es.length : Nat) : Int) < 0 ∨ es.length >
        (List.map (fun e : Entry Bytes => e.rep) es ++ List.replicate padr (cfg.padv % 2 ^ bitsLen c.maxRep)).length) := by
      simp only [List.length_append, List.length_map]; omega
    have hle' : ¬ (spRepLen cfg c cs es + spDefLen cfg c cs es > (spRaw cfg c cs es).length) := by omega
    have e1 : (List.map (fun e : Entry Bytes => e.rep) es ++ List.replicate padr (cfg.padv % 2 ^ bitsLen c.maxRep)).take es.length
        = es.map (·.rep) := by
      have : (es.map (·.rep)).length = es.length := List.length_map _
      rw [← this]; exact List.take_left
    simp only [if_pos hrep, hr', hnv2, if_false, hd, hnv, Int.toNat_natCast, hle', e1, e2, e3, hcount, hsub, addLevels]
  · have h0 : spRepLen cfg c cs es = 0 := by unfold spRepLen; rw [if_neg hrep]
    rw [h0] at hd e3 hle
    rw [Nat.zero_add] at e3 hle
    have hle' : ¬ (spDefLen cfg c cs es > (spRaw cfg c cs es).length) := by omega
    simp only [if_neg hrep, hd, hnv, if_false, Int.toNat_natCast, Nat.zero_add, hle', e2, e3, hcount, hsub, addLevels]

/-! ## the pages of one chunk -/

/-- the bytes of consecutive pages (each written with the choices its predecessors left) and the choices
left at the end: the spec writer's `emit` without mutation -/
def spEmit (cfg : SWCfg) (c : Col) (codec : Nat) (compress : Bytes → Bytes) : List PageEntries → Choices → Bytes × Choices
  | [], cs => ([], cs)
  | p :: ps, cs =>
    ((spPage cfg c codec compress cs p).1 ++ (spPage cfg c codec compress cs p).2 ++
        (spEmit cfg c codec compress ps (spDefSeg cfg c cs p).2).1,
     (spEmit cfg c codec compress ps (spDefSeg cfg c cs p).2).2)

theorem emit_none (cfg : SWCfg) (compress : Nat → Bytes → Bytes) (rgi : Nat) (c : Col) (codec ci : Nat) :
    ∀ (pages : List PageEntries) (pi : Nat) (cs : Choices),
      (specWriteLog.chunks.emit cfg compress none rgi c codec ci pages pi cs).1 =
        (spEmit cfg c codec (compress codec) pages cs).1 ∧
      (specWriteLog.chunks.emit cfg compress none rgi c codec ci pages pi cs).2.2.2 =
        (spEmit cfg c codec (compress codec) pages cs).2
  | [], pi, cs => ⟨rfl, rfl⟩
  | p :: ps, pi, cs => by
    have ih := emit_none cfg compress rgi c codec ci ps (pi + 1) (spDefSeg cfg c cs p).2
    rw [specWriteLog.chunks.emit]
    simp only [specPageBytes_spPage, spEmit]
    exact ⟨by rw [ih.1, List.append_assoc], ih.2⟩

theorem spEmit_nil (cfg : SWCfg) (c : Col) (codec : Nat) (compress : Bytes → Bytes) (cs : Choices) :
    spEmit cfg c codec compress [] cs = ([], cs) := rfl

theorem spEmit_cons (cfg : SWCfg) (c : Col) (codec : Nat) (compress : Bytes → Bytes) (p : PageEntries)
    (ps : List PageEntries) (cs : Choices) :
    (spEmit cfg c codec compress (p :: ps) cs).1 =
      (spPage cfg c codec compress cs p).1 ++ (spPage cfg c codec compress cs p).2 ++
        (spEmit cfg c codec compress ps (spDefSeg cfg c cs p).2).1 := rfl

theorem spEmit_length_ge (cfg : SWCfg) (c : Col) (codec : Nat) (compress : Bytes → Bytes) :
    ∀ (ess : List PageEntries) (cs : Choices), ess.length ≤ (spEmit cfg c codec compress ess cs).1.length
  | [], _ => by simp [spEmit]
  | p :: ps, cs => by
    have ih := spEmit_length_ge cfg c codec compress ps (spDefSeg cfg c cs p).2
    have := spPage_hdr_pos cfg c codec compress cs p
    rw [spEmit_cons]
    simp only [List.length_append, List.length_cons]
    omega

/-- **`RequiredField.DoRead` on the pages of one chunk of the spec writer.**  `pg.n` is the chunk's
`num_values`. -/
theorem requiredDoRead_spPages (dc : Decomp) (cfg : SWCfg) (c : Col) (codec : Nat) (compress : Bytes → Bytes)
    (hreq : c.isRequired = true) (hk : ∀ raw, SpCodecOK dc codec compress raw) (pg : PageMeta)
    (hcodec : pg.codec = (codec : Int)) :
    ∀ (ess : List PageEntries) (cs : Choices) (pre post : Bytes) (fuel : Nat) (nRead : Int) (out : Bytes) (sizes : List Int),
      ess.length < fuel → (∀ es ∈ ess, es ≠ []) →
      nRead + (((ess.map List.length).sum : Nat) : Int) = pg.n →
      requiredDoRead dc pg fuel (Src.mk (pre ++ (spEmit cfg c codec compress ess cs).1 ++ post) pre.length) nRead out sizes =
        .ok (out ++ ess.flatMap (fun es => plainValues c.ty (nonNull es)), sizes ++ ess.map (fun es => (es.length : Int)),
             Src.mk (pre ++ (spEmit cfg c codec compress ess cs).1 ++ post)
               (pre.length + (spEmit cfg c codec compress ess cs).1.length))
  | [], cs, pre, post, fuel, nRead, out, sizes, hf, _, hn => by
    cases fuel with
    | zero => omega
    | succ f =>
      simp only [List.map_nil, List.sum_nil, Int.natCast_zero, Int.add_zero] at hn
      rw [requiredDoRead, if_neg (by omega)]
      simp [spEmit_nil]
  | es :: ess, cs, pre, post, fuel, nRead, out, sizes, hf, hg, hn => by
    cases fuel with
    | zero => omega
    | succ f =>
      have hne := hg es List.mem_cons_self
      have hpos : 1 ≤ es.length := by
        cases es with
        | nil => exact absurd rfl hne
        | cons a b => simp
      simp only [List.map_cons, List.sum_cons, Int.natCast_add] at hn
      generalize hcs' : (spDefSeg cfg c cs es).2 = cs'
      have hfile : pre ++ (spEmit cfg c codec compress (es :: ess) cs).1 ++ post =
          pre ++ (spPage cfg c codec compress cs es).1 ++ (spPage cfg c codec compress cs es).2 ++
            ((spEmit cfg c codec compress ess cs').1 ++ post) := by
        rw [spEmit_cons, hcs']; simp only [List.append_assoc]
      have hfile2 : pre ++ (spEmit cfg c codec compress (es :: ess) cs).1 ++ post =
          (pre ++ (spPage cfg c codec compress cs es).1 ++ (spPage cfg c codec compress cs es).2) ++
            (spEmit cfg c codec compress ess cs').1 ++ post := by
        rw [spEmit_cons, hcs']; simp only [List.append_assoc]
      have hl2 : (pre ++ (spPage cfg c codec compress cs es).1 ++ (spPage cfg c codec compress cs es).2).length =
          pre.length + ((spPage cfg c codec compress cs es).1.length + (spPage cfg c codec compress cs es).2.length) := by
        simp only [List.length_append]; omega
      have hlen : (spEmit cfg c codec compress (es :: ess) cs).1.length =
          (spPage cfg c codec compress cs es).1.length + (spPage cfg c codec compress cs es).2.length +
            (spEmit cfg c codec compress ess cs').1.length := by
        rw [spEmit_cons, hcs']; simp only [List.length_append]
      have ih := requiredDoRead_spPages dc cfg c codec compress hreq hk pg hcodec ess cs'
        (pre ++ (spPage cfg c codec compress cs es).1 ++ (spPage cfg c codec compress cs es).2) post f
        (nRead + (es.length : Int)) (out ++ spRaw cfg c cs es) (sizes ++ [(es.length : Int)])
        (by simp only [List.length_cons] at hf; omega) (fun e he => hg e (List.mem_cons_of_mem _ he)) (by omega)
      rw [← hfile2, hl2] at ih
      have hstep := requiredDoRead_spStep dc cfg c codec compress cs es (hk _) pg hcodec pre
        ((spEmit cfg c codec compress ess cs').1 ++ post) f nRead out sizes (by omega)
      rw [← hfile] at hstep
      rw [hstep, ih, hlen, spRaw_required cfg c cs es hreq]
      simp only [List.flatMap_cons, List.map_cons, List.append_assoc, List.cons_append, List.nil_append, Nat.add_assoc]

/-- **`OptionalField.DoRead` on the pages of one chunk of the spec writer.**  `pg.size` is the chunk's
`total_compressed_size`; the loop runs until that many bytes were consumed. -/
theorem optionalDoRead_spPages (dc : Decomp) (cfg : SWCfg) (c : Col) (codec : Nat) (compress : Bytes → Bytes)
    (hreq : c.isRequired = false) (hk : ∀ raw, SpCodecOK dc codec compress raw) (pg : PageMeta)
    (hcodec : pg.codec = (codec : Int)) :
    ∀ (ess : List PageEntries) (cs : Choices) (pre post : Bytes) (fuel : Nat) (nRead : Int) (buf : ColBuf) (out : Bytes)
      (sizes : List Int),
      ess.length < fuel → (∀ es ∈ ess, WFPage c es ∧ es.length + 8 ≤ 2 ^ 28) →
      nRead + (((spEmit cfg c codec compress ess cs).1.length : Nat) : Int) = pg.size →
      optionalDoRead dc c pg fuel (Src.mk (pre ++ (spEmit cfg c codec compress ess cs).1 ++ post) pre.length) nRead buf out sizes =
        .ok (addLevels c buf ess.flatten, out ++ ess.flatMap (fun es => plainValues c.ty (nonNull es)),
             sizes ++ ess.map (fun es => ((nonNull es).length : Int)),
             Src.mk (pre ++ (spEmit cfg c codec compress ess cs).1 ++ post)
               (pre.length + (spEmit cfg c codec compress ess cs).1.length))
  | [], cs, pre, post, fuel, nRead, buf, out, sizes, hf, _, hn => by
    cases fuel with
    | zero => omega
    | succ f =>
      simp only [spEmit_nil, List.length_nil, Int.natCast_zero, Int.add_zero] at hn
      rw [optionalDoRead, if_neg (by omega)]
      simp [spEmit_nil, addLevels_nil]
  | es :: ess, cs, pre, post, fuel, nRead, buf, out, sizes, hf, hg, hn => by
    cases fuel with
    | zero => omega
    | succ f =>
      obtain ⟨hwf, hl28⟩ := hg es List.mem_cons_self
      have hpos := spPage_hdr_pos cfg c codec compress cs es
      generalize hcs' : (spDefSeg cfg c cs es).2 = cs'
      have hfile : pre ++ (spEmit cfg c codec compress (es :: ess) cs).1 ++ post =
          pre ++ (spPage cfg c codec compress cs es).1 ++ (spPage cfg c codec compress cs es).2 ++
            ((spEmit cfg c codec compress ess cs').1 ++ post) := by
        rw [spEmit_cons, hcs']; simp only [List.append_assoc]
      have hfile2 : pre ++ (spEmit cfg c codec compress (es :: ess) cs).1 ++ post =
          (pre ++ (spPage cfg c codec compress cs es).1 ++ (spPage cfg c codec compress cs es).2) ++
            (spEmit cfg c codec compress ess cs').1 ++ post := by
        rw [spEmit_cons, hcs']; simp only [List.append_assoc]
      have hl2 : (pre ++ (spPage cfg c codec compress cs es).1 ++ (spPage cfg c codec compress cs es).2).length =
          pre.length + ((spPage cfg c codec compress cs es).1.length + (spPage cfg c codec compress cs es).2.length) := by
        simp only [List.length_append]; omega
      have hlen : (spEmit cfg c codec compress (es :: ess) cs).1.length =
          (spPage cfg c codec compress cs es).1.length + (spPage cfg c codec compress cs es).2.length +
            (spEmit cfg c codec compress ess cs').1.length := by
        rw [spEmit_cons, hcs']; simp only [List.length_append]
      rw [hlen] at hn
      have ih := optionalDoRead_spPages dc cfg c codec compress hreq hk pg hcodec ess cs'
        (pre ++ (spPage cfg c codec compress cs es).1 ++ (spPage cfg c codec compress cs es).2) post f
        (nRead + ((((spPage cfg c codec compress cs es).1.length + (spPage cfg c codec compress cs es).2.length : Nat)) : Int))
        (addLevels c buf es) (out ++ plainValues c.ty (nonNull es)) (sizes ++ [((nonNull es).length : Int)])
        (by simp only [List.length_cons] at hf; omega) (fun e he => hg e (List.mem_cons_of_mem _ he)) (by omega)
      rw [← hfile2, hl2] at ih
      have hstep := optionalDoRead_spStep dc cfg c codec compress cs es hreq hwf hl28 (hk _) pg hcodec pre
        ((spEmit cfg c codec compress ess cs').1 ++ post) f nRead buf out sizes (by omega)
      rw [← hfile] at hstep
      rw [hstep, ih, hlen, addLevels_append]
      simp only [List.flatMap_cons, List.map_cons, List.flatten_cons, List.append_assoc, List.cons_append,
        List.nil_append, Nat.add_assoc]

/-! ## the typed `Read` of one chunk -/

/-- what the reader needs of one page of a chunk -/
structure SpPageOK (c : Col) (es : PageEntries) : Prop where
  wf : WFPage c es
  len : es.length + 8 ≤ 2 ^ 28
  ne : es ≠ []

/-- the `PageMeta` (`Metadata.Pages()`) of the chunk the spec writer emits for the pages `ess` -/
def spPageMeta (cfg : SWCfg) (c : Col) (codec : Nat) (compress : Bytes → Bytes) (ess : List PageEntries) (cs : Choices) : PageMeta :=
  { n := (((ess.map List.length).sum : Nat) : Int), size := (((spEmit cfg c codec compress ess cs).1.length : Nat) : Int),
    codec := ((codec : Nat) : Int) }

/-- **The typed `Read` of one column chunk of the spec writer** (`<T>Field.Read` / `<T>OptionalField.Read`),
started on an empty buffer at the chunk's first page — whatever the page split `ess`, the choice stream
`cs` (run segmentation, per page), the padding value, the codec, statistics / unknown fields present or
not: the source ends up right after the chunk and the buffer holds exactly the chunk's entries. -/
theorem readChunk_spChunk (dc : Decomp) (cfg : SWCfg) (c : Col) (codec : Nat) (compress : Bytes → Bytes)
    (hk : ∀ raw, SpCodecOK dc codec compress raw) (ess : List PageEntries) (cs : Choices) (pre post : Bytes)
    (hg : ∀ es ∈ ess, SpPageOK c es) :
    readChunk dc c (spPageMeta cfg c codec compress ess cs) {}
        (Src.mk (pre ++ (spEmit cfg c codec compress ess cs).1 ++ post) pre.length) =
      .ok (colBufOf c ess.flatten,
           Src.mk (pre ++ (spEmit cfg c codec compress ess cs).1 ++ post)
             (pre.length + (spEmit cfg c codec compress ess cs).1.length)) := by
  have hvals : ∀ vs ∈ ess.map nonNull, ∀ v ∈ vs, WTVal c.ty v := by
    intro vs hvs v hv
    obtain ⟨es, hes, rfl⟩ := List.mem_map.mp hvs
    exact (hg es hes).wf.vals v hv
  have hrv := readValues_pages c.ty (ess.map nonNull) hvals
  rw [← nonNull_flatten] at hrv
  have hfuel : ess.length < (pre ++ (spEmit cfg c codec compress ess cs).1 ++ post).length + 2 := by
    have := spEmit_length_ge cfg c codec compress ess cs
    simp only [List.length_append]; omega
  unfold readChunk
  by_cases hreq : c.isRequired = true
  · rw [if_pos hreq]
    have hsz : ess.map (fun es => (es.length : Int)) = (ess.map nonNull).map (fun vs => (vs.length : Int)) := by
      rw [List.map_map]
      apply List.map_congr_left
      intro es hes
      simp only [Function.comp, required_nonNull_length c hreq es (hg es hes).wf]
    have hn : (ess.map List.length).sum = (nonNull ess.flatten).length := by
      rw [nonNull_flatten, List.length_flatten, List.map_map]
      congr 1
      apply List.map_congr_left
      intro es hes
      simp only [Function.comp, required_nonNull_length c hreq es (hg es hes).wf]
    have hloop := requiredDoRead_spPages dc cfg c codec compress hreq hk (spPageMeta cfg c codec compress ess cs) rfl ess cs
      pre post _ 0 [] [] hfuel (fun es hes => (hg es hes).ne) (by simp only [spPageMeta]; omega)
    have hfm : (ess.flatMap fun es => plainValues c.ty (nonNull es)) = (ess.map nonNull).flatMap (plainValues c.ty) := by
      rw [List.flatMap_map]
    simp only [bind, Except.bind, hloop, List.nil_append]
    simp only [spPageMeta, natOfInt_nat, hn, hfm, hsz, hrv, colBufOf, if_pos hreq]
    cases c.ty <;> simp
  · have hreq' : c.isRequired = false := by simpa using hreq
    rw [if_neg hreq]
    have hloop := optionalDoRead_spPages dc cfg c codec compress hreq' hk (spPageMeta cfg c codec compress ess cs) rfl ess cs
      pre post _ 0 {} [] [] hfuel (fun es hes => ⟨(hg es hes).wf, (hg es hes).len⟩) (by simp only [spPageMeta]; omega)
    have hcount : (((ess.flatten).map (·.dl)).filter (· = c.maxDef)).length = (nonNull ess.flatten).length := by
      apply count_maxDef
      intro e he
      obtain ⟨es, hes, hee⟩ := List.mem_flatten.mp he
      have := (hg es hes).wf.entries e hee
      rw [if_neg hreq] at this
      exact this.2.2
    have hfm : (ess.flatMap fun es => plainValues c.ty (nonNull es)) = (ess.map nonNull).flatMap (plainValues c.ty) := by
      rw [List.flatMap_map]
    have hsz : ess.map (fun es => ((nonNull es).length : Int)) = (ess.map nonNull).map (fun vs => (vs.length : Int)) := by
      rw [List.map_map]; rfl
    simp only [bind, Except.bind, hloop, List.nil_append]
    simp only [addLevels, List.nil_append, hcount, List.length_nil, Nat.sub_zero, ite_self, hfm, hsz, hrv, colBufOf,
      if_neg hreq]

/-! ## every page split -/

theorem splitPages_nil (fuel : Nat) (cs : Choices) : splitPages fuel cs [] = ([], cs) := by
  cases fuel <;> rfl

theorem splitPages_cons (fuel : Nat) (cs : Choices) (r : PageEntries) (rs : List PageEntries) :
    splitPages (fuel + 1) cs (r :: rs) =
      (((r :: rs).take ((pick cs).1 % (r :: rs).length + 1)).flatten ::
          (splitPages fuel (pick cs).2 ((r :: rs).drop ((pick cs).1 % (r :: rs).length + 1))).1,
        (splitPages fuel (pick cs).2 ((r :: rs).drop ((pick cs).1 % (r :: rs).length + 1))).2) := by
  rw [splitPages]
  simp

/-- **Every page split the writer can choose** cuts the column's entries at record boundaries: the pages
concatenate to the records' entries, every page is a contiguous piece of them, and no page is empty. -/
theorem splitPages_spec : ∀ (fuel : Nat) (cs : Choices) (recs : List PageEntries), recs.length ≤ fuel →
    (splitPages fuel cs recs).1.flatten = recs.flatten ∧
    ∀ p ∈ (splitPages fuel cs recs).1, (∃ a b, recs.flatten = a ++ p ++ b) ∧ ((∀ r ∈ recs, r ≠ []) → p ≠ [])
  | fuel, cs, [], _ => by rw [splitPages_nil]; simp
  | 0, cs, r :: rs, hf => by simp at hf
  | fuel+1, cs, r :: rs, hf => by
    rw [splitPages_cons]
    generalize hn : (pick cs).1 % (r :: rs).length + 1 = n
    have hn1 : 1 ≤ n := by omega
    have hdl : ((r :: rs).drop n).length ≤ fuel := by
      rw [List.length_drop]; simp only [List.length_cons] at hf ⊢; omega
    obtain ⟨ih1, ih2⟩ := splitPages_spec fuel (pick cs).2 ((r :: rs).drop n) hdl
    have hsplit : (r :: rs).flatten = ((r :: rs).take n).flatten ++ ((r :: rs).drop n).flatten := by
      rw [← List.flatten_append, List.take_append_drop]
    simp only
    refine ⟨?_, ?_⟩
    · rw [List.flatten_cons, ih1, ← hsplit]
    · intro p hp
      rcases List.mem_cons.mp hp with rfl | hp
      · refine ⟨⟨[], ((r :: rs).drop n).flatten, by rw [List.nil_append]; exact hsplit⟩, ?_⟩
        intro hne
        obtain ⟨m, rfl⟩ : ∃ m, n = m + 1 := ⟨n - 1, by omega⟩
        rw [List.take_succ_cons, List.flatten_cons]
        intro h
        exact hne r List.mem_cons_self (List.append_eq_nil_iff.mp h).1
      · obtain ⟨⟨a, b, hab⟩, hne'⟩ := ih2 p hp
        refine ⟨⟨((r :: rs).take n).flatten ++ a, b, ?_⟩, fun hne => hne' (fun x hx => hne x (List.mem_of_mem_drop hx))⟩
        rw [hsplit, hab]; simp only [List.append_assoc]

theorem mem_nonNull {es : PageEntries} {v : Bytes} : v ∈ nonNull es ↔ ∃ e ∈ es, e.val = some v := by
  unfold nonNull
  rw [List.mem_filterMap]

/-- every page of every split of well-formed records is a page the reader handles -/
theorem splitPages_ok (c : Col) (fuel : Nat) (cs : Choices) (recs : List PageEntries) (hf : recs.length ≤ fuel)
    (hrec : ∀ r ∈ recs, RecColOK c r) (hmd : c.maxDef ≤ 15) (hlen : recs.flatten.length + 8 ≤ 2 ^ 28) :
    ∀ p ∈ (splitPages fuel cs recs).1, SpPageOK c p := by
  intro p hp
  obtain ⟨⟨a, b, hab⟩, hne⟩ := (splitPages_spec fuel cs recs hf).2 p hp
  have hmem : ∀ e ∈ p, ∃ r ∈ recs, e ∈ r := by
    intro e he
    have : e ∈ recs.flatten := by rw [hab]; simp [he]
    exact List.mem_flatten.mp this
  have hl : p.length ≤ recs.flatten.length := by rw [hab]; simp only [List.length_append]; omega
  refine ⟨⟨?_, ?_, by omega, hmd⟩, by omega, ?_⟩
  · intro e he
    obtain ⟨r, hr, her⟩ := hmem e he
    exact (hrec r hr).entries e her
  · intro v hv
    obtain ⟨e, he, hev⟩ := mem_nonNull.mp hv
    obtain ⟨r, hr, her⟩ := hmem e he
    exact (hrec r hr).vals v (mem_nonNull.mpr ⟨e, her, hev⟩)
  · apply hne
    intro r hr
    obtain ⟨e, tl, h, _⟩ := (hrec r hr).start
    rw [h]; simp

/-- **One column chunk of the spec writer, every choice.**  `perRec`: per record of the row group, the
entries it holds for column `c`.  For every choice stream `cs` — which decides the page split (any record
boundaries) and, page by page, the run segmentation of both level streams — any padding value, codec 0/1/2,
statistics / unknown thrift fields present or not, the reader's typed `Read` of the chunk fills the
column's buffer with exactly the records' entries and leaves the source right after the chunk. -/
theorem readChunk_spSplit (dc : Decomp) (cfg : SWCfg) (c : Col) (codec : Nat) (compress : Bytes → Bytes)
    (hk : ∀ raw, SpCodecOK dc codec compress raw) (perRec : List PageEntries) (cs : Choices) (fuel : Nat)
    (hf : perRec.length ≤ fuel) (hrec : ∀ r ∈ perRec, RecColOK c r) (hmd : c.maxDef ≤ 15)
    (hlen : perRec.flatten.length + 8 ≤ 2 ^ 28) (pre post : Bytes) :
    readChunk dc c (spPageMeta cfg c codec compress (splitPages fuel cs perRec).1 (splitPages fuel cs perRec).2) {}
        (Src.mk (pre ++ (spEmit cfg c codec compress (splitPages fuel cs perRec).1 (splitPages fuel cs perRec).2).1 ++ post)
          pre.length) =
      .ok (colBufOf c perRec.flatten,
           Src.mk (pre ++ (spEmit cfg c codec compress (splitPages fuel cs perRec).1 (splitPages fuel cs perRec).2).1 ++ post)
             (pre.length + (spEmit cfg c codec compress (splitPages fuel cs perRec).1 (splitPages fuel cs perRec).2).1.length)) := by
  have := readChunk_spChunk dc cfg c codec compress hk (splitPages fuel cs perRec).1 (splitPages fuel cs perRec).2 pre post
    (splitPages_ok c fuel cs perRec hf hrec hmd hlen)
  rw [(splitPages_spec fuel cs perRec hf).1] at this
  exact this

end PQ
