import PQ.Model.Spec
/-!
# The footer schema of an arbitrary struct shape (part of C02)

`FTree` is the shape of a Go struct as the generator sees it: leaves (columns) and groups (nested
structs, optional / repeated or not).  `colsOf` is the list of `Field`s the generator declares for
it, `flattenT` the pre-order flattening the Parquet footer must contain.

* `schemaElems_tree`: `schemaElems` (the mirror of Go's `schema.schema()`) produces exactly
  `root :: flattenT ts` for every well-formed forest, any depth, same-named groups under different
  parents included.
* `schemaLeaves_tree`: the independent walker `schemaLeaves` accepts that list (as decoded from its
  thrift form, `decSElem_toT`) and returns exactly the expected leaves, in column order.
* `schema_valid`: both together.
-/
namespace PQ
open PQ.Thrift

/-! ## field trees -/

inductive FTree
  | leaf (name : String) (rep : Rep) (ty : PType)
  | group (name : String) (rep : Rep) (children : List FTree)

def FTree.name : FTree → String
  | .leaf n _ _ => n
  | .group n _ _ => n

/-- the `Field` of a leaf `name` under ancestors named `pre` with repetitions `rs`: `Field.Types` has
one entry per path element when some element is optional/repeated (an `OptionalField`), and is
`[req]` otherwise (a `RequiredField`) -/
def mkCol (pre : List String) (rs : List Rep) (name : String) (rep : Rep) (ty : PType) : Col :=
  { path := pre ++ [name], reps := if (rs ++ [rep]).all (· == .req) then [.req] else rs ++ [rep], ty := ty }

mutual
def colsAux (pre : List String) (rs : List Rep) : FTree → List Col
  | .leaf n r ty => [mkCol pre rs n r ty]
  | .group n r cs => colsAuxL (pre ++ [n]) (rs ++ [r]) cs
def colsAuxL (pre : List String) (rs : List Rep) : List FTree → List Col
  | [] => []
  | t :: ts => colsAux pre rs t ++ colsAuxL pre rs ts
end

/-- the leaf columns of a forest in depth-first order -/
def colsOf (ts : List FTree) : List Col := colsAuxL [] [] ts

mutual
/-- pre-order flattening with direct-children counts -/
def flatT : FTree → List SElem
  | .leaf n r ty => [{ name := n, ty := some ty.phys, rep := some r.code, converted := ty.converted }]
  | .group n r cs => { name := n, rep := some r.code, numChildren := some cs.length } :: flattenT cs
def flattenT : List FTree → List SElem
  | [] => []
  | t :: ts => flatT t ++ flattenT ts
end

/-- the name contains no `'.'` (Go: `strings.Split(name, ".")` keeps it whole) -/
def NoDot (s : String) : Prop := '.' ∉ s.toList

instance (s : String) : Decidable (NoDot s) := inferInstanceAs (Decidable ('.' ∉ s.toList))

/-- sibling names pairwise distinct -/
def SiblingsDistinct (ts : List FTree) : Prop := (ts.map FTree.name).Nodup

instance (ts : List FTree) : Decidable (SiblingsDistinct ts) := inferInstanceAs (Decidable (List.Nodup _))

mutual
/-- Well-formedness of a struct shape.
* a group has at least one child: Go's `schema()` only ever sees leaf columns, so a group without
  leaves below it leaves no trace in the footer (and a Parquet group must have a child);
* the children of a group have pairwise distinct names: groups are keyed by their path, two sibling
  groups with the same name would be merged (see the counter-example at the end);
* a *group* name contains no `'.'`: `schema()` names a group `strings.Split(name, ".")[last]`.
  (Leaf names are used unsplit, `f.Path[len-1]`, so nothing is needed for them here.) -/
def FTree.WF : FTree → Prop
  | .leaf _ _ _ => True
  | .group n _ cs => NoDot n ∧ cs ≠ [] ∧ SiblingsDistinct cs ∧ WFL cs
def WFL : List FTree → Prop
  | [] => True
  | t :: ts => t.WF ∧ WFL ts
end

theorem WFL_iff : ∀ ts : List FTree, WFL ts ↔ ∀ t ∈ ts, t.WF
  | [] => by simp [WFL]
  | t :: ts => by simp [WFL, WFL_iff ts]

mutual
def FTree.decWF : (t : FTree) → Decidable t.WF
  | .leaf _ _ _ => by unfold FTree.WF; exact inferInstance
  | .group n _ cs => by
      unfold FTree.WF
      exact @instDecidableAnd _ _ _ (@instDecidableAnd _ _ _ (@instDecidableAnd _ _ _ (decWFL cs)))
def decWFL : (ts : List FTree) → Decidable (WFL ts)
  | [] => by unfold WFL; exact inferInstance
  | t :: ts => by unfold WFL; exact @instDecidableAnd _ _ t.decWF (decWFL ts)
end

instance (t : FTree) : Decidable t.WF := t.decWF
instance (ts : List FTree) : Decidable (WFL ts) := decWFL ts

namespace SchemaTree

/-! ## list helpers -/

theorem modify_append_left' {α} (f : α → α) : ∀ (l x : List α) (i : Nat), i < l.length →
    (l ++ x).modify i f = l.modify i f ++ x
  | [], _, _, h => by simp at h
  | a :: l, x, 0, _ => by simp
  | a :: l, x, i+1, h => by
    simp only [List.length_cons, Nat.add_lt_add_iff_right] at h
    simp only [List.cons_append, List.modify_succ_cons, modify_append_left' f l x i h]

theorem modify_append_length' {α} (f : α → α) : ∀ (l : List α) (a : α) (x : List α),
    (l ++ a :: x).modify l.length f = l ++ f a :: x
  | [], a, x => by simp
  | b :: l, a, x => by simp [modify_append_length' f l a x]

theorem lookup_cons_ne' {α β} [BEq α] [LawfulBEq α] (k k' : α) (v : β) (g : List (α × β)) (h : k ≠ k') :
    List.lookup k ((k', v) :: g) = List.lookup k g := by
  rw [List.lookup_cons]
  have : (k == k') = false := by simpa using h
  rw [this]

theorem lookup_cons_self' {α β} [BEq α] [LawfulBEq α] (k : α) (v : β) (g : List (α × β)) :
    List.lookup k ((k, v) :: g) = some v := by
  rw [List.lookup_cons]; simp

/-! ## the state of `schema()` -/

abbrev SSt := List SElem × List (List String × Nat) × Nat

def incN (n : Nat) (e : SElem) : SElem := { e with numChildren := some (e.numChildren.getD 0 + n) }

/-- `n` more direct children for the element at index `par` (`none`: the root's counter) -/
def bumpOut (par : Option Nat) (n : Nat) (out : List SElem) : List SElem :=
  if n = 0 then out else
  match par with
  | none => out
  | some i => out.modify i (incN n)

def bumpCh (par : Option Nat) (n : Nat) (ch : Nat) : Nat :=
  match par with
  | none => ch + n
  | some _ => ch

theorem addChild_eq (p : List String) (out : List SElem) (g : List (List String × Nat)) (ch : Nat) :
    addChild p (out, g, ch) = (bumpOut (g.lookup p) 1 out, g, bumpCh (g.lookup p) 1 ch) := by
  show (match g.lookup p with
    | none => (out, g, ch + 1)
    | some idx => (out.modify idx (incN 1), g, ch)) = _
  cases g.lookup p <;> rfl

theorem bumpOut_length (par n out) : (bumpOut par n out).length = out.length := by
  unfold bumpOut
  split
  · rfl
  · cases par <;> simp

theorem bumpOut_append (par : Option Nat) (n : Nat) (out x : List SElem)
    (h : ∀ i, par = some i → i < out.length) : bumpOut par n (out ++ x) = bumpOut par n out ++ x := by
  unfold bumpOut
  split
  · rfl
  · cases par with
    | none => rfl
    | some i => exact modify_append_left' _ _ _ _ (h i rfl)

theorem bumpOut_add (par : Option Nat) (n m : Nat) (out : List SElem) :
    bumpOut par m (bumpOut par n out) = bumpOut par (n + m) out := by
  unfold bumpOut
  by_cases hn : n = 0
  · subst hn; simp
  · by_cases hm : m = 0
    · subst hm; simp
    · rw [if_neg hn, if_neg hm, if_neg (by omega)]
      cases par with
      | none => rfl
      | some i =>
        simp only [List.modify_modify_eq]
        congr 1
        funext e
        simp [incN, Function.comp, Nat.add_assoc]

theorem bumpCh_add (par : Option Nat) (n m ch : Nat) : bumpCh par m (bumpCh par n ch) = bumpCh par (n + m) ch := by
  cases par <;> simp [bumpCh, Nat.add_assoc]

/-! ## `schemaGroups`: skipping known prefixes, emitting a new one -/

theorem schemaGroups_skip (types : List Rep) (path : List String) :
    ∀ (ms rest : List String) (i : Nat) (out : List SElem) (g : List (List String × Nat)) (ch : Nat),
    (∀ j, i ≤ j → j < i + ms.length → (g.lookup (path.take (j+1))).isSome = true) →
    schemaGroups types path i (ms ++ rest) (path.take i) (out, g, ch) =
      schemaGroups types path (i + ms.length) rest (path.take (i + ms.length)) (out, g, ch)
  | [], rest, i, out, g, ch, _ => by simp
  | m :: ms, rest, i, out, g, ch, h => by
    have h0 := h i (Nat.le_refl _) (by simp)
    rw [List.cons_append, schemaGroups]
    simp only []
    cases hl : g.lookup (path.take (i+1)) with
    | none => rw [hl] at h0; simp at h0
    | some v =>
      simp only []
      rw [schemaGroups_skip types path ms rest (i+1) out g ch
        (fun j h1 h2 => h j (by omega) (by simp only [List.length_cons]; omega))]
      simp only [List.length_cons]
      rw [show i + 1 + ms.length = i + (ms.length + 1) by omega]

theorem schemaGroups_new (types : List Rep) (path : List String) (i : Nat) (name : String) (names parent : List String)
    (out : List SElem) (g : List (List String × Nat)) (ch : Nat) (h : g.lookup (path.take (i+1)) = none) :
    schemaGroups types path i (name :: names) parent (out, g, ch) =
      schemaGroups types path (i+1) names (path.take (i+1))
        (addChild parent (out ++ [{ name := lastPart name, rep := some ((types[i]?).getD .req).code, numChildren := some 0 }],
          (path.take (i+1), out.length) :: g, ch)) := by
  rw [schemaGroups]
  simp only [h]

/-- one iteration of the outer loop of `schema()` -/
def colStep (c : Col) (st : SSt) : SSt :=
  let r := schemaGroups c.reps c.path 0 c.path.dropLast [] st
  addChild r.2 (r.1.1 ++ [{ name := c.path.getLast?.getD "", ty := some c.ty.phys, rep := some c.leafRep.code, converted := c.ty.converted }],
    r.1.2.1, r.1.2.2)

theorem schemaLoop_cons (c : Col) (cs : List Col) (st : SSt) (h : c.path ≠ []) :
    schemaLoop (c :: cs) st = schemaLoop cs (colStep c st) := by
  obtain ⟨out, g, ch⟩ := st
  rw [schemaLoop]
  have : c.path.length ≠ 0 := by simpa using h
  rw [if_neg this]
  rfl

theorem bumpOut_zero (par out) : bumpOut par 0 out = out := by simp [bumpOut]

theorem bumpOut_last (A : List SElem) (h : SElem) (N i : Nat) (hi : i = A.length) :
    bumpOut (some i) N (A ++ [h]) = A ++ [if N = 0 then h else incN N h] := by
  subst hi
  unfold bumpOut
  split
  · rfl
  · exact modify_append_length' _ _ _ _

theorem skip_pre (types : List Rep) (pre suf rest : List String) (out : List SElem) (g : List (List String × Nat)) (ch : Nat)
    (hanc : ∀ j, j < pre.length → (g.lookup (pre.take (j+1))).isSome = true) :
    schemaGroups types (pre ++ suf) 0 (pre ++ rest) [] (out, g, ch) =
      schemaGroups types (pre ++ suf) pre.length rest pre (out, g, ch) := by
  have := schemaGroups_skip types (pre ++ suf) pre rest 0 out g ch (by
    intro j _ hj
    rw [List.take_append_of_le_length (by omega)]
    exact hanc j (by omega))
  simpa using this

/-! ## `strings.Split(name, ".")` keeps a dot-free name whole -/

def ulen : List Char → Nat
  | [] => 0
  | c :: cs => c.utf8Size + ulen cs

theorem ulen_append (p q : List Char) : ulen (p ++ q) = ulen p + ulen q := by
  induction p with
  | nil => simp [ulen]
  | cons c p ih => simp [ulen, ih, Nat.add_assoc]

theorem utf8ByteSize_ofList' (l : List Char) : (String.ofList l).utf8ByteSize = ulen l := by
  induction l with
  | nil => simp [ulen]
  | cons c l ih =>
    rw [String.ofList_cons, String.utf8ByteSize_append, String.utf8ByteSize_singleton, ih]; rfl

theorem getAux_at (c : Char) (q : List Char) : ∀ (p : List Char) (i : Nat),
    String.Pos.Raw.utf8GetAux (p ++ c :: q) ⟨i⟩ ⟨i + ulen p⟩ = c
  | [], i => by simp [String.Pos.Raw.utf8GetAux, ulen]
  | d :: p, i => by
    have hd := d.utf8Size_pos
    rw [List.cons_append, String.Pos.Raw.utf8GetAux]
    rw [if_neg (by simp [String.Pos.Raw.ext_iff, ulen]; omega)]
    have := getAux_at c q p (i + d.utf8Size)
    rw [show i + d.utf8Size + ulen p = i + ulen (d :: p) by simp [ulen]; omega] at this
    exact this

theorem go₂_all : ∀ (l : List Char) (i : Nat), String.Pos.Raw.extract.go₂ l ⟨i⟩ ⟨i + ulen l⟩ = l
  | [], i => by simp [String.Pos.Raw.extract.go₂]
  | c :: l, i => by
    have hc := c.utf8Size_pos
    rw [String.Pos.Raw.extract.go₂, if_neg (by simp [String.Pos.Raw.ext_iff, ulen]; omega)]
    have := go₂_all l (i + c.utf8Size)
    rw [show i + c.utf8Size + ulen l = i + ulen (c :: l) by simp [ulen]; omega] at this
    congr 1

theorem extract_all (s : String) : String.Pos.Raw.extract s 0 ⟨ulen s.toList⟩ = s := by
  rw [String.Pos.Raw.extract]
  split
  · rename_i h
    have : ulen s.toList = 0 := by simpa using h
    cases hl : s.toList with
    | nil => rw [← String.ofList_toList (s := s), hl]
    | cons c l => rw [hl] at this; have hc := c.utf8Size_pos; simp [ulen] at this; omega
  · cases hl : s.toList with
    | nil => rw [← String.ofList_toList (s := s), hl]; rfl
    | cons c l =>
      rw [String.Pos.Raw.extract.go₁, if_pos rfl]
      have := go₂_all (c :: l) 0
      simp only [Nat.zero_add] at this
      rw [show (0 : String.Pos.Raw) = ⟨0⟩ from rfl, this, ← hl, String.ofList_toList]

theorem splitOnAux_noDot (s : String) : ∀ (q p : List Char), s.toList = p ++ q → '.' ∉ q →
    String.splitOnAux s "." 0 ⟨ulen p⟩ 0 [] = [s]
  | [], p, hs, _ => by
    rw [List.append_nil] at hs
    have hsz : s.utf8ByteSize = ulen p := by rw [← String.ofList_toList (s := s), utf8ByteSize_ofList', hs]
    rw [String.splitOnAux, if_pos (by simp [String.Pos.Raw.atEnd, hsz])]
    simp only [List.reverse_cons, List.reverse_nil, List.nil_append]
    rw [← hs, extract_all]
  | c :: q, p, hs, hq => by
    have hsz : s.utf8ByteSize = ulen p + (c.utf8Size + ulen q) := by
      rw [← String.ofList_toList (s := s), utf8ByteSize_ofList', hs, ulen_append]; rfl
    have hc := c.utf8Size_pos
    have hget : String.Pos.Raw.get s ⟨ulen p⟩ = c := by
      rw [String.Pos.Raw.get, hs]
      have := getAux_at c q p 0
      simpa using this
    have hdot : String.Pos.Raw.get "." 0 = '.' := by decide
    rw [String.splitOnAux, if_neg (by simp [String.Pos.Raw.atEnd, hsz]; omega)]
    rw [hget, hdot]
    have hne : (c == '.') = false := by
      simp only [beq_eq_false_iff_ne, ne_eq]
      intro h; exact hq (h ▸ List.mem_cons_self)
    rw [hne]
    simp only [Bool.false_eq_true, if_false]
    have := splitOnAux_noDot s q (p ++ [c]) (by rw [hs]; simp) (fun h => hq (List.mem_cons_of_mem _ h))
    rw [ulen_append] at this
    have hnext : String.Pos.Raw.next s ((⟨ulen p⟩ : String.Pos.Raw).unoffsetBy 0) = ⟨ulen p + ulen [c]⟩ := by
      have : (⟨ulen p⟩ : String.Pos.Raw).unoffsetBy 0 = ⟨ulen p⟩ := by simp
      rw [this, String.Pos.Raw.next, hget]
      simp [String.Pos.Raw.ext_iff, ulen]
    rw [hnext]
    exact this

theorem lastPart_of_noDot {s : String} (h : NoDot s) : lastPart s = s := by
  unfold lastPart String.splitOn
  rw [if_neg (by decide)]
  have := splitOnAux_noDot s s.toList [] rfl h
  simp only [ulen] at this
  have h2 : s.splitOnAux "." 0 0 0 [] = [s] := this
  rw [h2]
  rfl

/-- the schema element of a leaf column -/
def leafElem (c : Col) : SElem :=
  { name := c.path.getLast?.getD "", ty := some c.ty.phys, rep := some c.leafRep.code, converted := c.ty.converted }

theorem colStep_leaf (c : Col) (pre : List String) (n : String) (hp : c.path = pre ++ [n])
    (out : List SElem) (g : List (List String × Nat)) (ch : Nat)
    (hanc : ∀ j, j < pre.length → (g.lookup (pre.take (j+1))).isSome = true) :
    colStep c (out, g, ch) = addChild pre (out ++ [leafElem c], g, ch) := by
  unfold colStep leafElem
  rw [hp, List.dropLast_concat]
  have := skip_pre c.reps pre [n] [] out g ch hanc
  rw [List.append_nil] at this
  rw [this, schemaGroups]

theorem colStep_emit (c : Col) (pre : List String) (n m : String) (ms : List String)
    (hp : c.path = pre ++ n :: m :: ms) (out : List SElem) (g : List (List String × Nat)) (ch : Nat)
    (hanc : ∀ j, j < pre.length → (g.lookup (pre.take (j+1))).isSome = true)
    (hfresh : g.lookup (pre ++ [n]) = none) :
    colStep c (out, g, ch) = colStep c (addChild pre
      (out ++ [{ name := lastPart n, rep := some ((c.reps[pre.length]?).getD .req).code, numChildren := some 0 }],
       (pre ++ [n], out.length) :: g, ch)) := by
  have hdl : c.path.dropLast = pre ++ n :: (m :: ms).dropLast := by
    rw [hp, List.dropLast_append_of_ne_nil (by simp)]; rfl
  have htake : (pre ++ n :: m :: ms).take (pre.length + 1) = pre ++ [n] := by
    rw [show pre ++ n :: m :: ms = (pre ++ [n]) ++ m :: ms by simp,
      List.take_append_of_le_length (by simp), List.take_of_length_le (by simp)]
  -- left: skip `pre`, then emit
  have hL : schemaGroups c.reps c.path 0 c.path.dropLast [] (out, g, ch) =
      schemaGroups c.reps c.path (pre.length + 1) (m :: ms).dropLast (pre ++ [n]) (addChild pre
        (out ++ [{ name := lastPart n, rep := some ((c.reps[pre.length]?).getD .req).code, numChildren := some 0 }],
         (pre ++ [n], out.length) :: g, ch)) := by
    rw [hdl, hp, skip_pre c.reps pre (n :: m :: ms) _ out g ch hanc,
      schemaGroups_new _ _ _ _ _ _ _ _ _ (by rw [htake]; exact hfresh), htake]
  -- right: skip `pre ++ [n]`
  have hR : ∀ o' c', schemaGroups c.reps c.path 0 c.path.dropLast [] (o', (pre ++ [n], out.length) :: g, c') =
      schemaGroups c.reps c.path (pre.length + 1) (m :: ms).dropLast (pre ++ [n]) (o', (pre ++ [n], out.length) :: g, c') := by
    intro o' c'
    have hp2 : c.path = (pre ++ [n]) ++ m :: ms := by rw [hp]; simp
    have hdl2 : c.path.dropLast = (pre ++ [n]) ++ (m :: ms).dropLast := by rw [hdl]; simp
    rw [hdl2, hp2, skip_pre c.reps (pre ++ [n]) (m :: ms) _ o' _ c' (by
      intro j hj
      simp only [List.length_append, List.length_singleton] at hj
      by_cases hj' : j < pre.length
      · rw [List.take_append_of_le_length (by omega), lookup_cons_ne']
        · exact hanc j hj'
        · intro he
          have := congrArg List.length he
          simp at this
          omega
      · have : j + 1 = (pre ++ [n]).length := by simp; omega
        rw [this, List.take_length, lookup_cons_self']; rfl)]
    simp
  have key : schemaGroups c.reps c.path 0 c.path.dropLast [] (out, g, ch) =
      schemaGroups c.reps c.path 0 c.path.dropLast [] (addChild pre
        (out ++ [{ name := lastPart n, rep := some ((c.reps[pre.length]?).getD .req).code, numChildren := some 0 }],
         (pre ++ [n], out.length) :: g, ch)) := by
    rw [hL, addChild_eq, hR]
  unfold colStep
  rw [key]

/-! ## facts about the columns of a subtree -/

theorem rep_beq_req (x : Rep) : (x == Rep.req) = true ↔ x = .req := by cases x <;> decide

theorem all_req_iff (l : List Rep) : (l.all (· == .req)) = true ↔ ∀ x ∈ l, x = .req := by
  simp only [List.all_eq_true, rep_beq_req]

/-- every column below ancestors `pre`/`rs` has a path strictly extending `pre`, and its `Types`
read at an ancestor's position (default required) give the ancestor's repetition -/
def ColOK (pre : List String) (rs : List Rep) (c : Col) : Prop :=
  (∃ m ms, c.path = pre ++ m :: ms) ∧ ∀ j, j < rs.length → (c.reps[j]?).getD .req = (rs[j]?).getD .req

theorem mkCol_ok (pre : List String) (rs : List Rep) (n : String) (r : Rep) (ty : PType) :
    ColOK pre rs (mkCol pre rs n r ty) := by
  refine ⟨⟨n, [], rfl⟩, ?_⟩
  intro j hj
  unfold mkCol
  simp only []
  split
  · rename_i h
    have hall := (all_req_iff _).mp h
    have h1 : rs[j]? = some .req := by
      rw [List.getElem?_eq_getElem hj, hall (rs[j]) (by simp)]
    rw [h1]
    cases j <;> simp
  · rw [List.getElem?_append_left hj]

theorem ColOK_up {pre : List String} {rs : List Rep} {n : String} {r : Rep} {c : Col}
    (h : ColOK (pre ++ [n]) (rs ++ [r]) c) : ColOK pre rs c := by
  obtain ⟨⟨m, ms, hp⟩, hr⟩ := h
  refine ⟨⟨n, m :: ms, by rw [hp]; simp⟩, ?_⟩
  intro j hj
  rw [hr j (by simp; omega), List.getElem?_append_left hj]

mutual
theorem cols_ok : (t : FTree) → ∀ (pre : List String) (rs : List Rep), ∀ c ∈ colsAux pre rs t, ColOK pre rs c
  | .leaf n r ty, pre, rs, c, hc => by
    rw [colsAux] at hc
    rw [List.mem_singleton.mp hc]
    exact mkCol_ok ..
  | .group n r cs, pre, rs, c, hc => by
    rw [colsAux] at hc
    exact ColOK_up (colsL_ok cs _ _ c hc)
theorem colsL_ok : (ts : List FTree) → ∀ (pre : List String) (rs : List Rep), ∀ c ∈ colsAuxL pre rs ts, ColOK pre rs c
  | [], pre, rs, c, hc => by rw [colsAuxL] at hc; cases hc
  | t :: ts, pre, rs, c, hc => by
    rw [colsAuxL, List.mem_append] at hc
    cases hc with
    | inl h => exact cols_ok t pre rs c h
    | inr h => exact colsL_ok ts pre rs c h
end

mutual
theorem cols_ne : (t : FTree) → t.WF → ∀ (pre : List String) (rs : List Rep), colsAux pre rs t ≠ []
  | .leaf n r ty, _, pre, rs => by rw [colsAux]; simp
  | .group n r cs, h, pre, rs => by
    rw [FTree.WF] at h
    rw [colsAux]
    exact colsL_ne cs h.2.2.2 h.2.1 _ _
theorem colsL_ne : (ts : List FTree) → WFL ts → ts ≠ [] → ∀ (pre : List String) (rs : List Rep), colsAuxL pre rs ts ≠ []
  | [], _, h, _, _ => absurd rfl h
  | t :: ts, h, _, pre, rs => by
    rw [WFL] at h
    rw [colsAuxL]
    intro he
    exact cols_ne t h.1 pre rs (List.append_eq_nil_iff.mp he).1
end

theorem mkCol_leafRep (pre : List String) (rs : List Rep) (n : String) (r : Rep) (ty : PType) :
    (mkCol pre rs n r ty).leafRep = r := by
  unfold Col.leafRep Col.isRequired mkCol
  simp only []
  by_cases h : ((rs ++ [r]).all (· == .req)) = true
  · rw [if_pos h]
    have := (all_req_iff _).mp h r (by simp)
    simp [this]
  · rw [if_neg h, if_neg h]
    simp

theorem leafElem_mkCol (pre : List String) (rs : List Rep) (n : String) (r : Rep) (ty : PType) :
    leafElem (mkCol pre rs n r ty) = { name := n, ty := some ty.phys, rep := some r.code, converted := ty.converted } := by
  unfold leafElem
  rw [mkCol_leafRep]
  simp [mkCol]

/-! ## prefixes -/

theorem not_prefix_take (pre : List String) (x : String) (j : Nat) : ¬ (pre ++ [x]) <+: pre.take j := by
  intro h
  have := h.length_le
  simp at this
  omega

theorem not_prefix_self (pre : List String) (x : String) : ¬ (pre ++ [x]) <+: pre := by
  intro h
  have := h.length_le
  simp at this
  omega

theorem prefix_ne (pre : List String) {x y : String} (hxy : x ≠ y) {k : List String}
    (hx : (pre ++ [x]) <+: k) : ¬ (pre ++ [y]) <+: k := by
  intro hy
  obtain ⟨s, hs⟩ := hx
  obtain ⟨s', hs'⟩ := hy
  rw [← hs', List.append_assoc, List.append_assoc] at hs
  have := List.append_cancel_left hs
  simp at this
  exact hxy this.1

/-! ## the main invariant -/

structure Ctx (pre : List String) (out : List SElem) (g : List (List String × Nat)) : Prop where
  /-- every ancestor group has been emitted -/
  anc : ∀ j, j < pre.length → (g.lookup (pre.take (j+1))).isSome = true
  /-- the parent's index is inside `out` -/
  idx : ∀ i, g.lookup pre = some i → i < out.length

/-- no group at or below `key` has been emitted -/
def Fresh (key : List String) (g : List (List String × Nat)) : Prop := ∀ k, key <+: k → g.lookup k = none

mutual
theorem loop_tree : (t : FTree) → t.WF → ∀ (pre : List String) (rs : List Rep), rs.length = pre.length →
    ∀ (rest : List Col) (out : List SElem) (g : List (List String × Nat)) (ch : Nat),
    Ctx pre out g → Fresh (pre ++ [t.name]) g →
    ∃ g', schemaLoop (colsAux pre rs t ++ rest) (out, g, ch) =
        schemaLoop rest (bumpOut (g.lookup pre) 1 out ++ flatT t, g', bumpCh (g.lookup pre) 1 ch) ∧
      ∀ k, ¬ (pre ++ [t.name]) <+: k → g'.lookup k = g.lookup k
  | .leaf n r ty, _, pre, rs, hlen, rest, out, g, ch, hc, hf => by
    refine ⟨g, ?_, fun _ _ => rfl⟩
    rw [colsAux, List.singleton_append, schemaLoop_cons _ _ _ (by simp [mkCol]),
      colStep_leaf _ pre n rfl out g ch hc.anc, addChild_eq, bumpOut_append _ _ _ _ hc.idx,
      leafElem_mkCol, flatT]
  | .group n r cs, hwf, pre, rs, hlen, rest, out, g, ch, hc, hf => by
    rw [FTree.WF] at hwf
    obtain ⟨hnd, hne, hsd, hwl⟩ := hwf
    simp only [FTree.name] at hf ⊢
    rw [colsAux]
    have hcne := colsL_ne cs hwl hne (pre ++ [n]) (rs ++ [r])
    have hok := colsL_ok cs (pre ++ [n]) (rs ++ [r])
    have hne' : pre ≠ pre ++ [n] := by
      intro he
      have := congrArg List.length he
      simp at this
    have hctx : Ctx (pre ++ [n]) (bumpOut (g.lookup pre) 1 out ++
        [{ name := n, rep := some r.code, numChildren := some 0 }]) ((pre ++ [n], out.length) :: g) := by
      constructor
      · intro j hj
        simp only [List.length_append, List.length_singleton] at hj
        by_cases hj' : j < pre.length
        · rw [List.take_append_of_le_length (by omega), lookup_cons_ne']
          · exact hc.anc j hj'
          · intro he
            have := congrArg List.length he
            simp at this
            omega
        · have : j + 1 = (pre ++ [n]).length := by simp; omega
          rw [this, List.take_length, lookup_cons_self']; rfl
      · intro i hi
        rw [lookup_cons_self'] at hi
        cases hi
        simp [bumpOut_length]
    have hfresh : ∀ t ∈ cs, Fresh (pre ++ [n] ++ [t.name]) ((pre ++ [n], out.length) :: g) := by
      intro t _ k hk
      have hk' : (pre ++ [n]) <+: k := List.IsPrefix.trans (List.prefix_append _ _) hk
      rw [lookup_cons_ne']
      · exact hf k hk'
      · intro he
        rw [he] at hk
        exact not_prefix_self _ _ hk
    obtain ⟨g', hrun, hg'⟩ := loop_forest cs hwl hsd (pre ++ [n]) (rs ++ [r]) (by simp [hlen]) rest _ _
      (bumpCh (g.lookup pre) 1 ch) hctx hfresh
    cases hcs : colsAuxL (pre ++ [n]) (rs ++ [r]) cs with
    | nil => exact absurd hcs hcne
    | cons c₁ more =>
      obtain ⟨⟨m, ms, hp⟩, hreps⟩ := hok c₁ (by rw [hcs]; simp)
      have hp' : c₁.path = pre ++ n :: m :: ms := by rw [hp]; simp
      have hpne : c₁.path ≠ [] := by rw [hp']; simp
      have hrep : (c₁.reps[pre.length]?).getD .req = r := by
        rw [hreps pre.length (by simp [hlen]), ← hlen]; simp
      have hemit := colStep_emit c₁ pre n m ms hp' out g ch hc.anc (hf _ (List.prefix_refl _))
      rw [hrep, lastPart_of_noDot hnd, addChild_eq, lookup_cons_ne' _ _ _ _ hne',
        bumpOut_append _ _ _ _ hc.idx] at hemit
      rw [hcs] at hrun
      refine ⟨g', ?_, ?_⟩
      · rw [List.cons_append, schemaLoop_cons _ _ _ hpne, hemit, ← schemaLoop_cons _ _ _ hpne, ← List.cons_append,
          hrun, lookup_cons_self', bumpOut_last _ _ _ _ (bumpOut_length _ _ _).symm, flatT]
        have : (if cs.length = 0 then ({ name := n, rep := some r.code, numChildren := some 0 } : SElem)
            else incN cs.length { name := n, rep := some r.code, numChildren := some 0 }) =
            { name := n, rep := some r.code, numChildren := some cs.length } := by
          split
          · rename_i h0; rw [h0]
          · simp [incN]
        rw [this]
        simp [bumpCh]
      · intro k hk
        rw [hg' k (fun t _ hpk => hk (List.IsPrefix.trans (List.prefix_append _ _) hpk)), lookup_cons_ne']
        intro he
        exact hk (he ▸ List.prefix_refl _)
theorem loop_forest : (ts : List FTree) → WFL ts → SiblingsDistinct ts →
    ∀ (pre : List String) (rs : List Rep), rs.length = pre.length →
    ∀ (rest : List Col) (out : List SElem) (g : List (List String × Nat)) (ch : Nat),
    Ctx pre out g → (∀ t ∈ ts, Fresh (pre ++ [t.name]) g) →
    ∃ g', schemaLoop (colsAuxL pre rs ts ++ rest) (out, g, ch) =
        schemaLoop rest (bumpOut (g.lookup pre) ts.length out ++ flattenT ts, g', bumpCh (g.lookup pre) ts.length ch) ∧
      ∀ k, (∀ t ∈ ts, ¬ (pre ++ [t.name]) <+: k) → g'.lookup k = g.lookup k
  | [], _, _, pre, rs, _, rest, out, g, ch, _, _ => by
    refine ⟨g, ?_, fun _ _ => rfl⟩
    rw [colsAuxL, flattenT, List.length_nil, bumpOut_zero]
    cases g.lookup pre <;> simp [bumpCh]
  | t :: ts, hwf, hsd, pre, rs, hlen, rest, out, g, ch, hc, hf => by
    rw [WFL] at hwf
    obtain ⟨hwt, hwts⟩ := hwf
    have hsd' : t.name ∉ ts.map FTree.name ∧ SiblingsDistinct ts := List.nodup_cons.mp hsd
    obtain ⟨g₁, h₁, hg₁⟩ := loop_tree t hwt pre rs hlen (colsAuxL pre rs ts ++ rest) out g ch hc
      (hf t List.mem_cons_self)
    have hpre : g₁.lookup pre = g.lookup pre := hg₁ pre (not_prefix_self _ _)
    have hctx : Ctx pre (bumpOut (g.lookup pre) 1 out ++ flatT t) g₁ := by
      constructor
      · intro j hj
        rw [hg₁ _ (not_prefix_take _ _ _)]
        exact hc.anc j hj
      · intro i hi
        rw [hpre] at hi
        have := hc.idx i hi
        simp [bumpOut_length]
        omega
    have hfresh : ∀ t' ∈ ts, Fresh (pre ++ [t'.name]) g₁ := by
      intro t' ht' k hk
      have hne : t'.name ≠ t.name := by
        intro he
        exact hsd'.1 (List.mem_map.mpr ⟨t', ht', he⟩)
      rw [hg₁ k (prefix_ne pre hne hk)]
      exact hf t' (List.mem_cons_of_mem _ ht') k hk
    obtain ⟨g₂, h₂, hg₂⟩ := loop_forest ts hwts hsd'.2 pre rs hlen rest _ g₁ (bumpCh (g.lookup pre) 1 ch) hctx hfresh
    refine ⟨g₂, ?_, ?_⟩
    · rw [colsAuxL, List.append_assoc, h₁, h₂, hpre, bumpOut_append _ _ _ _ (by
          intro i hi
          rw [bumpOut_length]
          exact hc.idx i hi),
        bumpOut_add, bumpCh_add, flattenT, List.append_assoc, List.length_cons, Nat.add_comm]
    · intro k hk
      rw [hg₂ k (fun t' ht' => hk t' (List.mem_cons_of_mem _ ht')), hg₁ k (hk t List.mem_cons_self)]
end

end SchemaTree
open SchemaTree

/-- **Go's `schema()` produces the pre-order flattening with direct-children counts**, for every
forest of any depth (same-named groups under different parents included). -/
theorem schemaElems_tree (ts : List FTree) (hwf : ∀ t ∈ ts, t.WF) (hsd : SiblingsDistinct ts) :
    schemaElems (colsOf ts) = some ({ name := "root", numChildren := some ts.length } :: flattenT ts) := by
  obtain ⟨g', h, _⟩ := loop_forest ts ((WFL_iff ts).mpr hwf) hsd [] [] rfl [] [{ name := "root" }] [] 0
    ⟨fun j hj => by simp at hj, fun i hi => by simp at hi⟩ (fun t _ k _ => rfl)
  rw [List.append_nil] at h
  unfold schemaElems colsOf
  rw [h, schemaLoop]
  simp [bumpOut, bumpCh]

/-! ## decoding the flattening with the independent walker -/

/-- what `decSElem` returns for the thrift form of `e`: its i32 fields by id, and its name -/
def SElem.toD (e : SElem) : SElemD :=
  ((match e.ty with | some t => [(1, (t : Int))] | none => []) ++
   (match e.rep with | some r => [(3, (r : Int))] | none => []) ++
   (match e.numChildren with | some n => [(5, (n : Int))] | none => []) ++
   (match e.converted with | some c => [(6, (c : Int))] | none => []), strBytes e.name)

theorem decSElem_toT (e : SElem) : decSElem e.toT = some e.toD := by
  obtain ⟨name, ty, rep, nc, conv⟩ := e
  cases ty <;> cases rep <;> cases nc <;> cases conv <;> rfl

theorem mapM_decSElem : ∀ se : List SElem, (se.map SElem.toT).mapM decSElem = some (se.map SElem.toD)
  | [] => rfl
  | e :: se => by
    rw [List.map_cons, List.mapM_cons, decSElem_toT, mapM_decSElem se]
    rfl

namespace SchemaTree

theorem map_code_req (l : List Rep) (h : ∀ x ∈ l, x = .req) : l.map (fun r => (r.code : Int)) = List.replicate l.length 0 := by
  induction l with
  | nil => rfl
  | cons a l ih =>
    rw [List.map_cons, ih (fun x hx => h x (List.mem_cons_of_mem _ hx)), h a List.mem_cons_self]
    rfl

theorem expectedLeaf_mkCol (pre : List String) (rs : List Rep) (hlen : rs.length = pre.length) (n : String) (r : Rep) (ty : PType) :
    expectedLeaf (mkCol pre rs n r ty) =
      { path := pre.map strBytes ++ [strBytes n], reps := rs.map (fun r => (r.code : Int)) ++ [(r.code : Int)],
        ty := ty.phys, conv := ty.converted.map fun n => (n : Int) } := by
  unfold expectedLeaf Col.isRequired mkCol
  simp only []
  by_cases h : ((rs ++ [r]).all (· == .req)) = true
  · rw [if_pos h, if_pos (by decide)]
    have hall := (all_req_iff _).mp h
    have := map_code_req (rs ++ [r]) hall
    rw [List.map_append] at this
    simp only [List.map_cons, List.map_nil] at this
    rw [this]
    simp [hlen]
  · rw [if_neg h, if_neg h]
    simp

theorem conv_lookup (ty : PType) (r : Rep) :
    List.lookup 6 (({ name := n, ty := some ty.phys, rep := some r.code, converted := ty.converted } : SElem).toD).1 =
      ty.converted.map fun n => (n : Int) := by
  cases ty <;> rfl

theorem flatT_length_pos (t : FTree) : 1 ≤ (flatT t).length := by
  cases t <;> simp [flatT]

mutual
theorem walk_tree : (t : FTree) → t.WF → ∀ (pre : List String) (rs : List Rep), rs.length = pre.length →
    ∀ (f n : Nat) (restE : List SElemD) (ls2 : List Leaf) (rest' : List SElemD),
    (flatT t).length ≤ f →
    walkSchema f n restE (pre.map strBytes) (rs.map fun r => (r.code : Int)) = .ok (ls2, rest') →
    walkSchema (f+1) (n+1) ((flatT t).map SElem.toD ++ restE) (pre.map strBytes) (rs.map fun r => (r.code : Int)) =
      .ok ((colsAux pre rs t).map expectedLeaf ++ ls2, rest')
  | .leaf nm r ty, _, pre, rs, hlen, f, n, restE, ls2, rest', _, hrest => by
    rw [flatT, colsAux, List.map_singleton, List.map_singleton, List.singleton_append, expectedLeaf_mkCol pre rs hlen]
    rw [walkSchema]
    have h3 : List.lookup 3 (({ name := nm, ty := some ty.phys, rep := some r.code, converted := ty.converted } : SElem).toD).1 = some (r.code : Int) := by
      cases ty <;> rfl
    have h5 : List.lookup 5 (({ name := nm, ty := some ty.phys, rep := some r.code, converted := ty.converted } : SElem).toD).1 = none := by
      cases ty <;> rfl
    have h1 : List.lookup 1 (({ name := nm, ty := some ty.phys, rep := some r.code, converted := ty.converted } : SElem).toD).1 = some (ty.phys : Int) := by
      cases ty <;> rfl
    simp only [h3, h5, h1, conv_lookup, hrest, bind, Except.bind, pure, Except.pure]
    rfl
  | .group nm r cs, hwf, pre, rs, hlen, f, n, restE, ls2, rest', hf, hrest => by
    rw [FTree.WF] at hwf
    obtain ⟨_, hne, _, hwl⟩ := hwf
    rw [flatT, colsAux, List.map_cons, List.cons_append]
    rw [flatT, List.length_cons] at hf
    have hch := walk_forest cs hwl (pre ++ [nm]) (rs ++ [r]) (by simp [hlen]) f
      restE (by omega)
    rw [walkSchema]
    have hpos : ¬ ((cs.length : Int) ≤ 0) := by
      cases cs with
      | nil => exact absurd rfl hne
      | cons _ _ => simp
    simp only [List.map_append, List.map_cons, List.map_nil] at hch
    have h3 : List.lookup 3 (({ name := nm, rep := some r.code, numChildren := some cs.length } : SElem).toD).1 = some (r.code : Int) := rfl
    have h5 : List.lookup 5 (({ name := nm, rep := some r.code, numChildren := some cs.length } : SElem).toD).1 = some (cs.length : Int) := rfl
    have h1 : List.lookup 1 (({ name := nm, rep := some r.code, numChildren := some cs.length } : SElem).toD).1 = none := rfl
    have hn : (({ name := nm, rep := some r.code, numChildren := some cs.length } : SElem).toD).2 = strBytes nm := rfl
    simp only [h3, h5, h1, hn, if_neg hpos, Int.toNat_natCast, hch, hrest, bind, Except.bind, pure, Except.pure]
theorem walk_forest : (ts : List FTree) → WFL ts → ∀ (pre : List String) (rs : List Rep), rs.length = pre.length →
    ∀ (fuel : Nat) (restE : List SElemD), (flattenT ts).length + 1 ≤ fuel →
    walkSchema fuel ts.length ((flattenT ts).map SElem.toD ++ restE) (pre.map strBytes) (rs.map fun r => (r.code : Int)) =
      .ok ((colsAuxL pre rs ts).map expectedLeaf, restE)
  | [], _, pre, rs, _, fuel, restE, hf => by
    cases fuel with
    | zero => omega
    | succ f => rw [flattenT, colsAuxL]; rfl
  | t :: ts, hwf, pre, rs, hlen, fuel, restE, hf => by
    rw [WFL] at hwf
    rw [flattenT, List.length_append] at hf
    cases fuel with
    | zero => omega
    | succ f =>
      have hpos := flatT_length_pos t
      have h2 := walk_forest ts hwf.2 pre rs hlen f restE (by omega)
      have h1 := walk_tree t hwf.1 pre rs hlen f ts.length _ _ _ (by omega) h2
      rw [flattenT, colsAuxL, List.map_append, List.map_append, List.append_assoc, List.length_cons]
      exact h1
end

end SchemaTree

/-- the independent walker accepts the flattening and returns the expected leaves, in column order -/
theorem schemaLeaves_tree (ts : List FTree) (hwf : ∀ t ∈ ts, t.WF) :
    schemaLeaves ((({ name := "root", numChildren := some ts.length } : SElem) :: flattenT ts).map SElem.toD) =
      .ok ((colsOf ts).map expectedLeaf) := by
  have hw := walk_forest ts ((WFL_iff ts).mpr hwf) [] [] rfl ((flattenT ts).length + 1 + 1) [] (by omega)
  rw [List.append_nil] at hw
  rw [List.map_cons]
  unfold schemaLeaves
  have h5 : List.lookup 5 (({ name := "root", numChildren := some ts.length } : SElem).toD).1 = some (ts.length : Int) := rfl
  have hneg : ¬ ((ts.length : Int) < 0) := by omega
  simp only [h5, if_neg hneg, Int.toNat_natCast, List.length_cons, List.length_map, bind, Except.bind]
  simp only [List.map_nil] at hw
  rw [hw]
  simp [colsOf, pure, Except.pure]

/-- **C02, schema clause**: for every well-formed struct shape the footer schema Go writes is a
well-formed pre-order tree whose leaves are exactly the columns, in order, with their path,
physical / converted type and the repetition of every path element. -/
theorem schema_valid (ts : List FTree) (hwf : ∀ t ∈ ts, t.WF) (hsd : SiblingsDistinct ts) :
    ∃ se, schemaElems (colsOf ts) = some se ∧
      se = { name := "root", numChildren := some ts.length } :: flattenT ts ∧
      (se.map SElem.toT).mapM decSElem = some (se.map SElem.toD) ∧
      schemaLeaves (se.map SElem.toD) = .ok ((colsOf ts).map expectedLeaf) :=
  ⟨_, schemaElems_tree ts hwf hsd, rfl, mapM_decSElem _, schemaLeaves_tree ts hwf⟩

/-! ## examples -/
section examples

/-- same-named groups under different parents: `m{in{a,b},c}, n{in{a}}` (`m` optional, `m.in`
repeated, `n.in` required) -/
def exForest : List FTree :=
  [.group "m" .opt [.group "in" .rpt [.leaf "a" .req .i32, .leaf "b" .opt .str], .leaf "c" .req .u64],
   .group "n" .req [.group "in" .req [.leaf "a" .req .f64]]]

example : colsOf exForest =
    [⟨["m", "in", "a"], [.opt, .rpt, .req], .i32⟩, ⟨["m", "in", "b"], [.opt, .rpt, .opt], .str⟩,
     ⟨["m", "c"], [.opt, .req], .u64⟩, ⟨["n", "in", "a"], [.req], .f64⟩] := rfl

/-- the two `in` groups stay apart, each with its own direct-children count -/
example : schemaElems (colsOf exForest) = some
    [{ name := "root", numChildren := some 2 },
     { name := "m", rep := some 1, numChildren := some 2 },
     { name := "in", rep := some 2, numChildren := some 2 },
     { name := "a", ty := some 1, rep := some 0 },
     { name := "b", ty := some 6, rep := some 1 },
     { name := "c", ty := some 2, rep := some 0, converted := some 14 },
     { name := "n", rep := some 0, numChildren := some 1 },
     { name := "in", rep := some 0, numChildren := some 1 },
     { name := "a", ty := some 5, rep := some 0 }] :=
  schemaElems_tree exForest (by decide) (by decide)

example : ∃ se, schemaElems (colsOf exForest) = some se ∧
    schemaLeaves (se.map SElem.toD) = .ok
      [{ path := [strBytes "m", strBytes "in", strBytes "a"], reps := [1, 2, 0], ty := 1, conv := none },
       { path := [strBytes "m", strBytes "in", strBytes "b"], reps := [1, 2, 1], ty := 6, conv := none },
       { path := [strBytes "m", strBytes "c"], reps := [1, 0], ty := 2, conv := some 14 },
       { path := [strBytes "n", strBytes "in", strBytes "a"], reps := [0, 0, 0], ty := 5, conv := none }] :=
  ⟨_, schemaElems_tree exForest (by decide) (by decide), schemaLeaves_tree exForest (by decide)⟩

/-- three levels of required structs: the column is a `RequiredField` (`Types = [req]`), the groups
are still emitted as required -/
def exDeep : List FTree :=
  [.group "x" .req [.group "y" .req [.group "z" .req [.leaf "v" .req .bool], .leaf "w" .req .i64]]]

example : colsOf exDeep = [⟨["x", "y", "z", "v"], [.req], .bool⟩, ⟨["x", "y", "w"], [.req], .i64⟩] := rfl

example : schemaElems (colsOf exDeep) = some
    [{ name := "root", numChildren := some 1 },
     { name := "x", rep := some 0, numChildren := some 1 },
     { name := "y", rep := some 0, numChildren := some 2 },
     { name := "z", rep := some 0, numChildren := some 1 },
     { name := "v", ty := some 0, rep := some 0 },
     { name := "w", ty := some 2, rep := some 0 }] :=
  schemaElems_tree exDeep (by decide) (by decide)

example : (colsOf exDeep).map expectedLeaf =
    [{ path := [strBytes "x", strBytes "y", strBytes "z", strBytes "v"], reps := [0, 0, 0, 0], ty := 0, conv := none },
     { path := [strBytes "x", strBytes "y", strBytes "w"], reps := [0, 0, 0], ty := 2, conv := none }] := rfl

/-- **Why sibling names must be distinct.**  Two sibling structs named `g` declare exactly the
columns of one struct `g` with both fields (`schema()` only sees the columns), so the footer has
*one* group `g` with two children and a root with one child: not the flattening of the shape. -/
def exBad : List FTree := [.group "g" .req [.leaf "a" .req .i32], .group "g" .req [.leaf "b" .req .i32]]
def exMerged : List FTree := [.group "g" .req [.leaf "a" .req .i32, .leaf "b" .req .i32]]

example : ¬ SiblingsDistinct exBad := by decide
example : ∀ t ∈ exBad, t.WF := by decide
example : colsOf exBad = colsOf exMerged := rfl
example : schemaElems (colsOf exBad) = some
    [{ name := "root", numChildren := some 1 },
     { name := "g", rep := some 0, numChildren := some 2 },
     { name := "a", ty := some 1, rep := some 0 },
     { name := "b", ty := some 1, rep := some 0 }] :=
  schemaElems_tree exMerged (by decide) (by decide)
example : ({ name := "root", numChildren := some exBad.length } :: flattenT exBad : List SElem) =
    [{ name := "root", numChildren := some 2 },
     { name := "g", rep := some 0, numChildren := some 1 },
     { name := "a", ty := some 1, rep := some 0 },
     { name := "g", rep := some 0, numChildren := some 1 },
     { name := "b", ty := some 1, rep := some 0 }] := by decide
example : schemaElems (colsOf exBad) ≠ some ({ name := "root", numChildren := some exBad.length } :: flattenT exBad) := by
  rw [show colsOf exBad = colsOf exMerged from rfl, schemaElems_tree exMerged (by decide) (by decide)]
  decide

/-- Same-named siblings that are *not adjacent*: the second `g` is found in the map, so `b` is
appended after `h` while the count goes to the first `g` — the footer then reads `g{a, h}, b`:
the leaves no longer match the column chunks (`h` and `g.b`). -/
def exSplit : List FTree :=
  [.group "g" .req [.leaf "a" .req .i32], .leaf "h" .req .i32, .group "g" .req [.leaf "b" .req .i32]]

example : colsOf exSplit = [⟨["g", "a"], [.req], .i32⟩, ⟨["h"], [.req], .i32⟩, ⟨["g", "b"], [.req], .i32⟩] := rfl

example : schemaElems (colsOf exSplit) = some
    [{ name := "root", numChildren := some 2 },
     { name := "g", rep := some 0, numChildren := some 2 },
     { name := "a", ty := some 1, rep := some 0 },
     { name := "h", ty := some 1, rep := some 0 },
     { name := "b", ty := some 1, rep := some 0 }] := by
  have hg : lastPart "g" = "g" := lastPart_of_noDot (by decide)
  rw [show colsOf exSplit = [⟨["g", "a"], [.req], .i32⟩, ⟨["h"], [.req], .i32⟩, ⟨["g", "b"], [.req], .i32⟩] from rfl]
  simp (config := { decide := true }) [schemaElems, schemaLoop, schemaGroups, addChild, hg, Col.leafRep,
    PType.phys, PType.converted, Rep.code, List.lookup, List.modify, List.modifyTailIdx]

example : schemaLeaves (([{ name := "root", numChildren := some 2 },
     { name := "g", rep := some 0, numChildren := some 2 },
     { name := "a", ty := some 1, rep := some 0 },
     { name := "h", ty := some 1, rep := some 0 },
     { name := "b", ty := some 1, rep := some 0 }] : List SElem).map SElem.toD) = .ok
   [{ path := [strBytes "g", strBytes "a"], reps := [0, 0], ty := 1, conv := none },
    { path := [strBytes "g", strBytes "h"], reps := [0, 0], ty := 1, conv := none },
    { path := [strBytes "b"], reps := [0], ty := 1, conv := none }] := rfl

end examples

end PQ
