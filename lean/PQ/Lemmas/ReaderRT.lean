import PQ.Lemmas.ReaderChunk
import PQ.Lemmas.FileRT
import PQ.Lemmas.SchemaTree
import PQ.Model.Text
/-!
# The generated reader on a whole file: write-then-read returns exactly the records that were added

* `readRowGroup_rg` – `readRowGroup` on the chunks of one row group as the writer lays them out;
* `pagesOf_fileMetas` – `Metadata.Pages()` on the footer's row groups;
* `openReader_file` – `NewParquetReader` on `PAR1 ‖ row groups ‖ footer ‖ length ‖ PAR1`;
* `scanEntries` / `scanCol_eq` – `Scan` of one column restated on entries;
* `readAllEntries`, `readAll_runWriter` – open, then `Next`/`Scan` until `Next` is false;
* `readAll_of_entries` – the text driver `readAll` (the line compared with the Go program's output) is a
  function of `readAllEntries`.
-/
namespace PQ
open PQ.Thrift

/-! ## lists -/

theorem getD_append_length {α : Type} (a : List α) (x : α) (b : List α) (d : α) : (a ++ x :: b).getD a.length d = x := by
  simp [List.getD_eq_getElem?_getD]

theorem getElem?_append_length {α : Type} (a : List α) (x : α) (b : List α) : (a ++ x :: b)[a.length]? = some x := by
  simp

theorem set_append_length {α : Type} (a : List α) (x y : α) (b : List α) : (a ++ x :: b).set a.length y = a ++ y :: b := by
  rw [List.set_append_right _ _ (Nat.le_refl _), Nat.sub_self, List.set_cons_zero]

/-! ## column lookup -/

/-- every column is found under its own joined path (`strings.Join(path, ".")`): the joined column
names are pairwise distinct.  Decidable for a concrete column list. -/
def ColsResolve (cols : List Col) : Prop :=
  ∀ (i : Nat) (c : Col), cols[i]? = some c → colIndex cols (pathName (c.path.map strBytes)) = some i

/-! ## one row group -/

/-- the chunk walk of `readRowGroup` over the not yet loaded chunks `todo` of a row group, laid out
back to back from `pre.length`; `doneC`/`doneB`/`doneP` are the columns already loaded, their buffers
and their remaining page lists -/
theorem readRowGroup_go_items (dc : Decomp) (k : Codec) :
    ∀ (todo : List PItem) (doneC : List Col) (doneB : List ColBuf) (doneP tailP : List (List PageMeta))
      (pre post : Bytes) (N cu rc rn : Int) (rgs : List RGMeta) (e fs : Bool),
      ColsResolve (doneC ++ todo.map (·.1)) →
      doneB.length = doneC.length → doneP.length = doneC.length → tailP.length = todo.length →
      (∀ p ∈ todo, ∀ es ∈ p.2, PageRd dc k p.1 es) →
      RState.readRowGroup.go (rgMetas k todo pre.length)
        { cols := doneC ++ todo.map (·.1), dc := dc, src := Src.mk (pre ++ pitemsBytes k todo ++ post) pre.length,
          rows := N, cursor := cu, rgCursor := rc, rgCount := rn,
          pages := doneP ++ List.zipWith (· :: ·) (todo.map fun p => pageMetaOf k p.1 p.2) tailP,
          rowGroups := rgs, bufs := doneB ++ List.replicate todo.length {}, err := e, fieldsSet := fs } =
      .ok { cols := doneC ++ todo.map (·.1), dc := dc,
            src := Src.mk (pre ++ pitemsBytes k todo ++ post) (pre.length + (pitemsBytes k todo).length),
            rows := N, cursor := cu, rgCursor := rc, rgCount := rn, pages := doneP ++ tailP, rowGroups := rgs,
            bufs := doneB ++ todo.map (fun p => colBufOf p.1 p.2.flatten), err := e, fieldsSet := fs }
  | [], doneC, doneB, doneP, tailP, pre, post, N, cu, rc, rn, rgs, e, fs, _, _, _, htl, _ => by
    have : tailP = [] := List.eq_nil_of_length_eq_zero (by simpa using htl)
    subst this
    simp [rgMetas, RState.readRowGroup.go, pitemsBytes_nil]
  | p :: rest, doneC, doneB, doneP, tailP, pre, post, N, cu, rc, rn, rgs, e, fs, hres, hB, hP, htl, hg => by
    cases tailP with
    | nil => simp at htl
    | cons t tailP =>
      have hidx : colIndex (doneC ++ (p :: rest).map (·.1)) (pathName (p.1.path.map strBytes)) = some doneC.length :=
        hres doneC.length p.1 (by simp)
      have hfile : pre ++ pitemsBytes k (p :: rest) ++ post = pre ++ chunkBytes k p.1 p.2 ++ (pitemsBytes k rest ++ post) := by
        rw [pitemsBytes_cons]; simp only [List.append_assoc]
      have hfile2 : pre ++ pitemsBytes k (p :: rest) ++ post = (pre ++ chunkBytes k p.1 p.2) ++ pitemsBytes k rest ++ post := by
        rw [pitemsBytes_cons]; simp only [List.append_assoc]
      have hrc := readChunk_chunk dc k p.1 p.2 pre (pitemsBytes k rest ++ post) (hg p List.mem_cons_self)
      rw [← hfile] at hrc
      have ih := readRowGroup_go_items dc k rest (doneC ++ [p.1]) (doneB ++ [colBufOf p.1 p.2.flatten]) (doneP ++ [t]) tailP
        (pre ++ chunkBytes k p.1 p.2) post N cu rc rn rgs e fs
        (by simpa [List.append_assoc] using hres) (by simp [hB]) (by simp [hP]) (by simpa using htl)
        (fun q hq => hg q (List.mem_cons_of_mem _ hq))
      rw [← hfile2] at ih
      simp only [List.append_assoc doneC, List.append_assoc doneP, List.append_assoc doneB, List.singleton_append,
        List.length_append] at ih
      simp only [rgMetas, RState.readRowGroup.go, chunkMetaOf]
      simp only [List.map_cons, List.zipWith_cons_cons, List.length_cons, List.replicate_succ] at hidx ⊢
      simp only [hidx]
      rw [← hP, getD_append_length, hP, ← hB, getD_append_length, hB, getElem?_append_length]
      simp only [hrc]
      rw [← hP, set_append_length, hP, ← hB, set_append_length]
      rw [ih]
      simp only [pitemsBytes_cons, List.length_append, Nat.add_assoc]

/-- **`readRowGroup` on one row group**: every column's chunk is read into a fresh buffer, the source
ends up right after the row group, every column's page list and the row-group list advance. -/
theorem readRowGroup_rg (dc : Decomp) (k : Codec) (cols : List Col) (hres : ColsResolve cols) (rows : Nat)
    (pits : List PItem) (hcols : pits.map (·.1) = cols) (hg : ∀ p ∈ pits, ∀ es ∈ p.2, PageRd dc k p.1 es)
    (pre post : Bytes) (tailP : List (List PageMeta)) (htl : tailP.length = cols.length) (restRG : List RGMeta)
    (N cu rc rn : Int) (bufs0 : List ColBuf) (e fs : Bool) :
    RState.readRowGroup
        { cols := cols, dc := dc, src := Src.mk (pre ++ pitemsBytes k pits ++ post) pre.length, rows := N, cursor := cu,
          rgCursor := rc, rgCount := rn,
          pages := List.zipWith (· :: ·) (pits.map fun p => pageMetaOf k p.1 p.2) tailP,
          rowGroups := rgMetaOf k rows pits pre.length :: restRG, bufs := bufs0, err := e, fieldsSet := fs } =
      .ok { cols := cols, dc := dc,
            src := Src.mk (pre ++ pitemsBytes k pits ++ post) (pre.length + (pitemsBytes k pits).length), rows := N,
            cursor := cu, rgCursor := 0, rgCount := rows, pages := tailP, rowGroups := restRG,
            bufs := pits.map (fun p => colBufOf p.1 p.2.flatten), err := e, fieldsSet := true } := by
  have hlen : cols.length = pits.length := by rw [← hcols, List.length_map]
  have hgo := readRowGroup_go_items dc k pits [] [] [] tailP pre post N cu 0 rows
    (rgMetaOf k rows pits pre.length :: restRG) e true (by simpa [hcols] using hres) rfl rfl (by omega) hg
  simp only [List.nil_append, hcols] at hgo
  unfold RState.readRowGroup
  simp only [rgMetaOf, hlen]
  simp only [rgMetaOf] at hgo
  rw [hgo]

/-! ## `Metadata.Pages()` -/

/-- the body of the inner loop of `Pages()` -/
def pagesStep (cols : List Col) (acc : List (List PageMeta)) (ch : ChunkMeta) : R (List (List PageMeta)) :=
  match ch.md with
  | none => .error .panic
  | some m =>
    match colIndex cols (pathName m.path) with
    | none => .error .err
    | some i => .ok (acc.modify i (· ++ [{ n := m.numValues, size := m.totalCompressed, codec := m.codec }]))

theorem pagesOf_eq (cols : List Col) (f : FMD) :
    pagesOf cols f = f.rowGroups.foldlM (fun acc rg => rg.columns.foldlM (pagesStep cols) acc)
      (List.replicate cols.length []) := rfl

/-- per column, the `PageMeta`s of its chunks in the remaining row groups -/
def pagesFor (n : Nat) (k : Codec) : List (Nat × List PItem) → List (List PageMeta)
  | [] => List.replicate n []
  | g :: rest => List.zipWith (· :: ·) (g.2.map fun p => pageMetaOf k p.1 p.2) (pagesFor n k rest)

theorem pagesFor_length (n : Nat) (k : Codec) : ∀ (prgs : List (Nat × List PItem)), (∀ g ∈ prgs, g.2.length = n) →
    (pagesFor n k prgs).length = n
  | [], _ => by simp [pagesFor]
  | g :: rest, h => by
    have ih := pagesFor_length n k rest (fun q hq => h q (List.mem_cons_of_mem _ hq))
    simp [pagesFor, ih, h g List.mem_cons_self]

theorem pagesStep_items (k : Codec) :
    ∀ (todo : List PItem) (doneC : List Col) (doneA todoA : List (List PageMeta)) (pos : Nat),
      ColsResolve (doneC ++ todo.map (·.1)) → doneA.length = doneC.length → todoA.length = todo.length →
      (rgMetas k todo pos).foldlM (pagesStep (doneC ++ todo.map (·.1))) (doneA ++ todoA) =
        .ok (doneA ++ List.zipWith (fun a p => a ++ [p]) todoA (todo.map fun p => pageMetaOf k p.1 p.2))
  | [], doneC, doneA, todoA, pos, _, _, htl => by
    have : todoA = [] := List.eq_nil_of_length_eq_zero (by simpa using htl)
    subst this
    simp [rgMetas, pure, Except.pure]
  | p :: rest, doneC, doneA, todoA, pos, hres, hA, htl => by
    cases todoA with
    | nil => simp at htl
    | cons a todoA =>
      have hidx : colIndex (doneC ++ (p :: rest).map (·.1)) (pathName (p.1.path.map strBytes)) = some doneC.length :=
        hres doneC.length p.1 (by simp)
      have ih := pagesStep_items k rest (doneC ++ [p.1]) (doneA ++ [a ++ [pageMetaOf k p.1 p.2]]) todoA
        (pos + (chunkBytes k p.1 p.2).length)
        (by simpa [List.append_assoc] using hres) (by simp [hA]) (by simpa using htl)
      simp only [List.append_assoc doneC, List.append_assoc doneA, List.singleton_append] at ih
      simp only [List.map_cons] at hidx ⊢
      simp only [rgMetas, List.foldlM_cons, pagesStep, chunkMetaOf, hidx, bind, Except.bind]
      rw [← hA, modify_append_length, List.zipWith_cons_cons]
      exact ih

theorem zipWith_snoc_append {α : Type} : ∀ (acc : List (List α)) (ps : List α) (T : List (List α)),
    List.zipWith (· ++ ·) (List.zipWith (fun a p => a ++ [p]) acc ps) T =
      List.zipWith (· ++ ·) acc (List.zipWith (· :: ·) ps T)
  | [], _, _ => by simp
  | _ :: _, [], _ => by simp
  | _ :: _, _ :: _, [] => by simp
  | a :: acc, p :: ps, t :: T => by simp [zipWith_snoc_append acc ps T]

theorem zipWith_append_replicate_nil {α : Type} : ∀ (acc : List (List α)) (n : Nat), acc.length = n →
    List.zipWith (· ++ ·) acc (List.replicate n []) = acc
  | [], _, _ => by simp
  | a :: acc, n, h => by
    cases n with
    | zero => simp at h
    | succ n => simp [List.replicate_succ, zipWith_append_replicate_nil acc n (by simpa using h)]

theorem zipWith_nil_append {α : Type} : ∀ (n : Nat) (X : List (List α)), X.length = n →
    List.zipWith (· ++ ·) (List.replicate n []) X = X
  | 0, X, h => by
    have : X = [] := List.eq_nil_of_length_eq_zero h
    subst this; simp
  | n+1, X, h => by
    cases X with
    | nil => simp at h
    | cons x X => simp [List.replicate_succ, zipWith_nil_append n X (by simpa using h)]

/-- the row-group walk of `Pages()` -/
theorem pagesOf_fold (k : Codec) (cols : List Col) (hres : ColsResolve cols) :
    ∀ (prgs : List (Nat × List PItem)) (pos : Nat) (acc : List (List PageMeta)), acc.length = cols.length →
      (∀ g ∈ prgs, g.2.map (·.1) = cols) →
      (fileMetas k prgs pos).foldlM (fun acc rg => rg.columns.foldlM (pagesStep cols) acc) acc =
        .ok (List.zipWith (· ++ ·) acc (pagesFor cols.length k prgs))
  | [], pos, acc, hacc, _ => by
    simp [fileMetas, pagesFor, pure, Except.pure, zipWith_append_replicate_nil acc _ hacc]
  | g :: rest, pos, acc, hacc, h => by
    have hc := h g List.mem_cons_self
    have hlen : g.2.length = cols.length := by rw [← hc, List.length_map]
    have h1 := pagesStep_items k g.2 [] [] acc pos (by simpa [hc] using hres) rfl (by omega)
    simp only [List.nil_append, hc] at h1
    have ih := pagesOf_fold k cols hres rest (pos + (pitemsBytes k g.2).length)
      (List.zipWith (fun a p => a ++ [p]) acc (g.2.map fun p => pageMetaOf k p.1 p.2))
      (by simp [hacc, hlen]) (fun q hq => h q (List.mem_cons_of_mem _ hq))
    simp only [fileMetas, List.foldlM_cons, rgMetaOf, h1, bind, Except.bind, ih, pagesFor, zipWith_snoc_append]

/-- **`Metadata.Pages()` on the footer the writer emits** -/
theorem pagesOf_fileMetas (k : Codec) (cols : List Col) (hres : ColsResolve cols) (prgs : List (Nat × List PItem))
    (h : ∀ g ∈ prgs, g.2.map (·.1) = cols) (v : Int) (sd : List SElemD) (N : Int) :
    pagesOf cols { version := v, schema := sd, numRows := N, rowGroups := fileMetas k prgs 4 } =
      .ok (pagesFor cols.length k prgs) := by
  rw [pagesOf_eq]
  simp only
  rw [pagesOf_fold k cols hres prgs 4 _ (by simp) h, zipWith_nil_append]
  apply pagesFor_length
  intro g hg
  rw [← h g hg, List.length_map]

/-! ## `NewParquetReader` -/

theorem addChild_ne_nil (parent : List String) (st : SchemaTree.SSt) (h : st.1 ≠ []) : (addChild parent st).1 ≠ [] := by
  obtain ⟨out, g, ch⟩ := st
  unfold addChild
  simp only
  cases g.lookup parent with
  | none => exact h
  | some idx =>
    simp only
    intro he
    have := congrArg List.length he
    simp only [List.length_modify, List.length_nil] at this
    exact h (List.eq_nil_of_length_eq_zero this)

theorem schemaLoop_ne_nil : ∀ (cs : List Col) (st : SchemaTree.SSt) (out : List SElem) (ch : Nat), st.1 ≠ [] →
    schemaLoop cs st = some (out, ch) → out ≠ []
  | [], (o, g, c), out, ch, h, he => by
    simp only [schemaLoop, Option.some.injEq, Prod.mk.injEq] at he
    rw [← he.1]; exact h
  | c :: cs, st, out, ch, h, he => by
    by_cases hp : c.path = []
    · obtain ⟨o, g, n⟩ := st
      rw [schemaLoop, if_pos (by simp [hp])] at he
      exact absurd he (by simp)
    · rw [SchemaTree.schemaLoop_cons c cs st hp] at he
      refine schemaLoop_ne_nil cs _ out ch ?_ he
      unfold SchemaTree.colStep
      apply addChild_ne_nil
      simp

theorem schemaElems_ne_nil (cols : List Col) (se : List SElem) (h : schemaElems cols = some se) : se ≠ [] := by
  unfold schemaElems at h
  cases hl : schemaLoop cols ([{ name := "root" }], [], 0) with
  | none => rw [hl] at h; exact absurd h (by simp)
  | some r =>
    obtain ⟨out, ch⟩ := r
    rw [hl] at h
    simp only [Option.some.injEq] at h
    have := schemaLoop_ne_nil cols _ out ch (by simp) hl
    rw [← h]
    intro he
    have hh := congrArg List.length he
    simp only [List.length_modify, List.length_nil] at hh
    exact this (List.eq_nil_of_length_eq_zero hh)

/-- **`NewParquetReader` on `PAR1 ‖ data ‖ footer ‖ length ‖ PAR1`**: the footer is located and decoded,
`Pages()` lists every column's chunks, and the constructor goes on to load the first row group. -/
theorem openReader_layout (dc : Decomp) (k : Codec) (cols : List Col) (hres : ColsResolve cols)
    (prgs : List (Nat × List PItem)) (hprgs : ∀ g ∈ prgs, g.2.map (·.1) = cols)
    (se : List SElem) (hse : se ≠ []) (N : Nat) (rgs : List TVal)
    (hrwf : ∀ t ∈ rgs, t.ecode = tStruct ∧ t.WF ∧ t.dep ≤ 5) (hrdec : rgs.mapM decRG = some (fileMetas k prgs 4))
    (file data : Bytes)
    (hfile : file = par1 ++ data ++ ((footerOf se N rgs).enc ++ le32 (footerOf se N rgs).enc.length ++ par1))
    (hn : (footerOf se N rgs).enc.length < 2 ^ 32) :
    openReader cols dc file =
      RState.readRowGroup
        { cols := cols, dc := dc, src := Src.mk file 4, rows := (N : Int), pages := pagesFor cols.length k prgs,
          rowGroups := fileMetas k prgs 4, bufs := List.replicate cols.length {} } := by
  generalize hfe : (footerOf se N rgs).enc = fenc at hfile hn
  have hp : par1.length = 4 := rfl
  have hlen : file.length = 4 + data.length + fenc.length + 8 := by
    rw [hfile]; simp only [List.length_append, le32_length, hp]; omega
  have h2 : file.drop (file.length - 4) = par1 := by
    have e : file = (par1 ++ data ++ (fenc ++ le32 fenc.length)) ++ par1 := by rw [hfile]; simp only [List.append_assoc]
    have l : (par1 ++ data ++ (fenc ++ le32 fenc.length)).length = file.length - 4 := by
      rw [hlen]; simp only [List.length_append, le32_length, hp]; omega
    rw [← l]
    conv => lhs; arg 2; rw [e]
    exact List.drop_left
  have h3 : (file.drop (file.length - 8)).take 4 = le32 fenc.length := by
    have e : file = (par1 ++ data ++ fenc) ++ (le32 fenc.length ++ par1) := by rw [hfile]; simp only [List.append_assoc]
    have l : (par1 ++ data ++ fenc).length = file.length - 8 := by
      rw [hlen]; simp only [List.length_append, hp]; omega
    rw [← l]
    conv => lhs; arg 2; arg 2; rw [e]
    rw [List.drop_left, List.take_left' (le32_length _)]
  have h3' : fromLE ((file.drop (file.length - 8)).take 4) = fenc.length := by
    rw [h3]
    exact fromLE_leBytes 4 _ (by have : (256 : Nat) ^ 4 = 2 ^ 32 := by decide
                                 omega)
  have h4 : file.drop (file.length - (fenc.length + 8)) = fenc ++ (le32 fenc.length ++ par1) := by
    have e : file = (par1 ++ data) ++ (fenc ++ (le32 fenc.length ++ par1)) := by rw [hfile]; simp only [List.append_assoc]
    have l : (par1 ++ data).length = file.length - (fenc.length + 8) := by
      rw [hlen]; simp only [List.length_append, hp]; omega
    rw [← l]
    conv => lhs; arg 2; rw [e]
    exact List.drop_left
  have hdec : decVal tStruct ((fenc ++ (le32 fenc.length ++ par1)).length + 2) (fenc ++ (le32 fenc.length ++ par1)) =
      some (footerOf se N rgs, le32 fenc.length ++ par1) := by
    have := decVal_enc_need (footerOf se N rgs) (footerOf_wf se N rgs fun t ht => ⟨(hrwf t ht).1, (hrwf t ht).2.1⟩)
      ((fenc ++ (le32 fenc.length ++ par1)).length + 2) (le32 fenc.length ++ par1)
      (by
        have := footerOf_need se hse N rgs fun t ht => (hrwf t ht).2.2
        rw [hfe] at this
        simp only [List.length_append]; omega)
    rw [hfe] at this
    simpa [footerOf, TVal.ecode, TVal.code] using this
  have hfmd := decFMD_footerOf se N rgs _ _ (mapM_decSElem se) hrdec
  unfold openReader
  rw [if_neg (by omega), if_neg (by rw [h2]; simp [par1]), h3', if_neg (by omega)]
  simp only [Src.readStruct, h4, hdec, hfmd]
  cases prgs with
  | nil => simp [fileMetas, pagesFor]
  | cons g rest =>
    have hne : (fileMetas k (g :: rest) 4).isEmpty = false := by simp [fileMetas]
    simp only [hne, Bool.false_eq_true, if_false, pagesOf_fileMetas k cols hres (g :: rest) hprgs]

/-! ## `Scan` on entries -/

/-- one column's `Scan`, returning the entries of the record it consumes instead of their text:
exactly `scanCol`, with `[]` where the buffer is exhausted (the field keeps its zero value) and, for
a `RequiredField`, the single entry `⟨0, 0, some v⟩`; `none` = the generated code panics -/
def scanEntries (c : Col) (buf : ColBuf) : Option (List (Entry Bytes) × ColBuf) :=
  if c.isRequired then
    match buf.vals with
    | [] => some ([], buf)
    | v :: vs => some ([⟨0, 0, some v⟩], { buf with vals := vs })
  else
    match buf.defs with
    | [] => some ([], buf)
    | d :: ds =>
      let n := if c.maxRep = 0 then 1 else 1 + (buf.reps.tail.takeWhile (· != 0)).length
      let n := min n (d :: ds).length
      let defs := (d :: ds).take n
      let reps := buf.reps.take n
      let k := (defs.filter (· = c.maxDef)).length
      match entriesOf c.maxDef defs reps buf.vals with
      | none => none
      | some es => some (es, { vals := buf.vals.drop k, defs := (d :: ds).drop n, reps := buf.reps.drop n })

/-- the text `Scan` leaves in the record for the entries it consumed -/
def scanText (c : Col) (showP : (ts : List Rep) → Proj Bytes ts → String) (es : List (Entry Bytes)) : String :=
  match es with
  | [] => showP c.reps (zeroProj (zeroOfType c.ty) c.reps)
  | e :: tl =>
    if c.isRequired then showP c.reps (zeroProj (e.val.getD []) c.reps)
    else
      match assembleTop c.reps (e :: tl) with
      | some (v, []) => showP c.reps v
      | _ => "?"

theorem entriesOf_ne_nil (m d : Nat) (ds rs : List Nat) (vs : List Bytes) (es : List (Entry Bytes))
    (h : entriesOf m (d :: ds) rs vs = some es) : es ≠ [] := by
  unfold entriesOf at h
  simp only at h
  split at h
  · cases vs with
    | nil => simp at h
    | cons v vs' =>
      simp only [Option.map_eq_some_iff] at h
      obtain ⟨a, _, rfl⟩ := h
      simp
  · simp only [Option.map_eq_some_iff] at h
    obtain ⟨a, _, rfl⟩ := h
    simp

/-- **`scanCol` is a function of `scanEntries`**: nothing is lost by the restatement. -/
theorem scanCol_eq (c : Col) (showP : (ts : List Rep) → Proj Bytes ts → String) (buf : ColBuf) :
    scanCol c showP buf = (scanEntries c buf).map fun x => (scanText c showP x.1, x.2) := by
  unfold scanCol scanEntries
  by_cases hreq : c.isRequired = true
  · rw [if_pos hreq, if_pos hreq]
    cases buf.vals with
    | nil => rfl
    | cons v vs => simp [scanText, hreq]
  · rw [if_neg hreq, if_neg hreq]
    cases hd : buf.defs with
    | nil => rfl
    | cons d ds =>
      simp only
      have hn : ∃ n', min (if c.maxRep = 0 then 1 else 1 + (buf.reps.tail.takeWhile (· != 0)).length) (d :: ds).length = n' + 1 := by
        simp only [List.length_cons]
        split
        · exact ⟨0, by omega⟩
        · exact ⟨min (buf.reps.tail.takeWhile (· != 0)).length ds.length, by omega⟩
      obtain ⟨n', hn'⟩ := hn
      rw [hn']
      cases he : entriesOf c.maxDef ((d :: ds).take (n' + 1)) (buf.reps.take (n' + 1)) buf.vals with
      | none => rfl
      | some es =>
        have hne := entriesOf_ne_nil c.maxDef d (ds.take n') _ _ es (by simpa using he)
        cases es with
        | nil => exact absurd rfl hne
        | cons e tl =>
          simp only [Option.map_some, scanText, if_neg hreq]
          cases assembleTop c.reps (e :: tl) with
          | none => rfl
          | some p =>
            obtain ⟨v, l⟩ := p
            cases l <;> rfl

/-- `Scan` over all columns -/
def scanAllEntries : List Col → List ColBuf → Option (List (List (Entry Bytes)) × List ColBuf)
  | [], _ => some ([], [])
  | c :: cs, bufs =>
    match scanEntries c (bufs.head?.getD {}) with
    | none => none
    | some (es, b) =>
      match scanAllEntries cs bufs.tail with
      | none => none
      | some (ess, bs) => some (es :: ess, b :: bs)

/-- the `Next`/`Scan` loop: every delivered row's per-column entries; `none` on a panic, when `Next`
ends with the error flag set, or when the fuel runs out -/
def readLoop : Nat → RState → List (List (List (Entry Bytes))) → Option (List (List (List (Entry Bytes))))
  | 0, _, _ => none
  | fuel+1, st, acc =>
    match st.next with
    | .error _ => none
    | .ok (false, st) => if st.err then none else some acc
    | .ok (true, st) =>
      if st.err then none else
      -- `Scan` calls a method on a nil `Field` when no row group was ever loaded
      if !st.fieldsSet ∧ !st.cols.isEmpty then none else
      match scanAllEntries st.cols st.bufs with
      | none => none
      | some (row, bufs) => readLoop fuel { st with bufs := bufs } (acc ++ [row])

/-- open the file, then `Next`/`Scan` until `Next` is false (`Next` is true at most `Rows()` times, so
`Rows() + 3` iterations always suffice): `Rows()` and, per delivered row, the entries each column's
`Scan` consumed.  `none` on any error or panic, or if `Error()` is non-nil at the end. -/
def readAllEntries (cols : List Col) (dc : Decomp) (file : Bytes) : Option (Int × List (List (List (Entry Bytes)))) :=
  match openReader cols dc file with
  | .error _ => none
  | .ok st => (readLoop (st.rows + 3).toNat st []).map fun rows => (st.rows, rows)

/-! ## one record -/

/-- what `Scan` needs of the entries one record holds for column `c` -/
structure RecRd (c : Col) (es : PageEntries) : Prop where
  start : RecEntries es
  entries : ∀ e ∈ es, if c.isRequired then e.rep = 0 ∧ e.dl = 0 ∧ e.val.isSome
    else e.dl ≤ c.maxDef ∧ e.rep ≤ c.maxRep ∧ (e.val.isSome ↔ e.dl = c.maxDef)

theorem entriesOf_roundtrip (maxDef : Nat) (es : PageEntries) (rs : List Nat) (extra : List Bytes)
    (h : ∀ e ∈ es, (e.val.isSome ↔ e.dl = maxDef))
    (hrs : rs = es.map (·.rep) ∨ (rs = [] ∧ ∀ e ∈ es, e.rep = 0)) :
    entriesOf maxDef (es.map (·.dl)) rs (nonNull es ++ extra) = some es := by
  induction es generalizing rs with
  | nil => rfl
  | cons e es ih =>
    have h1 := h e (by simp)
    have hr : rs.head?.getD 0 = e.rep := by
      rcases hrs with rfl | ⟨rfl, h0⟩
      · rfl
      · exact (h0 e (by simp)).symm
    have hrs' : rs.tail = es.map (·.rep) ∨ (rs.tail = [] ∧ ∀ e ∈ es, e.rep = 0) := by
      rcases hrs with rfl | ⟨rfl, h0⟩
      · exact Or.inl rfl
      · exact Or.inr ⟨rfl, fun x hx => h0 x (by simp [hx])⟩
    have h2 := ih rs.tail (fun x hx => h x (by simp [hx])) hrs'
    obtain ⟨r, d, v⟩ := e
    simp only at hr
    cases v with
    | none =>
      have : ¬ d = maxDef := by intro hd; have := h1.mpr hd; simp at this
      simp only [List.map_cons, nonNull_cons_none]
      unfold entriesOf
      simp only [if_neg this, h2, hr, Option.map_some]
    | some v =>
      have : d = maxDef := h1.mp rfl
      simp only [List.map_cons, nonNull_cons_some, List.cons_append]
      unfold entriesOf
      simp only [if_pos this, h2, hr, Option.map_some]

/-- **`Scan` of one column**: on a buffer holding the entries of the remaining records of the row
group, it returns exactly the first record's entries and leaves the buffer holding the rest. -/
theorem scanEntries_record (c : Col) (r rest : PageEntries) (hr : RecRd c r) (hrest : ∀ e ∈ rest.head?, e.rep = 0) :
    scanEntries c (colBufOf c (r ++ rest)) = some (r, colBufOf c rest) := by
  obtain ⟨e, tl, rfl, he0, htl⟩ := hr.start
  unfold scanEntries colBufOf
  by_cases hreq : c.isRequired = true
  · simp only [if_pos hreq]
    have hent : ∀ x ∈ e :: tl, x.rep = 0 ∧ x.dl = 0 ∧ x.val.isSome := by
      intro x hx; have := hr.entries x hx; rwa [if_pos hreq] at this
    have htn : tl = [] := by
      cases tl with
      | nil => rfl
      | cons a b => exact absurd (hent a (by simp)).1 (htl a (by simp))
    subst htn
    obtain ⟨r0, d0, v0⟩ := e
    obtain ⟨h1, h2, h3⟩ := hent ⟨r0, d0, v0⟩ (by simp)
    simp only at h1 h2 h3
    subst h1; subst h2
    cases v0 with
    | none => simp at h3
    | some v => simp [nonNull_cons_some]
  · simp only [if_neg hreq]
    have hent : ∀ x ∈ e :: tl, x.dl ≤ c.maxDef ∧ x.rep ≤ c.maxRep ∧ (x.val.isSome ↔ x.dl = c.maxDef) := by
      intro x hx; have := hr.entries x hx; rwa [if_neg hreq] at this
    have hiff : ∀ x ∈ e :: tl, (x.val.isSome ↔ x.dl = c.maxDef) := fun x hx => (hent x hx).2.2
    have hcount := count_maxDef c.maxDef (e :: tl) hiff
    simp only [List.cons_append, List.map_cons]
    by_cases hrep : c.maxRep = 0
    · have htn : tl = [] := by
        cases tl with
        | nil => rfl
        | cons a b => exact absurd (by have := (hent a (by simp)).2.1; omega) (htl a (by simp))
      subst htn
      have hrt := entriesOf_roundtrip c.maxDef [e] [] (nonNull rest) hiff (Or.inr ⟨rfl, by simpa using he0⟩)
      rw [← nonNull_append] at hrt
      simp only [List.map_cons, List.map_nil, List.singleton_append] at hrt hcount
      simp only [if_pos hrep, show ¬ (c.maxRep > 0) by omega, if_false, List.nil_append, List.length_cons,
        show min 1 (List.length (List.map (fun x : Entry Bytes => x.dl) rest) + 1) = 1 by omega, List.take_succ_cons,
        List.take_zero, List.take_nil, hrt, hcount, List.drop_succ_cons, List.drop_zero, List.drop_nil]
      congr 3
      rw [show e :: rest = [e] ++ rest from rfl, nonNull_append]
      exact List.drop_left
    · have hrep' : c.maxRep > 0 := by omega
      have hstop : rest.map (·.rep) = [] ∨ ∃ a b, rest.map (·.rep) = a :: b ∧ (fun x : Nat => x != 0) a = false := by
        cases rest with
        | nil => exact Or.inl rfl
        | cons a b => exact Or.inr ⟨a.rep, b.map (·.rep), rfl, by simp [hrest a (by simp)]⟩
      obtain ⟨t1, _⟩ := takeWhile_dropWhile_append_stop (fun x : Nat => x != 0) (tl.map (·.rep)) (rest.map (·.rep))
        (by intro x hx; obtain ⟨y, hy, rfl⟩ := List.mem_map.mp hx; simpa using htl y hy) hstop
      have hrt := entriesOf_roundtrip c.maxDef (e :: tl) ((e :: tl).map (·.rep)) (nonNull rest) hiff (Or.inl rfl)
      rw [← nonNull_append] at hrt
      simp only [List.map_cons, List.cons_append] at hrt hcount
      simp only [if_neg hrep, if_pos hrep', List.map_append, List.tail_cons, t1, List.length_cons, List.length_map,
        List.length_append]
      have hmin : min (1 + tl.length) (tl.length + rest.length + 1) = tl.length + 1 := by omega
      have e1 : ∀ (f : Entry Bytes → Nat), (f e :: (tl.map f ++ rest.map f)).take (tl.length + 1) = f e :: tl.map f := by
        intro f
        rw [List.take_succ_cons, List.take_left' (by simp)]
      have e2 : ∀ (f : Entry Bytes → Nat), (f e :: (tl.map f ++ rest.map f)).drop (tl.length + 1) = rest.map f := by
        intro f
        rw [List.drop_succ_cons, List.drop_left' (by simp)]
      simp only [hmin, e1, e2, hrt, hcount]
      congr 3
      rw [show e :: (tl ++ rest) = (e :: tl) ++ rest from rfl, nonNull_append]
      exact List.drop_left

/-- the buffers of all columns holding the records `rs` -/
def bufsOf (cols : List Col) (rs : List Rec) : List ColBuf :=
  cols.zipIdx.map fun x => colBufOf x.1 (rs.flatMap (·.getD x.2 []))

/-- one delivered row: per column, the record's entries -/
def rowOf (n : Nat) (r : Rec) : List (List (Entry Bytes)) := (List.range n).map fun i => r.getD i []

theorem scanAll_record (r : Rec) (rs : List Rec) : ∀ (cols : List Col) (j : Nat),
    (∀ x ∈ cols.zipIdx j, RecRd x.1 (r.getD x.2 []) ∧ ∀ r' ∈ rs, RecEntries (r'.getD x.2 [])) →
    scanAllEntries cols ((cols.zipIdx j).map fun x => colBufOf x.1 ((r :: rs).flatMap (·.getD x.2 []))) =
      some ((List.range' j cols.length).map (fun i => r.getD i []),
            (cols.zipIdx j).map fun x => colBufOf x.1 (rs.flatMap (·.getD x.2 [])))
  | [], _, _ => rfl
  | c :: cs, j, h => by
    have hc := h (c, j) (by simp [List.zipIdx_cons])
    have ih := scanAll_record r rs cs (j + 1) (fun x hx => h x (by simp [List.zipIdx_cons, hx]))
    have h1 := scanEntries_record c (r.getD j []) (rs.flatMap (·.getD j [])) hc.1 (head_flatMap j rs hc.2)
    simp only [List.flatMap_cons] at ih
    simp only [List.zipIdx_cons, List.map_cons, scanAllEntries, List.head?_cons, Option.getD_some, List.flatMap_cons,
      h1, List.tail_cons, ih, List.length_cons, List.range'_succ]

theorem scanAll_bufsOf (cols : List Col) (r : Rec) (rs : List Rec)
    (h : ∀ r' ∈ r :: rs, ∀ x ∈ cols.zipIdx, RecRd x.1 (r'.getD x.2 [])) :
    scanAllEntries cols (bufsOf cols (r :: rs)) = some (rowOf cols.length r, bufsOf cols rs) := by
  have := scanAll_record r rs cols 0 (fun x hx =>
    ⟨h r List.mem_cons_self x hx, fun r' hr' => (h r' (List.mem_cons_of_mem _ hr') x hx).start⟩)
  rw [← List.range_eq_range'] at this
  exact this

/-! ## batches -/

theorem batch_flatten (cols : List Col) {max : Nat} (hmax : 1 ≤ max) (b : List Rec) (hb : b ≠ [])
    (hw : ∀ r ∈ b, r.length = cols.length) :
    ∀ x ∈ cols.zipIdx, (colEntries (chainOf max cols.length b) x.2).flatten = b.flatMap (·.getD x.2 []) := by
  intro x hx
  obtain ⟨c, i⟩ := x
  rw [colEntries_chain hmax cols.length i (List.mem_zipIdx' hx).1 b hb hw]
  have : ∀ cs : List (List Rec), (cs.map fun ck => ck.flatMap (·.getD i [])).flatten = cs.flatten.flatMap (·.getD i []) := by
    intro cs
    induction cs with
    | nil => rfl
    | cons c cs ih => simp only [List.map_cons, List.flatten_cons, List.flatMap_append, ih]
  rw [this, chunksOf_flatten hmax]

/-- what the reader needs of the row group of a batch -/
theorem batch_rd (dc : Decomp) (k : Codec) (cols : List Col) {max : Nat} (hmax : 1 ≤ max) (b : List Rec)
    (hb : b ≠ []) (hok : BatchOK dc k cols max b) :
    (batchPItems cols max b).map (·.1) = cols ∧
    (∀ p ∈ batchPItems cols max b, ∀ es ∈ p.2, PageRd dc k p.1 es) ∧
    (batchPItems cols max b).map (fun p => colBufOf p.1 p.2.flatten) = bufsOf cols b ∧
    (∀ r ∈ b, ∀ x ∈ cols.zipIdx, RecRd x.1 (r.getD x.2 [])) := by
  obtain ⟨h1, h2, _, _⟩ := batch_rg_ok dc k cols hmax b hb hok
  have hnf := chunksOf_NF hmax b hb
  have hbound : ∀ ck ∈ chunksOf max b, 1 ≤ ck.length ∧ ck.length ≤ max := by
    cases NF_bounds _ hnf with
    | inl h => exact h
    | inr h => omega
  refine ⟨h1, ?_, ?_, ?_⟩
  · intro p hp es hes
    refine ⟨(h2 p hp es hes).wf, (h2 p hp es hes).codec, ?_⟩
    obtain ⟨x, hx, rfl⟩ := List.mem_map.mp hp
    obtain ⟨c, i⟩ := x
    simp only at hes
    rw [colEntries_chain hmax cols.length i (List.mem_zipIdx' hx).1 b hb hok.width] at hes
    obtain ⟨ck, hck, rfl⟩ := List.mem_map.mp hes
    have hl := (hbound ck hck).1
    cases ck with
    | nil => simp at hl
    | cons r ck' =>
      obtain ⟨e, tl, he, _, _⟩ := hok.recs r (chunk_mem hmax b _ hck r List.mem_cons_self) (c, i) hx
      simp only at he
      rw [List.flatMap_cons, he]
      simp
  · unfold batchPItems bufsOf
    rw [List.map_map]
    apply List.map_congr_left
    intro x hx
    simp only [Function.comp, batch_flatten cols hmax b hb hok.width x hx]
  · intro r hr x hx
    refine ⟨hok.recs r hr x hx, ?_⟩
    rw [← chunksOf_flatten hmax b] at hr
    obtain ⟨ck, hck, hrck⟩ := List.mem_flatten.mp hr
    intro e he
    exact (hok.pages ck hck x hx).1.entries e (List.mem_flatMap.mpr ⟨r, hrck, he⟩)

/-- the row groups of a list of batches -/
def prgsOf (cols : List Col) (max : Nat) (bs : List (List Rec)) : List (Nat × List PItem) :=
  bs.map fun b => (b.length, batchPItems cols max b)

theorem histPrgs_eq (cols : List Col) (max : Nat) (body : List Op) : histPrgs cols max body = prgsOf cols max (batches body) := rfl

/-! ## `Next` -/

theorem next_within (st : RState) (h1 : st.err = false) (h2 : st.cursor < st.rows) (h3 : st.rgCursor < st.rgCount) :
    st.next = .ok (true, { st with cursor := st.cursor + 1, rgCursor := st.rgCursor + 1 }) := by
  unfold RState.next
  rw [if_neg (by simp [h1]; omega), if_neg (by omega)]

/-- a loaded row group that holds rows stops the skipping loop at once -/
theorem skipEmpty_nonempty (fuel : Nat) (st : RState) (h : st.rgCount ≠ 0) : st.skipEmpty fuel = .ok st := by
  cases fuel with
  | zero => rfl
  | succ f => rw [RState.skipEmpty, if_neg (by simp [h])]

/-- ... and so does the end of the row groups -/
theorem skipEmpty_nil (fuel : Nat) (st : RState) (h : st.rowGroups = []) : st.skipEmpty fuel = .ok st := by
  cases fuel with
  | zero => rfl
  | succ f => rw [RState.skipEmpty, if_neg (by simp [h])]

theorem next_load (st st' : RState) (h1 : st.err = false) (h2 : st.cursor < st.rows) (h3 : st.rgCursor ≥ st.rgCount)
    (h4 : st.readRowGroup = .ok st') (h5 : st'.rgCount ≠ 0) :
    st.next = .ok (true, { st' with cursor := st'.cursor + 1, rgCursor := st'.rgCursor + 1 }) := by
  unfold RState.next
  rw [if_neg (by simp [h1]; omega), if_pos h3, h4]
  simp only [skipEmpty_nonempty _ st' h5]

/-- the general form: the loaded row group may hold no rows, the skipping loop then runs on to `st''` -/
theorem next_load_skip (st st' st'' : RState) (h1 : st.err = false) (h2 : st.cursor < st.rows)
    (h3 : st.rgCursor ≥ st.rgCount) (h4 : st.readRowGroup = .ok st')
    (h5 : st'.skipEmpty st'.rowGroups.length = .ok st'') :
    st.next = .ok (true, { st'' with cursor := st''.cursor + 1, rgCursor := st''.rgCursor + 1 }) := by
  unfold RState.next
  rw [if_neg (by simp [h1]; omega), if_pos h3, h4]
  simp only [h5]

theorem next_done (st : RState) (h1 : st.err = false) (h2 : st.cursor ≥ st.rows) : st.next = .ok (false, st) := by
  unfold RState.next
  rw [if_pos (by simp [h1]; omega)]

theorem readLoop_step (fuel : Nat) (st st' : RState) (acc : List (List (List (Entry Bytes))))
    (row : List (List (Entry Bytes))) (bufs : List ColBuf) (hn : st.next = .ok (true, st')) (he : st'.err = false)
    (hf : st'.fieldsSet = true) (hs : scanAllEntries st'.cols st'.bufs = some (row, bufs)) :
    readLoop (fuel + 1) st acc = readLoop fuel { st' with bufs := bufs } (acc ++ [row]) := by
  rw [readLoop]
  simp only [hn, he, hf, hs, Bool.false_eq_true, if_false, Bool.not_true, false_and]

theorem readLoop_done (fuel : Nat) (st : RState) (acc : List (List (List (Entry Bytes))))
    (h1 : st.err = false) (h2 : st.cursor ≥ st.rows) : readLoop (fuel + 1) st acc = some acc := by
  rw [readLoop, next_done st h1 h2]
  simp only [h1, Bool.false_eq_true, if_false]

/-! ## the iteration -/

theorem prgsOf_cons (cols : List Col) (max : Nat) (b : List Rec) (bs : List (List Rec)) :
    prgsOf cols max (b :: bs) = (b.length, batchPItems cols max b) :: prgsOf cols max bs := rfl

theorem prgsOf_cols (dc : Decomp) (k : Codec) (cols : List Col) {max : Nat} (hmax : 1 ≤ max) (bs : List (List Rec))
    (hbs : ∀ b ∈ bs, b ≠ [] ∧ BatchOK dc k cols max b) : ∀ g ∈ prgsOf cols max bs, g.2.map (·.1) = cols := by
  intro g hg
  obtain ⟨b, hb, rfl⟩ := List.mem_map.mp hg
  exact (batch_rd dc k cols hmax b (hbs b hb).1 (hbs b hb).2).1

/-- loading the row group of batch `b`, the first of the remaining ones laid out from `pre.length` -/
theorem readRowGroup_batch (dc : Decomp) (k : Codec) (cols : List Col) {max : Nat} (hmax : 1 ≤ max)
    (hres : ColsResolve cols) (b : List Rec) (bs : List (List Rec))
    (hbs : ∀ b' ∈ b :: bs, b' ≠ [] ∧ BatchOK dc k cols max b') (pre post : Bytes) (N cu rc rn : Int)
    (bufs0 : List ColBuf) (fs : Bool) :
    RState.readRowGroup
        { cols := cols, dc := dc, src := Src.mk (pre ++ prgsBytes k (prgsOf cols max (b :: bs)) ++ post) pre.length,
          rows := N, cursor := cu, rgCursor := rc, rgCount := rn,
          pages := pagesFor cols.length k (prgsOf cols max (b :: bs)),
          rowGroups := fileMetas k (prgsOf cols max (b :: bs)) pre.length, bufs := bufs0, err := false, fieldsSet := fs } =
      .ok { cols := cols, dc := dc,
            src := Src.mk (pre ++ prgsBytes k (prgsOf cols max (b :: bs)) ++ post)
              (pre ++ pitemsBytes k (batchPItems cols max b)).length,
            rows := N, cursor := cu, rgCursor := 0, rgCount := (b.length : Nat),
            pages := pagesFor cols.length k (prgsOf cols max bs),
            rowGroups := fileMetas k (prgsOf cols max bs) (pre ++ pitemsBytes k (batchPItems cols max b)).length,
            bufs := bufsOf cols b, err := false, fieldsSet := true } := by
  obtain ⟨hb, hok⟩ := hbs b List.mem_cons_self
  obtain ⟨h1, h2, h3, _⟩ := batch_rd dc k cols hmax b hb hok
  have hfile : pre ++ prgsBytes k (prgsOf cols max (b :: bs)) ++ post =
      pre ++ pitemsBytes k (batchPItems cols max b) ++ (prgsBytes k (prgsOf cols max bs) ++ post) := by
    rw [prgsOf_cons, prgsBytes_cons]; simp only [List.append_assoc]
  have htl : (pagesFor cols.length k (prgsOf cols max bs)).length = cols.length := by
    apply pagesFor_length
    intro g hg
    rw [← prgsOf_cols dc k cols hmax bs (fun b' hb' => hbs b' (List.mem_cons_of_mem _ hb')) g hg, List.length_map]
  have := readRowGroup_rg dc k cols hres b.length (batchPItems cols max b) h1 h2 pre
    (prgsBytes k (prgsOf cols max bs) ++ post) (pagesFor cols.length k (prgsOf cols max bs)) htl
    (fileMetas k (prgsOf cols max bs) (pre.length + (pitemsBytes k (batchPItems cols max b)).length))
    N cu rc rn bufs0 false fs
  rw [← hfile, h3] at this
  simp only [prgsOf_cons, pagesFor, fileMetas, List.length_append] at this ⊢
  exact this

/-- **The `Next`/`Scan` loop.**  `rs`: the records of the loaded row group not yet delivered;
`bs`: the batches whose row groups are still to be loaded, laid out from `pre.length`. -/
theorem readLoop_inv (dc : Decomp) (k : Codec) (cols : List Col) {max : Nat} (hmax : 1 ≤ max) (hres : ColsResolve cols)
    (N : Int) (post : Bytes) :
    ∀ (bs : List (List Rec)), (∀ b ∈ bs, b ≠ [] ∧ BatchOK dc k cols max b) →
    ∀ (rs : List Rec), (∀ r ∈ rs, ∀ x ∈ cols.zipIdx, RecRd x.1 (r.getD x.2 [])) →
    ∀ (pre : Bytes) (cu rc rn : Int) (fuel : Nat) (acc : List (List (List (Entry Bytes)))),
      N = cu + (rs.length : Nat) + (((bs.map List.length).sum : Nat) : Int) →
      rn = rc + (rs.length : Nat) →
      rs.length + (bs.map List.length).sum < fuel →
      readLoop fuel
          { cols := cols, dc := dc, src := Src.mk (pre ++ prgsBytes k (prgsOf cols max bs) ++ post) pre.length,
            rows := N, cursor := cu, rgCursor := rc, rgCount := rn,
            pages := pagesFor cols.length k (prgsOf cols max bs),
            rowGroups := fileMetas k (prgsOf cols max bs) pre.length, bufs := bufsOf cols rs, err := false,
            fieldsSet := true } acc =
        some (acc ++ (rs ++ bs.flatten).map (rowOf cols.length)) := by
  intro bs
  induction bs with
  | nil =>
    intro _ rs
    induction rs with
    | nil =>
      intro _ pre cu rc rn fuel acc hN _ hf
      cases fuel with
      | zero => omega
      | succ f =>
        rw [readLoop_done f _ acc rfl (by simp at hN ⊢; omega)]
        simp
    | cons r rs ih =>
      intro hrs pre cu rc rn fuel acc hN hrn hf
      cases fuel with
      | zero => omega
      | succ f =>
        simp only [List.length_cons, Int.natCast_add, Int.natCast_one] at hN hrn hf
        have hnext := next_within { cols := cols, dc := dc, src := Src.mk (pre ++ prgsBytes k (prgsOf cols max []) ++ post) pre.length, rows := N, cursor := cu, rgCursor := rc, rgCount := rn, pages := pagesFor cols.length k (prgsOf cols max []), rowGroups := fileMetas k (prgsOf cols max []) pre.length, bufs := bufsOf cols (r :: rs), err := false, fieldsSet := true }
          rfl (by simp only; omega) (by simp only; omega)
        rw [readLoop_step f _ _ acc _ _ hnext rfl rfl (scanAll_bufsOf cols r rs hrs)]
        simp only
        rw [ih (fun r' hr' => hrs r' (List.mem_cons_of_mem _ hr')) pre (cu + 1) (rc + 1) rn f (acc ++ [rowOf cols.length r])
          (by omega) (by omega) (by omega)]
        simp
  | cons b bs ihb =>
    intro hbs rs
    have hbs' : ∀ b' ∈ bs, b' ≠ [] ∧ BatchOK dc k cols max b' := fun b' hb' => hbs b' (List.mem_cons_of_mem _ hb')
    induction rs with
    | nil =>
      intro _ pre cu rc rn fuel acc hN hrn hf
      obtain ⟨hb, hok⟩ := hbs b List.mem_cons_self
      obtain ⟨_, _, _, hrecs⟩ := batch_rd dc k cols hmax b hb hok
      cases b with
      | nil => exact absurd rfl hb
      | cons r b' =>
        cases fuel with
        | zero => omega
        | succ f =>
          simp only [List.length_nil, List.map_cons, List.sum_cons, List.length_cons, Int.natCast_add, Int.natCast_one,
            Int.natCast_zero, Int.add_zero] at hN hrn hf
          have hload := readRowGroup_batch dc k cols hmax hres (r :: b') bs hbs pre post N cu rc rn (bufsOf cols []) true
          have hnext := next_load _ _ rfl (by simp only; omega) (by simp only; omega) hload
            (by simp only [List.length_cons]; omega)
          rw [readLoop_step f _ _ acc _ _ hnext rfl rfl (scanAll_bufsOf cols r b' hrecs)]
          simp only
          have hfile2 : pre ++ prgsBytes k (prgsOf cols max ((r :: b') :: bs)) ++ post =
              (pre ++ pitemsBytes k (batchPItems cols max (r :: b'))) ++ prgsBytes k (prgsOf cols max bs) ++ post := by
            rw [prgsOf_cons, prgsBytes_cons]; simp only [List.append_assoc]
          have := ihb hbs' b' (fun r' hr' => hrecs r' (List.mem_cons_of_mem _ hr'))
            (pre ++ pitemsBytes k (batchPItems cols max (r :: b'))) (cu + 1) (0 + 1) ((r :: b').length : Nat) f
            (acc ++ [rowOf cols.length r]) (by omega) (by simp only [List.length_cons, Int.natCast_add, Int.natCast_one]; omega)
            (by omega)
          rw [← hfile2] at this
          rw [this]
          simp
    | cons r rs ih =>
      intro hrs pre cu rc rn fuel acc hN hrn hf
      cases fuel with
      | zero => omega
      | succ f =>
        simp only [List.length_cons, Int.natCast_add, Int.natCast_one] at hN hrn hf
        have hnext := next_within { cols := cols, dc := dc, src := Src.mk (pre ++ prgsBytes k (prgsOf cols max (b :: bs)) ++ post) pre.length, rows := N, cursor := cu, rgCursor := rc, rgCount := rn, pages := pagesFor cols.length k (prgsOf cols max (b :: bs)), rowGroups := fileMetas k (prgsOf cols max (b :: bs)) pre.length, bufs := bufsOf cols (r :: rs), err := false, fieldsSet := true }
          rfl (by simp only; omega) (by simp only; omega)
        rw [readLoop_step f _ _ acc _ _ hnext rfl rfl (scanAll_bufsOf cols r rs hrs)]
        simp only
        rw [ih (fun r' hr' => hrs r' (List.mem_cons_of_mem _ hr')) pre (cu + 1) (rc + 1) rn f (acc ++ [rowOf cols.length r])
          (by omega) (by omega) (by omega)]
        simp

/-! ## the whole file -/

/-- **C01 for the reader model, explicit form.**  Every `Close`d history of `Add`s and `Write`s whose
batches are `BatchOK`, read back with the generated reader: `Rows()` is the number of written
records, `Next()` is true exactly that many times, the `k`-th `Scan` consumes, for every column,
exactly the entries the `k`-th written record holds for it, and `Error()` is nil at the end.

`hres`: the joined column names are pairwise distinct (`ColsResolve`); `hsize`: the file is smaller
than 4 GiB; `hschema`: `schema()` does not panic. -/
theorem readAll_runWriter (dc : Decomp) (k : Codec) (cols : List Col) (max : Nat) (body : List Op)
    (hmax : 1 ≤ max) (hcols : cols ≠ []) (hres : ColsResolve cols) (hbody : ∀ op ∈ body, op.isClose = false)
    (hok : ∀ b ∈ batches body, BatchOK dc k cols max b)
    (hsize : (fileBytes (runWriter cols max k (body ++ [Op.close]))).length < 2 ^ 32)
    (se : List SElem) (hschema : schemaElems cols = some se) :
    readAllEntries cols dc (fileBytes (runWriter cols max k (body ++ [Op.close]))) =
      some (((((batches body).map List.length).sum : Nat) : Int),
            (batches body).flatten.map (fun r => (List.range cols.length).map fun i => r.getD i [])) := by
  have ot := PQ.C06.offsets_truthful hmax cols hcols k body hbody se hschema
  simp only at ot
  obtain ⟨_, _, hfile, _, _, _⟩ := ot
  have hne : ∀ b ∈ batches body, b ≠ [] := batchesAux_ne_nil body []
  have hbs : ∀ b ∈ batches body, b ≠ [] ∧ BatchOK dc k cols max b := fun b hb => ⟨hne b hb, hok b hb⟩
  have hdata : ((batches body).map (batchItems cols max k)).flatMap itemsBytes = prgsBytes k (prgsOf cols max (batches body)) := by
    unfold prgsBytes prgsOf pitemsBytes
    rw [List.flatMap_map, List.flatMap_map]
    simp only [batchItems_eq]
  have hrgs : rgTs k.id ((batches body).map fun b => (b.length, batchItems cols max k b)) 4 =
      rgTs k.id ((prgsOf cols max (batches body)).map fun g => (g.1, g.2.map (mkItem k))) 4 := by
    unfold prgsOf
    rw [List.map_map]
    simp only [batchItems_eq]
    rfl
  rw [hdata, hrgs] at hfile
  have hse : se ≠ [] := schemaElems_ne_nil cols se hschema
  generalize hN : ((batches body).map List.length).sum = N at hfile ⊢
  generalize hR : rgTs k.id ((prgsOf cols max (batches body)).map fun g => (g.1, g.2.map (mkItem k))) 4 = rgs at hfile
  have hrwf : ∀ t ∈ rgs, t.ecode = tStruct ∧ t.WF ∧ t.dep ≤ 5 := by rw [← hR]; exact rgTs_wf _ _ _
  have hrdec : rgs.mapM decRG = some (fileMetas k (prgsOf cols max (batches body)) 4) := by
    rw [← hR]; exact mapM_decRG_rgTs k _ 4
  change fileBytes (runWriter cols max k (body ++ [Op.close])) =
    par1 ++ prgsBytes k (prgsOf cols max (batches body)) ++
      ((footerOf se N rgs).enc ++ le32 (footerOf se N rgs).enc.length ++ par1) at hfile
  have hn : (footerOf se N rgs).enc.length < 2 ^ 32 := by
    rw [hfile] at hsize
    simp only [List.length_append] at hsize
    omega
  have hopen := openReader_layout dc k cols hres (prgsOf cols max (batches body))
    (prgsOf_cols dc k cols hmax _ hbs) se hse N rgs hrwf hrdec _ _ hfile hn
  generalize hpost : (footerOf se N rgs).enc ++ le32 (footerOf se N rgs).enc.length ++ par1 = post at hfile
  generalize fileBytes (runWriter cols max k (body ++ [Op.close])) = file at hfile hopen ⊢
  subst hfile
  unfold readAllEntries
  rw [hopen]
  have hp4 : par1.length = 4 := rfl
  generalize hB : batches body = bs at hbs hN hopen ⊢
  cases bs with
  | nil =>
    simp only [List.map_nil, List.sum_nil] at hN
    subst hN
    simp only [prgsOf, List.map_nil, fileMetas, RState.readRowGroup]
    rw [show ((((0 : Nat) : Int) + 3).toNat) = 2 + 1 by rfl, readLoop_done 2 _ [] rfl (by simp)]
    simp
  | cons b bs' =>
    have hload := readRowGroup_batch dc k cols hmax hres b bs' hbs par1 post (N : Int) 0 0 0
      (List.replicate cols.length {}) false
    rw [hp4] at hload
    rw [hload]
    simp only
    have hfile2 : par1 ++ prgsBytes k (prgsOf cols max (b :: bs')) ++ post =
        (par1 ++ pitemsBytes k (batchPItems cols max b)) ++ prgsBytes k (prgsOf cols max bs') ++ post := by
      rw [prgsOf_cons, prgsBytes_cons]; simp only [List.append_assoc]
    obtain ⟨_, _, _, hrecs⟩ := batch_rd dc k cols hmax b (hbs b List.mem_cons_self).1 (hbs b List.mem_cons_self).2
    simp only [List.map_cons, List.sum_cons] at hN
    have := readLoop_inv dc k cols hmax hres (N : Int) post bs' (fun b' hb' => hbs b' (List.mem_cons_of_mem _ hb')) b hrecs
      (par1 ++ pitemsBytes k (batchPItems cols max b)) 0 0 (b.length : Nat) (((N : Int) + 3).toNat) []
      (by rw [← hN]; simp) (by simp) (by omega)
    rw [← hfile2] at this
    rw [this]
    have hrow : rowOf cols.length = fun r : Rec => (List.range cols.length).map fun i => r.getD i [] := rfl
    rw [hrow]
    simp

/-- **C01 for the reader model, with hypotheses on the added records** (the hypotheses of
`parseFile_runWriter_records`, minus the schema-decoding ones the reader does not look at, plus
`hres`: the joined column names are pairwise distinct). -/
theorem readAll_runWriter_records (dc : Decomp) (k : Codec) (cols : List Col) (max : Nat) (body : List Op)
    (hmax : 1 ≤ max) (hcols : cols ≠ []) (hres : ColsResolve cols) (hbody : ∀ op ∈ body, op.isClose = false)
    (hrec : ∀ r, Op.add r ∈ body → r.length = cols.length ∧ ∀ x ∈ cols.zipIdx, RecColOK x.1 (r.getD x.2 []))
    (hdef : ∀ c ∈ cols, c.maxDef ≤ 15)
    (hlen : ∀ b ∈ batches body, ∀ x ∈ cols.zipIdx, (b.flatMap (·.getD x.2 [])).length + 8 ≤ 2 ^ 30)
    (hcodec : ∀ raw, CodecOK dc k (k.id : Int) raw)
    (hsize : (fileBytes (runWriter cols max k (body ++ [Op.close]))).length < 2 ^ 32)
    (se : List SElem) (hschema : schemaElems cols = some se) :
    readAllEntries cols dc (fileBytes (runWriter cols max k (body ++ [Op.close]))) =
      some (((((batches body).map List.length).sum : Nat) : Int),
            (batches body).flatten.map (fun r => (List.range cols.length).map fun i => r.getD i [])) := by
  apply readAll_runWriter dc k cols max body hmax hcols hres hbody _ hsize se hschema
  intro b hb
  exact batchOK_of_records dc k cols hmax b
    (fun r hr => (hrec r (mem_batches_added body b hb r hr)).1)
    (fun r hr => (hrec r (mem_batches_added body b hb r hr)).2)
    hdef (hlen b hb) hcodec

/-! ## from entries back to values -/

/-- a `RequiredField`'s striping is the single entry `⟨0, 0, some x⟩`, and `x` is the value -/
theorem stripe_required_value {α : Type} : ∀ (ts : List Rep), (∀ t ∈ ts, t = Rep.req) → ∀ (v : Proj α ts),
    ∃ x : α, stripeTop ts v = [⟨0, 0, some x⟩] ∧ zeroProj x ts = v
  | [], _, v => ⟨v, rfl, rfl⟩
  | .req :: ts, h, v => stripe_required_value ts (fun t ht => h t (List.mem_cons_of_mem _ ht)) v
  | .opt :: ts, h, _ => absurd (h .opt List.mem_cons_self) (by decide)
  | .rpt :: ts, h, _ => absurd (h .rpt List.mem_cons_self) (by decide)

/-- **What `Scan` writes into the record** when the entries it consumed are the Dremel striping of
the projection `v` (what `Add` stores for a value, C03): exactly `v` (`PQ.C03.assemble_stripe`). -/
theorem scanText_stripe (c : Col) (showP : (ts : List Rep) → Proj Bytes ts → String) (v : Proj Bytes c.reps) :
    scanText c showP (stripeTop c.reps v) = showP c.reps v := by
  by_cases hreq : c.isRequired = true
  · have hall : ∀ t ∈ c.reps, t = Rep.req := by
      intro t ht
      have := List.all_eq_true.mp hreq t ht
      cases t <;> first | rfl | exact absurd this (by decide)
    obtain ⟨x, hx, hz⟩ := stripe_required_value c.reps hall v
    rw [hx]
    simp only [scanText, if_pos hreq, Option.getD_some, hz]
  · obtain ⟨e, tl, he, _, _⟩ := PQ.C03.first_rep_zero c.reps v
    have ha := PQ.C03.assemble_stripe_nil c.reps v
    rw [he] at ha ⊢
    simp only [scanText, if_neg hreq, ha]

/-- `Next()` is true exactly `Rows()` times: the number of delivered rows is the number of written records -/
theorem readAll_runWriter_counts (dc : Decomp) (k : Codec) (cols : List Col) (max : Nat) (body : List Op)
    (hmax : 1 ≤ max) (hcols : cols ≠ []) (hres : ColsResolve cols) (hbody : ∀ op ∈ body, op.isClose = false)
    (hok : ∀ b ∈ batches body, BatchOK dc k cols max b)
    (hsize : (fileBytes (runWriter cols max k (body ++ [Op.close]))).length < 2 ^ 32)
    (se : List SElem) (hschema : schemaElems cols = some se) :
    ∃ rows, readAllEntries cols dc (fileBytes (runWriter cols max k (body ++ [Op.close]))) =
        some (((((batches body).map List.length).sum : Nat) : Int), rows) ∧
      rows.length = ((batches body).map List.length).sum := by
  refine ⟨_, readAll_runWriter dc k cols max body hmax hcols hres hbody hok hsize se hschema, ?_⟩
  rw [List.length_map, List.length_flatten]

/-! ## `ColsResolve` is checkable -/

def colsResolveB (cols : List Col) : Bool :=
  (List.range cols.length).all fun i =>
    match cols[i]? with
    | some c => colIndex cols (pathName (c.path.map strBytes)) == some i
    | none => true

theorem colsResolve_of_check (cols : List Col) (h : colsResolveB cols = true) : ColsResolve cols := by
  intro i c hc
  have hi : i < cols.length := by
    rcases Nat.lt_or_ge i cols.length with h | h
    · exact h
    · rw [List.getElem?_eq_none h] at hc; exact absurd hc (by simp)
  have := List.all_eq_true.mp h i (List.mem_range.mpr hi)
  rw [hc] at this
  simpa using this

/-! ## Non-vacuity: two columns, `max = 2`, history add, add, add, write, write, add, close -/
section NonVacuity

private def rxCols : List Col :=
  [{ path := ["a"], reps := [.req], ty := .i32 }, { path := ["b"], reps := [.rpt], ty := .i32 }]
private def rxCodec : Codec := { id := 0, compress := id }
private def rxDc : Decomp := { snappy := fun _ => none, gzip := fun _ => none }
/-- record `k`: `a = k`, `b = [k, k + 256]` for even `k` and `[]` for odd `k` -/
private def rxRec (k : Nat) : Rec :=
  [[{ rep := 0, dl := 0, val := some [k, 0, 0, 0] }],
   if k % 2 = 0 then [{ rep := 0, dl := 1, val := some [k, 0, 0, 0] }, { rep := 1, dl := 1, val := some [k, 1, 0, 0] }]
   else [{ rep := 0, dl := 0, val := none }]]
private def rxBody : List Op :=
  [.add (rxRec 1), .add (rxRec 2), .add (rxRec 3), .write, .write, .add (rxRec 4), .add (rxRec 5), .write, .add (rxRec 6)]
private def rxSe : List SElem :=
  [{ name := "root", numChildren := some 2 }, { name := "a", ty := some 1, rep := some 0 },
   { name := "b", ty := some 1, rep := some 2 }]

private theorem rx_batches : batches rxBody = [[rxRec 1, rxRec 2, rxRec 3], [rxRec 4, rxRec 5]] := by decide

private theorem rx_ok : ∀ b ∈ batches rxBody, BatchOK rxDc rxCodec rxCols 2 b := by
  rw [rx_batches]
  intro b hb
  have hx' : ∀ x ∈ rxCols.zipIdx, x = (⟨["a"], [.req], .i32⟩, 0) ∨ x = (⟨["b"], [.rpt], .i32⟩, 1) := by
    intro x hx; simpa [rxCols] using hx
  have hb' : b = [rxRec 1, rxRec 2, rxRec 3] ∨ b = [rxRec 4, rxRec 5] := by simpa using hb
  rcases hb' with rfl | rfl
  · apply batchOK_of_records rxDc rxCodec rxCols (by decide)
    · decide
    · intro r hr x hx
      have hr' : r = rxRec 1 ∨ r = rxRec 2 ∨ r = rxRec 3 := by simpa using hr
      rcases hx' x hx with rfl | rfl <;> rcases hr' with rfl | rfl | rfl <;>
        exact ⟨⟨_, _, rfl, rfl, by simp⟩, by decide, by decide⟩
    · decide
    · intro x hx
      rcases hx' x hx with rfl | rfl <;> decide
    · intro raw; exact Or.inl ⟨rfl, rfl⟩
  · apply batchOK_of_records rxDc rxCodec rxCols (by decide)
    · decide
    · intro r hr x hx
      have hr' : r = rxRec 4 ∨ r = rxRec 5 := by simpa using hr
      rcases hx' x hx with rfl | rfl <;> rcases hr' with rfl | rfl <;>
        exact ⟨⟨_, _, rfl, rfl, by simp⟩, by decide, by decide⟩
    · decide
    · intro x hx
      rcases hx' x hx with rfl | rfl <;> decide
    · intro raw; exact Or.inl ⟨rfl, rfl⟩

/-- the theorem applied: two row groups (pages of 2 + 1 and of 2 records), an empty `Write`, a record
pending at `Close`: the reader reports 5 rows and delivers the five written records, in order -/
example : readAllEntries rxCols rxDc (fileBytes (runWriter rxCols 2 rxCodec (rxBody ++ [Op.close]))) =
    some (5, [rxRec 1, rxRec 2, rxRec 3, rxRec 4, rxRec 5]) := by
  have := readAll_runWriter rxDc rxCodec rxCols 2 rxBody (by decide) (by decide)
    (colsResolve_of_check _ (by decide +kernel)) (by decide) rx_ok (by decide +kernel) rxSe (by decide +kernel)
  rw [rx_batches] at this
  exact this

end NonVacuity

/-! ## the text driver `readAll` is a function of `readAllEntries` -/

/-- the text of one delivered row -/
def rowText (cols : List Col) (row : List (List (Entry Bytes))) : String :=
  "|".intercalate (List.zipWith (fun c es => scanText c showProj es) cols row)

theorem scanAll_go_eq : ∀ (cols : List Col) (bufs : List ColBuf),
    scanAll.go cols bufs =
      (scanAllEntries cols bufs).map fun x => (List.zipWith (fun c es => scanText c showProj es) cols x.1, x.2)
  | [], _ => rfl
  | c :: cs, bufs => by
    rw [scanAll.go, scanAllEntries, scanCol_eq, scanAll_go_eq cs bufs.tail]
    cases scanEntries c (bufs.head?.getD {}) with
    | none => rfl
    | some p =>
      obtain ⟨es, b⟩ := p
      simp only [Option.map_some]
      cases scanAllEntries cs bufs.tail with
      | none => rfl
      | some q => rfl

theorem scanAll_eq (cols : List Col) (bufs : List ColBuf) :
    scanAll cols bufs = (scanAllEntries cols bufs).map fun x => (rowText cols x.1, x.2) := by
  unfold scanAll
  rw [scanAll_go_eq]
  cases scanAllEntries cols bufs with
  | none => rfl
  | some q => rfl

theorem readRowGroup_go_cols : ∀ (chs : List ChunkMeta) (st st' : RState),
    RState.readRowGroup.go chs st = .ok st' → st'.cols = st.cols
  | [], st, st', h => by
    simp only [RState.readRowGroup.go, Except.ok.injEq] at h
    rw [← h]
  | ch :: chs, st, st', h => by
    rw [RState.readRowGroup.go] at h
    split at h
    · exact absurd h (by simp)
    · split at h
      · exact absurd h (by simp)
      · split at h
        · simp only [Except.ok.injEq] at h; rw [← h]
        · split at h
          · exact absurd h (by simp)
          · split at h
            · exact absurd h (by simp)
            · have := readRowGroup_go_cols chs _ st' h
              exact this

theorem readRowGroup_cols (st st' : RState) (h : st.readRowGroup = .ok st') : st'.cols = st.cols := by
  unfold RState.readRowGroup at h
  split at h
  · simp only [Except.ok.injEq] at h; rw [← h]
  · simp only at h
    split at h
    · exact absurd h (by simp)
    · next st2 hgo =>
      simp only [Except.ok.injEq] at h
      rw [← h]
      have := readRowGroup_go_cols _ _ _ hgo
      exact this

theorem skipEmpty_cols : ∀ (fuel : Nat) (st st' : RState), st.skipEmpty fuel = .ok st' → st'.cols = st.cols
  | 0, st, st', h => by simp only [RState.skipEmpty, Except.ok.injEq] at h; rw [← h]
  | fuel+1, st, st', h => by
    rw [RState.skipEmpty] at h
    split at h
    · cases hr : st.readRowGroup with
      | error e => rw [hr] at h; exact absurd h (by simp)
      | ok st2 =>
        rw [hr] at h
        simp only at h
        rw [skipEmpty_cols fuel st2 st' h, readRowGroup_cols _ _ hr]
    · simp only [Except.ok.injEq] at h; rw [← h]

theorem next_cols (st st' : RState) (b : Bool) (h : st.next = .ok (b, st')) : st'.cols = st.cols := by
  unfold RState.next at h
  split at h
  · simp only [Except.ok.injEq, Prod.mk.injEq] at h; rw [← h.2]
  · simp only at h
    by_cases hc : st.rgCursor ≥ st.rgCount
    · rw [if_pos hc] at h
      cases hr : st.readRowGroup with
      | error e =>
        rw [hr] at h
        cases e with
        | panic => exact absurd h (by simp)
        | err => simp only [Except.ok.injEq, Prod.mk.injEq] at h; rw [← h.2]
      | ok st2 =>
        rw [hr] at h
        simp only at h
        cases hs : st2.skipEmpty st2.rowGroups.length with
        | error e =>
          rw [hs] at h
          cases e with
          | panic => exact absurd h (by simp)
          | err => simp only [Except.ok.injEq, Prod.mk.injEq] at h; rw [← h.2]
        | ok st3 =>
          rw [hs] at h
          simp only [Except.ok.injEq, Prod.mk.injEq] at h
          rw [← h.2]
          show st3.cols = st.cols
          rw [skipEmpty_cols _ _ _ hs, readRowGroup_cols _ _ hr]
    · rw [if_neg hc] at h
      simp only [Except.ok.injEq, Prod.mk.injEq] at h
      rw [← h.2]

/-- whenever the entry-level loop succeeds, the text loop ends with status `ok`, as many `Next`s and
the texts of the same rows -/
theorem readAll_loop_of_readLoop : ∀ (fuel : Nat) (st : RState) (acc res : List (List (List (Entry Bytes)))) (k : Nat)
    (recs : List String), readLoop fuel st acc = some res →
    ∃ rows, res = acc ++ rows ∧
      readAll.loop fuel st k recs = ("ok", k + rows.length, recs ++ rows.map (rowText st.cols))
  | 0, _, _, _, _, _, h => by simp [readLoop] at h
  | fuel+1, st, acc, res, k, recs, h => by
    rw [readLoop] at h
    rw [readAll.loop]
    cases hn : st.next with
    | error e => rw [hn] at h; exact absurd h (by simp)
    | ok p =>
      obtain ⟨b, st'⟩ := p
      have hc := next_cols st st' b hn
      rw [hn] at h
      cases b with
      | false =>
        simp only at h ⊢
        cases he : st'.err with
        | true => rw [he] at h; exact absurd h (by simp)
        | false =>
          rw [he] at h
          simp only [Bool.false_eq_true, if_false, Option.some.injEq] at h ⊢
          exact ⟨[], by simp [h], by simp⟩
      | true =>
        simp only at h ⊢
        cases he : st'.err with
        | true => rw [he] at h; exact absurd h (by simp)
        | false =>
          rw [he] at h
          simp only [Bool.false_eq_true, if_false] at h ⊢
          by_cases hf : (!st'.fieldsSet) = true ∧ (!st'.cols.isEmpty) = true
          · rw [if_pos hf] at h; exact absurd h (by simp)
          · rw [if_neg hf] at h ⊢
            rw [scanAll_eq]
            cases hs : scanAllEntries st'.cols st'.bufs with
            | none => rw [hs] at h; exact absurd h (by simp)
            | some q =>
              obtain ⟨row, bufs⟩ := q
              rw [hs] at h
              simp only [Option.map_some] at h ⊢
              obtain ⟨rows, hr, hl⟩ := readAll_loop_of_readLoop fuel _ (acc ++ [row]) res (k + 1)
                (recs ++ [rowText st'.cols row]) h
              refine ⟨row :: rows, by rw [hr]; simp, ?_⟩
              rw [hl]
              simp only [hc, List.length_cons, List.map_cons, List.append_assoc, List.singleton_append, Nat.add_assoc,
                Nat.add_comm 1]

theorem openReader_cols (cols : List Col) (dc : Decomp) (file : Bytes) (st : RState)
    (ho : openReader cols dc file = .ok st) : st.cols = cols := by
  unfold openReader at ho
  split at ho
  · exact absurd ho (by simp)
  · split at ho
    · exact absurd ho (by simp)
    · simp only at ho
      split at ho
      · exact absurd ho (by simp)
      · split at ho
        · exact absurd ho (by simp)
        · split at ho
          · exact absurd ho (by simp)
          · split at ho
            · exact absurd ho (by simp)
            · have := readRowGroup_cols _ _ ho
              exact this

theorem status_literal : " err=" ++ "ok" ++ " recs=" = " err=ok recs=" := by decide

theorem status_line (a X : String) :
    a ++ toString " err=" ++ toString "ok" ++ toString " recs=" ++ X = a ++ toString " err=ok recs=" ++ X := by
  show a ++ " err=" ++ "ok" ++ " recs=" ++ X = a ++ " err=ok recs=" ++ X
  rw [← status_literal]
  simp only [String.append_assoc]

/-- **The text driver is determined by `readAllEntries`**: whenever the latter succeeds with `n` rows
`rows`, `readAll` (whose output is compared with the Go program's on every run) prints `open=ok`,
`rows=n`, one `Next` per row, `err=ok`, and the `Scan` text of each row. -/
theorem readAll_of_entries (cols : List Col) (dc : Decomp) (file : Bytes) (n : Int)
    (rows : List (List (List (Entry Bytes)))) (h : readAllEntries cols dc file = some (n, rows)) :
    readAll cols dc file =
      s!"open=ok rows={n} nexts={rows.length} err=ok recs={if (rows.map (rowText cols)).isEmpty then "-" else ";".intercalate (rows.map (rowText cols))}" := by
  unfold readAllEntries at h
  unfold readAll
  cases ho : openReader cols dc file with
  | error e => rw [ho] at h; exact absurd h (by simp)
  | ok st =>
    rw [ho] at h
    simp only [Option.map_eq_some_iff, Prod.mk.injEq] at h
    obtain ⟨res, hl, hn, hres⟩ := h
    obtain ⟨rows', hr, hloop⟩ := readAll_loop_of_readLoop _ st [] res 0 [] hl
    have hcols : st.cols = cols := openReader_cols cols dc file st ho
    simp only [List.nil_append] at hr hloop
    subst hr
    subst hres
    subst hn
    simp only [hloop, hcols, Nat.zero_add]
    exact status_line _ _

/-- **C01 on the line the harness compares with the Go program**: for the writer's file the text driver
prints `open=ok`, `rows=` the number of written records, as many `Next`s, `err=ok`, and per record the
texts `Scan` produces from exactly the record's entries (for striped projections: the projections
themselves, `scanText_stripe`). -/
theorem readAll_text_runWriter (dc : Decomp) (k : Codec) (cols : List Col) (max : Nat) (body : List Op)
    (hmax : 1 ≤ max) (hcols : cols ≠ []) (hres : ColsResolve cols) (hbody : ∀ op ∈ body, op.isClose = false)
    (hok : ∀ b ∈ batches body, BatchOK dc k cols max b)
    (hsize : (fileBytes (runWriter cols max k (body ++ [Op.close]))).length < 2 ^ 32)
    (se : List SElem) (hschema : schemaElems cols = some se) :
    let recs := (batches body).flatten.map fun r => rowText cols ((List.range cols.length).map fun i => r.getD i [])
    readAll cols dc (fileBytes (runWriter cols max k (body ++ [Op.close]))) =
      s!"open=ok rows={((((batches body).map List.length).sum : Nat) : Int)} nexts={((batches body).map List.length).sum} err=ok recs={if recs.isEmpty then "-" else ";".intercalate recs}" := by
  intro recs
  have h := readAll_of_entries cols dc _ _ _ (readAll_runWriter dc k cols max body hmax hcols hres hbody hok hsize se hschema)
  rw [h]
  simp only [List.length_map, List.length_flatten, List.map_map]
  rfl

end PQ
