import PQ.Model.Thrift
/-! # Thrift compact protocol: round trip, byte range, prefix strictness, fuel monotonicity -/
namespace PQ.Thrift
open PQ

theorem uvar_length_pos (n : Nat) : 0 < (uvar n).length := by
  unfold uvar; split <;> simp

theorem readUvar_uvar (n : Nat) (rest : Bytes) (fuel : Nat) (hf : (uvar n).length ≤ fuel) :
    readUvar fuel (uvar n ++ rest) = some (n, rest) := by
  induction n using Nat.strongRecOn generalizing fuel with
  | _ n ih =>
    unfold uvar at hf ⊢
    by_cases h : n < 128
    · rw [dif_pos h] at hf ⊢
      cases fuel with
      | zero => simp at hf
      | succ f => simp [readUvar, h]
    · rw [dif_neg h] at hf ⊢
      cases fuel with
      | zero => simp at hf
      | succ f =>
        have := ih (n / 128) (by omega) f (by simpa using hf)
        simp only [List.cons_append, readUvar]
        have h1 : ¬ (n % 128 + 128 < 128) := by omega
        rw [if_neg h1, this]
        simp only [Option.some.injEq, Prod.mk.injEq, and_true]
        omega

theorem readUvar_uvar' (n : Nat) (rest : Bytes) :
    readUvar (uvar n ++ rest).length (uvar n ++ rest) = some (n, rest) :=
  readUvar_uvar n rest _ (by simp)

theorem unzig_zig (i : Int) : unzig (zig i) = i := by
  unfold zig unzig
  by_cases h : i ≥ 0
  · rw [if_pos h]
    have : 2 * i.toNat % 2 = 0 := by omega
    rw [if_pos this]
    have : 2 * i.toNat / 2 = i.toNat := by omega
    rw [this]; omega
  · rw [if_neg h]
    have : ¬ ((2 * (-i - 1).toNat + 1) % 2 = 0) := by omega
    rw [if_neg this]
    have : (2 * (-i - 1).toNat + 1) / 2 = (-i - 1).toNat := by omega
    rw [this]; omega

def okCode (c : Nat) : Prop := c = tTrue ∨ c = tI32 ∨ c = tI64 ∨ c = tBin ∨ c = tList ∨ c = tStruct

/-- code used when the value is decoded in element position -/
def TVal.ecode : TVal → Nat
  | .bool _ => tTrue
  | v => v.code

mutual
def TVal.WF : TVal → Prop
  | .bool _ => True
  | .int ty _ => ty = tI32 ∨ ty = tI64
  | .bin _ => True
  | .list ety xs => okCode ety ∧ WFList ety xs
  | .struct fs => WFFields 0 fs
def WFList (ety : Nat) : List TVal → Prop
  | [] => True
  | x :: xs => x.ecode = ety ∧ x.WF ∧ WFList ety xs
def WFFields : Nat → List (Nat × TVal) → Prop
  | _, [] => True
  | last, (id, v) :: fs => last < id ∧ v.WF ∧ WFFields id fs
end

mutual
def TVal.size : TVal → Nat
  | .bool _ => 1
  | .int _ _ => 1
  | .bin _ => 1
  | .list _ xs => 1 + sizeList xs
  | .struct fs => 1 + sizeFields fs
def sizeList : List TVal → Nat
  | [] => 0
  | x :: xs => 1 + x.size + sizeList xs
def sizeFields : List (Nat × TVal) → Nat
  | [] => 1
  | (_, v) :: fs => 1 + v.size + sizeFields fs
end

theorem fieldHeader_short (last id code : Nat) (h : last < id ∧ id - last ≤ 15) :
    fieldHeader last id code = [(id - last) * 16 + code] := by
  unfold fieldHeader; rw [if_pos h]

theorem fieldHeader_long (last id code : Nat) (h : ¬ (last < id ∧ id - last ≤ 15)) :
    fieldHeader last id code = code :: uvar (zig id) := by
  unfold fieldHeader; rw [if_neg h]


theorem okCode_lt (c : Nat) (h : okCode c) : c < 16 ∧ c ≠ 0 ∧ c ≠ tFalse := by
  unfold okCode tTrue tI32 tI64 tBin tList tStruct at h
  unfold tFalse
  omega

theorem code_ok (v : TVal) (hv : v.WF) : v.code < 16 ∧ v.code ≠ 0 := by
  cases v with
  | bool b => cases b <;> simp [TVal.code, tTrue, tFalse]
  | int ty n =>
    have : ty = tI32 ∨ ty = tI64 := by simpa [TVal.WF] using hv
    simp only [TVal.code]; unfold tI32 tI64 at this; omega
  | bin bs => simp [TVal.code, tBin]
  | list e xs => simp [TVal.code, tList]
  | struct fs => simp [TVal.code, tStruct]

/-- decoding a field header -/
theorem header_dec (last id code : Nat) (hlt : last < id) (hc : code < 16) (hc0 : code ≠ 0) (rest : Bytes) :
    ∃ h r, fieldHeader last id code ++ rest = h :: r ∧ h ≠ 0 ∧ h % 16 = code ∧
      readFieldId last h r = some (id, rest) := by
  by_cases hs : last < id ∧ id - last ≤ 15
  · rw [fieldHeader_short _ _ _ hs]
    refine ⟨(id - last) * 16 + code, rest, rfl, by omega, by omega, ?_⟩
    have : ((id - last) * 16 + code) / 16 = id - last := by omega
    unfold readFieldId
    rw [this, if_neg (by omega)]
    simp only [Option.some.injEq, Prod.mk.injEq, and_true]; omega
  · rw [fieldHeader_long _ _ _ hs]
    refine ⟨code, uvar (zig id) ++ rest, rfl, hc0, by omega, ?_⟩
    have : code / 16 = 0 := by omega
    unfold readFieldId
    rw [this, if_pos rfl, readUvar_uvar']
    simp [unzig_zig]

mutual
theorem decVal_enc : (v : TVal) → v.WF → ∀ (fuel : Nat) (rest : Bytes), v.size ≤ fuel →
    decVal v.ecode fuel (v.enc ++ rest) = some (v, rest)
  | .bool b, _, fuel, rest, hf => by
    cases fuel with
    | zero => simp [TVal.size] at hf
    | succ f => cases b <;> simp [TVal.ecode, TVal.enc, decVal, tTrue]
  | .int ty n, hv, fuel, rest, hf => by
    cases fuel with
    | zero => simp [TVal.size] at hf
    | succ f =>
      have hty : ty = tI32 ∨ ty = tI64 := by simpa [TVal.WF] using hv
      have h1 : ¬ (ty = tTrue ∨ ty = tFalse) := by unfold tI32 tI64 at hty; unfold tTrue tFalse; omega
      simp only [TVal.ecode, TVal.code, TVal.enc]
      unfold decVal
      rw [if_neg h1, if_pos hty, readUvar_uvar']
      simp [unzig_zig]
  | .bin bs, _, fuel, rest, hf => by
    cases fuel with
    | zero => simp [TVal.size] at hf
    | succ f =>
      simp only [TVal.ecode, TVal.code, TVal.enc, List.append_assoc]
      unfold decVal
      rw [if_neg (by unfold tBin tTrue tFalse; omega), if_neg (by unfold tBin tI32 tI64; omega), if_pos rfl,
        readUvar_uvar']
      simp
  | .list ety xs, hv, fuel, rest, hf => by
    cases fuel with
    | zero => simp [TVal.size] at hf
    | succ f =>
      have hv' : okCode ety ∧ WFList ety xs := by simpa [TVal.WF] using hv
      obtain ⟨hok, hwl⟩ := hv'
      obtain ⟨h16, h0, hnf⟩ := okCode_lt ety hok
      have hf' : sizeList xs ≤ f := by simp only [TVal.size] at hf; omega
      have ih := decList_enc ety xs hwl f rest hf'
      have hety : (if ety = tTrue ∨ ety = tFalse then tTrue else ety) = ety := by
        by_cases h : ety = tTrue
        · simp [h]
        · simp [h, hnf]
      simp only [TVal.ecode, TVal.code, TVal.enc, hety, List.append_assoc]
      unfold decVal
      rw [if_neg (by unfold tList tTrue tFalse; omega), if_neg (by unfold tList tI32 tI64; omega),
        if_neg (by unfold tList tBin; omega), if_pos rfl]
      unfold listHeader
      by_cases hn : xs.length < 15
      · rw [if_pos hn]
        have e1 : (xs.length * 16 + ety) % 16 = ety := by omega
        have e2 : (xs.length * 16 + ety) / 16 = xs.length := by omega
        simp only [List.cons_append, List.nil_append, e1, e2]
        rw [if_neg (by omega)]
        simp only [ih]
      · rw [if_neg hn]
        have e1 : (15 * 16 + ety) % 16 = ety := by omega
        have e2 : (15 * 16 + ety) / 16 = 15 := by omega
        simp only [List.cons_append, e1, e2, if_true, readUvar_uvar', ih]
  | .struct fs, hv, fuel, rest, hf => by
    cases fuel with
    | zero => simp [TVal.size] at hf
    | succ f =>
      have hv' : WFFields 0 fs := by simpa [TVal.WF] using hv
      have hf' : sizeFields fs ≤ f := by simp only [TVal.size] at hf; omega
      have ih := decFields_enc 0 fs hv' f rest hf'
      simp only [TVal.ecode, TVal.code, TVal.enc]
      unfold decVal
      rw [if_neg (by unfold tStruct tTrue tFalse; omega), if_neg (by unfold tStruct tI32 tI64; omega),
        if_neg (by unfold tStruct tBin; omega), if_neg (by unfold tStruct tList; omega), if_pos rfl, ih]
theorem decList_enc : (ety : Nat) → (xs : List TVal) → WFList ety xs → ∀ (fuel : Nat) (rest : Bytes),
    sizeList xs ≤ fuel → decList ety xs.length fuel (encList xs ++ rest) = some (xs, rest)
  | _, [], _, fuel, rest, _ => by cases fuel <;> simp [decList, encList]
  | ety, x :: xs, hw, fuel, rest, hf => by
    cases fuel with
    | zero => simp [sizeList] at hf
    | succ f =>
      have hw' : x.ecode = ety ∧ x.WF ∧ WFList ety xs := by simpa [WFList] using hw
      obtain ⟨hc, hx, hxs⟩ := hw'
      simp only [sizeList] at hf
      have i1 := decVal_enc x hx f (encList xs ++ rest) (by omega)
      have i2 := decList_enc ety xs hxs f rest (by omega)
      simp only [encList, List.length_cons, decList, List.append_assoc]
      rw [← hc, i1]
      simp only [hc, i2]
theorem decFields_enc : (last : Nat) → (fs : List (Nat × TVal)) → WFFields last fs → ∀ (fuel : Nat) (rest : Bytes),
    sizeFields fs ≤ fuel → decFields last fuel (encFields last fs ++ rest) = some (fs, rest)
  | _, [], _, fuel, rest, hf => by
    cases fuel with
    | zero => simp [sizeFields] at hf
    | succ f => simp [encFields, decFields]
  | last, (id, v) :: fs, hw, fuel, rest, hf => by
    cases fuel with
    | zero => simp [sizeFields] at hf
    | succ f =>
      have hw' : last < id ∧ v.WF ∧ WFFields id fs := by simpa [WFFields] using hw
      obtain ⟨hlt, hv, hfs⟩ := hw'
      simp only [sizeFields] at hf
      obtain ⟨hc16, hc0⟩ := code_ok v hv
      have i2 := decFields_enc id fs hfs f rest (by omega)
      cases v with
      | bool b =>
        obtain ⟨h, r, he, hne, hmod, hid⟩ := header_dec last id (TVal.bool b).code hlt hc16 hc0 (encFields id fs ++ rest)
        simp only [encFields, List.append_assoc]
        rw [he]
        unfold decFields
        simp only [if_neg hne, hmod, hid]
        have hb : (TVal.bool b).code = tTrue ∨ (TVal.bool b).code = tFalse := by
          cases b <;> simp [TVal.code]
        simp only [if_pos hb, i2]
        cases b <;> simp [TVal.code, tTrue, tFalse]
      | int ty n =>
        have i1 := decVal_enc (.int ty n) hv f (encFields id fs ++ rest) (by omega)
        obtain ⟨h, r, he, hne, hmod, hid⟩ := header_dec last id (TVal.int ty n).code hlt hc16 hc0
          ((TVal.int ty n).enc ++ (encFields id fs ++ rest))
        have hty : ty = tI32 ∨ ty = tI64 := by simpa [TVal.WF] using hv
        have hnb : ¬ ((TVal.int ty n).code = tTrue ∨ (TVal.int ty n).code = tFalse) := by
          simp only [TVal.code]; unfold tI32 tI64 at hty; unfold tTrue tFalse; omega
        simp only [encFields, List.append_assoc]
        rw [he]
        unfold decFields
        simp only [if_neg hne, hmod, hid, if_neg hnb]
        simp only [TVal.ecode] at i1
        simp only [i1, i2]
      | bin bs =>
        have i1 := decVal_enc (.bin bs) hv f (encFields id fs ++ rest) (by omega)
        obtain ⟨h, r, he, hne, hmod, hid⟩ := header_dec last id (TVal.bin bs).code hlt hc16 hc0
          ((TVal.bin bs).enc ++ (encFields id fs ++ rest))
        have hnb : ¬ ((TVal.bin bs).code = tTrue ∨ (TVal.bin bs).code = tFalse) := by
          simp only [TVal.code]; unfold tBin tTrue tFalse; omega
        simp only [encFields, List.append_assoc]
        rw [he]
        unfold decFields
        simp only [if_neg hne, hmod, hid, if_neg hnb]
        simp only [TVal.ecode] at i1
        simp only [i1, i2]
      | list e xs =>
        have i1 := decVal_enc (.list e xs) hv f (encFields id fs ++ rest) (by omega)
        obtain ⟨h, r, he, hne, hmod, hid⟩ := header_dec last id (TVal.list e xs).code hlt hc16 hc0
          ((TVal.list e xs).enc ++ (encFields id fs ++ rest))
        have hnb : ¬ ((TVal.list e xs).code = tTrue ∨ (TVal.list e xs).code = tFalse) := by
          simp only [TVal.code]; unfold tList tTrue tFalse; omega
        simp only [encFields, List.append_assoc]
        rw [he]
        unfold decFields
        simp only [if_neg hne, hmod, hid, if_neg hnb]
        simp only [TVal.ecode] at i1
        simp only [i1, i2]
      | struct gs =>
        have i1 := decVal_enc (.struct gs) hv f (encFields id fs ++ rest) (by omega)
        obtain ⟨h, r, he, hne, hmod, hid⟩ := header_dec last id (TVal.struct gs).code hlt hc16 hc0
          ((TVal.struct gs).enc ++ (encFields id fs ++ rest))
        have hnb : ¬ ((TVal.struct gs).code = tTrue ∨ (TVal.struct gs).code = tFalse) := by
          simp only [TVal.code]; unfold tStruct tTrue tFalse; omega
        simp only [encFields, List.append_assoc]
        rw [he]
        unfold decFields
        simp only [if_neg hne, hmod, hid, if_neg hnb]
        simp only [TVal.ecode] at i1
        simp only [i1, i2]
end

/-! ## Extension / fuel monotonicity

A successful decode is stable under giving more fuel and under appending bytes after the input:
the decoder never looks past what it consumes. -/

theorem readUvar_ext : ∀ (f : Nat) (bs : Bytes) (x : Nat) (r : Bytes), readUvar f bs = some (x, r) →
    ∀ (f' : Nat) (t : Bytes), f ≤ f' → readUvar f' (bs ++ t) = some (x, r ++ t) := by
  intro f
  induction f with
  | zero => intro bs x r h; simp [readUvar] at h
  | succ f ih =>
    intro bs x r h f' t hf
    cases f' with
    | zero => omega
    | succ f' =>
      cases bs with
      | nil => simp [readUvar] at h
      | cons b bs =>
        simp only [List.cons_append, readUvar] at h ⊢
        by_cases hb : b < 128
        · rw [if_pos hb] at h ⊢
          simp only [Option.some.injEq, Prod.mk.injEq] at h ⊢
          exact ⟨h.1, by rw [h.2]⟩
        · rw [if_neg hb] at h ⊢
          cases hr : readUvar f bs with
          | none => simp [hr] at h
          | some p =>
            obtain ⟨y, r'⟩ := p
            rw [hr] at h
            rw [ih bs y r' hr f' t (by omega)]
            simp only [Option.some.injEq, Prod.mk.injEq] at h ⊢
            exact ⟨h.1, by rw [h.2]⟩

theorem readUvar_ext_len (bs : Bytes) (x : Nat) (r : Bytes) (h : readUvar bs.length bs = some (x, r))
    (t : Bytes) : readUvar (bs ++ t).length (bs ++ t) = some (x, r ++ t) :=
  readUvar_ext _ bs x r h _ t (by simp)

theorem readFieldId_ext (last h : Nat) (rest : Bytes) (id : Nat) (r : Bytes)
    (hr : readFieldId last h rest = some (id, r)) (t : Bytes) :
    readFieldId last h (rest ++ t) = some (id, r ++ t) := by
  unfold readFieldId at hr ⊢
  by_cases h0 : h / 16 = 0
  · rw [if_pos h0] at hr ⊢
    cases hu : readUvar rest.length rest with
    | none => simp [hu] at hr
    | some p =>
      obtain ⟨z, r'⟩ := p
      rw [hu] at hr
      rw [readUvar_ext_len rest z r' hu t]
      simp only [Option.some.injEq, Prod.mk.injEq] at hr ⊢
      exact ⟨hr.1, by rw [hr.2]⟩
  · rw [if_neg h0] at hr ⊢
    simp only [Option.some.injEq, Prod.mk.injEq] at hr ⊢
    exact ⟨hr.1, by rw [hr.2]⟩


def ExtVal (f : Nat) : Prop := ∀ (c : Nat) (bs : Bytes) (v : TVal) (r : Bytes), decVal c f bs = some (v, r) →
  ∀ (f' : Nat) (t : Bytes), f ≤ f' → decVal c f' (bs ++ t) = some (v, r ++ t)
def ExtList (f : Nat) : Prop := ∀ (ety n : Nat) (bs : Bytes) (xs : List TVal) (r : Bytes),
  decList ety n f bs = some (xs, r) →
  ∀ (f' : Nat) (t : Bytes), f ≤ f' → decList ety n f' (bs ++ t) = some (xs, r ++ t)
def ExtFields (f : Nat) : Prop := ∀ (last : Nat) (bs : Bytes) (fs : List (Nat × TVal)) (r : Bytes),
  decFields last f bs = some (fs, r) →
  ∀ (f' : Nat) (t : Bytes), f ≤ f' → decFields last f' (bs ++ t) = some (fs, r ++ t)

theorem extVal_succ (f : Nat) (ihL : ExtList f) (ihF : ExtFields f) : ExtVal (f+1) := by
  intro c bs v r h f' t hf
  cases f' with
  | zero => omega
  | succ f' =>
    have hf' : f ≤ f' := by omega
    unfold decVal at h ⊢
    by_cases h1 : c = tTrue ∨ c = tFalse
    · rw [if_pos h1] at h ⊢
      cases bs with
      | nil => simp at h
      | cons b rest =>
        simp only [List.cons_append, Option.some.injEq, Prod.mk.injEq] at h ⊢
        exact ⟨h.1, by rw [h.2]⟩
    · rw [if_neg h1] at h ⊢
      by_cases h2 : c = tI32 ∨ c = tI64
      · rw [if_pos h2] at h ⊢
        cases hr : readUvar bs.length bs with
        | none => simp [hr] at h
        | some p =>
          obtain ⟨n, rest⟩ := p
          rw [hr] at h
          rw [readUvar_ext_len bs n rest hr t]
          simp only [Option.some.injEq, Prod.mk.injEq] at h ⊢
          exact ⟨h.1, by rw [h.2]⟩
      · rw [if_neg h2] at h ⊢
        by_cases h3 : c = tBin
        · rw [if_pos h3] at h ⊢
          cases hr : readUvar bs.length bs with
          | none => simp [hr] at h
          | some p =>
            obtain ⟨n, rest⟩ := p
            rw [hr] at h
            rw [readUvar_ext_len bs n rest hr t]
            simp only at h ⊢
            by_cases hl : rest.length < n
            · rw [if_pos hl] at h; simp at h
            · rw [if_neg hl] at h
              rw [if_neg (by simp; omega)]
              simp only [Option.some.injEq, Prod.mk.injEq] at h ⊢
              have hn : n ≤ rest.length := by omega
              refine ⟨?_, ?_⟩
              · rw [← h.1, List.take_append_of_le_length hn]
              · rw [← h.2, List.drop_append_of_le_length hn]
        · rw [if_neg h3] at h ⊢
          by_cases h4 : c = tList
          · rw [if_pos h4] at h ⊢
            cases bs with
            | nil => simp at h
            | cons hd rest =>
              simp only [List.cons_append] at h ⊢
              by_cases h15 : hd / 16 = 15
              · simp only [if_pos h15] at h ⊢
                cases hr : readUvar rest.length rest with
                | none => simp [hr] at h
                | some p =>
                  obtain ⟨n, r1⟩ := p
                  rw [hr] at h
                  rw [readUvar_ext_len rest n r1 hr t]
                  simp only at h ⊢
                  cases hl : decList (hd % 16) n f r1 with
                  | none => simp [hl] at h
                  | some q =>
                    obtain ⟨xs, r2⟩ := q
                    rw [hl] at h
                    rw [ihL _ _ _ _ _ hl f' t hf']
                    simp only [Option.some.injEq, Prod.mk.injEq] at h ⊢
                    exact ⟨h.1, by rw [h.2]⟩
              · simp only [if_neg h15] at h ⊢
                cases hl : decList (hd % 16) (hd / 16) f rest with
                | none => simp [hl] at h
                | some q =>
                  obtain ⟨xs, r2⟩ := q
                  rw [hl] at h
                  rw [ihL _ _ _ _ _ hl f' t hf']
                  simp only [Option.some.injEq, Prod.mk.injEq] at h ⊢
                  exact ⟨h.1, by rw [h.2]⟩
          · rw [if_neg h4] at h ⊢
            by_cases h5 : c = tStruct
            · rw [if_pos h5] at h ⊢
              cases hl : decFields 0 f bs with
              | none => simp [hl] at h
              | some q =>
                obtain ⟨fs, r2⟩ := q
                rw [hl] at h
                rw [ihF _ _ _ _ hl f' t hf']
                simp only [Option.some.injEq, Prod.mk.injEq] at h ⊢
                exact ⟨h.1, by rw [h.2]⟩
            · rw [if_neg h5] at h; simp at h

theorem extList_succ (f : Nat) (ihV : ExtVal f) (ihL : ExtList f) : ExtList (f+1) := by
  intro ety n bs xs r h f' t hf
  cases f' with
  | zero => omega
  | succ f' =>
    have hf' : f ≤ f' := by omega
    cases n with
    | zero =>
      simp only [decList, Option.some.injEq, Prod.mk.injEq] at h ⊢
      exact ⟨h.1, by rw [h.2]⟩
    | succ n =>
      simp only [decList] at h ⊢
      cases hv : decVal ety f bs with
      | none => simp [hv] at h
      | some p =>
        obtain ⟨x, r1⟩ := p
        rw [hv] at h
        rw [ihV _ _ _ _ hv f' t hf']
        simp only at h ⊢
        cases hl : decList ety n f r1 with
        | none => simp [hl] at h
        | some q =>
          obtain ⟨ys, r2⟩ := q
          rw [hl] at h
          rw [ihL _ _ _ _ _ hl f' t hf']
          simp only [Option.some.injEq, Prod.mk.injEq] at h ⊢
          exact ⟨h.1, by rw [h.2]⟩

theorem extFields_succ (f : Nat) (ihV : ExtVal f) (ihF : ExtFields f) : ExtFields (f+1) := by
  intro last bs fs r h f' t hf
  cases f' with
  | zero => omega
  | succ f' =>
    have hf' : f ≤ f' := by omega
    cases bs with
    | nil => simp [decFields] at h
    | cons hd rest =>
      simp only [List.cons_append] at h ⊢
      unfold decFields at h ⊢
      by_cases h0 : hd = 0
      · rw [if_pos h0] at h ⊢
        simp only [Option.some.injEq, Prod.mk.injEq] at h ⊢
        exact ⟨h.1, by rw [h.2]⟩
      · rw [if_neg h0] at h ⊢
        simp only at h ⊢
        cases hi : readFieldId last hd rest with
        | none => simp [hi] at h
        | some p =>
          obtain ⟨id, r1⟩ := p
          rw [hi] at h
          rw [readFieldId_ext last hd rest id r1 hi t]
          simp only at h ⊢
          by_cases hb : hd % 16 = tTrue ∨ hd % 16 = tFalse
          · rw [if_pos hb] at h ⊢
            cases hl : decFields id f r1 with
            | none => simp [hl] at h
            | some q =>
              obtain ⟨gs, r2⟩ := q
              rw [hl] at h
              rw [ihF _ _ _ _ hl f' t hf']
              simp only [Option.some.injEq, Prod.mk.injEq] at h ⊢
              exact ⟨h.1, by rw [h.2]⟩
          · rw [if_neg hb] at h ⊢
            cases hv : decVal (hd % 16) f r1 with
            | none => simp [hv] at h
            | some p =>
              obtain ⟨x, r2⟩ := p
              rw [hv] at h
              rw [ihV _ _ _ _ hv f' t hf']
              simp only at h ⊢
              cases hl : decFields id f r2 with
              | none => simp [hl] at h
              | some q =>
                obtain ⟨gs, r3⟩ := q
                rw [hl] at h
                rw [ihF _ _ _ _ hl f' t hf']
                simp only [Option.some.injEq, Prod.mk.injEq] at h ⊢
                exact ⟨h.1, by rw [h.2]⟩

theorem ext_all : ∀ f : Nat, ExtVal f ∧ ExtList f ∧ ExtFields f := by
  intro f
  induction f with
  | zero =>
    refine ⟨?_, ?_, ?_⟩
    · intro c bs v r h; simp [decVal] at h
    · intro ety n bs xs r h f' t _
      cases n with
      | zero =>
        cases f' <;>
        · simp only [decList, Option.some.injEq, Prod.mk.injEq] at h ⊢
          exact ⟨h.1, by rw [h.2]⟩
      | succ n => simp [decList] at h
    · intro last bs fs r h; simp [decFields] at h
  | succ f ih =>
    exact ⟨extVal_succ f ih.2.1 ih.2.2, extList_succ f ih.1 ih.2.1, extFields_succ f ih.1 ih.2.2⟩

/-- Extension: a successful decode is unchanged by more fuel and by trailing bytes. -/
theorem decVal_ext {c f : Nat} {bs : Bytes} {v : TVal} {r : Bytes} (h : decVal c f bs = some (v, r))
    {f' : Nat} (t : Bytes) (hf : f ≤ f') : decVal c f' (bs ++ t) = some (v, r ++ t) :=
  (ext_all f).1 c bs v r h f' t hf

theorem decList_ext {ety n f : Nat} {bs : Bytes} {xs : List TVal} {r : Bytes}
    (h : decList ety n f bs = some (xs, r)) {f' : Nat} (t : Bytes) (hf : f ≤ f') :
    decList ety n f' (bs ++ t) = some (xs, r ++ t) :=
  (ext_all f).2.1 ety n bs xs r h f' t hf

theorem decFields_ext {last f : Nat} {bs : Bytes} {fs : List (Nat × TVal)} {r : Bytes}
    (h : decFields last f bs = some (fs, r)) {f' : Nat} (t : Bytes) (hf : f ≤ f') :
    decFields last f' (bs ++ t) = some (fs, r ++ t) :=
  (ext_all f).2.2 last bs fs r h f' t hf

/-- Fuel monotonicity (task 4). -/
theorem decVal_fuel_mono {c f f' : Nat} {bs : Bytes} {r : TVal × Bytes}
    (h : decVal c f bs = some r) (hf : f ≤ f') : decVal c f' bs = some r := by
  obtain ⟨v, r'⟩ := r
  have := decVal_ext h [] hf
  simpa using this

theorem decList_fuel_mono {ety n f f' : Nat} {bs : Bytes} {r : List TVal × Bytes}
    (h : decList ety n f bs = some r) (hf : f ≤ f') : decList ety n f' bs = some r := by
  obtain ⟨v, r'⟩ := r
  have := decList_ext h [] hf
  simpa using this

theorem decFields_fuel_mono {last f f' : Nat} {bs : Bytes} {r : List (Nat × TVal) × Bytes}
    (h : decFields last f bs = some r) (hf : f ≤ f') : decFields last f' bs = some r := by
  obtain ⟨v, r'⟩ := r
  have := decFields_ext h [] hf
  simpa using this

/-- With any fuel, decoding `v.enc ++ rest` either runs out of fuel or returns exactly `(v, rest)`. -/
theorem decVal_enc_any (v : TVal) (hv : v.WF) (fuel : Nat) (rest : Bytes) :
    decVal v.ecode fuel (v.enc ++ rest) = none ∨ decVal v.ecode fuel (v.enc ++ rest) = some (v, rest) := by
  cases h : decVal v.ecode fuel (v.enc ++ rest) with
  | none => exact Or.inl rfl
  | some r =>
    right
    have h1 := decVal_fuel_mono h (Nat.le_max_left fuel v.size)
    rw [decVal_enc v hv _ rest (Nat.le_max_right fuel v.size)] at h1
    exact h1.symm

/-- Prefix strictness (task 3), general form: no strict prefix of a well-formed value's encoding
decodes, whatever the fuel. -/
theorem decVal_strict_prefix (v : TVal) (hv : v.WF) (fuel : Nat) (p s : Bytes)
    (hps : v.enc = p ++ s) (hs : s ≠ []) : decVal v.ecode fuel p = none := by
  cases h : decVal v.ecode fuel p with
  | none => rfl
  | some q =>
    exfalso
    obtain ⟨v', r⟩ := q
    have h1 := decVal_ext h s (Nat.le_max_left fuel v.size)
    have h2 := decVal_enc v hv _ [] (Nat.le_max_right fuel v.size)
    rw [List.append_nil, hps, h1] at h2
    simp only [Option.some.injEq, Prod.mk.injEq, List.append_eq_nil_iff] at h2
    exact hs h2.2.2

theorem decList_strict_prefix (ety : Nat) (xs : List TVal) (hw : WFList ety xs) (fuel : Nat) (p s : Bytes)
    (hps : encList xs = p ++ s) (hs : s ≠ []) : decList ety xs.length fuel p = none := by
  cases h : decList ety xs.length fuel p with
  | none => rfl
  | some q =>
    exfalso
    obtain ⟨ys, r⟩ := q
    have h1 := decList_ext h s (Nat.le_max_left fuel (sizeList xs))
    have h2 := decList_enc ety xs hw _ [] (Nat.le_max_right fuel (sizeList xs))
    rw [List.append_nil, hps, h1] at h2
    simp only [Option.some.injEq, Prod.mk.injEq, List.append_eq_nil_iff] at h2
    exact hs h2.2.2

theorem decFields_strict_prefix (last : Nat) (fs : List (Nat × TVal)) (hw : WFFields last fs) (fuel : Nat)
    (p s : Bytes) (hps : encFields last fs = p ++ s) (hs : s ≠ []) : decFields last fuel p = none := by
  cases h : decFields last fuel p with
  | none => rfl
  | some q =>
    exfalso
    obtain ⟨gs, r⟩ := q
    have h1 := decFields_ext h s (Nat.le_max_left fuel (sizeFields fs))
    have h2 := decFields_enc last fs hw _ [] (Nat.le_max_right fuel (sizeFields fs))
    rw [List.append_nil, hps, h1] at h2
    simp only [Option.some.injEq, Prod.mk.injEq, List.append_eq_nil_iff] at h2
    exact hs h2.2.2

theorem decVal_take (v : TVal) (hv : v.WF) (fuel n : Nat) (hn : n < v.enc.length) :
    decVal v.ecode fuel (v.enc.take n) = none :=
  decVal_strict_prefix v hv fuel (v.enc.take n) (v.enc.drop n) (List.take_append_drop n v.enc).symm
    (by intro h; have := congrArg List.length h; simp at this; omega)

/-- Task 3 as stated: a truncated struct never decodes. -/
theorem decStruct_take (fs : List (Nat × TVal)) (hv : (TVal.struct fs).WF) (fuel n : Nat)
    (hn : n < (TVal.struct fs).enc.length) :
    decVal tStruct fuel ((TVal.struct fs).enc.take n) = none :=
  decVal_take (.struct fs) hv fuel n hn


/-! ## Every emitted byte is a byte -/

mutual
/-- `bin` payloads only contain bytes (`< 256`), hereditarily -/
def TVal.BinOK : TVal → Prop
  | .bool _ => True
  | .int _ _ => True
  | .bin bs => ∀ b ∈ bs, b < 256
  | .list _ xs => BinOKList xs
  | .struct fs => BinOKFields fs
def BinOKList : List TVal → Prop
  | [] => True
  | x :: xs => x.BinOK ∧ BinOKList xs
def BinOKFields : List (Nat × TVal) → Prop
  | [] => True
  | (_, v) :: fs => v.BinOK ∧ BinOKFields fs
end

/-- well-formed and all `bin` payload bytes `< 256` -/
def TVal.WF' (v : TVal) : Prop := v.WF ∧ v.BinOK

theorem uvar_bytes_lt (n : Nat) : ∀ b ∈ uvar n, b < 256 := by
  induction n using Nat.strongRecOn with
  | _ n ih =>
    intro b hb
    unfold uvar at hb
    by_cases h : n < 128
    · rw [dif_pos h] at hb
      simp only [List.mem_singleton] at hb
      omega
    · rw [dif_neg h] at hb
      simp only [List.mem_cons] at hb
      cases hb with
      | inl hb => omega
      | inr hb => exact ih (n / 128) (by omega) b hb

theorem listHeader_bytes_lt (ety n : Nat) (he : ety < 16) : ∀ b ∈ listHeader ety n, b < 256 := by
  intro b hb
  unfold listHeader at hb
  by_cases h : n < 15
  · rw [if_pos h] at hb
    simp only [List.mem_singleton] at hb
    omega
  · rw [if_neg h] at hb
    simp only [List.mem_cons] at hb
    cases hb with
    | inl hb => omega
    | inr hb => exact uvar_bytes_lt n b hb

theorem fieldHeader_bytes_lt (last id code : Nat) (hc : code < 16) :
    ∀ b ∈ fieldHeader last id code, b < 256 := by
  intro b hb
  unfold fieldHeader at hb
  by_cases h : last < id ∧ id - last ≤ 15
  · rw [if_pos h] at hb
    simp only [List.mem_singleton] at hb
    omega
  · rw [if_neg h] at hb
    simp only [List.mem_cons] at hb
    cases hb with
    | inl hb => omega
    | inr hb => exact uvar_bytes_lt _ b hb

mutual
theorem enc_bytes_lt_aux : (v : TVal) → v.WF → v.BinOK → ∀ b ∈ v.enc, b < 256
  | .bool x, _, _, b, hb => by
    cases x <;> simp [TVal.enc] at hb <;> omega
  | .int ty n, _, _, b, hb => by
    simp only [TVal.enc] at hb
    exact uvar_bytes_lt _ b hb
  | .bin bs, _, hk, b, hb => by
    simp only [TVal.enc, List.mem_append] at hb
    have hk' : ∀ b ∈ bs, b < 256 := by simpa [TVal.BinOK] using hk
    cases hb with
    | inl hb => exact uvar_bytes_lt _ b hb
    | inr hb => exact hk' b hb
  | .list ety xs, hv, hk, b, hb => by
    have hv' : okCode ety ∧ WFList ety xs := by simpa [TVal.WF] using hv
    have hk' : BinOKList xs := by simpa [TVal.BinOK] using hk
    obtain ⟨h16, _, _⟩ := okCode_lt ety hv'.1
    simp only [TVal.enc, List.mem_append] at hb
    cases hb with
    | inl hb =>
      refine listHeader_bytes_lt _ _ ?_ b hb
      split
      · unfold tTrue; omega
      · exact h16
    | inr hb => exact encList_bytes_lt ety xs hv'.2 hk' b hb
  | .struct fs, hv, hk, b, hb => by
    have hv' : WFFields 0 fs := by simpa [TVal.WF] using hv
    have hk' : BinOKFields fs := by simpa [TVal.BinOK] using hk
    simp only [TVal.enc] at hb
    exact encFields_bytes_lt 0 fs hv' hk' b hb
theorem encList_bytes_lt : (ety : Nat) → (xs : List TVal) → WFList ety xs → BinOKList xs →
    ∀ b ∈ encList xs, b < 256
  | _, [], _, _, b, hb => by simp [encList] at hb
  | ety, x :: xs, hw, hk, b, hb => by
    have hw' : x.ecode = ety ∧ x.WF ∧ WFList ety xs := by simpa [WFList] using hw
    have hk' : x.BinOK ∧ BinOKList xs := by simpa [BinOKList] using hk
    simp only [encList, List.mem_append] at hb
    cases hb with
    | inl hb => exact enc_bytes_lt_aux x hw'.2.1 hk'.1 b hb
    | inr hb => exact encList_bytes_lt ety xs hw'.2.2 hk'.2 b hb
theorem encFields_bytes_lt : (last : Nat) → (fs : List (Nat × TVal)) → WFFields last fs → BinOKFields fs →
    ∀ b ∈ encFields last fs, b < 256
  | _, [], _, _, b, hb => by
    simp only [encFields, List.mem_singleton] at hb; omega
  | last, (id, v) :: fs, hw, hk, b, hb => by
    have hw' : last < id ∧ v.WF ∧ WFFields id fs := by simpa [WFFields] using hw
    have hk' : v.BinOK ∧ BinOKFields fs := by simpa [BinOKFields] using hk
    obtain ⟨hc16, _⟩ := code_ok v hw'.2.1
    have i1 := enc_bytes_lt_aux v hw'.2.1 hk'.1
    have i2 := encFields_bytes_lt id fs hw'.2.2 hk'.2
    have ih := fieldHeader_bytes_lt last id v.code hc16
    cases v with
    | bool x =>
      simp only [encFields, List.mem_append] at hb
      cases hb with
      | inl hb => exact ih b hb
      | inr hb => exact i2 b hb
    | int ty n =>
      simp only [encFields, List.mem_append] at hb
      rcases hb with (hb | hb) | hb
      · exact ih b hb
      · exact i1 b hb
      · exact i2 b hb
    | bin bs =>
      simp only [encFields, List.mem_append] at hb
      rcases hb with (hb | hb) | hb
      · exact ih b hb
      · exact i1 b hb
      · exact i2 b hb
    | list e xs =>
      simp only [encFields, List.mem_append] at hb
      rcases hb with (hb | hb) | hb
      · exact ih b hb
      · exact i1 b hb
      · exact i2 b hb
    | struct gs =>
      simp only [encFields, List.mem_append] at hb
      rcases hb with (hb | hb) | hb
      · exact ih b hb
      · exact i1 b hb
      · exact i2 b hb
end

/-- Task 2: every byte of the encoding of a well-formed value with byte-valued `bin` payloads is `< 256`. -/
theorem enc_bytes_lt (v : TVal) (h : v.WF') : ∀ b ∈ v.enc, b < 256 :=
  enc_bytes_lt_aux v h.1 h.2

end PQ.Thrift
