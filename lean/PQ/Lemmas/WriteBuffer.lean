import PQ.Model.Bytes
/-!
# `writeBuffer` of `internal/rle/buf.go`

```go
type writeBuffer struct { d []byte; i int }
func newWriteBuffer(size int) *writeBuffer { return &writeBuffer{d: make([]byte, size)} }
func (w *writeBuffer) size() int       { return w.i }
func (w *writeBuffer) bytes() []byte   { return w.d[:w.i] }
func (w *writeBuffer) write(dat []byte) (int, error) { return w.writeAt(dat, w.i) }
func (w *writeBuffer) writeAt(dat []byte, off int) (int, error) {
	if len(dat)+off > w.i { w.i = len(dat) + off }
	if off == len(w.d) { w.d = append(w.d, dat...); return len(dat), nil }
	if off+len(dat) >= len(w.d) {
		nd := make([]byte, int(off)+len(dat)); copy(nd, w.d); w.d = nd
	}
	copy(w.d[int(off):], dat)
	return len(dat), nil
}
```

`d` is the *contents* of the slice `w.d` (its `len`, not its capacity: spare capacity is only ever
reached through `append`, which the list append models exactly).  The theorem `writeAt_abs` shows the
three branches implement "overwrite or extend at `off`" on `bytes()`, which is what `Enc.out` with
`++` and `List.set` assumes.
-/
namespace PQ

structure WriteBuffer where
  d : List Nat
  i : Nat
deriving Repr

namespace WriteBuffer

/-- `newWriteBuffer(size)` -/
def new (size : Nat) : WriteBuffer := { d := List.replicate size 0, i := 0 }

def size (wb : WriteBuffer) : Nat := wb.i

/-- `w.d[:w.i]` (a Go slice expression panics for `i > cap`; `i ≤ len` is the invariant `WF`) -/
def bytes (wb : WriteBuffer) : Bytes := wb.d.take wb.i

/-- Go's builtin `copy(dst, src)`: the contents of `dst` afterwards (`min(len dst, len src)` bytes copied) -/
def goCopy (dst src : Bytes) : Bytes := src.take dst.length ++ dst.drop src.length

/-- `writeAt`, branch for branch -/
def writeAt (wb : WriteBuffer) (dat : Bytes) (off : Nat) : WriteBuffer :=
  let i := if dat.length + off > wb.i then dat.length + off else wb.i
  if off = wb.d.length then { d := wb.d ++ dat, i := i }
  else
    let d := if off + dat.length ≥ wb.d.length then goCopy (List.replicate (off + dat.length) 0) wb.d else wb.d
    { d := d.take off ++ goCopy (d.drop off) dat, i := i }

def write (wb : WriteBuffer) (dat : Bytes) : WriteBuffer := wb.writeAt dat wb.i

/-- the representation invariant: the logical size never exceeds the slice length -/
def WF (wb : WriteBuffer) : Prop := wb.i ≤ wb.d.length

/-- overwrite-or-extend `bs` with `dat` at offset `off ≤ bs.length` -/
def overwrite (bs dat : Bytes) (off : Nat) : Bytes := bs.take off ++ dat ++ bs.drop (off + dat.length)

theorem new_wf (size : Nat) : (new size).WF := Nat.zero_le _

theorem new_bytes (size : Nat) : (new size).bytes = [] := by simp [new, bytes]

theorem take_take_le (l : List Nat) (a b : Nat) (h : a ≤ b) : (l.take b).take a = l.take a := by
  rw [List.take_take, Nat.min_eq_left h]

theorem take_append3 (a b c : List Nat) (k : Nat) :
    (a ++ (b ++ c)).take (a.length + (b.length + k)) = a ++ (b ++ c.take k) := by
  rw [List.take_length_add_append, List.take_length_add_append]

theorem writeAt_abs (wb : WriteBuffer) (dat : Bytes) (off : Nat) (hwf : wb.WF) (hoff : off ≤ wb.i) :
    (wb.writeAt dat off).bytes = overwrite wb.bytes dat off ∧ (wb.writeAt dat off).WF
      ∧ (wb.writeAt dat off).size = max wb.size (off + dat.length) := by
  unfold WF at hwf
  unfold writeAt
  by_cases h1 : off = wb.d.length
  · -- append
    rw [if_pos h1]
    have hi : wb.i = wb.d.length := by omega
    have hgt : (if dat.length + off > wb.i then dat.length + off else wb.i) = wb.d.length + dat.length := by
      split <;> omega
    simp only [bytes, overwrite, WF, size, hgt]
    refine ⟨?_, by simp, by omega⟩
    rw [hi, h1, List.take_length, List.take_length]
    have : (wb.d ++ dat).take (wb.d.length + dat.length) = wb.d ++ dat := by
      rw [← List.length_append]; exact List.take_length
    rw [this, List.drop_eq_nil_of_le (by omega)]
    simp
  · rw [if_neg h1]
    have hlt : off < wb.d.length := by omega
    by_cases h2 : off + dat.length ≥ wb.d.length
    · -- regrow
      rw [if_pos h2]
      have hgt : (if dat.length + off > wb.i then dat.length + off else wb.i) = off + dat.length := by
        split <;> omega
      have hnd : goCopy (List.replicate (off + dat.length) 0) wb.d
          = wb.d ++ List.replicate (off + dat.length - wb.d.length) 0 := by
        simp only [goCopy, List.length_replicate, List.drop_replicate]
        rw [List.take_of_length_le h2]
      have htake : (wb.d ++ List.replicate (off + dat.length - wb.d.length) 0).take off = wb.d.take off := by
        rw [List.take_append_of_le_length (by omega)]
      have hdroplen : ((wb.d ++ List.replicate (off + dat.length - wb.d.length) 0).drop off).length = dat.length := by
        simp only [List.length_drop, List.length_append, List.length_replicate]; omega
      have hcopy : goCopy ((wb.d ++ List.replicate (off + dat.length - wb.d.length) 0).drop off) dat = dat := by
        unfold goCopy
        rw [hdroplen, List.take_length, List.drop_eq_nil_of_le (by omega)]
        simp
      simp only [bytes, overwrite, WF, size, hgt, hnd, htake, hcopy]
      have hlen : (wb.d.take off ++ dat).length = off + dat.length := by
        simp only [List.length_append, List.length_take]; omega
      refine ⟨?_, by omega, by omega⟩
      rw [← hlen, List.take_length, take_take_le _ _ _ hoff, hlen, List.drop_eq_nil_of_le]
      · simp
      · simp only [List.length_take]; omega
    · -- in place
      rw [if_neg h2]
      have h2' : off + dat.length < wb.d.length := by omega
      have hcopy : goCopy (wb.d.drop off) dat = dat ++ wb.d.drop (off + dat.length) := by
        unfold goCopy
        rw [List.take_of_length_le (by simp only [List.length_drop]; omega), List.drop_drop]
      have hlen : (wb.d.take off ++ (dat ++ wb.d.drop (off + dat.length))).length = wb.d.length := by
        simp only [List.length_append, List.length_take, List.length_drop]; omega
      simp only [bytes, overwrite, WF, size, hcopy]
      refine ⟨?_, ?_, ?_⟩
      · rw [take_take_le _ _ _ hoff]
        have hl1 : (wb.d.take off).length = off := by simp only [List.length_take]; omega
        by_cases h3 : dat.length + off > wb.i
        · rw [if_pos h3]
          have e1 : (wb.d.take off ++ (dat ++ wb.d.drop (off + dat.length))).take (dat.length + off)
              = wb.d.take off ++ dat := by
            rw [← List.append_assoc]
            apply List.take_left'
            simp only [List.length_append, hl1]; omega
          rw [e1, List.drop_eq_nil_of_le (by simp only [List.length_take]; omega)]
          simp
        · rw [if_neg h3]
          have hk : wb.i = off + (dat.length + (wb.i - (off + dat.length))) := by omega
          have e1 : (wb.d.take off ++ (dat ++ wb.d.drop (off + dat.length))).take wb.i
              = wb.d.take off ++ (dat ++ (wb.d.drop (off + dat.length)).take (wb.i - (off + dat.length))) := by
            have h := take_append3 (wb.d.take off) dat (wb.d.drop (off + dat.length)) (wb.i - (off + dat.length))
            rw [hl1, ← hk] at h
            exact h
          rw [e1, List.drop_take]
          simp
      · rw [hlen]; split <;> omega
      · split <;> omega

/-- `write` appends -/
theorem write_abs (wb : WriteBuffer) (dat : Bytes) (hwf : wb.WF) :
    (wb.write dat).bytes = wb.bytes ++ dat ∧ (wb.write dat).WF ∧ (wb.write dat).size = wb.size + dat.length := by
  obtain ⟨h1, h2, h3⟩ := writeAt_abs wb dat wb.i hwf (Nat.le_refl _)
  unfold write
  refine ⟨?_, h2, by rw [h3]; simp only [size]; omega⟩
  rw [h1]
  unfold overwrite
  have hl : wb.bytes.length = wb.i := by
    unfold WF at hwf
    simp only [bytes, List.length_take]; omega
  rw [List.take_of_length_le (by omega), List.drop_eq_nil_of_le (by omega)]
  simp

/-- `writeAt([]byte{b}, p)` with `p < size` is `List.set` (the header back-patch) -/
theorem writeAt_one_abs (wb : WriteBuffer) (b p : Nat) (hwf : wb.WF) (hp : p < wb.i) :
    (wb.writeAt [b] p).bytes = wb.bytes.set p b ∧ (wb.writeAt [b] p).WF ∧ (wb.writeAt [b] p).size = wb.size := by
  obtain ⟨h1, h2, h3⟩ := writeAt_abs wb [b] p hwf (by omega)
  refine ⟨?_, h2, by rw [h3]; simp only [size, List.length_singleton]; omega⟩
  rw [h1]
  unfold overwrite
  have hl : wb.bytes.length = wb.i := by
    unfold WF at hwf
    simp only [bytes, List.length_take]; omega
  rw [List.set_eq_take_append_cons_drop, if_pos (by omega)]
  simp

end WriteBuffer
end PQ
