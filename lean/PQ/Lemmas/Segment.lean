import PQ.Model.SpecWriter
import PQ.Lemmas.RleDec
import PQ.Lemmas.RleImpl
import PQ.Model.Footer
/-!
# Every output of the nondeterministic level segmenter is a well-formed run list (helpers for C04)
-/
namespace PQ

/-- one unfolding of `segment` on a non-empty list, with the choice pairs projected out -/
theorem segment_cons (padv fuel : Nat) (cs : Choices) (x : Nat) (xs' : List Nat) :
    segment padv (fuel+1) cs (x :: xs') =
      (let xs := x :: xs'
       let c := (pick cs).1
       let k := (pick (pick cs).2).1
       let cs2 := (pick (pick cs).2).2
       if c % 2 = 0 then
         let n := k % runLen xs + 1
         (Run.rle n x :: (segment padv fuel cs2 (xs.drop n)).1, (segment padv fuel cs2 (xs.drop n)).2)
       else
         let maxG := (xs.length + 7) / 8
         let g := if c % 7 = 1 then maxG else k % (min maxG 80) + 1
         let take := min (g * 8) xs.length
         let padded := xs.take take ++ List.replicate (g * 8 - take) padv
         let groups := (List.range g).map fun i => (padded.drop (i * 8)).take 8
         if take < g * 8 then ([Run.packed groups], cs2)
         else (Run.packed groups :: (segment padv fuel cs2 (xs.drop take)).1, (segment padv fuel cs2 (xs.drop take)).2)) := by
  rw [segment]
  · rfl
  · simp

theorem segment_nil (padv fuel : Nat) (cs : Choices) : segment padv fuel cs [] = ([], cs) := by
  cases fuel <;> rfl

theorem take_takeWhile_eq (x : Nat) (xs : List Nat) (m : Nat)
    (h : m ≤ (xs.takeWhile (· == x)).length) : xs.take m = List.replicate m x := by
  induction xs generalizing m with
  | nil => simp at h; subst h; rfl
  | cons y ys ih =>
    cases m with
    | zero => rfl
    | succ m =>
      rw [List.takeWhile_cons] at h
      by_cases hy : (y == x) = true
      · rw [if_pos hy] at h
        have hyx : y = x := by simpa using hy
        rw [List.take_succ_cons, List.replicate_succ, ih m (by simpa using h), hyx]
      · rw [if_neg hy] at h; simp at h

theorem length_takeWhile_le' (p : Nat → Bool) (xs : List Nat) :
    (xs.takeWhile p).length ≤ xs.length := by
  induction xs with
  | nil => simp
  | cons y ys ih => rw [List.takeWhile_cons]; split <;> simp <;> omega

theorem runLen_le (xs : List Nat) : runLen xs ≤ xs.length := by
  cases xs with
  | nil => simp [runLen]
  | cons x xs =>
    have := length_takeWhile_le' (· == x) xs
    simp only [runLen, List.length_cons]; omega

theorem runLen_pos (x : Nat) (xs : List Nat) : 1 ≤ runLen (x :: xs) := by
  simp only [runLen]; omega

theorem take_runLen (x : Nat) (xs : List Nat) (n : Nat) (h : n ≤ runLen (x :: xs)) :
    (x :: xs).take n = List.replicate n x := by
  cases n with
  | zero => rfl
  | succ n =>
    rw [List.take_succ_cons, List.replicate_succ, take_takeWhile_eq x xs n (by simp only [runLen] at h; omega)]

/-- cutting a list of `g * 8` elements into `g` groups of 8 -/
theorem groups8 (g : Nat) (L : List Nat) (hL : L.length = g * 8) :
    ((List.range g).map fun i => (L.drop (i * 8)).take 8).flatten = L
    ∧ ∀ grp ∈ ((List.range g).map fun i => (L.drop (i * 8)).take 8), grp.length = 8 ∧ ∀ x ∈ grp, x ∈ L := by
  induction g generalizing L with
  | zero =>
    have : L = [] := List.eq_nil_of_length_eq_zero (by omega)
    subst this; simp
  | succ g ih =>
    have h8 : (L.drop 8).length = g * 8 := by rw [List.length_drop]; omega
    obtain ⟨ih1, ih2⟩ := ih (L.drop 8) h8
    have hmap : ((List.range (g + 1)).map fun i => (L.drop (i * 8)).take 8)
        = L.take 8 :: ((List.range g).map fun i => ((L.drop 8).drop (i * 8)).take 8) := by
      rw [List.range_succ_eq_map, List.map_cons, List.map_map]
      congr 1
      apply List.map_congr_left
      intro i _
      simp only [Function.comp, List.drop_drop]
      congr 2; omega
    rw [hmap]
    refine ⟨?_, ?_⟩
    · rw [List.flatten_cons, ih1, List.take_append_drop]
    · intro grp hgrp
      rcases List.mem_cons.mp hgrp with rfl | hgrp
      · refine ⟨by rw [List.length_take]; omega, fun x hx => List.mem_of_mem_take hx⟩
      · obtain ⟨a, b⟩ := ih2 grp hgrp
        exact ⟨a, fun x hx => List.mem_of_mem_drop (b x hx)⟩

/-- **Every segmentation is a well-formed encoding of the same levels.**  `fuel ≥ xs.length`
suffices (every step consumes at least one level). -/
theorem segment_ok (w padv : Nat) (hp : padv < 2 ^ w) (fuel : Nat) (cs : Choices) (xs : List Nat)
    (hx : ∀ x ∈ xs, x < 2 ^ w) (hf : xs.length ≤ fuel) :
    (∀ r ∈ (segment padv fuel cs xs).1, r.WF w)
    ∧ (∃ pad, pad < 8 ∧ runsVals (segment padv fuel cs xs).1 = xs ++ List.replicate pad padv)
    ∧ (∀ c v, Run.rle c v ∈ (segment padv fuel cs xs).1 → c ≤ xs.length) := by
  induction fuel generalizing cs xs with
  | zero =>
    have : xs = [] := List.eq_nil_of_length_eq_zero (by omega)
    subst this
    refine ⟨by simp [segment], ⟨0, by omega, by simp [segment, runsVals]⟩, by simp [segment]⟩
  | succ fuel ih =>
    cases xs with
    | nil =>
      rw [segment_nil]
      exact ⟨by simp, ⟨0, by omega, by simp [runsVals]⟩, by simp⟩
    | cons x xs' =>
      rw [segment_cons]
      simp only
      have hx0 : x < 2 ^ w := hx x (by simp)
      have hlen : (x :: xs').length = xs'.length + 1 := rfl
      split
      · -- RLE run
        generalize hk : (pick (pick cs).2).1 = k
        generalize (pick (pick cs).2).2 = cs2
        have hrl := runLen_le (x :: xs')
        have hrp := runLen_pos x xs'
        have hmod : k % runLen (x :: xs') < runLen (x :: xs') := Nat.mod_lt _ (by omega)
        generalize hn : k % runLen (x :: xs') + 1 = n at *
        have hn1 : 1 ≤ n := by omega
        have hn2 : n ≤ runLen (x :: xs') := by omega
        have hdl : ((x :: xs').drop n).length ≤ fuel := by
          rw [List.length_drop]; simp only [List.length_cons] at hf hrl ⊢; omega
        obtain ⟨i1, ⟨pad, hpad, i2⟩, i3⟩ := ih cs2 ((x :: xs').drop n)
          (fun y hy => hx y (List.mem_of_mem_drop hy)) hdl
        refine ⟨?_, ⟨pad, hpad, ?_⟩, ?_⟩
        · intro r hr
          rcases List.mem_cons.mp hr with rfl | hr
          · exact ⟨hn1, hx0⟩
          · exact i1 r hr
        · simp only [runsVals, List.flatMap_cons, Run.vals] at i2 ⊢
          rw [i2, ← take_runLen x xs' n hn2, ← List.append_assoc, List.take_append_drop]
        · intro c v hc
          rcases List.mem_cons.mp hc with h | hc
          · cases h; omega
          · have := i3 c v hc
            rw [List.length_drop] at this; omega
      · -- bit-packed run
        generalize (pick (pick cs).2).1 = k
        generalize (pick (pick cs).2).2 = cs2
        generalize (pick cs).1 = c
        generalize hxs : x :: xs' = xs at *
        have hxl : 1 ≤ xs.length := by omega
        have hmaxG : 1 ≤ (xs.length + 7) / 8 := by omega
        generalize hg : (if c % 7 = 1 then (xs.length + 7) / 8 else k % (min ((xs.length + 7) / 8) 80) + 1) = g
        have hg1 : 1 ≤ g := by
          rw [← hg]; split
          · exact hmaxG
          · omega
        have hg2 : g ≤ (xs.length + 7) / 8 := by
          rw [← hg]; split
          · omega
          · have : k % (min ((xs.length + 7) / 8) 80) < min ((xs.length + 7) / 8) 80 :=
              Nat.mod_lt _ (by omega)
            omega
        have hpl : (xs.take (min (g * 8) xs.length)
            ++ List.replicate (g * 8 - min (g * 8) xs.length) padv).length = g * 8 := by
          rw [List.length_append, List.length_take, List.length_replicate]; omega
        obtain ⟨gf, gm⟩ := groups8 g _ hpl
        have hwfp : (Run.packed ((List.range g).map fun i =>
            ((xs.take (min (g * 8) xs.length)
              ++ List.replicate (g * 8 - min (g * 8) xs.length) padv).drop (i * 8)).take 8)).WF w := by
          refine ⟨by simp; omega, ?_⟩
          intro grp hgrp
          obtain ⟨a, b⟩ := gm grp hgrp
          refine ⟨a, fun y hy => ?_⟩
          rcases List.mem_append.mp (b y hy) with h | h
          · exact hx y (List.mem_of_mem_take h)
          · rw [(List.mem_replicate.mp h).2]; exact hp
        split
        · -- padded last run
          rename_i hlt
          have hmin : min (g * 8) xs.length = xs.length := by omega
          refine ⟨?_, ⟨g * 8 - xs.length, by omega, ?_⟩, ?_⟩
          · intro r hr
            rw [List.mem_singleton.mp hr]; exact hwfp
          · simp only [runsVals, List.flatMap_cons, List.flatMap_nil, Run.vals, List.append_nil]
            rw [gf, hmin, List.take_length]
          · intro c' v hc
            cases List.mem_singleton.mp hc
        · rename_i hge
          have hmin : min (g * 8) xs.length = g * 8 := by omega
          have hdl : (xs.drop (min (g * 8) xs.length)).length ≤ fuel := by
            rw [List.length_drop]; omega
          obtain ⟨i1, ⟨pad, hpad, i2⟩, i3⟩ := ih cs2 (xs.drop (min (g * 8) xs.length))
            (fun y hy => hx y (List.mem_of_mem_drop hy)) hdl
          refine ⟨?_, ⟨pad, hpad, ?_⟩, ?_⟩
          · intro r hr
            rcases List.mem_cons.mp hr with rfl | hr
            · exact hwfp
            · exact i1 r hr
          · simp only [runsVals, List.flatMap_cons, Run.vals] at i2 ⊢
            rw [i2, gf, hmin, Nat.sub_self, List.replicate_zero, List.append_nil, ← List.append_assoc,
              List.take_append_drop]
          · intro c' v hc
            rcases List.mem_cons.mp hc with h | hc
            · cases h
            · have := i3 c' v hc
              rw [List.length_drop] at this; omega

/-! ## size of the serialisation, and the library decoder on every segmentation -/

theorem ser_length_le_wf (w : Nat) (h8 : w ≤ 8) (r : Run) (hwf : r.WF w) (hb : r.vals.length < 2 ^ 34) :
    (r.ser w).length ≤ 6 * r.vals.length := by
  cases r with
  | rle c v =>
    obtain ⟨hc, _⟩ := hwf
    simp only [Run.vals, List.length_replicate] at hb
    have h5 := uleb_length_le 5 (by omega) (c * 2) (by
      have : (128 : Nat) ^ 5 = 2 ^ 35 := by decide
      omega)
    have hv : (leBytes ((w + 7) / 8) v).length ≤ 1 := by rw [leBytes_length]; omega
    simp only [Run.ser, Run.vals, List.length_append, List.length_replicate]
    omega
  | packed gs =>
    obtain ⟨hg1, hg⟩ := hwf
    have hfl := flatten_length8 gs (fun g h => (hg g h).1)
    simp only [Run.vals, hfl] at hb
    have h5 := uleb_length_le 5 (by omega) (gs.length * 2 + 1) (by
      have : (128 : Nat) ^ 5 = 2 ^ 35 := by decide
      omega)
    simp only [Run.ser, Run.vals, List.length_append, flatMap_packSpec_length, hfl]
    have : gs.length * w ≤ gs.length * 8 := Nat.mul_le_mul_left _ h8
    omega

theorem serRuns_length_le_wf (w : Nat) (h8 : w ≤ 8) (runs : List Run) (hwf : ∀ r ∈ runs, r.WF w)
    (hb : (runsVals runs).length < 2 ^ 34) : (serRuns w runs).length ≤ 6 * (runsVals runs).length := by
  induction runs with
  | nil => simp [serRuns, runsVals]
  | cons r rs ih =>
    simp only [runsVals, List.flatMap_cons, List.length_append] at hb
    have h1 := ser_length_le_wf w h8 r (hwf r (by simp)) (by omega)
    have h2 := ih (fun r' h' => hwf r' (by simp [h'])) (by simp only [runsVals]; omega)
    simp only [serRuns, runsVals, List.flatMap_cons, List.length_append] at h2 ⊢
    omega

theorem levelSection_eq (w : Nat) (runs : List Run) :
    levelSection w runs = le32 (serRuns w runs).length ++ serRuns w runs := rfl

theorem levelSection_length (w : Nat) (runs : List Run) :
    (levelSection w runs).length = 4 + (serRuns w runs).length := by
  rw [levelSection_eq, List.length_append, le32_length]

/-- the size of any segmentation's level section is linear in the number of levels -/
theorem segment_size (w padv : Nat) (h8 : w ≤ 8) (hp : padv < 2 ^ w) (fuel : Nat) (cs : Choices)
    (xs : List Nat) (hx : ∀ x ∈ xs, x < 2 ^ w) (hf : xs.length ≤ fuel) (hlen : xs.length + 8 ≤ 2 ^ 34) :
    (serRuns w (segment padv fuel cs xs).1).length ≤ 6 * (xs.length + 7) := by
  obtain ⟨hwf, ⟨pad, hpad, hv⟩, _⟩ := segment_ok w padv hp fuel cs xs hx hf
  have hl : (runsVals (segment padv fuel cs xs).1).length = xs.length + pad := by
    rw [hv, List.length_append, List.length_replicate]
  have := serRuns_length_le_wf w h8 _ hwf (by omega)
  omega

/-- **The library's level decoder returns the same levels for every legal segmentation.** -/
theorem implDecode_segment (w : Nat) (hw : 1 ≤ w ∧ w ≤ 4) (padv : Nat) (hp : padv < 2 ^ w)
    (fuel : Nat) (cs : Choices) (xs : List Nat) (hx : ∀ x ∈ xs, x < 2 ^ w) (hf : xs.length ≤ fuel)
    (hlen : xs.length + 8 ≤ 2 ^ 28) (rest : Bytes) :
    ∃ pad, pad < 8 ∧
      implDecode w (levelSection w (segment padv fuel cs xs).1 ++ rest)
        = .ok (xs ++ List.replicate pad padv, (levelSection w (segment padv fuel cs xs).1).length) := by
  obtain ⟨hwf, ⟨pad, hpad, hv⟩, hc⟩ := segment_ok w padv hp fuel cs xs hx hf
  have hsz := segment_size w padv (by omega) hp fuel cs xs hx hf (by omega)
  refine ⟨pad, hpad, ?_⟩
  rw [levelSection_length, levelSection_eq,
    implDecode_ser w hw _ hwf (fun c v h => by have := hc c v h; omega) (by omega) rest, hv]

/-! ## thrift field lists: accessors ignore fields with other ids (helpers for C04 `unknown_fields_skipped`) -/
section Fields
open PQ.Thrift

theorem lookup_none_of_ne (extra : List (Nat × TVal)) (id : Nat) (h : ∀ p ∈ extra, p.1 ≠ id) :
    extra.lookup id = none := by
  induction extra with
  | nil => rfl
  | cons p ps ih =>
    obtain ⟨a, b⟩ := p
    have hne : (id == a) = false := by
      have := h (a, b) (by simp)
      simp only [ne_eq] at this
      simp only [beq_eq_false_iff_ne, ne_eq]
      exact fun e => this e.symm
    rw [List.lookup_cons, hne]
    exact ih (fun q hq => h q (by simp [hq]))

/-- inserting fields with other ids anywhere in a field list does not change what `lookup id` finds -/
theorem lookup_insert (fs1 extra fs2 : List (Nat × TVal)) (id : Nat) (h : ∀ p ∈ extra, p.1 ≠ id) :
    (fs1 ++ extra ++ fs2).lookup id = (fs1 ++ fs2).lookup id := by
  rw [List.lookup_append, List.lookup_append, List.lookup_append, lookup_none_of_ne extra id h]
  cases List.lookup id fs1 <;> rfl

/-- `decPHdr` only depends on what `lookup` finds for the ids 1, 2, 3, 5, 6, 7, 8 -/
theorem decPHdr_congr (fs fs' : List (Nat × TVal))
    (h : ∀ id ∈ [1, 2, 3, 5, 6, 7, 8], fs'.lookup id = fs.lookup id) :
    decPHdr (.struct fs') = decPHdr (.struct fs) := by
  simp only [decPHdr, TVal.fieldsOf, getI32, getStruct]
  rw [h 1 (by simp), h 2 (by simp), h 3 (by simp), h 5 (by simp), h 6 (by simp), h 7 (by simp), h 8 (by simp)]

theorem lookup_replace (fs1 fs2 : List (Nat × TVal)) (k : Nat) (x y : TVal) (id : Nat) (h : id ≠ k) :
    (fs1 ++ (k, x) :: fs2).lookup id = (fs1 ++ (k, y) :: fs2).lookup id := by
  have hb : (id == k) = false := by simpa using h
  rw [List.lookup_append, List.lookup_append, List.lookup_cons, List.lookup_cons, hb]

theorem lookup_here (fs1 fs2 : List (Nat × TVal)) (k : Nat) (x : TVal) (h : fs1.lookup k = none) :
    (fs1 ++ (k, x) :: fs2).lookup k = some x := by
  rw [List.lookup_append, h, List.lookup_cons]; simp

theorem lookup_before (fs1 fs2 : List (Nat × TVal)) (k : Nat) (x v : TVal) (h : fs1.lookup k = some v) :
    (fs1 ++ (k, x) :: fs2).lookup k = some v := by
  rw [List.lookup_append, h]; rfl

/-- `decPHdr` when field 5 is a struct: only the lookups of 1, 2, 3, 6, 7, 8 in the header and of
1–5 in the data page header matter; and the statistics (5 in the data page header) only end up in the
last component of `dph` -/
theorem decPHdr_dph_congr (fs fs' d d' : List (Nat × TVal))
    (h : ∀ id ∈ [1, 2, 3, 6, 7, 8], fs'.lookup id = fs.lookup id)
    (h5 : fs.lookup 5 = some (.struct d)) (h5' : fs'.lookup 5 = some (.struct d'))
    (hd : ∀ id ∈ [1, 2, 3, 4], d'.lookup id = d.lookup id) :
    ((decPHdr (.struct fs')).map
        (fun p => (p.ty, p.uncompressed, p.compressed,
          p.dph.map (fun q => (q.1, q.2.1, q.2.2.1, q.2.2.2.1)), p.hasDict, p.hasIndex, p.hasV2))
      = (decPHdr (.struct fs)).map
        (fun p => (p.ty, p.uncompressed, p.compressed,
          p.dph.map (fun q => (q.1, q.2.1, q.2.2.1, q.2.2.2.1)), p.hasDict, p.hasIndex, p.hasV2)))
    ∧ (d'.lookup 5 = d.lookup 5 → decPHdr (.struct fs') = decPHdr (.struct fs)) := by
  have g : ∀ (a b : List (Nat × TVal)) id, a.lookup id = b.lookup id → getI32 a id = getI32 b id := by
    intro a b id e; simp only [getI32, e]
  have gs : ∀ (a b : List (Nat × TVal)) id, a.lookup id = b.lookup id → getStruct a id = getStruct b id := by
    intro a b id e; simp only [getStruct, e]
  simp only [decPHdr, TVal.fieldsOf]
  rw [h5, h5', g _ _ 1 (h 1 (by simp)), g _ _ 2 (h 2 (by simp)), g _ _ 3 (h 3 (by simp)),
    gs _ _ 6 (h 6 (by simp)), gs _ _ 7 (h 7 (by simp)), gs _ _ 8 (h 8 (by simp))]
  simp only
  rw [g _ _ 1 (hd 1 (by simp)), g _ _ 2 (hd 2 (by simp)), g _ _ 3 (hd 3 (by simp)), g _ _ 4 (hd 4 (by simp))]
  refine ⟨?_, fun e => by rw [gs _ _ 5 e]⟩
  generalize getI32 fs 1 = a
  generalize getI32 fs 2 = b
  generalize getI32 fs 3 = c
  generalize getI32 d 1 = n1
  generalize getI32 d 2 = n2
  generalize getI32 d 3 = n3
  generalize getI32 d 4 = n4
  cases a <;> cases b <;> cases c <;> cases n1 <;> cases n2 <;> cases n3 <;> cases n4 <;> rfl

/-- replacing the data page header struct `d` (field 5) by `d'` in place -/
theorem decPHdr_replace_dph (fs1 fs2 d d' : List (Nat × TVal))
    (hd : ∀ id ∈ [1, 2, 3, 4], d'.lookup id = d.lookup id) :
    ((decPHdr (.struct (fs1 ++ (5, .struct d') :: fs2))).map
        (fun p => (p.ty, p.uncompressed, p.compressed,
          p.dph.map (fun q => (q.1, q.2.1, q.2.2.1, q.2.2.2.1)), p.hasDict, p.hasIndex, p.hasV2))
      = (decPHdr (.struct (fs1 ++ (5, .struct d) :: fs2))).map
        (fun p => (p.ty, p.uncompressed, p.compressed,
          p.dph.map (fun q => (q.1, q.2.1, q.2.2.1, q.2.2.2.1)), p.hasDict, p.hasIndex, p.hasV2)))
    ∧ (d'.lookup 5 = d.lookup 5 →
        decPHdr (.struct (fs1 ++ (5, .struct d') :: fs2)) = decPHdr (.struct (fs1 ++ (5, .struct d) :: fs2))) := by
  have hne : ∀ id ∈ [1, 2, 3, 6, 7, 8], (fs1 ++ (5, TVal.struct d') :: fs2).lookup id
      = (fs1 ++ (5, TVal.struct d) :: fs2).lookup id := by
    intro id hid
    exact lookup_replace fs1 fs2 5 _ _ id (by intro e; subst e; simp at hid)
  cases hk : fs1.lookup 5 with
  | some v =>
    have e : decPHdr (.struct (fs1 ++ (5, .struct d') :: fs2)) = decPHdr (.struct (fs1 ++ (5, .struct d) :: fs2)) := by
      apply decPHdr_congr
      intro id hid
      by_cases h5 : id = 5
      · subst h5; rw [lookup_before _ _ _ _ v hk, lookup_before _ _ _ _ v hk]
      · exact lookup_replace fs1 fs2 5 _ _ id h5
    exact ⟨by rw [e], fun _ => e⟩
  | none =>
    exact decPHdr_dph_congr _ _ d d' hne (lookup_here _ _ _ _ hk) (lookup_here _ _ _ _ hk) hd

end Fields

end PQ
