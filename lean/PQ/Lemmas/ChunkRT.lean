import PQ.Lemmas.PageRT
import PQ.Lemmas.Writer
import PQ.Model.Spec
/-!
# Column chunks and row groups: what the writer lays out is what the specification parser reads

* `specChunkPages_pages` – the pages of one column chunk (`chunkBytes`), wherever they sit in a file,
  are parsed back by `specChunkPages` to exactly their entries;
* `decChunk_chunkT` / `specChunk_chunk` – the `ColumnChunk` the footer records for them is accepted
  by `specChunk`, which returns the concatenated entries and the position right after the chunk;
* `specRowGroup_go_items` / `specRowGroup_rg` – the same for all chunks of a row group, laid out back to back;
* `parseFile_go_rgs` – and for all row groups of a file.
-/
namespace PQ
open PQ.Thrift

/-! ## pages of one chunk -/

/-- what `specPage` returns for the page holding `es` -/
def pageSpec (k : Codec) (c : Col) (es : PageEntries) : SpecPage :=
  { numValues := es.length, entries := es, headerLen := (pageBytes k c es).1.length,
    compressedLen := (pageBytes k c es).2.length, uncompressedLen := (pagePayload c es).length,
    stats := some (pageStatsFields c es) }

/-- everything the parser checks of one page of column `c` holding `es`, besides its position -/
structure PageGood (dc : Decomp) (k : Codec) (maxRecs : Nat) (c : Col) (es : PageEntries) : Prop where
  wf : WFPage c es
  codec : CodecOK dc k (k.id : Int) (pagePayload c es)
  recs : recordsIn es ≤ maxRecs
  head : ∀ e ∈ es.head?, e.rep = 0

theorem chunkBytes_nil (k : Codec) (c : Col) : chunkBytes k c [] = [] := rfl

theorem chunkBytes_cons (k : Codec) (c : Col) (es : PageEntries) (ess : List PageEntries) :
    chunkBytes k c (es :: ess) = (pageBytes k c es).1 ++ (pageBytes k c es).2 ++ chunkBytes k c ess := by
  simp [chunkBytes, pageWrites]

theorem encFields_length_pos (last : Nat) (fs : List (Nat × TVal)) : 1 ≤ (encFields last fs).length := by
  cases fs with
  | nil => simp [encFields]
  | cons f fs =>
    obtain ⟨id, v⟩ := f
    have := fieldHeader_length_pos last id v.code
    cases v <;> simp only [encFields, List.length_append] <;> omega

theorem pageHeader_length_pos (k : Codec) (c : Col) (es : PageEntries) : 1 ≤ (pageBytes k c es).1.length := by
  rw [pageBytes_eq]
  simp only [pageHeaderT, TVal.enc]
  exact encFields_length_pos _ _

theorem chunkBytes_length_ge (k : Codec) (c : Col) (ess : List PageEntries) :
    ess.length ≤ (chunkBytes k c ess).length := by
  induction ess with
  | nil => simp
  | cons es ess ih =>
    have := pageHeader_length_pos k c es
    rw [chunkBytes_cons]
    simp only [List.length_append, List.length_cons]
    omega

/-- `specChunkPages` with its monadic plumbing spelled out -/
theorem specChunkPages_succ (dc : Decomp) (c : Col) (codec : Int) (file : Bytes) (maxRecs fuel pos size : Nat)
    (hsize : size ≠ 0) (pg : SpecPage) (hpg : specPage dc c codec file pos = .ok pg)
    (hused : pg.headerLen + pg.compressedLen ≤ size) (hrecs : recordsIn pg.entries ≤ maxRecs)
    (hhead : ∀ e ∈ pg.entries.head?, e.rep = 0) (tl : List SpecPage)
    (htl : specChunkPages dc c codec file maxRecs fuel (pos + (pg.headerLen + pg.compressedLen))
      (size - (pg.headerLen + pg.compressedLen)) = .ok tl) :
    specChunkPages dc c codec file maxRecs (fuel + 1) pos size = .ok (pg :: tl) := by
  unfold specChunkPages
  rw [if_neg hsize]
  simp only [bind, Except.bind, hpg]
  rw [if_neg (by omega), if_neg (by omega)]
  cases he : pg.entries with
  | nil =>
    simp only [pure, Except.pure, htl]
  | cons e es =>
    have : e.rep = 0 := hhead e (by rw [he]; rfl)
    simp only [this, ne_eq, not_true_eq_false, if_false, pure, Except.pure, htl]

/-- **Step 1.**  The pages of one column chunk, wherever they sit in a file, are parsed back to exactly
their `pageSpec`s, provided `size` is the chunk's byte length. -/
theorem specChunkPages_pages (dc : Decomp) (k : Codec) (maxRecs : Nat) (c : Col) :
    ∀ (ess : List PageEntries) (pre post : Bytes) (fuel : Nat), ess.length < fuel →
      (∀ es ∈ ess, PageGood dc k maxRecs c es) →
      specChunkPages dc c (k.id : Int) (pre ++ chunkBytes k c ess ++ post) maxRecs fuel pre.length
        (chunkBytes k c ess).length = .ok (ess.map (pageSpec k c))
  | [], pre, post, fuel, hf, _ => by
    cases fuel with
    | zero => omega
    | succ f => simp [specChunkPages, chunkBytes_nil]
  | es :: ess, pre, post, fuel, hf, hg => by
    cases fuel with
    | zero => omega
    | succ f =>
      have hgood := hg es List.mem_cons_self
      have hpos := pageHeader_length_pos k c es
      have hfile : pre ++ chunkBytes k c (es :: ess) ++ post =
          pre ++ (pageBytes k c es).1 ++ (pageBytes k c es).2 ++ (chunkBytes k c ess ++ post) := by
        rw [chunkBytes_cons]; simp only [List.append_assoc]
      have hpage := specPage_pageBytes_codec dc k (k.id : Int) c es hgood.wf hgood.codec pre (chunkBytes k c ess ++ post)
      rw [← hfile] at hpage
      have hlen : (chunkBytes k c (es :: ess)).length =
          (pageBytes k c es).1.length + (pageBytes k c es).2.length + (chunkBytes k c ess).length := by
        rw [chunkBytes_cons]; simp only [List.length_append]
      have hfile2 : pre ++ chunkBytes k c (es :: ess) ++ post =
          (pre ++ (pageBytes k c es).1 ++ (pageBytes k c es).2) ++ chunkBytes k c ess ++ post := by
        rw [chunkBytes_cons]; simp only [List.append_assoc]
      have ih := specChunkPages_pages dc k maxRecs c ess (pre ++ (pageBytes k c es).1 ++ (pageBytes k c es).2) post f
        (by simp only [List.length_cons] at hf; omega) (fun e he => hg e (List.mem_cons_of_mem _ he))
      rw [← hfile2] at ih
      have hl2 : (pre ++ (pageBytes k c es).1 ++ (pageBytes k c es).2).length =
          pre.length + ((pageBytes k c es).1.length + (pageBytes k c es).2.length) := by
        simp only [List.length_append]; omega
      rw [hl2] at ih
      rw [List.map_cons]
      apply specChunkPages_succ dc c (k.id : Int) _ maxRecs f pre.length _ (by omega) (pageSpec k c es) hpage
      · simp only [pageSpec]; omega
      · exact hgood.recs
      · exact hgood.head
      · simp only [pageSpec]
        have : (chunkBytes k c (es :: ess)).length - ((pageBytes k c es).1.length + (pageBytes k c es).2.length)
            = (chunkBytes k c ess).length := by omega
        rw [this]
        exact ih

/-! ## the chunk's metadata -/

/-- the `ColumnChunk` metadata `chunkT` decodes to -/
def chunkMetaOf (c : Col) (cid : Nat) (ch : Chunk) (pos : Nat) : ChunkMeta :=
  { fileOffset := pos,
    md := some { ty := c.ty.phys, encodings := [0], path := c.path.map strBytes, codec := cid,
                 numValues := ch.numValues, totalUncompressed := ch.totalUncompressed,
                 totalCompressed := ch.totalCompressed, dataPageOffset := pos } }

theorem filterMap_binOf (l : List String) :
    List.filterMap (binOf ∘ fun n => TVal.bin (strBytes n)) l = l.map strBytes := by
  induction l with
  | nil => rfl
  | cons a l ih => simp [binOf, ih]

/-- **Step 2a.**  `ColumnChunk.Read` on what `Footer` wrote -/
theorem decChunk_chunkT (c : Col) (cid : Nat) (ch : Chunk) (pos : Nat) :
    decChunk (chunkT c cid ch pos) = some (chunkMetaOf c cid ch pos) := by
  simp [decChunk, chunkT, chunkMetaOf, TVal.fieldsOf, getI64, getI32, getList, decColMeta, List.lookup,
    filterMap_binOf, intOf]

theorem foldl_addEntries_uncompressed (codec : Codec) (c : Col) (ess : List PageEntries) (ch : Chunk) :
    (ess.foldl (Chunk.addEntries codec c) ch).totalUncompressed =
      ch.totalUncompressed + (ess.map fun es => (pageBytes codec c es).1.length + (pagePayload c es).length).sum := by
  induction ess generalizing ch with
  | nil => simp
  | cons e ess ih =>
    simp only [List.foldl_cons, ih, List.map_cons, List.sum_cons, Chunk.addEntries, Chunk.addPage]
    omega

theorem colChunk_totalUncompressed (codec : Codec) (c : Col) (ess : List PageEntries) :
    (colChunk codec c ess).totalUncompressed =
      (ess.map fun es => (pageBytes codec c es).1.length + (pagePayload c es).length).sum := by
  have := foldl_addEntries_uncompressed codec c ess {}
  simpa [colChunk] using this

/-- what `specChunk` returns for the chunk whose pages hold `ess` -/
def chunkSpec (k : Codec) (c : Col) (ess : List PageEntries) : SpecChunk :=
  { pages := ess.map (pageSpec k c), entries := ess.flatten }

theorem flatMap_pageSpec_entries (k : Codec) (c : Col) (ess : List PageEntries) :
    (ess.map (pageSpec k c)).flatMap (·.entries) = ess.flatten := by
  induction ess with
  | nil => rfl
  | cons e ess ih => simp [pageSpec, ih]

/-- **Step 2b.**  The chunk whose pages hold `ess`, sitting at `pre.length` in a file, with the metadata
the footer records for it, is accepted by `specChunk`: exactly the entries, and the position right
after the chunk. -/
theorem specChunk_chunk (dc : Decomp) (k : Codec) (maxRecs : Nat) (c : Col) (ess : List PageEntries)
    (pre post : Bytes) (hg : ∀ es ∈ ess, PageGood dc k maxRecs c es) :
    specChunk dc c maxRecs (pre ++ chunkBytes k c ess ++ post) pre.length
        (chunkMetaOf c k.id (colChunk k c ess) pre.length) =
      .ok (chunkSpec k c ess, pre.length + (chunkBytes k c ess).length) := by
  have hpages := specChunkPages_pages dc k maxRecs c ess pre post ((pre ++ chunkBytes k c ess ++ post).length + 2)
    (by have := chunkBytes_length_ge k c ess; simp only [List.length_append]; omega) hg
  have hnv : ((ess.map (pageSpec k c)).map (·.numValues)).sum = (ess.map List.length).sum := by
    rw [List.map_map]; rfl
  have htu : ((ess.map (pageSpec k c)).map fun p => p.headerLen + p.uncompressedLen).sum =
      (ess.map fun es => (pageBytes k c es).1.length + (pagePayload c es).length).sum := by
    rw [List.map_map]; rfl
  unfold specChunk
  simp only [chunkMetaOf, bind, Except.bind, pure, Except.pure, ne_eq, not_true_eq_false, if_false,
    colChunk_totalCompressed, colChunk_numValues, colChunk_totalUncompressed, Int.toNat_natCast]
  rw [if_neg (by omega), if_neg (by simp)]
  simp only [hpages, hnv, htu, not_true_eq_false, if_false, chunkSpec, flatMap_pageSpec_entries]

/-! ## row groups -/

/-- a column together with the entries of each of its pages -/
abbrev PItem := Col × List PageEntries

/-- the `(column, totals, bytes)` item of `Lemmas/Writer.lean` for a column and its pages -/
def mkItem (k : Codec) (p : PItem) : Col × Chunk × Bytes := (p.1, colChunk k p.1 p.2, chunkBytes k p.1 p.2)

/-- bytes of the chunks of one row group -/
def pitemsBytes (k : Codec) (pits : List PItem) : Bytes := itemsBytes (pits.map (mkItem k))

theorem pitemsBytes_nil (k : Codec) : pitemsBytes k [] = [] := rfl

theorem pitemsBytes_cons (k : Codec) (p : PItem) (pits : List PItem) :
    pitemsBytes k (p :: pits) = chunkBytes k p.1 p.2 ++ pitemsBytes k pits := by
  simp [pitemsBytes, itemsBytes, mkItem]

/-- the decoded `ColumnChunk`s of one row group laid out from `pos` -/
def rgMetas (k : Codec) : List PItem → Nat → List ChunkMeta
  | [], _ => []
  | p :: rest, pos => chunkMetaOf p.1 k.id (colChunk k p.1 p.2) pos :: rgMetas k rest (pos + (chunkBytes k p.1 p.2).length)

theorem rgMetas_length (k : Codec) : ∀ (pits : List PItem) (pos : Nat), (rgMetas k pits pos).length = pits.length
  | [], _ => rfl
  | _ :: rest, pos => by simp [rgMetas, rgMetas_length k rest]

theorem mapM_decChunk_locs (k : Codec) : ∀ (pits : List PItem) (pos : Nat),
    ((locsFrom (pits.map (mkItem k)) pos).map fun x => chunkT x.col k.id x.chunk x.offset).mapM decChunk =
      some (rgMetas k pits pos)
  | [], _ => rfl
  | p :: rest, pos => by
    have ih := mapM_decChunk_locs k rest (pos + (chunkBytes k p.1 p.2).length)
    simp only [List.map_cons, mkItem, locsFrom, List.mapM_cons, decChunk_chunkT, rgMetas] at ih ⊢
    simp only [ih, bind, Option.bind, pure]

theorem rgMetas_totalCompressed (k : Codec) : ∀ (pits : List PItem) (pos : Nat),
    (((rgMetas k pits pos).filterMap (·.md)).map (·.totalCompressed)).sum = (((pitemsBytes k pits).length : Nat) : Int)
  | [], _ => rfl
  | p :: rest, pos => by
    have ih := rgMetas_totalCompressed k rest (pos + (chunkBytes k p.1 p.2).length)
    simp only [rgMetas, chunkMetaOf, List.filterMap_cons, List.map_cons, List.sum_cons, ih, pitemsBytes_cons,
      List.length_append, colChunk_totalCompressed]
    omega

/-- **Step 3a.**  The chunk walk of `specRowGroup` over the chunks of one row group laid out back to
back from `pre.length`. -/
theorem specRowGroup_go_items (dc : Decomp) (k : Codec) (maxRecs : Nat) :
    ∀ (pits : List PItem) (pre post : Bytes), (∀ p ∈ pits, ∀ es ∈ p.2, PageGood dc k maxRecs p.1 es) →
      specRowGroup.go dc maxRecs (pre ++ pitemsBytes k pits ++ post)
          ((pits.map (·.1)).zip (rgMetas k pits pre.length)) pre.length =
        .ok (pits.map (fun p => chunkSpec k p.1 p.2), pre.length + (pitemsBytes k pits).length)
  | [], pre, post, _ => by
    simp [specRowGroup.go, pitemsBytes_nil, pure, Except.pure]
  | p :: rest, pre, post, hg => by
    have h1 := specChunk_chunk dc k maxRecs p.1 p.2 pre (pitemsBytes k rest ++ post) (hg p List.mem_cons_self)
    have hfile : pre ++ pitemsBytes k (p :: rest) ++ post = pre ++ chunkBytes k p.1 p.2 ++ (pitemsBytes k rest ++ post) := by
      rw [pitemsBytes_cons]; simp only [List.append_assoc]
    have hfile2 : pre ++ pitemsBytes k (p :: rest) ++ post = (pre ++ chunkBytes k p.1 p.2) ++ pitemsBytes k rest ++ post := by
      rw [pitemsBytes_cons]; simp only [List.append_assoc]
    have ih := specRowGroup_go_items dc k maxRecs rest (pre ++ chunkBytes k p.1 p.2) post
      (fun q hq => hg q (List.mem_cons_of_mem _ hq))
    rw [← hfile] at h1
    rw [← hfile2, List.length_append] at ih
    simp only [List.map_cons, rgMetas, List.zip_cons_cons, specRowGroup.go, bind, Except.bind, h1, ih, pure, Except.pure]
    simp only [pitemsBytes_cons, List.length_append, Nat.add_assoc]

/-- the decoded `RowGroup` of a row group with `rows` rows whose chunks are laid out from `pos` -/
def rgMetaOf (k : Codec) (rows : Nat) (pits : List PItem) (pos : Nat) : RGMeta :=
  { columns := rgMetas k pits pos, totalByteSize := ((pitemsBytes k pits).length : Nat), numRows := rows }

/-- `specRowGroup` once its chunk walk is known -/
theorem specRowGroup_of_go (dc : Decomp) (cols : List Col) (maxRecs : Nat) (file : Bytes) (pos : Nat) (rg : RGMeta)
    (chunks : List SpecChunk) (pos' : Nat) (hlen : rg.columns.length = cols.length)
    (hgo : specRowGroup.go dc maxRecs file (cols.zip rg.columns) pos = .ok (chunks, pos'))
    (hnr : 0 ≤ rg.numRows) (hrows : ∀ sc ∈ chunks, recordsIn sc.entries = rg.numRows.toNat)
    (htot : rg.totalByteSize = ((rg.columns.filterMap (·.md)).map (·.totalCompressed)).sum) :
    specRowGroup dc cols maxRecs file pos rg = .ok ({ numRows := rg.numRows.toNat, chunks := chunks }, pos') := by
  unfold specRowGroup
  simp only [hlen, ne_eq, not_true_eq_false, if_false, bind, Except.bind, hgo, pure, Except.pure]
  rw [if_neg (by omega), if_neg, if_neg]
  · intro h; exact h.1 htot
  · intro h
    rw [List.any_eq_true] at h
    obtain ⟨sc, hsc, hd⟩ := h
    simp only [decide_eq_true_eq] at hd
    exact hd (hrows sc hsc)

/-- **Step 3b.**  One row group: `rows` records in every column, one chunk per schema leaf. -/
theorem specRowGroup_rg (dc : Decomp) (k : Codec) (maxRecs : Nat) (cols : List Col) (rows : Nat)
    (pits : List PItem) (pre post : Bytes) (hcols : pits.map (·.1) = cols)
    (hg : ∀ p ∈ pits, ∀ es ∈ p.2, PageGood dc k maxRecs p.1 es)
    (hrows : ∀ p ∈ pits, recordsIn p.2.flatten = rows) :
    specRowGroup dc cols maxRecs (pre ++ pitemsBytes k pits ++ post) pre.length (rgMetaOf k rows pits pre.length) =
      .ok ({ numRows := rows, chunks := pits.map fun p => chunkSpec k p.1 p.2 },
           pre.length + (pitemsBytes k pits).length) := by
  have hgo := specRowGroup_go_items dc k maxRecs pits pre post hg
  rw [hcols] at hgo
  have hlen : (rgMetas k pits pre.length).length = cols.length := by
    rw [rgMetas_length, ← hcols, List.length_map]
  have := specRowGroup_of_go dc cols maxRecs (pre ++ pitemsBytes k pits ++ post) pre.length
    (rgMetaOf k rows pits pre.length) _ _ hlen hgo (by simp [rgMetaOf])
    (by
      intro sc hsc
      obtain ⟨p, hp, rfl⟩ := List.mem_map.mp hsc
      simp [chunkSpec, rgMetaOf, hrows p hp])
    (by simp only [rgMetaOf, rgMetas_totalCompressed])
  rw [this]
  simp [rgMetaOf]

/-! ## all row groups of a file -/

/-- bytes of all row groups -/
def prgsBytes (k : Codec) (prgs : List (Nat × List PItem)) : Bytes := prgs.flatMap fun g => pitemsBytes k g.2

theorem prgsBytes_cons (k : Codec) (g : Nat × List PItem) (prgs : List (Nat × List PItem)) :
    prgsBytes k (g :: prgs) = pitemsBytes k g.2 ++ prgsBytes k prgs := by
  simp [prgsBytes]

/-- the decoded `RowGroup`s of row groups `(rows, chunks)` laid out back to back from `pos` -/
def fileMetas (k : Codec) : List (Nat × List PItem) → Nat → List RGMeta
  | [], _ => []
  | g :: rest, pos => rgMetaOf k g.1 g.2 pos :: fileMetas k rest (pos + (pitemsBytes k g.2).length)

/-- what `specRowGroup` returns for a row group -/
def rgSpec (k : Codec) (g : Nat × List PItem) : SpecRG :=
  { numRows := g.1, chunks := g.2.map fun p => chunkSpec k p.1 p.2 }

/-- **Step 3c.**  The row-group walk of `parseFile`. -/
theorem parseFile_go_rgs (dc : Decomp) (k : Codec) (maxRecs : Nat) (cols : List Col) :
    ∀ (prgs : List (Nat × List PItem)) (pre post : Bytes),
      (∀ g ∈ prgs, g.2.map (·.1) = cols ∧ (∀ p ∈ g.2, ∀ es ∈ p.2, PageGood dc k maxRecs p.1 es) ∧
        ∀ p ∈ g.2, recordsIn p.2.flatten = g.1) →
      parseFile.go dc cols maxRecs (pre ++ prgsBytes k prgs ++ post) (fileMetas k prgs pre.length) pre.length =
        .ok (prgs.map (rgSpec k), pre.length + (prgsBytes k prgs).length)
  | [], pre, post, _ => by
    simp [parseFile.go, fileMetas, prgsBytes, pure, Except.pure]
  | g :: rest, pre, post, h => by
    obtain ⟨hc, hg, hr⟩ := h g List.mem_cons_self
    have h1 := specRowGroup_rg dc k maxRecs cols g.1 g.2 pre (prgsBytes k rest ++ post) hc hg hr
    have hfile : pre ++ prgsBytes k (g :: rest) ++ post = pre ++ pitemsBytes k g.2 ++ (prgsBytes k rest ++ post) := by
      rw [prgsBytes_cons]; simp only [List.append_assoc]
    have hfile2 : pre ++ prgsBytes k (g :: rest) ++ post = (pre ++ pitemsBytes k g.2) ++ prgsBytes k rest ++ post := by
      rw [prgsBytes_cons]; simp only [List.append_assoc]
    have ih := parseFile_go_rgs dc k maxRecs cols rest (pre ++ pitemsBytes k g.2) post
      (fun q hq => h q (List.mem_cons_of_mem _ hq))
    rw [← hfile] at h1
    rw [← hfile2, List.length_append] at ih
    simp only [fileMetas, parseFile.go, bind, Except.bind, h1, ih, pure, Except.pure, List.map_cons, rgSpec]
    simp only [prgsBytes_cons, List.length_append, Nat.add_assoc]

/-- the thrift `RowGroup`s the writer's footer holds decode to `fileMetas` -/
theorem mapM_decRG_rgTs (k : Codec) : ∀ (prgs : List (Nat × List PItem)) (pos : Nat),
    (rgTs k.id (prgs.map fun g => (g.1, g.2.map (mkItem k))) pos).mapM decRG = some (fileMetas k prgs pos)
  | [], _ => rfl
  | g :: rest, pos => by
    have ih := mapM_decRG_rgTs k rest (pos + (pitemsBytes k g.2).length)
    have hd : decRG (TVal.struct [(1, .list 12 ((locsFrom (g.2.map (mkItem k)) pos).map fun x => chunkT x.col k.id x.chunk x.offset)),
        (2, .int 6 ((itemsBytes (g.2.map (mkItem k))).length : Nat)), (3, .int 6 g.1)]) = some (rgMetaOf k g.1 g.2 pos) := by
      have hm := mapM_decChunk_locs k g.2 pos
      simp only [decRG, TVal.fieldsOf, getList, getI64, List.lookup, bind, Option.bind, beq_self_eq_true,
        Nat.reduceBEq, hm, rgMetaOf, pitemsBytes]
    simp only [List.map_cons, rgTs, List.mapM_cons, hd, fileMetas] at ih ⊢
    simp only [pitemsBytes] at ih ⊢
    simp only [ih, bind, Option.bind, pure]

end PQ
