import PQ.Model.Dremel
import PQ.Model.Schema
import PQ.Lemmas.SchemaTree
import PQ.Lemmas.Dremel
/-!
# Records: a whole record is a tree, its columns are projections of the same tree (C03, record level)

`PQ/Lemmas/Dremel.lean` proves that the striping of ONE column is lossless.  This file adds the
record level:

* `ValOf t` / `ValsOf ts` — the values of a field tree / forest (`FTree`), a **dependently typed**
  family defined by mutual structural recursion on the schema.  (Chosen over an untyped `Val` with a
  typing judgement: every inhabitant is well typed by construction, so `projCol` is total, its
  result type `Proj Bytes (fullReps q)` can be computed from the path, and no theorem carries
  typing side conditions.  Leaf values are `Bytes` whatever the physical type.)
* `PathIn t` / `PathsIn ts` — root-to-leaf paths, i.e. the columns; `pathsL ts` enumerates them in
  the order of `colsOf ts` (`colsOf_eq`), every path is enumerated (`mem_pathsL`).
* `fullReps q` (`repsPs`) — one `Rep` per path element; `Col.reps` is `declReps (fullReps q)`
  (`colOf_reps`), which is `[req]` for an all-required path; `colStream_declared` shows that the
  stored stream is a striping under the declared list as well.
* `projCol v q` (`projL`) — the projection of record `v` on column `q`; `colStream q v` — its
  striping, what the file stores.
* `record_injective` — for a well-formed forest a record is determined by its column projections.
* `skeleton n` — a projection cut at depth `n`; `skeleton_agree` — two columns agree on the skeleton
  down to their common ancestors; `sibling_events_agree` — the level-stream form of it.
* `assembleRecord` — a reader: reference `assembleTop` on every column, then the tree is rebuilt
  from the projections; `record_roundtrip` — it returns the original record;
  `record_roundtrip_unique` — the same through `record_injective`; `records_roundtrip` — the same
  for a file of many records (column chunks cut at their `rep = 0` entries).
-/
namespace PQ.Records
open PQ

/-! ## values -/

/-- what one path element with repetition `r` does to the type below it -/
def Wrap : Rep → Type → Type
  | .req, α => α
  | .opt, α => Option α
  | .rpt, α => List α

/-- functorial action of `Wrap r` -/
def Wrap.map {α β : Type} : (r : Rep) → (α → β) → Wrap r α → Wrap r β
  | .req, f, x => f x
  | .opt, f, x => Option.map f (x : Option α)
  | .rpt, f, x => List.map f (x : List α)

/-- `Proj α (r :: ts)` is `Wrap r (Proj α ts)` (the identity, once `r` is known) -/
def toProj {α : Type} : (r : Rep) → (ts : List Rep) → Wrap r (Proj α ts) → Proj α (r :: ts)
  | .req, _, x => x
  | .opt, _, x => x
  | .rpt, _, x => x

mutual
/-- the values of a field: a required leaf holds bytes, a required group holds a value for each of its
children, an optional node holds that or nothing, a repeated node a list of them -/
def ValOf : FTree → Type
  | .leaf _ r _ => Wrap r Bytes
  | .group _ r cs => Wrap r (ValsOf cs)
/-- the values of a forest (a record when the forest is the whole schema): one value per field -/
def ValsOf : List FTree → Type
  | [] => Unit
  | t :: ts => ValOf t × ValsOf ts
end

/-! ## columns = root-to-leaf paths -/

mutual
/-- a path from the node `t` down to a leaf -/
inductive PathIn : FTree → Type
  | leaf (n : String) (r : Rep) (ty : PType) : PathIn (.leaf n r ty)
  | group (n : String) (r : Rep) {cs : List FTree} (q : PathsIn cs) : PathIn (.group n r cs)
/-- a path from a forest down to a leaf: pick a tree (`here` / `there`), then a path in it -/
inductive PathsIn : List FTree → Type
  | here {t : FTree} {ts : List FTree} (p : PathIn t) : PathsIn (t :: ts)
  | there {t : FTree} {ts : List FTree} (q : PathsIn ts) : PathsIn (t :: ts)
end

mutual
/-- the repetition types along a path, outermost first, the leaf's own last -/
def repsP : {t : FTree} → PathIn t → List Rep
  | _, .leaf _ r _ => [r]
  | _, .group _ r q => r :: repsPs q
def repsPs : {ts : List FTree} → PathsIn ts → List Rep
  | _, .here p => repsP p
  | _, .there q => repsPs q
end

mutual
/-- projection of a value on the column `p`: follow the path, mapping under every optional and
every list met on the way -/
def projT : {t : FTree} → (p : PathIn t) → ValOf t → Proj Bytes (repsP p)
  | _, .leaf _ r _, v => toProj r [] v
  | _, .group _ r q, v => toProj r _ (Wrap.map r (projL q) v)
def projL : {ts : List FTree} → (q : PathsIn ts) → ValsOf ts → Proj Bytes (repsPs q)
  | _, .here p, v => projT p v.1
  | _, .there q, v => projL q v.2
end

/-- the FULL repetition list of column `q` of the schema `ts`: one `Rep` per path element -/
abbrev fullReps {ts : List FTree} (q : PathsIn ts) : List Rep := repsPs q

/-- the projection of the record `v` on column `q` -/
abbrev projCol {ts : List FTree} (v : ValsOf ts) (q : PathsIn ts) : Proj Bytes (fullReps q) := projL q v

/-! ## a record is determined by its column projections -/
theorem toProj_inj {α : Type} (r : Rep) (ts : List Rep) (x y : Wrap r (Proj α ts))
    (h : toProj r ts x = toProj r ts y) : x = y := by
  cases r <;> exact h

theorem Wrap.map_inj {α Q : Type} {β : Q → Type} (r : Rep) (F : (q : Q) → α → β q) (q0 : Q)
    (hinj : ∀ x x', (∀ q, F q x = F q x') → x = x') :
    ∀ w w' : Wrap r α, (∀ q, Wrap.map r (F q) w = Wrap.map r (F q) w') → w = w' := by
  cases r with
  | req => exact fun w w' h => hinj w w' h
  | opt =>
    intro w w' h
    cases w with
    | none =>
      cases w' with
      | none => rfl
      | some y => exact nomatch (h q0)
    | some x =>
      cases w' with
      | none => exact nomatch (h q0)
      | some y =>
        have : x = y := hinj x y (fun q => Option.some.inj (h q))
        rw [this]
  | rpt =>
    intro w
    induction w with
    | nil =>
      intro w' h
      cases w' with
      | nil => rfl
      | cons y ys => exact nomatch (h q0)
    | cons x xs ih =>
      intro w' h
      cases w' with
      | nil => exact nomatch (h q0)
      | cons y ys =>
        have h1 : x = y := hinj x y (fun q => (List.cons.inj (h q)).1)
        have h2 : xs = ys := ih ys (fun q => (List.cons.inj (h q)).2)
        rw [h1, h2]

mutual
/-- a well-formed node has a leaf below it -/
def somePath : (t : FTree) → t.WF → PathIn t
  | .leaf n r ty, _ => .leaf n r ty
  | .group n r cs, h => .group n r (somePaths cs (by unfold FTree.WF at h; exact h.2.2.2) (by unfold FTree.WF at h; exact h.2.1))
def somePaths : (ts : List FTree) → WFL ts → ts ≠ [] → PathsIn ts
  | [], _, h => absurd rfl h
  | t :: _, h, _ => .here (somePath t (by unfold WFL at h; exact h.1))
end

mutual
theorem projT_inj : (t : FTree) → t.WF → ∀ v v' : ValOf t, (∀ p : PathIn t, projT p v = projT p v') → v = v'
  | .leaf n r ty, _, v, v', h => by
    have := h (.leaf n r ty)
    unfold projT at this
    exact toProj_inj r [] v v' this
  | .group n r cs, hwf, v, v', h => by
    unfold FTree.WF at hwf
    have hcs := hwf.2.2.2
    refine Wrap.map_inj r (fun (q : PathsIn cs) => projL q) (somePaths cs hcs hwf.2.1)
      (fun x x' hx => projL_inj cs hcs x x' hx) v v' (fun q => ?_)
    have := h (.group n r q)
    unfold projT at this
    exact toProj_inj r _ _ _ this
theorem projL_inj : (ts : List FTree) → WFL ts → ∀ v v' : ValsOf ts, (∀ q : PathsIn ts, projL q v = projL q v') → v = v'
  | [], _, v, v', _ => rfl
  | t :: ts, hwf, v, v', h => by
    unfold WFL at hwf
    have h1 : v.1 = v'.1 := projT_inj t hwf.1 v.1 v'.1 (fun p => by
      have := h (.here p); unfold projL at this; exact this)
    have h2 : v.2 = v'.2 := projL_inj ts hwf.2 v.2 v'.2 (fun q => by
      have := h (.there q); unfold projL at this; exact this)
    exact Prod.ext h1 h2
end

/-! ## columns of the forest = paths -/
mutual
def namesP : {t : FTree} → PathIn t → List String
  | _, .leaf n _ _ => [n]
  | _, .group n _ q => n :: namesPs q
def namesPs : {ts : List FTree} → PathsIn ts → List String
  | _, .here p => namesP p
  | _, .there q => namesPs q
end

mutual
def tyP : {t : FTree} → PathIn t → PType
  | _, .leaf _ _ ty => ty
  | _, .group _ _ q => tyPs q
def tyPs : {ts : List FTree} → PathsIn ts → PType
  | _, .here p => tyP p
  | _, .there q => tyPs q
end

/-- `Field.Types` as the generator declares it -/
def declReps (full : List Rep) : List Rep := if full.all (· == .req) then [.req] else full

def colT (pre : List String) (rs : List Rep) {t : FTree} (p : PathIn t) : Col :=
  { path := pre ++ namesP p, reps := declReps (rs ++ repsP p), ty := tyP p }
def colL (pre : List String) (rs : List Rep) {ts : List FTree} (q : PathsIn ts) : Col :=
  { path := pre ++ namesPs q, reps := declReps (rs ++ repsPs q), ty := tyPs q }

mutual
def pathsT : (t : FTree) → List (PathIn t)
  | .leaf n r ty => [.leaf n r ty]
  | .group n r cs => (pathsL cs).map (.group n r)
def pathsL : (ts : List FTree) → List (PathsIn ts)
  | [] => []
  | t :: ts => (pathsT t).map .here ++ (pathsL ts).map .there
end

mutual
theorem mem_pathsT : {t : FTree} → (p : PathIn t) → p ∈ pathsT t
  | _, .leaf n r ty => by unfold pathsT; exact List.mem_singleton.2 rfl
  | _, .group n r q => by unfold pathsT; exact List.mem_map.2 ⟨q, mem_pathsL q, rfl⟩
theorem mem_pathsL : {ts : List FTree} → (q : PathsIn ts) → q ∈ pathsL ts
  | _, .here p => by unfold pathsL; exact List.mem_append_left _ (List.mem_map.2 ⟨p, mem_pathsT p, rfl⟩)
  | _, .there q => by unfold pathsL; exact List.mem_append_right _ (List.mem_map.2 ⟨q, mem_pathsL q, rfl⟩)
end

mutual
theorem colsAux_paths : (t : FTree) → ∀ (pre : List String) (rs : List Rep),
    colsAux pre rs t = (pathsT t).map (colT pre rs)
  | .leaf n r ty, pre, rs => by
    unfold colsAux pathsT
    simp [colT, mkCol, declReps, namesP, repsP, tyP]
  | .group n r cs, pre, rs => by
    unfold colsAux pathsT
    rw [colsAuxL_paths cs, List.map_map]
    apply List.map_congr_left
    intro q _
    simp [colT, colL, namesP, repsP, tyP]
theorem colsAuxL_paths : (ts : List FTree) → ∀ (pre : List String) (rs : List Rep),
    colsAuxL pre rs ts = (pathsL ts).map (colL pre rs)
  | [], pre, rs => by unfold colsAuxL pathsL; rfl
  | t :: ts, pre, rs => by
    unfold colsAuxL pathsL
    rw [colsAux_paths t, colsAuxL_paths ts, List.map_append, List.map_map, List.map_map]
    congr 1
end

/-! ## skeletons

`skeleton n ts v` forgets everything below depth `n` of a projection: what is left is which of the
first `n` path elements are present and how long each list among them is. -/

inductive Skel
  | stop
  | req (s : Skel)
  | none
  | some (s : Skel)
  | list (ss : List Skel)

/-- the projection `v` cut at depth `n` -/
def skeleton {α : Type} : (n : Nat) → (ts : List Rep) → Proj α ts → Skel
  | 0, _, _ => .stop
  | _+1, [], _ => .stop
  | n+1, .req :: ts, v => .req (skeleton n ts (v : Proj α ts))
  | n+1, .opt :: ts, v =>
      match (v : Option (Proj α ts)) with
      | Option.none => .none
      | Option.some x => .some (skeleton n ts x)
  | n+1, .rpt :: ts, v => .list ((v : List (Proj α ts)).map (skeleton n ts))

def Skel.wrap : (r : Rep) → Wrap r Skel → Skel
  | .req, s => .req s
  | .opt, s => match (s : Option Skel) with | Option.none => .none | Option.some x => .some x
  | .rpt, s => .list s

theorem Wrap.map_map {α β γ : Type} (r : Rep) (f : α → β) (g : β → γ) (w : Wrap r α) :
    Wrap.map r g (Wrap.map r f w) = Wrap.map r (fun x => g (f x)) w := by
  cases r with
  | req => rfl
  | opt => cases w <;> rfl
  | rpt => exact List.map_map ..

theorem Wrap.map_congr {α β : Type} (r : Rep) (f g : α → β) (h : ∀ x, f x = g x) (w : Wrap r α) :
    Wrap.map r f w = Wrap.map r g w := by
  have : f = g := funext h
  rw [this]

theorem skeleton_toProj {α : Type} (n : Nat) (r : Rep) (ts : List Rep) (w : Wrap r (Proj α ts)) :
    skeleton (n+1) (r :: ts) (toProj r ts w) = Skel.wrap r (Wrap.map r (skeleton n ts) w) := by
  cases r with
  | req => rfl
  | opt => cases w <;> rfl
  | rpt => rfl

mutual
/-- number of path elements two columns have in common: their common ancestors (the whole path for
one and the same column) -/
def commonT : {t : FTree} → PathIn t → PathIn t → Nat
  | _, .leaf _ _ _, .leaf _ _ _ => 1
  | _, .group _ _ q, .group _ _ q' => commonL q q' + 1
def commonL : {ts : List FTree} → PathsIn ts → PathsIn ts → Nat
  | _, .here p, .here p' => commonT p p'
  | _, .there q, .there q' => commonL q q'
  | _, .here _, .there _ => 0
  | _, .there _, .here _ => 0
end

theorem commonT_group (n : String) (r : Rep) {cs : List FTree} (q q' : PathsIn cs) :
    commonT (.group n r q) (.group n r q') = commonL q q' + 1 := rfl
theorem commonL_here {t : FTree} {ts : List FTree} (p p' : PathIn t) :
    commonL (.here p : PathsIn (t :: ts)) (.here p') = commonT p p' := rfl
theorem commonL_there {t : FTree} {ts : List FTree} (q q' : PathsIn ts) :
    commonL (.there q : PathsIn (t :: ts)) (.there q') = commonL q q' := rfl
theorem commonL_here_there {t : FTree} {ts : List FTree} (p : PathIn t) (q : PathsIn ts) :
    commonL (.here p) (.there q) = 0 := rfl
theorem commonL_there_here {t : FTree} {ts : List FTree} (p : PathIn t) (q : PathsIn ts) :
    commonL (.there q) (.here p) = 0 := rfl

theorem projT_leaf (n : String) (r : Rep) (ty : PType) (v : Wrap r Bytes) :
    @projT (.leaf n r ty) (.leaf n r ty) v = toProj r [] v := rfl
theorem projT_group (n : String) (r : Rep) {cs : List FTree} (q : PathsIn cs) (v : Wrap r (ValsOf cs)) :
    @projT (.group n r cs) (.group n r q) v = toProj r (repsPs q) (Wrap.map r (projL q) v) := rfl
theorem projL_here {t : FTree} {ts : List FTree} (p : PathIn t) (v : ValOf t × ValsOf ts) :
    @projL (t :: ts) (.here p) v = projT p v.1 := rfl
theorem projL_there {t : FTree} {ts : List FTree} (q : PathsIn ts) (v : ValOf t × ValsOf ts) :
    @projL (t :: ts) (.there q) v = projL q v.2 := rfl

mutual
theorem skeletonT_agree : {t : FTree} → (p p' : PathIn t) → ∀ (k : Nat), k ≤ commonT p p' → ∀ v : ValOf t,
    skeleton k (repsP p) (projT p v) = skeleton k (repsP p') (projT p' v)
  | _, .leaf _ _ _, .leaf _ _ _, _, _, _ => rfl
  | _, .group n r q, .group _ _ q', 0, _, _ => rfl
  | _, .group n r q, .group _ _ q', k+1, hk, v => by
    rw [commonT_group] at hk
    have ih := skeletonL_agree q q' k (by omega)
    revert v
    show ∀ v : Wrap r (ValsOf _), skeleton (k+1) (r :: repsPs q) (projT (.group n r q) v) = skeleton (k+1) (r :: repsPs q') (projT (.group n r q') v)
    intro v
    rw [projT_group, projT_group, skeleton_toProj, skeleton_toProj, Wrap.map_map, Wrap.map_map]
    exact congrArg _ (Wrap.map_congr r _ _ ih v)
theorem skeletonL_agree : {ts : List FTree} → (q q' : PathsIn ts) → ∀ (k : Nat), k ≤ commonL q q' → ∀ v : ValsOf ts,
    skeleton k (repsPs q) (projL q v) = skeleton k (repsPs q') (projL q' v)
  | _, .here p, .here p', k, hk, v => by
    rw [commonL_here] at hk
    exact skeletonT_agree p p' k hk v.1
  | _, .there q, .there q', k, hk, v => by
    rw [commonL_there] at hk
    exact skeletonL_agree q q' k hk v.2
  | _, .here _, .there _, k, hk, v => by
    rw [commonL_here_there] at hk
    have : k = 0 := by omega
    subst this; rfl
  | _, .there _, .here _, k, hk, v => by
    rw [commonL_there_here] at hk
    have : k = 0 := by omega
    subst this; rfl
end

/-- **Sibling columns describe the same optional/list structure.**  Two columns of the same
record have the same skeleton down to any depth `n` not exceeding the number of their common
ancestors. -/
theorem skeleton_agree {ts : List FTree} (q q' : PathsIn ts) (n : Nat) (hn : n ≤ commonL q q')
    (v : ValsOf ts) :
    skeleton n (fullReps q) (projCol v q) = skeleton n (fullReps q') (projCol v q') :=
  skeletonL_agree q q' n hn v

/-! ## common prefix of the repetition lists -/
mutual
theorem repsT_take : {t : FTree} → (p p' : PathIn t) → ∀ (k : Nat), k ≤ commonT p p' →
    (repsP p).take k = (repsP p').take k
  | _, .leaf _ _ _, .leaf _ _ _, _, _ => rfl
  | _, .group n r q, .group _ _ q', 0, _ => rfl
  | _, .group n r q, .group _ _ q', k+1, hk => by
    rw [commonT_group] at hk
    show (r :: repsPs q).take (k+1) = (r :: repsPs q').take (k+1)
    rw [List.take_succ_cons, List.take_succ_cons, repsL_take q q' k (by omega)]
theorem repsL_take : {ts : List FTree} → (q q' : PathsIn ts) → ∀ (k : Nat), k ≤ commonL q q' →
    (repsPs q).take k = (repsPs q').take k
  | _, .here p, .here p', k, hk => by
    rw [commonL_here] at hk
    exact repsT_take p p' k hk
  | _, .there q, .there q', k, hk => by
    rw [commonL_there] at hk
    exact repsL_take q q' k hk
  | _, .here _, .there _, k, hk => by
    rw [commonL_here_there] at hk
    have : k = 0 := by omega
    subst this; rfl
  | _, .there _, .here _, k, hk => by
    rw [commonL_there_here] at hk
    have : k = 0 := by omega
    subst this; rfl
end

/-! ## level events at a prefix -/

/-- the entries of a stream that are not continuations of a list below repetition level `R`, with
their definition levels cut at `D` -/
def events {α : Type} (R D : Nat) (es : List (Entry α)) : List (Nat × Nat) :=
  (es.filter (fun e => decide (e.rep ≤ R))).map (fun e => (e.rep, min e.dl D))

theorem events_append {α : Type} (R D : Nat) (a b : List (Entry α)) :
    events R D (a ++ b) = events R D a ++ events R D b := by
  simp [events]

theorem events_flatMap {α β : Type} (R D : Nat) (f : β → List (Entry α)) (l : List β) :
    events R D (l.flatMap f) = l.flatMap (fun x => events R D (f x)) := by
  induction l with
  | nil => rfl
  | cons x xs ih => rw [List.flatMap_cons, events_append, ih, List.flatMap_cons]

theorem events_single {α : Type} (R D r d : Nat) (x : Option α) (hr : r ≤ R) (hd : d ≤ D) :
    events R D [⟨r, d, x⟩] = [(r, d)] := by
  unfold events
  rw [List.filter_cons_of_pos (by simpa using hr)]
  show [(r, min d D)] = [(r, d)]
  rw [Nat.min_eq_left hd]

theorem flatMap_congr' {β γ : Type} (f g : β → List γ) : ∀ (l : List β), (∀ x ∈ l, f x = g x) →
    l.flatMap f = l.flatMap g
  | [], _ => rfl
  | x :: xs, h => by
    rw [List.flatMap_cons, List.flatMap_cons, h x (List.mem_cons_self ..),
      flatMap_congr' f g xs (fun y hy => h y (List.mem_cons_of_mem _ hy))]

mutual
/-- the level events of a skeleton: its striping, where a cut-off point counts as one entry -/
def Skel.events : Skel → (r d k : Nat) → List (Nat × Nat)
  | .stop, r, d, _ => [(r, d)]
  | .req s, r, d, k => s.events r d k
  | .none, r, d, _ => [(r, d)]
  | .some s, r, d, k => s.events r (d+1) k
  | .list [], r, d, _ => [(r, d)]
  | .list (s :: ss), r, d, k => s.events r (d+1) (k+1) ++ Skel.eventsL ss (d+1) (k+1)
def Skel.eventsL : List Skel → (d k : Nat) → List (Nat × Nat)
  | [], _, _ => []
  | s :: ss, d, k => s.events k d k ++ Skel.eventsL ss d k
end

theorem Skel.eventsL_map {β : Type} (f : β → Skel) (d k : Nat) : ∀ l : List β,
    Skel.eventsL (l.map f) d k = l.flatMap (fun x => (f x).events k d k)
  | [] => by rw [List.map_nil, Skel.eventsL]; rfl
  | x :: xs => by rw [List.map_cons, Skel.eventsL, Skel.eventsL_map f d k xs, List.flatMap_cons]

/-- below the prefix: a value emitted under `k` repeated ancestors contributes exactly one event -/
theorem events_below {α : Type} (ts : List Rep) (r d k : Nat) (hr : r ≤ k) (v : Proj α ts) :
    events k d (stripe ts r d k v) = [(r, d)] := by
  obtain ⟨e, tl, h1, h2, h3, h4⟩ := PQ.stripe_shape ts r d k v
  rw [h1]
  unfold events
  have htl : tl.filter (fun e => decide (e.rep ≤ k)) = [] := by
    rw [List.filter_eq_nil_iff]
    intro x hx
    have := (h4 x hx).1
    simp; omega
  rw [List.filter_cons_of_pos (by simp; omega), htl]
  simp [h2]; omega

/-- the events of a striping at the depth-`n` prefix are the events of the depth-`n` skeleton -/
theorem events_stripe {α : Type} : ∀ (n : Nat) (ts : List Rep) (r d k : Nat), r ≤ k → ∀ (v : Proj α ts),
    events (k + maxRep (ts.take n)) (d + maxDef (ts.take n)) (stripe ts r d k v) =
      (skeleton n ts v).events r d k
  | 0, ts, r, d, k, hr, v => by
    show events (k + 0) (d + 0) _ = [(r, d)]
    exact events_below ts r d k hr v
  | n+1, [], r, d, k, hr, v => by
    show events (k + 0) (d + 0) _ = [(r, d)]
    exact events_below [] r d k hr v
  | n+1, .req :: ts, r, d, k, hr, v => by
    show events (k + maxRep (ts.take n)) (d + maxDef (ts.take n)) (stripe ts r d k (v : Proj α ts)) = _
    exact events_stripe n ts r d k hr v
  | n+1, .opt :: ts, r, d, k, hr, v => by
    revert v
    show ∀ v : Option (Proj α ts), _
    intro v
    cases v with
    | none =>
      show events (k + maxRep (ts.take n)) (d + (maxDef (ts.take n) + 1)) [⟨r, d, none⟩] = [(r, d)]
      exact events_single _ _ r d none (by omega) (by omega)
    | some x =>
      show events (k + maxRep (ts.take n)) (d + (maxDef (ts.take n) + 1)) (stripe ts r (d+1) k x) = (skeleton n ts x).events r (d+1) k
      rw [← events_stripe n ts r (d+1) k hr x]
      congr 1; omega
  | n+1, .rpt :: ts, r, d, k, hr, v => by
    revert v
    show ∀ v : List (Proj α ts), _
    intro v
    cases v with
    | nil =>
      show events (k + (maxRep (ts.take n) + 1)) (d + (maxDef (ts.take n) + 1)) [⟨r, d, none⟩] = [(r, d)]
      exact events_single _ _ r d none (by omega) (by omega)
    | cons x xs =>
      show events (k + (maxRep (ts.take n) + 1)) (d + (maxDef (ts.take n) + 1))
          (stripe ts r (d+1) (k+1) x ++ xs.flatMap (stripe ts (k+1) (d+1) (k+1))) =
        (skeleton n ts x).events r (d+1) (k+1) ++ Skel.eventsL (xs.map (skeleton n ts)) (d+1) (k+1)
      have hR : k + (maxRep (ts.take n) + 1) = (k+1) + maxRep (ts.take n) := by omega
      have hD : d + (maxDef (ts.take n) + 1) = (d+1) + maxDef (ts.take n) := by omega
      rw [hR, hD, events_append, events_flatMap, Skel.eventsL_map,
        events_stripe n ts r (d+1) (k+1) (by omega) x]
      congr 1
      apply flatMap_congr'
      intro y _
      exact events_stripe n ts (k+1) (d+1) (k+1) (Nat.le_refl _) y

/-! ## sibling columns: same events at the common prefix -/

/-- the entry stream the file stores for column `q` of record `v` -/
def colStream {ts : List FTree} (q : PathsIn ts) (v : ValsOf ts) : List (Entry Bytes) :=
  stripeTop (repsPs q) (projL q v)

theorem events_colStream {ts : List FTree} (q : PathsIn ts) (v : ValsOf ts) (n : Nat) :
    events (maxRep ((repsPs q).take n)) (maxDef ((repsPs q).take n)) (colStream q v) =
      (skeleton n (repsPs q) (projL q v)).events 0 0 0 := by
  have := events_stripe n (repsPs q) 0 0 0 (Nat.le_refl _) (projL q v)
  rw [Nat.zero_add, Nat.zero_add] at this
  exact this

/-- **Level-stream form of `skeleton_agree`.**  Let `R`, `D` be the maximum repetition and
definition levels of a common prefix (length `n`) of two columns.  Dropping from each column's
entry stream the entries with `rep > R` (continuations of a list below the prefix) and cutting the
definition levels at `D` leaves the same list of `(rep, dl)` pairs in both columns. -/
theorem sibling_events_agree {ts : List FTree} (q q' : PathsIn ts) (n : Nat) (hn : n ≤ commonL q q')
    (v : ValsOf ts) :
    events (maxRep ((repsPs q).take n)) (maxDef ((repsPs q).take n)) (colStream q v) =
      events (maxRep ((repsPs q).take n)) (maxDef ((repsPs q).take n)) (colStream q' v) := by
  rw [events_colStream q v n]
  rw [repsL_take q q' n hn, events_colStream q' v n, skeletonL_agree q q' n hn v]

/-- in particular both streams have the same number of entries with `rep ≤ R` -/
theorem sibling_count_agree {ts : List FTree} (q q' : PathsIn ts) (n : Nat) (hn : n ≤ commonL q q')
    (v : ValsOf ts) :
    ((colStream q v).filter (fun e => decide (e.rep ≤ maxRep ((repsPs q).take n)))).length =
      ((colStream q' v).filter (fun e => decide (e.rep ≤ maxRep ((repsPs q).take n)))).length := by
  have := congrArg List.length (sibling_events_agree q q' n hn v)
  unfold events at this
  rw [List.length_map, List.length_map] at this
  exact this

/-! ## reading a record back -/

/-- inverse of `toProj` -/
def fromProj {α : Type} : (r : Rep) → (ts : List Rep) → Proj α (r :: ts) → Wrap r (Proj α ts)
  | .req, _, x => x
  | .opt, _, x => x
  | .rpt, _, x => x

theorem fromProj_toProj {α : Type} (r : Rep) (ts : List Rep) (w : Wrap r (Proj α ts)) :
    fromProj r ts (toProj r ts w) = w := by cases r <;> rfl

/-- rebuild a `Wrap r γ` from the family `f` of its images under a family of maps indexed by `Q`:
the shape (present or not, length) is read off the image at `q0`, the elements are rebuilt by `g`
from the families of their images -/
def Wrap.assemble {Q γ : Type} {β : Q → Type} (zero : (q : Q) → β q) :
    (r : Rep) → Option Q → ((q : Q) → Wrap r (β q)) → (((q : Q) → β q) → γ) → Wrap r γ
  | .req, _, f, g => g f
  | .opt, none, _, _ => (Option.none : Option γ)
  | .opt, some q0, f, g =>
      match (f q0 : Option (β q0)) with
      | Option.none => (Option.none : Option γ)
      | Option.some _ => (Option.some (g (fun q => (f q : Option (β q)).getD (zero q))) : Option γ)
  | .rpt, none, _, _ => ([] : List γ)
  | .rpt, some q0, f, g =>
      ((List.range (f q0 : List (β q0)).length).map
        (fun i => g (fun q => (f q : List (β q)).getD i (zero q))) : List γ)

theorem Wrap.assemble_map {Q α : Type} {β : Q → Type} (zero : (q : Q) → β q) (r : Rep) (q0 : Q)
    (F : (q : Q) → α → β q) (g : ((q : Q) → β q) → α) (hg : ∀ x, g (fun q => F q x) = x)
    (w : Wrap r α) :
    Wrap.assemble zero r (some q0) (fun q => Wrap.map r (F q) w) g = w := by
  cases r with
  | req => exact hg w
  | opt =>
    cases w with
    | none => rfl
    | some x => exact congrArg Option.some (hg x)
  | rpt =>
    revert w
    show ∀ w : List α, (List.range (List.map (F q0) w).length).map
        (fun i => g (fun q => (List.map (F q) w).getD i (zero q))) = w
    intro w
    apply List.ext_getElem
    · simp
    · intro i h1 h2
      rw [List.getElem_map, List.getElem_range]
      rw [← hg w[i]]
      congr 1
      funext q
      simp [List.getD, h2]

mutual
/-- the first column below a node, if any -/
def firstT : (t : FTree) → Option (PathIn t)
  | .leaf n r ty => some (.leaf n r ty)
  | .group n r cs => (firstL cs).map (.group n r)
def firstL : (ts : List FTree) → Option (PathsIn ts)
  | [] => none
  | t :: ts =>
    match firstT t with
    | some p => some (.here p)
    | none => (firstL ts).map .there
end

mutual
theorem firstT_isSome : (t : FTree) → t.WF → (firstT t).isSome = true
  | .leaf _ _ _, _ => rfl
  | .group n r cs, h => by
    unfold FTree.WF at h
    unfold firstT
    rw [Option.isSome_map]
    exact firstL_isSome cs h.2.2.2 h.2.1
theorem firstL_isSome : (ts : List FTree) → WFL ts → ts ≠ [] → (firstL ts).isSome = true
  | [], _, h => absurd rfl h
  | t :: ts, h, _ => by
    unfold WFL at h
    have := firstT_isSome t h.1
    unfold firstL
    cases hf : firstT t with
    | none => rw [hf] at this; exact nomatch this
    | some p => rfl
end

mutual
/-- rebuild a value from its family of column projections (a group's own optional/list structure
is read off its first column) -/
def unprojT : (t : FTree) → ((p : PathIn t) → Proj Bytes (repsP p)) → ValOf t
  | .leaf n r ty, f => fromProj r [] (f (.leaf n r ty))
  | .group n r cs, f =>
      Wrap.assemble (fun q => zeroProj ([] : Bytes) (repsPs q)) r (firstL cs)
        (fun q => fromProj r (repsPs q) (f (.group n r q))) (unprojL cs)
def unprojL : (ts : List FTree) → ((q : PathsIn ts) → Proj Bytes (repsPs q)) → ValsOf ts
  | [], _ => ()
  | t :: ts, f => (unprojT t (fun p => f (.here p)), unprojL ts (fun q => f (.there q)))
end

mutual
theorem unprojT_projT : (t : FTree) → t.WF → ∀ v : ValOf t, unprojT t (fun p => projT p v) = v
  | .leaf n r ty, _, v => by
    unfold unprojT
    exact fromProj_toProj r [] v
  | .group n r cs, h, v => by
    unfold FTree.WF at h
    revert v
    show ∀ v : Wrap r (ValsOf cs), unprojT (.group n r cs) (fun p => projT p v) = v
    intro v
    unfold unprojT
    obtain ⟨q0, hq0⟩ := Option.isSome_iff_exists.1 (firstL_isSome cs h.2.2.2 h.2.1)
    rw [hq0]
    have : (fun q => fromProj r (repsPs q) (projT (.group n r q) v)) =
        (fun q => Wrap.map r (projL q) v) := by
      funext q
      rw [projT_group, fromProj_toProj]
    rw [this]
    exact Wrap.assemble_map _ r q0 (fun q => projL q) (unprojL cs) (unprojL_projL cs h.2.2.2) v
theorem unprojL_projL : (ts : List FTree) → WFL ts → ∀ v : ValsOf ts, unprojL ts (fun q => projL q v) = v
  | [], _, _ => rfl
  | t :: ts, h, v => by
    unfold WFL at h
    unfold unprojL
    exact Prod.ext (unprojT_projT t h.1 v.1) (unprojL_projL ts h.2 v.2)
end

/-- what a reader gets from one column's stream with the reference assembly (the zero value when
the stream is not a valid striping) -/
def readCol (ts : List Rep) (es : List (Entry Bytes)) : Proj Bytes ts :=
  match assembleTop ts es with
  | some (v, _) => v
  | none => zeroProj [] ts

/-- reassembly of a whole record: every column is assembled on its own, the tree is rebuilt from
the projections -/
def assembleRecord (ts : List FTree) (streams : PathsIn ts → List (Entry Bytes)) : ValsOf ts :=
  unprojL ts (fun q => readCol (repsPs q) (streams q))

theorem readCol_stripe (ts : List Rep) (v : Proj Bytes ts) (rest : List (Entry Bytes))
    (h : rest = [] ∨ ∃ e tl, rest = e :: tl ∧ e.rep = 0) :
    readCol ts (stripeTop ts v ++ rest) = v := by
  unfold readCol
  have : assembleTop ts (stripeTop ts v ++ rest) = some (v, rest) :=
    PQ.parse_stripe ts 0 0 0 v rest (PQ.Stops_zero_of rest h)
  rw [this]

/-- **A record is determined by its column projections** (every group of a well-formed schema has
a leaf below it, so its own optional/list structure is visible in that leaf's projection). -/
theorem record_injective (ts : List FTree) (hwf : ∀ t ∈ ts, t.WF) (v v' : ValsOf ts)
    (h : ∀ q : PathsIn ts, projCol v q = projCol v' q) : v = v' :=
  projL_inj ts ((WFL_iff ts).2 hwf) v v' h

/-- **Record round trip.**  A reader that assembles every column independently with the reference
`assembleTop` (each column's stream being the record's striping followed by nothing or by the next
record) and rebuilds the tree from the projections gets the original record. -/
theorem record_roundtrip (ts : List FTree) (hwf : ∀ t ∈ ts, t.WF) (v : ValsOf ts)
    (rest : PathsIn ts → List (Entry Bytes))
    (hrest : ∀ q, rest q = [] ∨ ∃ e tl, rest q = e :: tl ∧ e.rep = 0) :
    assembleRecord ts (fun q => colStream q v ++ rest q) = v := by
  unfold assembleRecord
  have : (fun q => readCol (repsPs q) (colStream q v ++ rest q)) = (fun q => projL q v) := by
    funext q
    exact readCol_stripe (repsPs q) (projL q v) (rest q) (hrest q)
  rw [this]
  exact unprojL_projL ts ((WFL_iff ts).2 hwf) v

/-- the form asked for by C03: any record whose column projections are what the reference
assembly returns from the stored streams is the original record -/
theorem record_roundtrip_unique (ts : List FTree) (hwf : ∀ t ∈ ts, t.WF) (v v' : ValsOf ts)
    (rest : PathsIn ts → List (Entry Bytes))
    (hrest : ∀ q, rest q = [] ∨ ∃ e tl, rest q = e :: tl ∧ e.rep = 0)
    (h : ∀ q : PathsIn ts, ∃ rest', assembleTop (repsPs q) (colStream q v ++ rest q) = some (projL q v', rest')) :
    v' = v := by
  apply record_injective ts hwf
  intro q
  obtain ⟨rest', hq⟩ := h q
  have : assembleTop (repsPs q) (colStream q v ++ rest q) = some (projL q v, rest q) :=
    PQ.parse_stripe (repsPs q) 0 0 0 (projL q v) (rest q) (PQ.Stops_zero_of (rest q) (hrest q))
  rw [this] at hq
  exact ((Prod.mk.inj (Option.some.inj hq)).1).symm

/-! ## relation to `colsOf` / `Col.reps` -/

/-- the `Col` the generator declares for column `q` -/
def colOf {ts : List FTree} (q : PathsIn ts) : Col := colL [] [] q

theorem colsOf_eq (ts : List FTree) : colsOf ts = (pathsL ts).map colOf :=
  colsAuxL_paths ts [] []

theorem colsOf_length (ts : List FTree) : (colsOf ts).length = (pathsL ts).length := by
  rw [colsOf_eq, List.length_map]

theorem colsOf_getElem (ts : List FTree) (i : Nat) (h : i < (colsOf ts).length) :
    (colsOf ts)[i] = colOf ((pathsL ts)[i]'(colsOf_length ts ▸ h)) := by
  simp [colsOf_eq]

theorem colOf_path {ts : List FTree} (q : PathsIn ts) : (colOf q).path = namesPs q := by
  simp [colOf, colL]

theorem colOf_reps {ts : List FTree} (q : PathsIn ts) : (colOf q).reps = declReps (repsPs q) := by
  simp [colOf, colL]

mutual
theorem repsT_length : {t : FTree} → (p : PathIn t) → (repsP p).length = (namesP p).length
  | _, .leaf _ _ _ => rfl
  | _, .group _ _ q => by
    show (repsPs q).length + 1 = (namesPs q).length + 1
    rw [repsL_length q]
theorem repsL_length : {ts : List FTree} → (q : PathsIn ts) → (repsPs q).length = (namesPs q).length
  | _, .here p => repsT_length p
  | _, .there q => repsL_length q
end

theorem declReps_levels (full : List Rep) : maxDef (declReps full) = maxDef full ∧ maxRep (declReps full) = maxRep full := by
  unfold declReps
  split
  · rename_i h
    have h := (SchemaTree.all_req_iff _).1 h
    have : ∀ l : List Rep, (∀ x ∈ l, x = Rep.req) → maxDef l = 0 ∧ maxRep l = 0 := by
      intro l
      induction l with
      | nil => intro _; exact ⟨rfl, rfl⟩
      | cons a l ih =>
        intro hl
        have ha := hl a (List.mem_cons_self ..)
        subst ha
        exact ih (fun x hx => hl x (List.mem_cons_of_mem _ hx))
    have := this full h
    exact ⟨this.1.symm, this.2.symm⟩
  · exact ⟨rfl, rfl⟩

/-- levels of a column's stream never exceed the declared column's maxima -/
theorem colStream_levels {ts : List FTree} (q : PathsIn ts) (v : ValsOf ts) :
    ∀ e ∈ colStream q v, e.dl ≤ (colOf q).maxDef ∧ e.rep ≤ (colOf q).maxRep ∧
      (e.val.isSome ↔ e.dl = (colOf q).maxDef) := by
  intro e he
  have := PQ.stripeTop_levels (repsPs q) (projL q v) e he
  unfold Col.maxDef Col.maxRep
  rw [colOf_reps, (declReps_levels _).1, (declReps_levels _).2]
  exact this

/-- for an all-required path the projection is just the leaf value -/
theorem Proj_allReq {α : Type} : ∀ (ts : List Rep), (∀ t ∈ ts, t = Rep.req) → Proj α ts = α
  | [], _ => rfl
  | .req :: ts, h => Proj_allReq ts (fun t ht => h t (List.mem_cons_of_mem _ ht))
  | .opt :: _, h => nomatch h .opt (List.mem_cons_self ..)
  | .rpt :: _, h => nomatch h .rpt (List.mem_cons_self ..)

/-- the stream stored for a column is a striping under the *declared* `Field.Types` as well: for an
all-required path the generator declares `[req]` and the stream is the single entry `(0, 0, x)` -/
theorem colStream_declared {ts : List FTree} (q : PathsIn ts) (v : ValsOf ts) :
    ∃ w : Proj Bytes (colOf q).reps, stripeTop (colOf q).reps w = colStream q v := by
  rw [colOf_reps]
  unfold declReps
  by_cases h : ((repsPs q).all (· == Rep.req)) = true
  · rw [if_pos h]
    obtain ⟨x, hx⟩ := PQ.stripe_required (repsPs q) ((SchemaTree.all_req_iff _).1 h) 0 0 0 (projL q v)
    exact ⟨x, hx.symm⟩
  · rw [if_neg h]
    exact ⟨projL q v, rfl⟩

/-- `record_injective` on the stored streams, over the column list `colsOf ts = (pathsL ts).map colOf` -/
theorem record_injective_cols (ts : List FTree) (hwf : ∀ t ∈ ts, t.WF) (v v' : ValsOf ts)
    (h : ∀ q ∈ pathsL ts, colStream q v = colStream q v') : v = v' :=
  record_injective ts hwf v v' (fun q =>
    PQ.stripeTop_injective (repsPs q) _ _ (h q (mem_pathsL q)))

/-! ## many records: column chunks -/

/-- the column chunk the file stores for column `q` of the records `vs` -/
def colChunk {ts : List FTree} (q : PathsIn ts) (vs : List (ValsOf ts)) : List (Entry Bytes) :=
  vs.flatMap (colStream q)

/-- the `i`-th record's worth of every column chunk, cut at the `rep = 0` entries -/
def recordStreams {ts : List FTree} (n i : Nat) (chunks : PathsIn ts → List (Entry Bytes)) :
    PathsIn ts → List (Entry Bytes) :=
  fun q => ((splitRecords n (chunks q))[i]?).getD []

theorem recordStreams_colChunk {ts : List FTree} (vs : List (ValsOf ts)) (i : Nat) (h : i < vs.length)
    (q : PathsIn ts) :
    recordStreams vs.length i (fun q => colChunk q vs) q = colStream q vs[i] := by
  unfold recordStreams colChunk
  show ((splitRecords vs.length (vs.flatMap (colStream q)))[i]?).getD [] = _
  have : vs.flatMap (colStream q) = (vs.map (projL q)).flatMap (stripeTop (repsPs q)) := by
    rw [List.flatMap_map]; rfl
  rw [this, PQ.splitRecords_flatMap (repsPs q) (vs.map (projL q)) vs.length (by simp)]
  simp [h, colStream]

/-- **File-level round trip of the records.**  Every column chunk is the concatenation of the
records' stripings; cutting each chunk at its `rep = 0` entries and assembling the `i`-th pieces
gives back the `i`-th record, for all records. -/
theorem records_roundtrip (ts : List FTree) (hwf : ∀ t ∈ ts, t.WF) (vs : List (ValsOf ts)) :
    (List.range vs.length).map
      (fun i => assembleRecord ts (recordStreams vs.length i (fun q => colChunk q vs))) = vs := by
  apply List.ext_getElem
  · simp
  · intro i h1 h2
    rw [List.getElem_map, List.getElem_range]
    have : recordStreams vs.length i (fun q => colChunk q vs) = fun q => colStream q vs[i] ++ [] := by
      funext q
      rw [recordStreams_colChunk vs i h2 q, List.append_nil]
    rw [this]
    exact record_roundtrip ts hwf vs[i] (fun _ => []) (fun _ => Or.inl rfl)

/-! ## the Dremel paper's `Document` (Melnik et al., VLDB 2010, figures 2 and 3) -/
section Examples

def docSchema : List FTree :=
  [ .leaf "DocId" .req .i64,
    .group "Links" .opt [ .leaf "Backward" .rpt .i64, .leaf "Forward" .rpt .i64 ],
    .group "Name" .rpt
      [ .group "Language" .rpt [ .leaf "Code" .req .str, .leaf "Country" .opt .str ],
        .leaf "Url" .opt .str ] ]

example : ∀ t ∈ docSchema, t.WF := by decide

def pDocId : PathsIn docSchema := .here (.leaf "DocId" .req .i64)
def pBackward : PathsIn docSchema :=
  .there (.here (.group "Links" .opt (.here (.leaf "Backward" .rpt .i64))))
def pForward : PathsIn docSchema :=
  .there (.here (.group "Links" .opt (.there (.here (.leaf "Forward" .rpt .i64)))))
def pCode : PathsIn docSchema :=
  .there (.there (.here (.group "Name" .rpt (.here (.group "Language" .rpt (.here (.leaf "Code" .req .str)))))))
def pCountry : PathsIn docSchema :=
  .there (.there (.here (.group "Name" .rpt (.here (.group "Language" .rpt (.there (.here (.leaf "Country" .opt .str))))))))
def pUrl : PathsIn docSchema :=
  .there (.there (.here (.group "Name" .rpt (.there (.here (.leaf "Url" .opt .str))))))

example : pathsL docSchema = [pDocId, pBackward, pForward, pCode, pCountry, pUrl] := rfl

example : (colsOf docSchema).map (fun c => (c.path, c.reps)) =
    [ (["DocId"], [.req]),
      (["Links", "Backward"], [.opt, .rpt]),
      (["Links", "Forward"], [.opt, .rpt]),
      (["Name", "Language", "Code"], [.rpt, .rpt, .req]),
      (["Name", "Language", "Country"], [.rpt, .rpt, .opt]),
      (["Name", "Url"], [.rpt, .opt]) ] := by decide

-- byte strings: "en-us" etc. are abbreviated by one byte each
abbrev enUS : Bytes := [1]
abbrev en : Bytes := [2]
abbrev enGB : Bytes := [3]
abbrev us : Bytes := [4]
abbrev gb : Bytes := [5]
abbrev urlA : Bytes := [65]
abbrev urlB : Bytes := [66]

/-- record `r1` of the paper -/
def r1 : ValsOf docSchema :=
  ( ([10] : Bytes),
    (some (([] : List Bytes), ([[20], [40], [60]] : List Bytes), ()) :
      Option (List Bytes × List Bytes × Unit)),
    ([ ( ([ (enUS, some us, ()), (en, none, ()) ] : List (Bytes × Option Bytes × Unit)), some urlA, () ),
       ( [], some urlB, () ),
       ( [ (enGB, some gb, ()) ], none, () ) ] :
      List (List (Bytes × Option Bytes × Unit) × Option Bytes × Unit)),
    () )

/-- record `r2` of the paper -/
def r2 : ValsOf docSchema :=
  ( ([20] : Bytes),
    (some (([[10], [30]] : List Bytes), ([[80]] : List Bytes), ()) :
      Option (List Bytes × List Bytes × Unit)),
    ([ ( ([] : List (Bytes × Option Bytes × Unit)), some [67], () ) ] :
      List (List (Bytes × Option Bytes × Unit) × Option Bytes × Unit)),
    () )

example : repsPs pCode = [.rpt, .rpt, .req] ∧ repsPs pCountry = [.rpt, .rpt, .opt] ∧
    repsPs pUrl = [.rpt, .opt] ∧ repsPs pDocId = [.req] ∧ repsPs pForward = [.opt, .rpt] := by decide

example : projL pCode r1 = ([[enUS, en], [], [enGB]] : List (List Bytes)) := rfl
example : projL pCountry r1 = ([[some us, none], [], [some gb]] : List (List (Option Bytes))) := rfl
example : projL pUrl r1 = ([some urlA, some urlB, none] : List (Option Bytes)) := rfl
example : projL pForward r1 = (some [[20], [40], [60]] : Option (List Bytes)) := rfl
example : projL pBackward r1 = (some [] : Option (List Bytes)) := rfl
example : projL pDocId r1 = ([10] : Bytes) := rfl

/-- figure 3 of the paper, record `r1` -/
example : colStream pDocId r1 = [⟨0, 0, some [10]⟩] := by decide
example : colStream pBackward r1 = [⟨0, 1, none⟩] := by decide
example : colStream pForward r1 = [⟨0, 2, some [20]⟩, ⟨1, 2, some [40]⟩, ⟨1, 2, some [60]⟩] := by decide
example : colStream pCode r1 =
    [⟨0, 2, some enUS⟩, ⟨2, 2, some en⟩, ⟨1, 1, none⟩, ⟨1, 2, some enGB⟩] := by decide
example : colStream pCountry r1 =
    [⟨0, 3, some us⟩, ⟨2, 2, none⟩, ⟨1, 1, none⟩, ⟨1, 3, some gb⟩] := by decide
example : colStream pUrl r1 = [⟨0, 2, some urlA⟩, ⟨1, 2, some urlB⟩, ⟨1, 1, none⟩] := by decide
/-- … and record `r2` -/
example : colStream pBackward r2 = [⟨0, 2, some [10]⟩, ⟨1, 2, some [30]⟩] := by decide
example : colStream pCode r2 = [⟨0, 1, none⟩] := by decide
example : colStream pCountry r2 = [⟨0, 1, none⟩] := by decide

/-- common ancestors: `Code`/`Country` share `Name.Language`, `Code`/`Url` share `Name`,
`Code`/`Forward` share nothing -/
example : commonL pCode pCountry = 2 ∧ commonL pCode pUrl = 1 ∧ commonL pCode pForward = 0 ∧
    commonL pBackward pForward = 1 ∧ commonL pCode pCode = 3 := by decide

/-- the shared skeleton of `Code` and `Country` at depth 2: three names with 2, 0 and 1 languages -/
example : skeleton 2 (repsPs pCode) (projL pCode r1) =
    .list [.list [.stop, .stop], .list [], .list [.stop]] := rfl
example : skeleton 2 (repsPs pCountry) (projL pCountry r1) =
    .list [.list [.stop, .stop], .list [], .list [.stop]] := rfl
/-- at depth 3 they differ (the second `Country` is absent) -/
example : skeleton 3 (repsPs pCountry) (projL pCountry r1) =
    .list [.list [.some .stop, .none], .list [], .list [.some .stop]] := rfl
example : skeleton 3 (repsPs pCode) (projL pCode r1) =
    .list [.list [.req .stop, .req .stop], .list [], .list [.req .stop]] := rfl

/-- the events at the prefix `Name.Language` (`R = 2`, `D = 2`) and `Name` (`R = 1`, `D = 1`) -/
example : events 2 2 (colStream pCode r1) = [(0, 2), (2, 2), (1, 1), (1, 2)] ∧
    events 2 2 (colStream pCountry r1) = [(0, 2), (2, 2), (1, 1), (1, 2)] := by decide
example : events 1 1 (colStream pCode r1) = [(0, 1), (1, 1), (1, 1)] ∧
    events 1 1 (colStream pCountry r1) = [(0, 1), (1, 1), (1, 1)] ∧
    events 1 1 (colStream pUrl r1) = [(0, 1), (1, 1), (1, 1)] := by decide

/-- the reader: assembling the six streams of `r1` (each followed by the streams of `r2`) gives
back `r1` -/
example : assembleRecord docSchema (fun q => colStream q r1 ++ colStream q r2) = r1 := rfl
example : assembleRecord docSchema (fun q => colStream q r2) = r2 := rfl

/-- … and the two-record file -/
example : (List.range 2).map (fun i => assembleRecord docSchema
    (recordStreams 2 i (fun q => colChunk q [r1, r2]))) = [r1, r2] := rfl

/-- without the well-formedness hypothesis injectivity fails: a repeated group without children
has no column, the two records below have the same (empty) family of projections -/
def badSchema : List FTree := [.group "g" .rpt []]
example : ¬ (∀ t ∈ badSchema, t.WF) := by decide
example : pathsL badSchema = [] := rfl
example : (([()], ()) : List Unit × Unit) ≠ (([], ()) : List Unit × Unit) := by decide

end Examples

end PQ.Records
